(* C07 - the opening handshake admits exactly the valid peers and never crashes.
   Statements only; definitions in Model/Handshake.v (model + SPECIFICATION part), proofs in Proofs/HandshakeProofs.v. *)
From Coq Require Import NArith ZArith List Bool Lia.
From Coq Require String.
Import String.StringSyntax.
From AV Require Import Gen.Latin1Tables Gen.HandshakeConsts Model.Handshake Model.HandshakeRun Proofs.HandshakeProofs.
Import ListNotations.
Open Scope N_scope.

(* ---- origin allow-list: whole-string matching, unbounded in pattern and string ---- *)
(* wild_match (the model of re.match on wildcards2patterns) accepts exactly the strings the wildcard denotes as a
   WHOLE - or such a string followed by one LF, the documented quirk of "$" *)
Theorem C07_origin_whole : forall pat s, wild_match pat s = true <-> wild_spec_nl pat s.
Proof. exact wild_match_spec. Qed.
Print Assumptions C07_origin_whole.

(* a pattern without '*' accepts only itself: no proper prefix, suffix or superstring *)
Theorem C07_origin_literal : forall pat s, ~ In 42 pat -> wild_match pat s = true -> s = pat \/ s = pat ++ [10].
Proof. exact wild_match_literal. Qed.
Print Assumptions C07_origin_literal.

(* the text before the first '*' must be a prefix of the origin, the text after the last '*' a suffix of it *)
Theorem C07_origin_anchored_left : forall p q s, ~ In 42 p -> wild_spec (p ++ q) s -> exists t, s = p ++ t /\ wild_spec q t.
Proof. exact wild_spec_prefix. Qed.
Print Assumptions C07_origin_anchored_left.
Theorem C07_origin_anchored_right : forall p q s, ~ In 42 q -> wild_spec (p ++ q) s -> exists t, s = t ++ q.
Proof. exact wild_spec_suffix. Qed.
Print Assumptions C07_origin_anchored_right.

(* the string actually matched, "scheme://host:port", never ends in LF, so the origin check is exactly the wildcard *)
Theorem C07_origin_check : forall sc h p allowed,
  is_same_origin (OTriple sc h p) allowed = true <-> exists pat, In pat allowed /\ wild_spec pat (origin_header sc h p).
Proof. exact is_same_origin_spec. Qed.
Print Assumptions C07_origin_check.

(* ---- the origin is the TRIPLE (scheme, host, port-or-absent) ---- *)
(* _url_to_origin keeps an explicit port verbatim - also the falsy 0 -, fills in the scheme's default (http 80, https 443,
   otherwise none) only when the port is ABSENT, and yields no origin when urlsplit refuses the port (non-numeric, > 65535) *)
Theorem C07_origin_triple : forall us url sc h p,
  url_to_origin us url = Some (OTriple sc h p) <->
  lower url <> NULL_S /\
  exists sc0 pr, us url = UsOk sc0 (Some h) pr /\ sc = lower sc0 /\ sc <> FILE_S /\ h <> [] /\
    ((exists q, pr = PortSome q /\ p = Some q) \/ (pr = PortNone /\ p = default_port sc)).
Proof. exact url_to_origin_triple. Qed.
Print Assumptions C07_origin_triple.

(* the string that is matched determines the triple: equal scheme and host, different port (0 vs 80, 80 vs absent-without-
   default, ...) => different string; and for ':'-free schemes and hosts the string determines all three components *)
Theorem C07_origin_port_distinguished : forall sc h p q, origin_header sc h p = origin_header sc h q -> p = q.
Proof. exact origin_header_port_inj. Qed.
Print Assumptions C07_origin_port_distinguished.

Theorem C07_origin_rendering_injective : forall sc h p sc' h' p',
  ~ In 58 sc -> ~ In 58 sc' -> ~ In 58 h -> ~ In 58 h' ->
  origin_header sc h p = origin_header sc' h' p' -> sc = sc' /\ h = h' /\ p = p'.
Proof. exact origin_header_inj. Qed.
Print Assumptions C07_origin_rendering_injective.

(* an allow-list entry without '*' that spells out (scheme', host', port') admits exactly that triple *)
Theorem C07_origin_whole_triple : forall sc h p sc' h' p',
  ~ In 58 sc -> ~ In 58 sc' -> ~ In 58 h -> ~ In 58 h' -> ~ In 42 sc' -> ~ In 42 h' ->
  (is_same_origin (OTriple sc h p) [origin_header sc' h' p'] = true <-> sc = sc' /\ h = h' /\ p = p').
Proof. exact same_origin_literal_triple. Qed.
Print Assumptions C07_origin_whole_triple.

(* ---- never an exception, for all octets, all segmentations, all oracle behaviours (incl. raising) ---- *)
Theorem C07_total_server : forall c e chunks x, s_result (s_run c e chunks) <> SEscaped x.
Proof. exact s_run_never_escapes. Qed.
Print Assumptions C07_total_server.
Theorem C07_total_client : forall c e key chunks x, c_result (c_run c e key chunks) <> CEscaped x.
Proof. exact c_run_never_escapes. Qed.
Print Assumptions C07_total_client.

(* ---- the outcome does not depend on how the octets are segmented into reads ---- *)
Theorem C07_segmentation_server : forall c e chunks, s_serve_flash c = false -> s_run c e chunks = s_run c e [concat chunks].
Proof. exact s_run_segmentation. Qed.
Print Assumptions C07_segmentation_server.
Theorem C07_segmentation_client : forall c e key chunks, c_run c e key chunks = c_run c e key [concat chunks].
Proof. exact c_run_segmentation. Qed.
Print Assumptions C07_segmentation_client.

(* ---- the server admits exactly the valid requests ---- *)
(* the validation chain of processHandshake (status line ... connection limit) passes for a header block iff the block
   satisfies the declarative predicate rfc4_ok (Model/Handshake.v, SPECIFICATION): GET + HTTP/1.1, request-target parses
   without fragment, exactly one Host (integer port, equal to externalPort if set), some Upgrade field lists "websocket",
   some Connection field lists "upgrade", exactly one Sec-WebSocket-Version denoting a configured version, no duplicate
   subprotocol, at most one Origin (header chosen by version) which must be permitted as a WHOLE, exactly one 24-character
   key = 22 base64 characters + "==", at most one Sec-WebSocket-Extensions, connection count within the limit *)
Theorem C07_server_exact_lexed : forall c e header, (exists rq key, s_validate c e header = VOk rq key) <-> rfc4_ok c e header.
Proof. exact s_validate_exact. Qed.
Print Assumptions C07_server_exact_lexed.

(* FULL STRENGTH (against the RFC 7230 line structure: lines end with CR LF, a bare LF is tolerated, nothing else ends a line):
     forall c e header, (exists rq key, s_validate c e header = VOk rq key) <-> rfc4_ok_on c e (rfc_lines header)
   is FALSE of the faithful model: str.splitlines also ends a line at VT FF FS GS RS NEL and at a bare CR, so a request whose
   only Sec-WebSocket-Key sits inside a Cookie value after 0x85 is admitted (known finding
   server.processHandshake/ACCEPTS/grammar/syntax/linebreak-in-value; the witness W_REQUEST is the replay) *)
Theorem C07_server_exact_refuted :
  exists c e header, ~ ((exists rq key, s_validate c e header = VOk rq key) <-> rfc4_ok_on c e (rfc_lines header)).
Proof. exact server_exact_rfc_refuted. Qed.
Print Assumptions C07_server_exact_refuted.

(* what does hold: exactness for every header block in which only CR LF and LF act as line ends *)
Theorem C07_server_exact_partial : forall c e header, crlf_only header ->
  ((exists rq key, s_validate c e header = VOk rq key) <-> rfc4_ok_on c e (rfc_lines header)).
Proof. exact server_exact_rfc_partial. Qed.
Print Assumptions C07_server_exact_partial.

(* on such blocks the two ways of cutting lines coincide *)
Theorem C07_lines_agree : forall s, crlf_only s -> splitlines s = rfc_lines s.
Proof. exact splitlines_rfc. Qed.
Print Assumptions C07_lines_agree.

(* the connection ends OPEN iff the header block is complete, validated, and the user callbacks admit it *)
Theorem C07_server_open : forall c e data,
  (exists resp p rest, s_process c e data = SOpen resp p rest) <->
  exists h r rq key, split_eoh data = Some (h, r) /\ s_validate c e h = VOk rq key /\ policy_admits e rq.
Proof. exact s_process_open_iff. Qed.
Print Assumptions C07_server_open.

(* ---- the 101 reply ---- *)
(* the reply is exactly the rendered lines for the key of THIS request; the subprotocol is one the client listed; an
   extension is present only as the accept callback's answer to a non-empty list of registered offers of this client *)
Theorem C07_server_reply : forall c e data resp proto rest, s_process c e data = SOpen resp proto rest ->
  exists h rq key uh xr,
    split_eoh data = Some (h, rest) /\ s_validate c e h = VOk rq key /\
    resp = utf8_encode (crlf_lines (response_lines c e key proto uh xr) ++ CRLF) /\
    (forall q, proto = Some q -> In q (rq_protocols rq)) /\
    (xr = [] \/ exists offers s, xr = [s] /\ offers <> [] /\ pmce_offers e (rq_extensions rq) = Some offers /\ pmce_accept e offers = Some s) /\
    ((on_connect e rq = CrPlain proto /\ uh = []) \/ on_connect e rq = CrTuple proto uh).
Proof. exact s_open_reply. Qed.
Print Assumptions C07_server_reply.

Theorem C07_server_reply_lines : forall c e key proto uh xr,
  hd [] (response_lines c e key proto uh xr) = L_101 /\
  In (L_ACCEPT ++ b64_encode (sha1 e (key ++ ws_magic))) (response_lines c e key proto uh xr) /\
  (forall p, proto = Some p -> In (L_PROTOCOL ++ p) (response_lines c e key proto uh xr)) /\
  (forall s, xr = [s] -> In (L_EXTENSIONS ++ s) (response_lines c e key proto uh xr)).
Proof. exact response_lines_facts. Qed.
Print Assumptions C07_server_reply_lines.

(* the key in the reply's digest is the stripped value of the one Sec-WebSocket-Key field; offers are taken from the request *)
Theorem C07_server_reply_key : forall c e h rq key, s_validate c e h = VOk rq key ->
  exists kv, vals K_KEY (fields_of h) = [kv] /\ key = strip kv.
Proof. exact s_validate_key. Qed.
Print Assumptions C07_server_reply_key.

Theorem C07_server_offers : forall e exts offers, pmce_offers e exts = Some offers ->
  incl offers exts /\ Forall (fun x => In (fst x) pmce_names /\ pmce_offer_ok e (fst x) (snd x) = true) offers.
Proof. exact pmce_offers_incl. Qed.
Print Assumptions C07_server_offers.

(* ---- the client accepts exactly the valid replies ---- *)
(* OPEN with subprotocol proto and extensions exts iff: HTTP/1.1 101, exactly one Upgrade field = websocket, a Connection
   field listing upgrade, exactly one Sec-WebSocket-Accept equal to the digest of ITS OWN key, at most one extension header
   naming at most one registered PMCE approved by its policy, at most one subprotocol header naming one it requested *)
Theorem C07_client_exact_lexed : forall c e key data proto exts rest,
  c_process c e key data = COpen proto exts rest <-> exists h, split_eoh data = Some (h, rest) /\ client_ok c e key h proto exts.
Proof. exact c_process_open_iff. Qed.
Print Assumptions C07_client_exact_lexed.

(* FULL STRENGTH against the RFC line structure is false for the same reason (known finding
   client.processHandshake/ACCEPTS/grammar/syntax/linebreak-in-value; witness W_REPLY: the digest only inside "X-Info: a<FS>...") *)
Theorem C07_client_exact_refuted :
  exists c e key data proto exts rest,
    ~ (c_process c e key data = COpen proto exts rest <->
       exists h, split_eoh data = Some (h, rest) /\ client_ok_on c e key (rfc_lines h) proto exts).
Proof. exact client_exact_rfc_refuted. Qed.
Print Assumptions C07_client_exact_refuted.

Theorem C07_client_exact_partial : forall c e key data proto exts rest,
  (forall h, split_eoh data = Some (h, rest) -> crlf_only h) ->
  (c_process c e key data = COpen proto exts rest <->
   exists h, split_eoh data = Some (h, rest) /\ client_ok_on c e key (rfc_lines h) proto exts).
Proof. exact client_exact_rfc_partial. Qed.
Print Assumptions C07_client_exact_partial.

(* ---- the request targets exactly host, port and resource of the factory's URL ---- *)
Theorem C07_request_target_syntax : forall cc key,
  hd [] (c_request_lines cc key) = R_GET ++ c_resource cc ++ R_HTTP11 /\
  In (R_HOST ++ c_host cc ++ [58] ++ dec_of_Z (c_port cc)) (c_request_lines cc key) /\
  (extra_ok (c_headers cc) ->
   vals K_HOST (map norm_field (c_request_fields cc key)) = [strip (c_host cc ++ [58] ++ dec_of_Z (c_port cc))]).
Proof. exact request_target_syntax. Qed.
Print Assumptions C07_request_target_syntax.

(* ... and a server that validates this request recovers exactly that host, that port and the parse of that resource *)
Theorem C07_request_target : forall cc sc e nonce rq key, interop_hyps cc sc e nonce ->
  s_validate sc e (c_request_text cc (client_key nonce)) = VOk rq key ->
  rq_host rq = c_host cc /\
  (exists query, urlparse_o e (c_resource cc) = UriOk (rq_path rq) query [] /\ parse_qs_o e query = Some (rq_params rq)) /\
  py_int (strip (dec_of_Z (c_port cc))) = Some (c_port cc).
Proof. exact request_target. Qed.
Print Assumptions C07_request_target.

(* the URL components themselves: websocket/util.py parse_url over the urlparse / unquote oracles. The resource that goes
   on the wire is the RAW path (or "/") followed by "?" and the RAW query - never the percent-decoded path *)
Theorem C07_parse_url : forall unquote up parts, parse_url unquote up = Some parts ->
  exists scheme host port rawpath query netloc,
    up = UpOk scheme (Some host) port rawpath query [] netloc /\ (scheme = WS_S \/ scheme = WSS_S) /\ host <> [] /\
    u_host parts = host /\ u_secure parts = str_eqb scheme WSS_S /\
    u_resource parts = (match rawpath with [] => [47] | _ => rawpath end) ++ (match query with [] => [] | _ => 63 :: query end) /\
    u_path parts = unquote (match rawpath with [] => [47] | _ => rawpath end) /\
    (1 <= u_port parts <= 65535)%Z /\
    match port with PortSome p => u_port parts = p | PortNone => u_port parts = (if str_eqb scheme WS_S then 80 else 443)%Z | PortRaises => False end.
Proof. exact parse_url_spec. Qed.
Print Assumptions C07_parse_url.

(* ---- the library's own client and server always complete the handshake with each other ---- *)
(* interop_hyps / interop_server_hyps (Proofs/HandshakeProofs.v) spell out "compatible": the client's protocol version is
   enabled on the server, its origin (when the server sees it) is permitted, the port matches externalPort, the connection
   limit is not exceeded, configured strings are printable ASCII without line breaks, extra headers do not collide with the
   handshake's own, subprotocol names are distinct tokens, the callbacks admit the request / approve the negotiated extension *)
Theorem C07_interop : forall cc sc e nonce,
  interop_hyps cc sc e nonce -> interop_server_hyps sc e ->
  (forall rq, rq_protocols rq = c_protocols cc -> rq_extensions rq = client_exts cc -> policy_admits e rq) ->
  exists resp proto exts,
    s_process sc e (c_request cc nonce) = SOpen resp proto [] /\
    c_process cc e (client_key nonce) resp = COpen proto exts [] /\
    (forall q, proto = Some q -> In q (c_protocols cc)).
Proof. exact interop. Qed.
Print Assumptions C07_interop.

(* ... under every read segmentation in both directions *)
Theorem C07_interop_segmented : forall cc sc e nonce,
  interop_hyps cc sc e nonce -> interop_server_hyps sc e -> s_serve_flash sc = false ->
  (forall rq, rq_protocols rq = c_protocols cc -> rq_extensions rq = client_exts cc -> policy_admits e rq) ->
  exists resp proto exts,
    (forall chunks, concat chunks = c_request cc nonce -> s_result (s_run sc e chunks) = SOpen resp proto []) /\
    (forall chunks, concat chunks = resp -> c_result (c_run cc e (client_key nonce) chunks) = COpen proto exts []) /\
    (forall q, proto = Some q -> In q (c_protocols cc)).
Proof. exact interop_runs. Qed.
Print Assumptions C07_interop_segmented.

(* ---- the connection limit over any history of connections on one factory ---- *)
(* countConnections always equals the number of OPEN connections and, with maxConnections > 0, never exceeds it *)
Theorem C07_limit : forall mx ops,
  let st := f_run mx ops in
  f_count st = n_open (f_conns st) /\ (0 < mx -> n_open (f_conns st) <= mx).
Proof. exact f_run_invariant. Qed.
Print Assumptions C07_limit.

(* ---- configuration: setProtocolOptions changes exactly the options a call names ---- *)
(* calls that name no handshake option (failByDrop=..., autoPing..., ...) leave every handshake verdict unchanged, wherever
   they occur in the sequence; each option ends with the value of the LAST call naming it, else keeps its default *)
Theorem C07_config_unrelated : forall c calls e chunks, Forall (fun u => u = no_update) calls ->
  s_run (configure c calls) e chunks = s_run c e chunks.
Proof. exact verdict_unrelated. Qed.
Print Assumptions C07_config_unrelated.

Theorem C07_config_interleave : forall c a b, configure c (a ++ no_update :: b) = configure c (a ++ b).
Proof. exact configure_insert_unrelated. Qed.
Print Assumptions C07_config_interleave.

Theorem C07_config_last_wins : forall c calls,
  s_versions (configure c calls) = last_named up_versions calls (s_versions c) /\
  s_web_status (configure c calls) = last_named up_web_status calls (s_web_status c) /\
  s_allowed_origins (configure c calls) = last_named up_allowed_origins calls (s_allowed_origins c) /\
  s_allow_null_origin (configure c calls) = last_named up_allow_null_origin calls (s_allow_null_origin c) /\
  s_max_connections (configure c calls) = last_named up_max_connections calls (s_max_connections c) /\
  s_serve_flash (configure c calls) = last_named up_serve_flash calls (s_serve_flash c) /\
  s_flavour (configure c calls) = s_flavour c /\ s_external_port (configure c calls) = s_external_port c /\
  s_count_connections (configure c calls) = s_count_connections c /\ s_server (configure c calls) = s_server c /\
  s_headers (configure c calls) = s_headers c.
Proof. exact configure_fields. Qed.
Print Assumptions C07_config_last_wins.

(* ---- non-vacuity ---- *)
(* RFC 6455 section 1.3 example through the model's base64 and the Gallina SHA-1 *)
Example C07_accept_rfc_sample :
  accept_of sha1_impl (lit "dGhlIHNhbXBsZSBub25jZQ==") = lit "s3pPLMBiTxaQ9kYGzzhZRbK+xOo=".
Proof. vm_compute. reflexivity. Qed.

(* prefix / suffix attacks on an exact origin and on a wildcard origin *)
Example C07_origin_attacks :
  wild_match (lit "http://good.com:80") (lit "http://good.com:80") = true /\
  wild_match (lit "http://good.com:80") (lit "http://good.com.evil.com:80") = false /\
  wild_match (lit "http://good.com:80") (lit "http://evil.com/http://good.com:80") = false /\
  wild_match (lit "http://*.good.com:80") (lit "http://a.good.com:80") = true /\
  wild_match (lit "http://*.good.com:80") (lit "http://a.good.com.evil.com:80") = false /\
  wild_match (lit "*") (lit "anything") = true.
Proof. vm_compute. repeat split; reflexivity. Qed.

(* the RFC 6455 section 1.3 request against a server that allows only http://example.com:80 and at most 5 connections:
   validated (so rfc4_ok holds by C07_server_exact), answered with the RFC's digest, subprotocol from the client's list *)
Example C07_witness_server :
  let tb := {| t_uri := [(lit "/chat", UriOk (lit "/chat") [] [])]; t_qs := [([], Some [])];
               t_split := [(lit "http://example.com", UsOk (lit "http") (Some (lit "example.com")) PortNone)];
               t_hl := []; t_offer := []; t_accept := None; t_response := [] |} in
  let e := run_env tb (PFirstOf [lit "superchat"]) in
  let c := {| s_flavour := Tx; s_versions := [8; 13]%Z; s_web_status := true; s_external_port := None;
              s_allowed_origins := [lit "http://example.com:80"]; s_allow_null_origin := false; s_max_connections := 5;
              s_count_connections := 5; s_serve_flash := false; s_server := lit "srv"; s_headers := [] |} in
  let req := lit "GET /chat HTTP/1.1" ++ CRLF ++ lit "Host: server.example.com" ++ CRLF ++ lit "Upgrade: websocket" ++ CRLF
             ++ lit "Connection: Upgrade" ++ CRLF ++ lit "Sec-WebSocket-Key: dGhlIHNhbXBsZSBub25jZQ==" ++ CRLF
             ++ lit "Origin: http://example.com" ++ CRLF ++ lit "Sec-WebSocket-Protocol: chat, superchat" ++ CRLF
             ++ lit "Sec-WebSocket-Version: 13" ++ CRLF ++ CRLF in
  (exists rq, s_validate c e req = VOk rq (lit "dGhlIHNhbXBsZSBub25jZQ==") /\ rq_protocols rq = [lit "chat"; lit "superchat"]) /\
  s_result (s_run c e [req]) =
    SOpen (lit "HTTP/1.1 101 Switching Protocols" ++ CRLF ++ lit "Server: srv" ++ CRLF ++ lit "Upgrade: WebSocket" ++ CRLF
           ++ lit "Connection: Upgrade" ++ CRLF ++ lit "Sec-WebSocket-Protocol: superchat" ++ CRLF
           ++ lit "Sec-WebSocket-Accept: s3pPLMBiTxaQ9kYGzzhZRbK+xOo=" ++ CRLF ++ CRLF) (Some (lit "superchat")) [] /\
  (* one connection more than the limit, or an origin that merely starts with the allowed one: refused *)
  s_result (s_run {| s_flavour := Tx; s_versions := [8; 13]%Z; s_web_status := true; s_external_port := None;
              s_allowed_origins := [lit "http://example.com:80"]; s_allow_null_origin := false; s_max_connections := 5;
              s_count_connections := 6; s_serve_flash := false; s_server := lit "srv"; s_headers := [] |} e [req]) = SHttpError 503 [] /\
  s_result (s_run {| s_flavour := Tx; s_versions := [8; 13]%Z; s_web_status := true; s_external_port := None;
              s_allowed_origins := [lit "http://example.co"]; s_allow_null_origin := false; s_max_connections := 5;
              s_count_connections := 5; s_serve_flash := false; s_server := lit "srv"; s_headers := [] |} e [req]) = SHttpError 400 [].
Proof. vm_compute. split; [eexists; split; reflexivity|]. repeat split; reflexivity. Qed.

(* the client with that key accepts exactly that reply and refuses the digest of any other key / an unrequested subprotocol *)
Example C07_witness_client :
  let e := run_env {| t_uri := []; t_qs := []; t_split := []; t_hl := []; t_offer := []; t_accept := None; t_response := [] |} PNone in
  let c := {| c_host := lit "server.example.com"; c_port := 80%Z; c_resource := lit "/chat"; c_useragent := []; c_origin := lit "http://example.com";
              c_protocols := [lit "chat"; lit "superchat"]; c_headers := []; c_version := 18%Z; c_offers := [] |} in
  let reply p a := lit "HTTP/1.1 101 Switching Protocols" ++ CRLF ++ lit "Upgrade: WebSocket" ++ CRLF ++ lit "Connection: Upgrade" ++ CRLF
                   ++ lit "Sec-WebSocket-Protocol: " ++ p ++ CRLF ++ lit "Sec-WebSocket-Accept: " ++ a ++ CRLF ++ CRLF in
  let key := lit "dGhlIHNhbXBsZSBub25jZQ==" in
  c_result (c_run c e key [reply (lit "superchat") (lit "s3pPLMBiTxaQ9kYGzzhZRbK+xOo=")]) = COpen (Some (lit "superchat")) [] [] /\
  c_result (c_run c e key [reply (lit "superchat") (lit "s3pPLMBiTxaQ9kYGzzhZRbK+xOp=")]) = CFailed /\
  c_result (c_run c e key [reply (lit "hyperchat") (lit "s3pPLMBiTxaQ9kYGzzhZRbK+xOo=")]) = CFailed /\
  c_request c [116;104;101;32;115;97;109;112;108;101;32;110;111;110;99;101] =
    lit "GET /chat HTTP/1.1" ++ CRLF ++ lit "Host: server.example.com:80" ++ CRLF ++ lit "Upgrade: WebSocket" ++ CRLF
    ++ lit "Connection: Upgrade" ++ CRLF ++ lit "Pragma: no-cache" ++ CRLF ++ lit "Cache-Control: no-cache" ++ CRLF
    ++ lit "Sec-WebSocket-Key: dGhlIHNhbXBsZSBub25jZQ==" ++ CRLF ++ lit "Origin: http://example.com" ++ CRLF
    ++ lit "Sec-WebSocket-Protocol: chat,superchat" ++ CRLF ++ lit "Sec-WebSocket-Version: 13" ++ CRLF ++ CRLF.
Proof. vm_compute. repeat split; reflexivity. Qed.

(* segmentation: the same octets delivered one at a time *)
Example C07_witness_segmentation :
  let e := run_env {| t_uri := [(lit "/", UriOk (lit "/") [] [])]; t_qs := [([], Some [])]; t_split := []; t_hl := []; t_offer := []; t_accept := None; t_response := [] |} PNone in
  let c := {| s_flavour := Aio; s_versions := [13]%Z; s_web_status := false; s_external_port := None; s_allowed_origins := [[42]];
              s_allow_null_origin := true; s_max_connections := 0; s_count_connections := 1; s_serve_flash := false; s_server := []; s_headers := [] |} in
  let req := lit "GET / HTTP/1.1" ++ CRLF ++ lit "Host: a" ++ CRLF ++ lit "Connection: Upgrade" ++ CRLF ++ CRLF in
  s_result (s_run c e (map (fun b => [b]) req)) = SHttpError 426 [] /\ s_result (s_run c e [req]) = SHttpError 426 [].
Proof. vm_compute. split; reflexivity. Qed.

(* the hypotheses of C07_interop are satisfiable: a draft-18 client with origin, subprotocols and user agent against a
   server restricted to that origin and to version 13 *)
Example C07_witness_interop :
  let tb := {| t_uri := [(lit "/chat?x=1", UriOk (lit "/chat") (lit "x=1") [])]; t_qs := [(lit "x=1", Some [(lit "x", [lit "1"])])];
               t_split := [(lit "http://example.com", UsOk (lit "http") (Some (lit "example.com")) PortNone)];
               t_hl := []; t_offer := []; t_accept := None; t_response := [] |} in
  let e := run_env tb (PFirstOf [lit "superchat"]) in
  let cc := {| c_host := lit "server.example.com"; c_port := 9000%Z; c_resource := lit "/chat?x=1"; c_useragent := lit "ua/1"; c_origin := lit "http://example.com";
               c_protocols := [lit "chat"; lit "superchat"]; c_headers := [(lit "X-Extra", lit "1")]; c_version := 18%Z; c_offers := [] |} in
  let sc := {| s_flavour := Tx; s_versions := [13]%Z; s_web_status := true; s_external_port := Some 9000%Z;
               s_allowed_origins := [lit "http://*.com:80"]; s_allow_null_origin := false; s_max_connections := 2;
               s_count_connections := 2; s_serve_flash := false; s_server := lit "srv"; s_headers := [(lit "X-Frame-Options", [lit "DENY"])] |} in
  let nonce := [0; 1; 2; 3; 4; 5; 6; 7; 8; 9; 10; 11; 12; 13; 14; 255] in
  interop_hyps cc sc e nonce /\ interop_server_hyps sc e /\
  (forall rq, rq_protocols rq = c_protocols cc -> rq_extensions rq = client_exts cc -> policy_admits e rq).
Proof.
  cbv zeta. split; [|split].
  - constructor; cbn [c_host c_port c_resource c_useragent c_origin c_protocols c_headers c_version c_offers s_external_port s_versions].
    + reflexivity.
    + split; [repeat constructor|split; [discriminate|apply text_okb_ok; reflexivity]].
    + eexists; eexists; split; [vm_compute; reflexivity|vm_compute; discriminate].
    + split; [repeat constructor|discriminate].
    + lia.
    + right. reflexivity.
    + apply text_okb_ok. reflexivity.
    + split.
      * constructor; [|constructor]. split; [split; [discriminate|vm_compute; intuition discriminate]|]. split; [repeat constructor|vm_compute; intuition discriminate].
      * repeat constructor; vm_compute; reflexivity.
    + split; [vm_compute; tauto|vm_compute; tauto].
    + split; [repeat constructor|]. split; [repeat constructor; discriminate|].
      constructor; [intros [H|[]]; discriminate H|constructor; [intros []|constructor]].
    + split; [apply text_okb_ok; reflexivity|]. right. right. eexists. split; [vm_compute; reflexivity|].
      cbn. exists (lit "http://*.com:80"). split; [now left|].
      apply (WLit 104), (WLit 116), (WLit 116), (WLit 112), (WLit 58), (WLit 47), (WLit 47); try discriminate.
      apply (WStar _ (lit "example") (lit ".com:80")); [repeat constructor; discriminate|].
      repeat (apply WLit; [discriminate|]). constructor.
    + constructor.
    + right. vm_compute. discriminate.
  - constructor; cbn [s_server s_headers].
    + apply text_okb_ok. reflexivity.
    + split; [constructor; [|constructor]|repeat constructor; vm_compute; reflexivity].
      split; [split; [discriminate|vm_compute; intuition discriminate]|]. split; [repeat constructor|vm_compute; intuition discriminate].
    + intros rq p uh H. cbn in H. discriminate.
    + intros offers s H. cbn in H. discriminate.
  - intros rq Hp Hx. split.
    + exists (find (fun p => mem_str p [lit "superchat"]) (rq_protocols rq)), []. split; [now left|].
      intros q Hq. apply find_some in Hq. tauto.
    + rewrite Hx. discriminate.
Qed.

(* the refutation witnesses are outside, ordinary requests inside, the domain of the partial theorems *)
Example C07_witness_partial_domain :
  ~ crlf_only W_REQUEST /\ ~ crlf_only W_REPLY /\
  crlf_only (lit "GET / HTTP/1.1" ++ CRLF ++ lit "Host: a" ++ [10] ++ lit "X: caf" ++ [233; 0; 9] ++ CRLF ++ CRLF).
Proof.
  split; [apply witnesses_not_crlf_only|]. split; [apply witnesses_not_crlf_only|].
  split; [|vm_compute; reflexivity]. repeat constructor; vm_compute; intuition discriminate.
Qed.

(* limit 1: the second and third peers are refused while the first is open; after it leaves, exactly one more is admitted *)
Example C07_witness_limit :
  f_trace 1 f_init [FOpen; FOpen; FOpen; FLose 0; FOpen; FOpen] =
    [(1, [true]); (1, [true; false]); (1, [true; false; false]); (0, [false; false; false]);
     (1, [false; false; false; true]); (1, [false; false; false; true; false])].
Proof. vm_compute. reflexivity. Qed.

(* a URL with percent-escapes in the path AND a query: the request line carries the raw text, the decoded path is only stored *)
Example C07_witness_url :
  let up := UpOk (lit "ws") (Some (lit "example.com")) (PortSome 9000%Z) (lit "/chat%20room/a%2Fb") (lit "token=x%26y&lang=en") [] (lit "example.com:9000") in
  exists p, parse_url (fun _ => lit "/chat room/a/b") up = Some p /\
    u_resource p = lit "/chat%20room/a%2Fb?token=x%26y&lang=en" /\ u_path p = lit "/chat room/a/b" /\
    hd [] (c_request_lines {| c_host := u_host p; c_port := u_port p; c_resource := u_resource p; c_useragent := []; c_origin := [];
                              c_protocols := []; c_headers := []; c_version := 18%Z; c_offers := [] |} []) =
      lit "GET /chat%20room/a%2Fb?token=x%26y&lang=en HTTP/1.1".
Proof. vm_compute. eexists. repeat split; reflexivity. Qed.

(* boundary ports against an allow-list naming the default port: absent and explicit 80 are admitted, explicit 0 / 1 / 65535
   and an unparsable port are not; ":*" admits every explicit port including 0 *)
Example C07_witness_origin_ports :
  let us p := fun _ : str => UsOk (lit "HTTP") (Some (lit "example.com")) p in
  let allowed := [lit "http://example.com:80"] in
  let verdict p := match url_to_origin (us p) (lit "x") with Some o => is_same_origin o allowed | None => false end in
  verdict PortNone = true /\ verdict (PortSome 80%Z) = true /\ verdict (PortSome 0%Z) = false /\ verdict (PortSome 1%Z) = false /\
  verdict (PortSome 443%Z) = false /\ verdict (PortSome 65535%Z) = false /\ verdict PortRaises = false /\
  url_to_origin (us (PortSome 0%Z)) (lit "x") = Some (OTriple (lit "http") (lit "example.com") (Some 0%Z)) /\
  is_same_origin (OTriple (lit "http") (lit "example.com") (Some 0%Z)) [lit "http://example.com:*"] = true /\
  is_same_origin (OTriple (lit "ws") (lit "example.com") None) [lit "ws://example.com:80"] = false.
Proof. vm_compute. repeat split; reflexivity. Qed.

(* the documented default admits "Origin: null"; an unrelated call keeps it; only a call naming allowNullOrigin=False refuses it *)
Example C07_witness_config :
  let e := run_env {| t_uri := [(lit "/", UriOk (lit "/") [] [])]; t_qs := [([], Some [])]; t_split := []; t_hl := []; t_offer := []; t_accept := None; t_response := [] |} PNone in
  let req := lit "GET / HTTP/1.1" ++ CRLF ++ lit "Host: a" ++ CRLF ++ lit "Upgrade: websocket" ++ CRLF ++ lit "Connection: Upgrade" ++ CRLF
             ++ lit "Sec-WebSocket-Key: dGhlIHNhbXBsZSBub25jZQ==" ++ CRLF ++ lit "Origin: null" ++ CRLF ++ lit "Sec-WebSocket-Version: 13" ++ CRLF ++ CRLF in
  let verdict calls := match s_result (s_run (configure (default_scfg Tx [] 1) calls) e [req]) with SOpen _ _ _ => true | _ => false end in
  verdict [] = true /\ verdict [no_update] = true /\
  verdict [{| up_versions := None; up_web_status := None; up_allowed_origins := None; up_allow_null_origin := Some false;
              up_max_connections := None; up_serve_flash := None |}; no_update] = false.
Proof. vm_compute. repeat split; reflexivity. Qed.
