(* C05 -- WebSocket connections close exactly once, in order, and in bounded time.
   Property statements only; the model is Model/WsConn.v, proofs are in Proofs/WsConnProofs*.v.
   [run c evs] = (final state, output log) of the connection model started by connectionMade under
   configuration c and driven by the ARBITRARY event list evs (reachable states = states of runs). *)
From Coq Require Import NArith List Bool.
From AV Require Import Gen.WsConnConsts Model.WsConn Proofs.WsConnProofs Proofs.WsConnProofs2 Proofs.WsConnProofs3
  Proofs.WsConnTimers Proofs.WsConnLive Proofs.WsConnResp Proofs.WsConnCodes.
Import ListNotations.
Open Scope N_scope.

(* CONNECTING < OPEN < CLOSING < CLOSED never decreases, along any run *)
Theorem C05_forward_only : forall c evs1 evs2,
  (rank (st (fst (run c evs1))) <= rank (st (fst (run c (evs1 ++ evs2)))))%nat.
Proof. intros. rewrite run_app. apply forward_only_run. Qed.
Print Assumptions C05_forward_only.

Theorem C05_forward_only_step : forall c s e, (rank (st s) <= rank (st (fst (step c s e))))%nat.
Proof. exact forward_only. Qed.
Print Assumptions C05_forward_only_step.

(* onClose: never twice; not before the transport-gone event; exactly once after it; and after it the run
   produces nothing but exceptions raised to API callers (no write, no lose/abort, no callback, no future) *)
Theorem C05_onclose_once : forall c evs,
  let s := fst (run c evs) in let log := snd (run c evs) in
  (cbcount log <= 1)%nat /\
  (gone s = false -> cbcount log = 0%nat) /\
  (gone s = true -> cbcount log = 1%nat /\ st s = CLOSED) /\
  (gone s = true -> forall evs2, exists o,
      snd (run c (evs ++ evs2)) = log ++ o /\ forallb is_raise o = true /\ gone (fst (run c (evs ++ evs2))) = true).
Proof. exact onclose_once. Qed.
Print Assumptions C05_onclose_once.

(* the transport-gone events do set [gone] (so "after the transport is gone" is not vacuous) *)
Theorem C05_gone_events : forall c s,
  (forall b, gone (fst (step c s (EPeerDrop b))) = true) /\
  (droppedByMe s = true -> gone (fst (step c s EOwnDrop)) = true).
Proof. intros. split; [intro; apply peer_drop_gone | apply own_drop_gone]. Qed.
Print Assumptions C05_gone_events.

(* at most one close frame is ever written and no frame of any kind follows it: no data frame (sendMessage), no octet of
   a streaming frame (beginMessage / sendMessageFrame / endMessage: WHdr, WPayload and the final continuation frame count
   as frames), no ping, pong or second close -- whatever send API is called in whatever state, in particular when the
   close begins in the middle of a streaming message.
   Scope: writes that go straight to the transport.  The trickle queue of sync / chopped writes (send_queue, _trigger,
   _send, _QUEUED_WRITE_DELAY) is NOT part of the model; for queued writes the same two statements are checked on the
   real code only, by the property oracle over the send-queue family of harness/props/c05.py (all short sequences with
   1..3 queued sends, sendClose variants and 10 us ticks). *)
Theorem C05_one_close_frame : forall c evs,
  let log := snd (run c evs) in
  (length (filter is_closef log) <= 1)%nat /\
  (forall l1 x l2, log = l1 ++ x :: l2 -> is_closef x = true -> forallb (fun o => negb (is_frame o)) l2 = true).
Proof. exact one_close_frame. Qed.
Print Assumptions C05_one_close_frame.

(* encode_truncate: valid UTF-8 in, valid UTF-8 of at most n octets out, a prefix of the input *)
Theorem C05_truncate_valid : forall s n,
  wf_utf8 s = true ->
  wf_utf8 (encode_truncate s n) = true /\ (length (encode_truncate s n) <= n)%nat /\ exists r, s = encode_truncate s n ++ r.
Proof. exact truncate_valid. Qed.
Print Assumptions C05_truncate_valid.

(* every close frame written: an API close carries no code or 1000 / 3000..4999; an internally generated one
   (failing the connection, replying to the peer) no code or a code that is not reserved per the generated
   CLOSE_STATUS_CODES_ALLOWED list; a reason only together with a code, well-formed UTF-8 of <= 123 octets.
   Hypothesis: the texts handed over by Python (str) are well-formed UTF-8. *)
Theorem C05_close_payload_legal : forall c evs, Forall ev_wf evs -> Forall close_legal (snd (run c evs)).
Proof. exact legal_run. Qed.
Print Assumptions C05_close_payload_legal.

(* ... and, independently of the code's own acceptance test: every code written is one that RFC 6455 7.4 / the IANA
   registry allow on the wire (1000-1003, 1007-1014, 3000-4999).  The accepted intervals of onCloseFrame (echoed by
   echoCloseCodeReason) are regenerated from its source on every run; [accepted_ranges_legal] re-checks them *)
Theorem C05_close_codes_wire_legal : forall c evs, Forall ev_wf evs -> Forall wire_legal_out (snd (run c evs)).
Proof. exact legal_run_wire. Qed.
Print Assumptions C05_close_codes_wire_legal.

Theorem C05_accepted_peer_codes_legal : forall cd, close_code_invalid cd = false -> wire_legal cd.
Proof. exact accepted_code_wire_legal. Qed.
Print Assumptions C05_accepted_peer_codes_legal.

Theorem C05_internal_codes_allowed :
  In code_protocol_error close_codes_allowed /\ In code_invalid_payload close_codes_allowed /\ In code_normal close_codes_allowed.
Proof. vm_compute. intuition. Qed.
Print Assumptions C05_internal_codes_allowed.

(* EVERY close code the library chooses by itself -- [library_close_codes] is regenerated on every run from the sources
   of the whole library (tests excluded): the code argument at every call site of _fail_connection / sendCloseFrame /
   sendClose and of every function that passes its own code parameter on to them (e.g. the WAMP transport's _bailout),
   plus their declared defaults; a call site whose code is not a constant, a parameter passed on, None or the peer's
   accepted code makes the translator fail.  All of them may legally appear on the wire, are accepted by the library's
   own onCloseFrame and are in CLOSE_STATUS_CODES_ALLOWED; the codes the model uses (protocol error, invalid payload,
   onConnect raising) are among them. *)
Theorem C05_library_close_codes_wire_legal : Forall wire_legal library_close_codes.
Proof. exact library_codes_wire_legal. Qed.
Print Assumptions C05_library_close_codes_wire_legal.

Theorem C05_library_close_codes_allowed :
  Forall (fun cd => In cd close_codes_allowed) library_close_codes /\
  Forall (fun cd => close_code_invalid cd = false) library_close_codes.
Proof. exact (conj library_codes_allowed library_codes_accepted). Qed.
Print Assumptions C05_library_close_codes_allowed.

Theorem C05_model_codes_are_library_codes :
  In code_onconnect_failed library_close_codes /\ In code_protocol_error library_close_codes /\
  In code_invalid_payload library_close_codes.
Proof. exact model_codes_in_library. Qed.
Print Assumptions C05_model_codes_are_library_codes.

(* ---- clean only if both close frames travelled; then code/reason are the peer's ----
   [lastPeerClose] is the model's ghost record of the last close frame that reached onCloseFrame
   (PC body = payload as parsed by processControlFrame, PC1 = a 1-octet payload).
   Full strength: a clean report means that this frame was well-formed and carries exactly its code and reason. *)
Definition clean_report_is_peers (c : cfg) (evs : list event) : Prop :=
  forall t code reason k, In (t, CbClose true code reason k) (snd (run c evs)) ->
    close_in (snd (run c evs)) = true /\
    exists pc, lastPeerClose (fst (run c evs)) = Some pc /\
      match pc with
      | PC body => body_valid body /\ code = body_code body /\ reason = body_reason body
      | PC1 => False          (* a 1-octet close payload is a protocol violation, not a close with "no code" *)
      end.

(* FALSE on two paths that remain after the repair d34a3b8b (both listed in known_findings.json):
   (1) key onCloseFrame/later-invalid-close-overwrites-report (corpus/C05/later-invalid-close-overwrites-report.json):
       onCloseFrame resets remoteCloseCode/Reason on entry; a second, invalid close frame arriving after the closing
       handshake is complete (wasClean = True, failByDrop = False) fails the connection without a new dispatch, so
       onClose reports wasClean = True with the fields of neither frame *)
Theorem C05_clean_iff_both_refuted_later_invalid : exists c evs, ~ clean_report_is_peers c evs.
Proof.
  exists (mkCfg Client false false 2000 1000 1000 0 0 12 true 0 false).
  exists [EHandshake; EPeerClose (Some (1000, Some [111; 107])) []; EPeerClose (Some (999, None)) []; EOwnDrop].
  intro H. destruct (H 0 None None RNone) as (_ & pc & Hl & Hm).
  - vm_compute. auto 10.
  - vm_compute in Hl. inversion Hl; subst. destruct Hm as [[Hv _] _]. vm_compute in Hv. discriminate.
Qed.
Print Assumptions C05_clean_iff_both_refuted_later_invalid.

(* (2) key onCloseFrame/1-octet-peer-close-reported-clean (corpus/C05/one-octet-close-reported-clean.json): a close
       frame with a 1-octet payload is failed with 1002 by the header check of processData, then handed to
       onCloseFrame as an empty close, which completes the handshake we have just begun: onClose(True, None, None) *)
Theorem C05_clean_iff_both_refuted_one_octet : exists c evs, ~ clean_report_is_peers c evs.
Proof.
  exists (mkCfg Server false false 2000 1000 0 0 0 12 true 0 false).
  exists [EHandshake; EPeerClose1 []; EOwnDrop].
  intro H. destruct (H 0 None None RNone) as (_ & pc & Hl & Hm).
  - vm_compute. auto 10.
  - vm_compute in Hl. inversion Hl; subst. exact Hm.
Qed.
Print Assumptions C05_clean_iff_both_refuted_one_octet.

(* What does hold, for every run: a clean report implies that a close frame was written and that one was received,
   and the reported values are [exp_code]/[exp_reason] of the last frame that reached onCloseFrame: the peer's own
   code and reason whenever that frame was well-formed (C05_clean_valid_frame_exact); nothing in place of a reserved
   code / ill-formed reason. *)
Theorem C05_clean_iff_both_partial : forall c evs t code reason k,
  In (t, CbClose true code reason k) (snd (run c evs)) ->
  close_in (snd (run c evs)) = true /\
  exists pc, lastPeerClose (fst (run c evs)) = Some pc /\ reported pc code reason.
Proof. exact clean_report. Qed.
Print Assumptions C05_clean_iff_both_partial.

Theorem C05_clean_valid_frame_exact : forall body, body_valid body ->
  exp_code body = body_code body /\ exp_reason body = body_reason body.
Proof. exact exp_valid. Qed.
Print Assumptions C05_clean_valid_frame_exact.

(* the 1-octet close payload (key onCloseFrame/1-octet-peer-close-reported-clean): failed with 1002 by the header
   check, then handed to onCloseFrame as an empty close, which completes the handshake we have just begun *)
Example C05_witness_one_octet_close_reported_clean :
  let c := mkCfg Server false false 2000 1000 0 0 0 12 true 0 false in
  snd (run c [EHandshake; EPeerClose1 []; EOwnDrop]) =
  [(0, WHttp); (0, CbOpen); (0, IsOpen); (0, WClose OFail (Some 1002) (Some [])); (0, IsClosed); (0, Abort);
   (0, CbClose true None None RNone)].
Proof. vm_compute. reflexivity. Qed.

(* ---- bounded closing ----
   Time only advances through [ETick t], which runs every reactor call due up to t (C05_tick_fair below: no call is
   ever overdue between two events, in any run -- this is the fairness the property asks for, proved of the model's
   clock rather than assumed).  With both timeouts enabled (> 0; 0 = disabled is unbounded by design, see
   C05_unbounded_when_disabled): in EVERY reachable CLOSING state that began closing at tc the virtual time is
   <= tc + closeHandshakeTimeout (+ serverConnectionDropTimeout for a client); hence at every later point of the run
   whose time exceeds that bound the connection is CLOSED.  This includes the path of the former finding F-C05-1
   (client answering the peer's close frame), repaired by ba5bad9e. *)
Theorem C05_bounded : forall c, 0 < closeHandshakeTimeout c ->
  (is_server c = false -> 0 < serverConnectionDropTimeout c) ->
  forall evs tc, st (fst (run c evs)) = CLOSING -> closingSince (fst (run c evs)) = Some tc ->
  now (fst (run c evs)) <= tc + closeHandshakeTimeout c + (if is_server c then 0 else serverConnectionDropTimeout c).
Proof. exact closing_bounded_all. Qed.
Print Assumptions C05_bounded.

Theorem C05_bounded_closed_after : forall c, 0 < closeHandshakeTimeout c ->
  (is_server c = false -> 0 < serverConnectionDropTimeout c) ->
  forall evs evs2 tc, st (fst (run c evs)) = CLOSING -> closingSince (fst (run c evs)) = Some tc ->
  tc + closeHandshakeTimeout c + (if is_server c then 0 else serverConnectionDropTimeout c) < now (fst (run c (evs ++ evs2))) ->
  st (fst (run c (evs ++ evs2))) = CLOSED.
Proof. exact closing_bounded_later. Qed.
Print Assumptions C05_bounded_closed_after.

(* the fairness of the model's clock *)
Theorem C05_tick_fair : forall c evs, Forall (fun e => now (fst (run c evs)) <= te_time e) (timers (fst (run c evs))).
Proof. exact no_overdue_run. Qed.
Print Assumptions C05_tick_fair.

(* the repaired paths: a reserved close code no longer completes the handshake it provokes ... *)
Example C05_witness_invalid_close_not_clean :
  let c := mkCfg Server false false 2000 1000 0 0 0 12 true 0 false in
  snd (run c [EHandshake; EPeerClose (Some (999, None)) []; ETick 1000; EOwnDrop]) =
  [(0, WHttp); (0, CbOpen); (0, IsOpen); (0, WClose OFail (Some 1002) (Some [])); (1000, IsClosed); (1000, Abort);
   (1000, CbClose false (Some 1006) None RCloseTO)].
Proof. vm_compute. reflexivity. Qed.

(* ... and a client that has answered the peer's close frame drops the connection itself after
   serverConnectionDropTimeout (was finding F-C05-1: stayed CLOSING for ever) *)
Example C05_witness_client_reply_bounded :
  let c := mkCfg Client false false 2000 1000 2000 0 0 12 true 0 false in
  snd (run c [EHandshake; EPeerClose (Some (1000, None)) []; ETick 1999; ETick 2000; EOwnDrop]) =
  [(0, WHttp); (0, CbOpen); (0, IsOpen); (0, WClose OReply (Some 1000) None); (2000, IsClosed); (2000, Abort);
   (2000, CbClose false (Some 1006) None RDropTO)].
Proof. vm_compute. reflexivity. Qed.

(* with the timeout disabled (0) closing is unbounded by design: nothing is armed *)
Example C05_unbounded_when_disabled :
  let c := mkCfg Server false false 2000 0 0 0 0 12 true 0 false in
  st (fst (run c [EHandshake; ESendClose (Some 1000) None; ETick 1000000])) = CLOSING.
Proof. vm_compute. reflexivity. Qed.

(* sendMessage on a closed (in fact: any not-open) connection raises Disconnected and writes nothing;
   sendPing / sendPong / sendClose (legal arguments) on a closed connection return silently *)
Theorem C05_send_after_close : forall c s, st s = CLOSED ->
  step c s ESendMessage = (s, [(now s, Raised ExDisconnected)]) /\
  step c s ESendPing = (s, []) /\ step c s ESendPong = (s, []) /\
  (forall code reason, (match code with Some cd => api_code_ok cd = true | None => reason = None end) ->
     step c s (ESendClose code reason) = (s, [])).
Proof. exact send_after_close. Qed.
Print Assumptions C05_send_after_close.

Theorem C05_send_prepared_not_open : forall c s, st s <> OPEN ->
  step c s ESendPrepared = (s, [(now s, Raised ExDisconnected)]).
Proof. exact send_prepared_not_open. Qed.
Print Assumptions C05_send_prepared_not_open.

Theorem C05_streaming_api_not_open : forall c s, st s <> OPEN ->
  step c s EBeginMessage = (s, []) /\ step c s ESendFrame = (s, []) /\ step c s EEndMessage = (s, []).
Proof. exact streaming_not_open. Qed.
Print Assumptions C05_streaming_api_not_open.

Theorem C05_send_message_not_open : forall c s, st s <> OPEN ->
  step c s ESendMessage = (s, [(now s, Raised ExDisconnected)]).
Proof. exact send_message_not_open. Qed.
Print Assumptions C05_send_message_not_open.

(* ---- non-vacuity: concrete runs ---- *)
Example C05_witness_clean_close :
  let c := mkCfg Server true false 2000 1000 0 0 0 12 true 0 false in
  snd (run c [EHandshake; EPeerClose (Some (1000, Some [111; 107])) []; EOwnDrop]) =
  [(0, WHttp); (0, CbOpen); (0, IsOpen); (0, WClose OReply (Some 1000) None); (0, IsClosed); (0, Lose);
   (0, CbClose true (Some 1000) (Some [111; 107]) RNone)].
Proof. vm_compute. reflexivity. Qed.

(* a 200-octet reason of two-octet characters is cut at 122 octets, not in the middle of a character *)
Example C05_witness_truncate :
  let r := concat (repeat [195; 169] 100) in
  length (encode_truncate r 123) = 122%nat /\ wf_utf8 (encode_truncate r 123) = true /\
  wf_utf8 (firstn 123 r) = false.
Proof. vm_compute. auto. Qed.

(* after onClose: sendMessage raises, a stray tick and peer octets change nothing *)
Example C05_witness_after_close :
  let c := mkCfg Client false false 2000 1000 1000 0 0 12 true 0 false in
  let r1 := run c [EHandshake; ESendClose (Some 1000) None; EPeerDrop false] in
  let r2 := run c [EHandshake; ESendClose (Some 1000) None; EPeerDrop false; ESendMessage; ETick 9000; EPeerData; ESendClose None None] in
  gone (fst r1) = true /\ snd r2 = snd r1 ++ [(0, Raised ExDisconnected)].
Proof. vm_compute. auto. Qed.

(* echoCloseCodeReason: 4999 is echoed, 5000 is rejected with 1002 *)
Example C05_witness_echo_boundary :
  let c := mkCfg Server false true 2000 1000 0 0 0 12 true 0 false in
  snd (run c [EHandshake; EPeerClose (Some (4999, None)) []]) =
    [(0, WHttp); (0, CbOpen); (0, IsOpen); (0, WClose OReply (Some 4999) None); (0, IsClosed); (0, Lose)] /\
  snd (run c [EHandshake; EPeerClose (Some (5000, None)) []]) =
    [(0, WHttp); (0, CbOpen); (0, IsOpen); (0, WClose OFail (Some 1002) (Some []))].
Proof. vm_compute. auto. Qed.

(* the close begins between beginMessage() and endMessage(): the message is never terminated on the wire, nothing
   follows the close frame *)
Example C05_witness_close_mid_streaming_message :
  let c := mkCfg Client false false 2000 1000 1000 0 0 12 true 0 false in
  snd (run c [EHandshake; EBeginMessage; ESendFrame; ESendClose (Some 1000) None; ESendFrame; EEndMessage; ESendMessage]) =
  [(0, WHttp); (0, CbOpen); (0, IsOpen); (0, WHdr); (0, WPayload 2); (0, WClose OApi (Some 1000) None);
   (0, Raised ExDisconnected)].
Proof. vm_compute. reflexivity. Qed.

(* the application's onConnect raises right after a valid opening handshake.  Client: the connection is failed with the
   close code found at that call site ([code_onconnect_failed], regenerated) -- a close frame with failByDrop off, a plain
   drop with failByDrop on; onOpen is never called.  Server: an HTTP error response and the drop *)
Example C05_witness_onconnect_raises :
  snd (run (mkCfg Client false false 2000 1000 1000 1000 0 12 true 0 false) [EConnectRaises [120]; ETick 1000; EOwnDrop]) =
    [(0, WHttp); (0, WClose OFail (Some code_onconnect_failed) (Some [120])); (1000, IsClosed); (1000, Abort);
     (1000, CbClose false (Some 1006) None RCloseTO)] /\
  snd (run (mkCfg Client true false 2000 1000 1000 0 0 12 true 0 false) [EConnectRaises [120]; EOwnDrop]) =
    [(0, WHttp); (0, IsClosed); (0, Abort); (0, CbClose false (Some 1006) None RIDropped)] /\
  snd (run (mkCfg Server false false 2000 1000 0 0 0 12 true 0 false) [EConnectRaises [120]; EOwnDrop]) =
    [(0, WHttp); (0, IsClosed); (0, Lose); (0, CbClose false (Some 1006) None RHandshake)].
Proof. vm_compute. auto. Qed.
