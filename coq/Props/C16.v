(* C16 -- configured payload limits are enforced early and never by truncation.
   Property statements only; proofs live in Proofs/WsRecvLimits.v (receive side) and Proofs/WsSendGuard.v (send
   side).  Models: Model/WsRecv.v, Model/WsSendGuard.v. *)
From Coq Require Import NArith List Bool.
From AV Require Import Model.Masker Gen.WsConsts Model.WsRecv Proofs.WsRecvProofs Proofs.WsRecvLimits Proofs.WsRecvOversize Proofs.WsRecvSeq Proofs.WsRecvSeqAll Proofs.WsRecvNoBuf Model.WsSendGuard Proofs.WsSendGuard.
Import ListNotations.
Open Scope N_scope.

(* ---- no delivery above the limit: with maxMessagePayloadSize configured, for EVERY stream, EVERY segmentation, both
   failure policies and every state a read can arrive in (Inv16: the bookkeeping invariant, true after the handshake
   and kept by every read), every message handed to onMessage is within the limit.  Stated for connections without
   permessage-compress: the limit counts payload octets on the wire, so for a compressed message it bounds the
   compressed size (the inflated size is the business of the decompression cap below). ---- *)
Theorem C16_no_oversize_delivery : forall D cd cf, pmc cf = false -> forall chunks (s s1 : rstate D) evs,
  Inv16 D cf s -> feed_all D cd cf s chunks = Done D s1 evs ->
  forall p b, In (EMsg p b) evs -> 0 < maxMsg cf -> lenN p <= maxMsg cf.
Proof. exact no_oversize_delivery. Qed.
Print Assumptions C16_no_oversize_delivery.
Theorem C16_no_oversize_delivery_init : forall D cf p d0, Inv16 D cf (init_state D p d0).
Proof. exact Inv16_init. Qed.
Print Assumptions C16_no_oversize_delivery_init.

(* ---- early: the 1009 failure is raised inside onFrameBegin, i.e. in the processData call that completes the frame
   header, for the message limit (running total) and for the frame limit alike; failedByMe is set, so nothing of the
   message is buffered or delivered afterwards (C02_nothing_after) ---- *)
Theorem C16_early : forall D cd cf (s : rstate D) f,
  fb_is_ctl (f_op f) = false -> failed (cn D s) = false -> st (cn D s) <> CLOSED ->
  let total := (if inside D (ms D s) then mtotal D (ms D s) else 0) + f_len f in
  (0 < maxMsg cf /\ maxMsg cf < total) \/ (0 < maxFrame cf /\ maxFrame cf < f_len f) ->
  In (EFail code_message_too_big) (snd (on_frame_begin D cd cf s f)) /\
  failed (cn D (fst (on_frame_begin D cd cf s f))) = true.
Proof. exact on_frame_begin_too_big. Qed.
Print Assumptions C16_early.

(* ... at the level of reads, through the declarative judge (C02_sequence): for EVERY configuration, from the state
   after the handshake, a stream consisting of a data frame header (complete: extended length and masking key
   present) whose declared length is over a configured limit -- followed by anything, in particular by NOTHING -- is
   read with the TooBig failure as its first judged event: no payload octet is needed *)
Theorem C16_early_header_only : forall D (cd : codec D) cf, (forall d, d_data cd d [] = (d, [])) ->
  forall p d0 b0 b1 r n r1, p <> CLOSED -> bytes_ok (b0 :: b1 :: r) ->
  rfc_header_bad cf false b0 b1 = false -> 8 <=? b0 mod 16 = false ->
  (if b1 mod 128 <=? 125 then 0 else if b1 mod 128 =? 126 then 2 else 8) + (if bit b1 7 then 4 else 0) <= lenN r ->
  rfc_length (b1 mod 128) r = LOk n r1 -> rfc_too_big cf (0 + n) n = true ->
  exists s' evs, feed D cd cf (init_state D p d0) (b0 :: b1 :: r) = Done D s' evs /\ judged evs = ([], VFail VTooBig).
Proof. exact early_too_big. Qed.
Print Assumptions C16_early_header_only.

(* ... and nothing is buffered afterwards: once failedByMe is set (C16_early: in the step that completes the offending
   header), for EVERY further stream and segmentation, both failure policies (with failByDrop=false the peer may keep
   sending the rejected frame's payload and more frames while the closing handshake runs): frame_data and
   message_data never grow again and no message is delivered -- the payload octets are dropped as they arrive *)
Theorem C16_nothing_buffered_after_failure : forall D cd cf chunks (s s1 : rstate D) evs,
  failed (cn D s) = true -> feed_all D cd cf s chunks = Done D s1 evs ->
  failed (cn D s1) = true /\
  lenN (fdata D (ms D s1)) <= lenN (fdata D (ms D s)) /\ lenN (mdata D (ms D s1)) <= lenN (mdata D (ms D s)) /\
  forall p b, ~ In (EMsg p b) evs.
Proof. exact nothing_buffered_after_failure. Qed.
Print Assumptions C16_nothing_buffered_after_failure.

(* ---- running total: each data frame header adds its declared length; a new message restarts from 0 (while the
   connection has not been failed: afterwards the message hooks are not dispatched any more, upstream 18d9c61a) ---- *)
Theorem C16_running_total : forall D cd cf (s : rstate D) f, fb_is_ctl (f_op f) = false -> failed (cn D s) = false ->
  mtotal D (ms D (fst (on_frame_begin D cd cf s f))) =
    (if inside D (ms D s) then mtotal D (ms D s) else 0) + f_len f.
Proof. exact on_frame_begin_total. Qed.
Print Assumptions C16_running_total.

(* ---- at or below the limits nothing changes: a run (any reads, any state) in which no 1009 failure occurs is
   identical -- events and final state -- to the run with no limits configured; and frames within the limits raise
   nothing ---- *)
Theorem C16_at_limit_unaffected : forall D cd cf chunks (s s1 : rstate D) evs,
  feed_all D cd cf s chunks = Done D s1 evs -> ~ In (EFail code_message_too_big) evs ->
  feed_all D cd (no_limits cf) s chunks = Done D s1 evs.
Proof. exact within_limits_unaffected. Qed.
Print Assumptions C16_at_limit_unaffected.
Theorem C16_within_limits_quiet : forall D cf c (m : mstate D) len,
  (maxMsg cf = 0 \/ mtotal D m + len <= maxMsg cf) -> (maxFrame cf = 0 \/ len <= maxFrame cf) ->
  snd (on_message_frame_begin D cf c m len) = [].
Proof. exact omfb_within. Qed.
Print Assumptions C16_within_limits_quiet.

(* ---- sendMessage: over-limit -> PayloadExceededError, nothing written; otherwise sent ---- *)
Theorem C16_send_refused : forall cf len,
  (send_guard cf OPEN len = SendRefused <-> 0 < maxMsg cf /\ maxMsg cf < len) /\
  (send_guard cf OPEN len = SendOk <-> ~ (0 < maxMsg cf /\ maxMsg cf < len)).
Proof. exact send_guard_spec. Qed.
Print Assumptions C16_send_refused.

(* ---- every message-level send API (sendMessage, sendPreparedMessage; doNotCompress either way; with or without
   permessage-deflate), whatever the connection's compressor has consumed before: the call is refused (nothing is
   written) exactly when a limit is configured and the octets that WOULD be written -- the compressed message, or the
   payload as given -- exceed it ---- *)
Theorem C16_send_refused_all_apis : forall Z z0 deflate cf o op,
  snd (send_step Z z0 deflate cf o op) = Refused <->
  0 < maxMsg cf /\ maxMsg cf < measured Z z0 deflate cf o op.
Proof. exact send_step_refused. Qed.
Print Assumptions C16_send_refused_all_apis.
(* ... never by truncation: what is written is the whole message, within a configured limit *)
Theorem C16_send_whole_or_nothing : forall Z z0 deflate cf o op r d b,
  snd (send_step Z z0 deflate cf o op) = Wrote r d b ->
  b = so_bin op /\ r = compressed cf op /\
  d = (if compressed cf op then snd (deflate (ctx Z z0 o) (so_payload op)) else so_payload op) /\
  lenN d = measured Z z0 deflate cf o op /\ (0 < maxMsg cf -> lenN d <= maxMsg cf).
Proof. exact send_step_wrote. Qed.
Print Assumptions C16_send_whole_or_nothing.
(* ... and a refusal does not damage the connection: for every compressor / inflater pair obeying the context-takeover
   laws, every sequence of operations over all APIs, the peer reads exactly the messages that were not refused, in
   order, unaltered -- in particular every legal message after a refused compressed one *)
Theorem C16_peer_reads_accepted : forall Z z0 deflate I inflate sync, deflate_laws Z z0 deflate I inflate sync ->
  forall cf ops o i o' outs, sync (ctx Z z0 o) i -> send_all Z z0 deflate cf o ops = (o', outs) ->
  peer_read I inflate i outs = accepted ops outs /\ length outs = length ops.
Proof. exact peer_reads_accepted. Qed.
Print Assumptions C16_peer_reads_accepted.
(* the laws are satisfiable by a pair with real context dependence, and the reset is what carries the theorem:
   without it (the code before upstream eac50546) the peer's inflater fails on the first message after the refusal *)
Theorem C16_send_laws_inhabited : deflate_laws N 0 toy_deflate N toy_inflate toy_sync.
Proof. exact toy_laws. Qed.
Print Assumptions C16_send_laws_inhabited.
Theorem C16_send_noreset_refuted :
  let outs := snd (send_all_noreset N 0 toy_deflate (toy_cfg 4) None toy_ops) in
  outs = [Wrote true [0; 1] true; Refused; Wrote true [2; 2] true] /\
  peer_read N toy_inflate 0 outs = [Some ([1], true); None].
Proof. exact noreset_refuted. Qed.
Print Assumptions C16_send_noreset_refuted.

(* ---- the close frame of a failure reaches the wire also when the application has synchronous / chopped writes queued
   (protocol.py sendData / _send): it is queued behind them, the connection becomes CLOSING, and the drain writes every
   queued entry and then the close frame -- the guard of the drain is the generated [sq_write] (state != CLOSED).  Once the
   connection is CLOSED (dropped) nothing queued is written. ---- *)
Theorem C16_close_frame_reaches_wire : forall w close_frame,
  fail_and_drain w close_frame = mkWq [] (wq_wire w ++ wq_q w ++ [close_frame]).
Proof. exact close_frame_reaches_wire. Qed.
Print Assumptions C16_close_frame_reaches_wire.
Theorem C16_closed_discards_queue : forall q wire, drain (length q) CLOSED (mkWq q wire) = mkWq [] wire.
Proof. exact drain_closed. Qed.
Print Assumptions C16_closed_discards_queue.

(* ---- decompression cap.  Full-strength statement [decompress_cap_statement]: for every inflater obeying the zlib
   stream laws, every stream and segmentation, the messages delivered under a cap are a prefix of the true messages
   (never truncated / altered, later ones unaffected).  It is FALSE of the faithful model of compress_deflate.py:
   decompress(data, max_message_size) returns at most max octets and the code never reads unconsumed_tail. ---- *)
Theorem C16_decompress_cap_refuted : ~ decompress_cap_statement.
Proof. exact decompress_cap_refuted. Qed.
Print Assumptions C16_decompress_cap_refuted.
(* what does hold: a chunk whose inflated size is within the cap is decompressed exactly as without a cap *)
Theorem C16_decompress_cap_partial : forall Z inflate inflate_max, zlib_laws Z inflate inflate_max ->
  forall m nct z0 z data, lenN (snd (inflate z data)) <= m ->
  d_data (pmd_codec inflate inflate_max (Some m) nct z0) z data =
  d_data (pmd_codec inflate inflate_max None nct z0) z data.
Proof. exact capped_chunk_within. Qed.
Print Assumptions C16_decompress_cap_partial.

(* ---- non-vacuity ---- *)
Definition lim_cfg : cfg := mkCfg true true false true false true 0 5 false false.   (* server, close-handshake policy, maxMessagePayloadSize = 5 *)
(* header-only delivery: the 6 header octets of a masked 6-octet binary frame, no payload octet: 1009 already *)
Example C16_example_header_only :
  match feed unit id_codec lim_cfg (init_state unit OPEN tt) [0x82; 0x86; 1; 2; 3; 4] with
  | Done _ s evs => evs = [EFail 1009; ESendClose (Some 1009) RText] /\ data unit s = []
  | OutOfFuel _ => False
  end.
Proof. vm_compute. split; reflexivity. Qed.
(* fragments 3 + 3: the second header pushes the running total to 6 > 5 *)
Example C16_example_fragments :
  match feed unit id_codec lim_cfg (init_state unit OPEN tt) ([0x02; 0x83; 0;0;0;0; 7;7;7] ++ [0x80; 0x83; 0;0;0;0]) with
  | Done _ s evs => evs = [EFail 1009; ESendClose (Some 1009) RText] /\ mtotal unit (ms unit s) = 6
  | OutOfFuel _ => False
  end.
Proof. vm_compute. split; reflexivity. Qed.
(* exactly at the limit: delivered *)
Example C16_example_at_limit :
  match feed unit id_codec lim_cfg (init_state unit OPEN tt) ([0x02; 0x83; 0;0;0;0; 7;7;7] ++ [0x80; 0x82; 0;0;0;0; 8;8]) with
  | Done _ s evs => evs = [EMsg [7;7;7;8;8] true]
  | OutOfFuel _ => False
  end.
Proof. vm_compute. reflexivity. Qed.
Example C16_example_send : send_guard lim_cfg OPEN 6 = SendRefused /\ send_guard lim_cfg OPEN 5 = SendOk.
Proof. split; reflexivity. Qed.
(* all send APIs on one connection, limit 4, toy compressor: the over-limit message is refused, the compressor starts
   afresh, the peer reads both legal messages *)
Example C16_example_send_apis :
  let ops := [mkSend (ApiMessage false) [1] true; mkSend (ApiPrepared false) [1; 2; 3; 4; 5; 6] true;
              mkSend (ApiPrepared true) [1; 2; 3; 4; 5] true; mkSend (ApiMessage false) [2] true] in
  let outs := snd (send_all N 0 toy_deflate (toy_cfg 4) None ops) in
  outs = [Wrote true [0; 1] true; Refused; Refused; Wrote true [0; 2] true] /\
  peer_read N toy_inflate 0 outs = [Some ([1], true); Some ([2], true)].
Proof. vm_compute. split; reflexivity. Qed.
Example C16_example_queue :
  fail_and_drain (mkWq [[1]; [2]] [[0]]) [136; 2; 3; 241] = mkWq [] [[0]; [1]; [2]; [136; 2; 3; 241]].
Proof. reflexivity. Qed.
