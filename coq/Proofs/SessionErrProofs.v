(* Lemmas about Model/SessionErr.v (C18). *)
From Coq Require Import List String Bool NArith Lia.
From AV Require Import Model.SessionErr.
Import ListNotations.
Open Scope string_scope.

(* ------------------------------------------------------------------ association maps *)
Section AMapFacts.
  Context {K A : Type} (keqb : K -> K -> bool).
  Hypothesis keqb_spec : forall a b, keqb a b = true <-> a = b.

  Lemma keqb_refl : forall a, keqb a a = true.
  Proof. intro a. apply keqb_spec. reflexivity. Qed.

  Lemma aget_aset_same : forall k (v : A) m, aget keqb k (aset keqb k v m) = Some v.
  Proof.
    intros k v m. induction m as [|[k' v'] r IH]; simpl.
    - rewrite keqb_refl. reflexivity.
    - destruct (keqb k k') eqn:E; simpl; rewrite E; [reflexivity | exact IH].
  Qed.

  Lemma aget_aset_other : forall k k' (v : A) m, keqb k k' = false -> aget keqb k (aset keqb k' v m) = aget keqb k m.
  Proof.
    intros k k' v m Hne. induction m as [|[k2 v2] r IH]; simpl.
    - rewrite Hne. reflexivity.
    - destruct (keqb k' k2) eqn:E; simpl.
      + apply keqb_spec in E. subst k2. rewrite Hne. reflexivity.
      + destruct (keqb k k2); [reflexivity | exact IH].
  Qed.

  Lemma adel_absent : forall k (m : list (K * A)), aget keqb k m = None -> adel keqb k m = m.
  Proof.
    intros k m. induction m as [|[k' v'] r IH]; simpl; intro H; [reflexivity|].
    destruct (keqb k k') eqn:E; [discriminate|]. rewrite (IH H). reflexivity.
  Qed.

  Lemma aget_adel_same : forall k (m : list (K * A)), aget keqb k (adel keqb k m) = None.
  Proof.
    intros k m. induction m as [|[k' v'] r IH]; simpl; [reflexivity|].
    destruct (keqb k k') eqn:E; simpl; [exact IH | rewrite E; exact IH].
  Qed.

  Lemma aget_adel_other : forall k k' (m : list (K * A)), keqb k k' = false -> aget keqb k (adel keqb k' m) = aget keqb k m.
  Proof.
    intros k k' m Hne. induction m as [|[k2 v2] r IH]; simpl; [reflexivity|].
    destruct (keqb k' k2) eqn:E; simpl.
    - apply keqb_spec in E. subst k2. rewrite Hne. exact IH.
    - destruct (keqb k k2); [reflexivity | exact IH].
  Qed.
End AMapFacts.

Lemma Neqb_spec : forall a b : N, N.eqb a b = true <-> a = b.
Proof. exact N.eqb_eq. Qed.
Lemma Seqb_spec : forall a b : string, String.eqb a b = true <-> a = b.
Proof. exact String.eqb_eq. Qed.

(* ------------------------------------------------------------------ define(): what the registries hold *)
Section DefineFacts.
  Variable pattern_ok : string -> bool.

  (* the URI list a successful define() stores for class c, if this op is one *)
  Definition op_class_uris (o : defop) (c : cls) : option (list string) :=
    match o with
    | DefDecorated c' u us => if N.eqb c c' then Some (u :: us) else None
    | DefExplicit c' u => if pattern_ok u && N.eqb c c' then Some [u] else None
    | _ => None
    end.
  (* the class a successful define() stores for URI u, if this op is one *)
  Definition op_uri_class (o : defop) (u : string) : option cls :=
    match o with
    | DefDecorated c u' _ => if String.eqb u u' then Some c else None
    | DefExplicit c u' => if pattern_ok u' && String.eqb u u' then Some c else None
    | _ => None
    end.

  Fixpoint last_some {A B} (f : A -> option B) (l : list A) (acc : option B) : option B :=
    match l with
    | [] => acc
    | x :: r => last_some f r (match f x with Some b => Some b | None => acc end)
    end.

  Lemma define_ecls : forall r o c,
    aget N.eqb c (ecls_to_uri (fst (define pattern_ok r o))) =
    match op_class_uris o c with Some l => Some l | None => aget N.eqb c (ecls_to_uri r) end.
  Proof.
    intros r o c. destruct o as [c' u us | c' | c' u | c' u]; simpl; try reflexivity.
    - destruct (N.eqb c c') eqn:E.
      + apply N.eqb_eq in E. subst c'. apply (aget_aset_same N.eqb Neqb_spec).
      + apply (aget_aset_other N.eqb Neqb_spec). exact E.
    - destruct (pattern_ok u); simpl; [|reflexivity].
      destruct (N.eqb c c') eqn:E.
      + apply N.eqb_eq in E. subst c'. apply (aget_aset_same N.eqb Neqb_spec).
      + apply (aget_aset_other N.eqb Neqb_spec). exact E.
  Qed.

  Lemma define_uri : forall r o u,
    aget String.eqb u (uri_to_ecls (fst (define pattern_ok r o))) =
    match op_uri_class o u with Some c => Some c | None => aget String.eqb u (uri_to_ecls r) end.
  Proof.
    intros r o u. destruct o as [c' u' us | c' | c' u' | c' u']; simpl; try reflexivity.
    - destruct (String.eqb u u') eqn:E.
      + apply String.eqb_eq in E. subst u'. apply (aget_aset_same String.eqb Seqb_spec).
      + apply (aget_aset_other String.eqb Seqb_spec). exact E.
    - destruct (pattern_ok u'); simpl; [|reflexivity].
      destruct (String.eqb u u') eqn:E.
      + apply String.eqb_eq in E. subst u'. apply (aget_aset_same String.eqb Seqb_spec).
      + apply (aget_aset_other String.eqb Seqb_spec). exact E.
  Qed.

  Lemma defines_ecls : forall ops r c,
    aget N.eqb c (ecls_to_uri (defines pattern_ok r ops)) =
    last_some (fun o => op_class_uris o c) ops (aget N.eqb c (ecls_to_uri r)).
  Proof.
    induction ops as [|o ops IH]; intros r c; simpl; [reflexivity|].
    unfold defines in *. simpl. rewrite IH. rewrite define_ecls. reflexivity.
  Qed.

  Lemma defines_uri : forall ops r u,
    aget String.eqb u (uri_to_ecls (defines pattern_ok r ops)) =
    last_some (fun o => op_uri_class o u) ops (aget String.eqb u (uri_to_ecls r)).
  Proof.
    induction ops as [|o ops IH]; intros r u; simpl; [reflexivity|].
    unfold defines in *. simpl. rewrite IH. rewrite define_uri. reflexivity.
  Qed.

  Lemma last_some_app : forall {A B} (f : A -> option B) l1 l2 acc,
    last_some f (l1 ++ l2) acc = last_some f l2 (last_some f l1 acc).
  Proof. intros A B f l1. induction l1 as [|x r IH]; intros; simpl; [reflexivity | apply IH]. Qed.

  Lemma last_some_none : forall {A B} (f : A -> option B) l acc,
    (forall x, In x l -> f x = None) -> last_some f l acc = acc.
  Proof.
    intros A B f l. induction l as [|x r IH]; intros acc H; simpl; [reflexivity|].
    rewrite (H x (or_introl eq_refl)). apply IH. intros y Hy. apply H. right. exact Hy.
  Qed.

  (* every list stored by define is non-empty *)
  Lemma last_some_nonempty : forall ops c acc l,
    (forall l0, acc = Some l0 -> l0 <> []) ->
    last_some (fun o => op_class_uris o c) ops acc = Some l -> l <> [].
  Proof.
    induction ops as [|o ops IH]; intros c acc l Hacc H; simpl in H.
    - apply Hacc. exact H.
    - eapply IH; [|exact H]. intros l0 E.
      destruct (op_class_uris o c) eqn:Eo.
      + inversion E; subst. destruct o; simpl in Eo; try discriminate.
        * destruct (N.eqb c c0); inversion Eo. discriminate.
        * destruct (pattern_ok u && N.eqb c c0); inversion Eo. discriminate.
      + apply Hacc. exact E.
  Qed.
End DefineFacts.

Section ErrFacts.
  Variables V MV : Type.
  Notation exn := (exn V).
  Notation errmsg := (errmsg V MV).
  Notation cexn := (cexn V MV).
  Notation kw := (kw V).
  Variable pattern_ok : string -> bool.

  (* the registry of a session after any sequence of define() calls *)
  Definition reg_after (ops : list defop) : registry := defines pattern_ok init_registry ops.

  (* an op that (successfully) registers class c *)
  Definition registers (c : cls) (o : defop) : bool :=
    match op_class_uris pattern_ok o c with Some _ => true | None => false end.

  (* ---------------- callee side: URI selection ---------------- *)
  Lemma uri_app : forall r (e : exn), x_app e = true -> err_uri r e = x_error e.
  Proof. intros r e H. unfold err_uri. rewrite H. reflexivity. Qed.

  Lemma uri_registered : forall ops1 o ops2 (e : exn) u us,
    x_app e = false ->
    op_class_uris pattern_ok o (x_cls e) = Some (u :: us) ->
    (forall o', In o' ops2 -> registers (x_cls e) o' = false) ->
    err_uri (reg_after (ops1 ++ o :: ops2)) e = u.
  Proof.
    intros ops1 o ops2 e u us Happ Ho Hlater. unfold err_uri, reg_after. rewrite Happ.
    rewrite defines_ecls. rewrite last_some_app. simpl. rewrite Ho.
    rewrite last_some_none; [reflexivity|].
    intros x Hx. specialize (Hlater x Hx). unfold registers in Hlater.
    destruct (op_class_uris pattern_ok x (x_cls e)); [discriminate | reflexivity].
  Qed.

  Lemma uri_unregistered : forall ops (e : exn),
    x_app e = false ->
    (forall o, In o ops -> registers (x_cls e) o = false) ->
    err_uri (reg_after ops) e = RUNTIME_ERROR.
  Proof.
    intros ops e Happ H. unfold err_uri, reg_after. rewrite Happ.
    rewrite defines_ecls. rewrite last_some_none; [reflexivity|].
    intros x Hx. specialize (H x Hx). unfold registers in H.
    destruct (op_class_uris pattern_ok x (x_cls e)); [discriminate | reflexivity].
  Qed.

  (* ---------------- callee side: payload ---------------- *)
  Lemma payload_no_tb : forall r rt rq (e : exn),
    let m : errmsg := message_from_exception r rt rq e None in
    m_error m = err_uri r e /\ m_args m = Some (x_args e) /\ m_kwargs m = x_kwargs e
    /\ m_rtype m = rt /\ m_request m = rq.
  Proof. intros. unfold m, message_from_exception, error_fields. simpl. repeat split; reflexivity. Qed.

  (* what traceback forwarding adds: exactly the key "traceback" (replacing an existing entry of that name) *)
  Lemma payload_tb : forall r rt rq (e : exn) t,
    let m : errmsg := message_from_exception r rt rq e (Some t) in
    m_error m = err_uri r e /\ m_args m = Some (x_args e) /\
    (forall k, k <> "traceback" -> aget String.eqb k (or_nil (m_kwargs m)) = aget String.eqb k (or_nil (x_kwargs e))) /\
    aget String.eqb "traceback" (or_nil (m_kwargs m)) = Some t.
  Proof.
    intros. unfold m, message_from_exception, error_fields. cbn [m_error m_args m_kwargs fst snd].
    split; [reflexivity|]. split; [reflexivity|].
    assert (Hnil : forall k : string, k <> "traceback" ->
              aget String.eqb k [("traceback", t)] = @None V).
    { intros k Hk. cbn [aget]. destruct (String.eqb k "traceback") eqn:E; [|reflexivity].
      apply String.eqb_eq in E. contradiction. }
    destruct (x_kwargs e) as [[|p d]|]; unfold add_traceback; cbn [truthy_kw or_nil].
    - split; [exact Hnil | apply (aget_aset_same String.eqb Seqb_spec _ _ [])].
    - split.
      + intros k Hk. apply (aget_aset_other String.eqb Seqb_spec). apply String.eqb_neq. exact Hk.
      + apply (aget_aset_same String.eqb Seqb_spec).
    - split; [exact Hnil | apply (aget_aset_same String.eqb Seqb_spec _ _ [])].
  Qed.

  (* an exception that already carries a kwarg named "traceback" has it overwritten *)
  Lemma payload_tb_overwrites : forall r rt rq (v t : V) (Hvt : v <> t),
    exists (e : exn), let m : errmsg := message_from_exception r rt rq e (Some t) in
      aget String.eqb "traceback" (or_nil (x_kwargs e)) = Some v /\
      aget String.eqb "traceback" (or_nil (m_kwargs m)) <> Some v.
  Proof.
    intros. exists (mkExn 7%N false "" [] (Some [("traceback", v)])). simpl. split; [reflexivity|].
    intro H. inversion H. apply Hvt. symmetry. assumption.
  Qed.

  (* ---------------- the wire ---------------- *)
  Lemma wire_fields : forall rt rq meta (m : errmsg),
    let m' := over_the_wire rt rq meta m in
    m_error m' = m_error m /\ m_rtype m' = rt /\ m_request m' = rq /\ m_meta m' = meta /\
    or_nil (m_args m') = or_nil (m_args m) /\ or_nil (m_kwargs m') = or_nil (m_kwargs m) /\
    truthy_args (m_args m') = truthy_args (m_args m) /\ truthy_kw (m_kwargs m') = truthy_kw (m_kwargs m).
  Proof.
    intros rt rq meta m. unfold over_the_wire, marshal_tail.
    destruct (m_kwargs m) as [[|p d]|] eqn:Ek; simpl;
      destruct (m_args m) as [[|x a]|] eqn:Ea; simpl; repeat split; reflexivity.
  Qed.

  (* ---------------- caller side ---------------- *)
  Variable construct : cls -> shape -> list V -> kw -> ctor_result V MV.
  Variable caller_hook : hook.      (* the caller application's onUserError: arbitrary *)

  Lemma guarded_none : forall h, guarded_hook h = None.
  Proof. intros [|]; reflexivity. Qed.

  Definition no_reserved (k : kw) : Prop := forall n, In n RESERVED -> aget String.eqb n k = None.

  (* none of the five attributes that _exception_from_message assigns is a read-only property of the instance *)
  Definition meta_writable (e : cexn) : bool :=
    negb (existsb (fun n => ahas String.eqb n (c_meta e) && existsb (String.eqb n) (c_readonly e)) RESERVED).

  (* the instance after the five assignments *)
  Definition with_meta (m : errmsg) (e : cexn) : cexn :=
    mkCexn (c_cls e) (c_error e) (c_args e) (c_kwargs e) (c_truthy e)
           (map (fun '(n, v) => if existsb (String.eqb n) RESERVED then (n, FromMsg (m_meta m n)) else (n, v)) (c_meta e))
           (c_readonly e).

  Lemma set_meta_spec : forall (m : errmsg) e,
    set_meta m e = if meta_writable e then Ok (with_meta m e) else Raise AttributeError.
  Proof.
    intros m e. unfold set_meta, meta_writable, with_meta.
    destruct (existsb (fun n => ahas String.eqb n (c_meta e) && existsb (String.eqb n) (c_readonly e)) RESERVED); reflexivity.
  Qed.

  (* the call expression chosen for the registered class *)
  Definition ctor_call (c : cls) (m : errmsg) : ctor_result V MV :=
    if truthy_kw (m_kwargs m)
    then (if truthy_args (m_args m) then construct c ArgsKwargs (or_nil (m_args m)) (or_nil (m_kwargs m))
          else construct c KwargsOnly [] (or_nil (m_kwargs m)))
    else (if truthy_args (m_args m) then construct c ArgsOnly (or_nil (m_args m)) [] else construct c NoArgs [] []).

  (* the generic application error carrying URI, args and kwargs *)
  Definition generic_error (m : errmsg) : cexn :=
    mkCexn CLS_ApplicationError (Some (m_error m)) (or_nil (m_args m))
           (Some (fold_left (fun d n => adel String.eqb n d) RESERVED (or_nil (m_kwargs m)))) true
           (map (fun n => (n, FromMsg (m_meta m n))) RESERVED) [].

  (* "the following ctor never fails": true since `error` is positional-only *)
  Lemma app_ctor_ok : forall (m : errmsg),
    match app_error_ctor (MV:=MV) (m_error m) (or_nil (m_args m)) (or_nil (m_kwargs m)) with
    | Ok e => set_meta m e = Ok (generic_error m)
    | Raise _ => False
    end.
  Proof. intro m. unfold app_error_ctor, set_meta, generic_error. simpl. reflexivity. Qed.

  Definition fallback (m : errmsg) : res cexn :=
    match app_error_ctor (m_error m) (or_nil (m_args m)) (or_nil (m_kwargs m)) with
    | Ok e => set_meta m e | Raise x => Raise x end.

  Lemma fallback_ok : forall m, fallback m = Ok (generic_error m).
  Proof. intro m. unfold fallback. pose proof (app_ctor_ok m) as H.
    destruct (app_error_ctor (m_error m) (or_nil (m_args m)) (or_nil (m_kwargs m))); [exact H | contradiction]. Qed.

  (* full case analysis of _exception_from_message *)
  Lemma efm_cases : forall r (m : errmsg),
    fst (exception_from_message construct caller_hook r m) =
    match aget String.eqb (m_error m) (uri_to_ecls r) with
    | Some c =>
        match ctor_call c m with
        | CtorOk i => if c_truthy i then set_meta m i else Ok (generic_error m)
        | CtorRaise => Ok (generic_error m)
        end
    | None => Ok (generic_error m)
    end.
  Proof.
    intros r m. rewrite <- (fallback_ok m). unfold fallback, exception_from_message, ctor_call.
    destruct (aget String.eqb (m_error m) (uri_to_ecls r)) as [c|]; simpl; [|reflexivity].
    destruct (truthy_kw (m_kwargs m)); destruct (truthy_args (m_args m));
      match goal with |- context [construct ?a ?b ?c ?d] => destruct (construct a b c d) as [i|] end; simpl;
      rewrite ?guarded_none; simpl; try reflexivity; destruct (c_truthy i); reflexivity.
  Qed.

  (* registered class or generic fallback *)
  Lemma class_or_fallback : forall r (m : errmsg),
    (exists c i, aget String.eqb (m_error m) (uri_to_ecls r) = Some c /\ ctor_call c m = CtorOk i
                 /\ c_truthy i = true /\
                 fst (exception_from_message construct caller_hook r m) =
                   if meta_writable i then Ok (with_meta m i) else Raise AttributeError)
    \/
    ( (forall c i, aget String.eqb (m_error m) (uri_to_ecls r) = Some c -> ctor_call c m = CtorOk i -> c_truthy i = false)
      /\ fst (exception_from_message construct caller_hook r m) = Ok (generic_error m) ).
  Proof.
    intros r m. rewrite efm_cases.
    destruct (aget String.eqb (m_error m) (uri_to_ecls r)) as [c|] eqn:Eu.
    - destruct (ctor_call c m) as [i|] eqn:Ei.
      + destruct (c_truthy i) eqn:Et.
        * left. exists c, i. repeat split; try assumption. apply set_meta_spec.
        * right. split; [|reflexivity].
          intros c' i' Hc' Hi'. inversion Hc'; subst c'. rewrite Ei in Hi'. inversion Hi'; subst i'. exact Et.
      + right. split; [|reflexivity].
        intros c' i' Hc' Hi'. inversion Hc'; subst c'. rewrite Ei in Hi'. discriminate.
    - right. split; [|reflexivity]. intros c' i' Hc'. discriminate.
  Qed.

  (* never lost: unless the registered class's instance has one of the five attributes as a read-only property *)
  Lemma never_lost : forall r (m : errmsg),
    (forall c i, aget String.eqb (m_error m) (uri_to_ecls r) = Some c -> ctor_call c m = CtorOk i -> meta_writable i = true) ->
    exists e, fst (exception_from_message construct caller_hook r m) = Ok e /\
      (e = generic_error m \/ exists c i, aget String.eqb (m_error m) (uri_to_ecls r) = Some c /\
                                          ctor_call c m = CtorOk i /\ c_truthy i = true /\ e = with_meta m i).
  Proof.
    intros r m Hw. destruct (class_or_fallback r m) as [(c & i & Hc & Hi & Ht & E) | [_ E]].
    - rewrite (Hw c i Hc Hi) in E. exists (with_meta m i). split; [exact E|]. right. exists c, i. repeat split; assumption.
    - exists (generic_error m). split; [exact E | left; reflexivity].
  Qed.

  (* the generic error carries everything when no kwarg has a reserved name *)
  Lemma fold_adel_absent : forall names (k : kw),
    (forall n, In n names -> aget String.eqb n k = None) ->
    fold_left (fun d n => adel String.eqb n d) names k = k.
  Proof.
    induction names as [|n r IH]; intros k H; simpl; [reflexivity|].
    rewrite (adel_absent String.eqb); [|apply H; left; reflexivity].
    apply IH. intros n' Hn'. apply H. right. exact Hn'.
  Qed.

  Lemma generic_error_carries : forall (m : errmsg),
    c_error (generic_error m) = Some (m_error m) /\ c_args (generic_error m) = or_nil (m_args m) /\
    (forall n, ~ In n RESERVED -> aget String.eqb n (or_nil (c_kwargs (generic_error m))) = aget String.eqb n (or_nil (m_kwargs m))) /\
    (forall n, In n RESERVED -> aget String.eqb n (or_nil (c_kwargs (generic_error m))) = None) /\
    (no_reserved (or_nil (m_kwargs m)) -> c_kwargs (generic_error m) = Some (or_nil (m_kwargs m))).
  Proof.
    intro m. unfold generic_error. simpl. split; [reflexivity|]. split; [reflexivity|].
    set (k := or_nil (m_kwargs m)).
    assert (Hne : forall a b : string, a <> b -> String.eqb a b = false) by (intros; apply String.eqb_neq; assumption).
    split; [|split].
    - intros n Hn.
      rewrite !(aget_adel_other String.eqb Seqb_spec); [reflexivity| | | | |];
        apply Hne; intro E; apply Hn; subst n; simpl; tauto.
    - intros n Hn. simpl in Hn.
      destruct Hn as [E|[E|[E|[E|[E|[]]]]]]; subst n.
      + rewrite !(aget_adel_other String.eqb Seqb_spec) by reflexivity. apply (aget_adel_same String.eqb).
      + rewrite !(aget_adel_other String.eqb Seqb_spec) by reflexivity. apply (aget_adel_same String.eqb).
      + rewrite !(aget_adel_other String.eqb Seqb_spec) by reflexivity. apply (aget_adel_same String.eqb).
      + rewrite !(aget_adel_other String.eqb Seqb_spec) by reflexivity. apply (aget_adel_same String.eqb).
      + apply (aget_adel_same String.eqb).
    - intro H. f_equal. exact (fold_adel_absent RESERVED k H).
  Qed.

  (* a reserved keyword of the remote error is dropped *)
  Lemma reserved_dropped : forall (v : V) u,
    let m : errmsg := mkErr 48%N 1%N u None (Some [("callee", v)]) no_meta in
    aget String.eqb "callee" (or_nil (m_kwargs m)) = Some v /\
    aget String.eqb "callee" (or_nil (c_kwargs (generic_error m))) = None.
  Proof. intros. split; reflexivity. Qed.

  (* ---------------- onMessage ERROR branch ---------------- *)
  Lemma find_remove : forall id l, find_req id (remove_req id l) = None.
  Proof.
    intros id l. induction l as [|q r IH]; simpl; [reflexivity|].
    destruct (N.eqb (rq_id q) id) eqn:E; simpl; [exact IH | rewrite E; exact IH].
  Qed.

  Lemma on_error_call : forall r p tbl q (m : errmsg),
    m_rtype m = 48%N ->
    aget N.eqb 48%N p = Some tbl -> find_req (m_request m) tbl = Some q -> rq_done q = false ->
    let '(p', d) := on_error construct caller_hook r p m in
    (* the request is gone *)
    (exists tbl', aget N.eqb 48%N p' = Some tbl' /\ find_req (m_request m) tbl' = None) /\
    d = match fst (exception_from_message construct caller_hook r m) with
        | Ok e => Rejected (m_request m) e
        | Raise x => Escaped (m_request m) x
        end.
  Proof.
    intros r p tbl q m Ht Hp Hf Hd. unfold on_error. rewrite Ht. simpl. rewrite Hp, Hf, Hd.
    destruct (fst (exception_from_message construct caller_hook r m)) as [e|x]; (split; [|reflexivity]);
      exists (remove_req (m_request m) tbl); (split; [apply (aget_aset_same N.eqb Neqb_spec) | apply find_remove]).
  Qed.

  (* exception_from_message only reads URI, args, kwargs (through truthiness / or-empty) and the details *)
  Lemma efm_wire : forall r rt rq meta (m : errmsg),
    exception_from_message construct caller_hook r (over_the_wire rt rq meta m) =
    exception_from_message construct caller_hook r (mkErr rt rq (m_error m) (m_args m) (m_kwargs m) meta).
  Proof.
    intros r rt rq meta m. unfold over_the_wire, marshal_tail.
    destruct (m_kwargs m) as [[|p d]|] eqn:Ek; simpl;
      destruct (m_args m) as [[|x a]|] eqn:Ea; simpl; reflexivity.
  Qed.

  (* ---------------- callee -> router -> caller ---------------- *)
  Variable note : pyexc -> V.
  Variable callee_hook : hook.      (* the callee application's onUserError: arbitrary *)

  (* an exception raised on the call-cancelling path still produces the ERROR: INTERRUPTs do not remove the record *)
  Lemma interrupted_failure_sends : forall table n r tba tbv req (e : exn) sr,
    existsb (N.eqb req) table = true ->
    snd (interrupted_failure (MV:=MV) note table n callee_hook r tba tbv req e sr)
      = Ok (invocation_error note callee_hook r tba tbv req e sr) /\
    existsb (N.eqb req) (fst (interrupted_failure (MV:=MV) note table n callee_hook r tba tbv req e sr)) = false.
  Proof.
    intros table n r tba tbv req e sr H. unfold interrupted_failure, fail_invocation.
    assert (Hi : Nat.iter n (fun t => on_interrupt t req) table = table) by (induction n; simpl; [reflexivity | exact IHn]).
    rewrite Hi, H. simpl. split; [reflexivity|].
    induction table as [|x t IH]; simpl; [reflexivity|].
    destruct (N.eqb x req) eqn:E; simpl.
    - clear IH H Hi. induction t as [|y t IH]; simpl; [reflexivity|].
      destruct (N.eqb y req) eqn:Ey; simpl; [exact IH|]. rewrite N.eqb_sym, Ey. simpl. exact IH.
    - rewrite N.eqb_sym, E. simpl.
      clear IH H Hi. induction t as [|y t IH]; simpl; [reflexivity|].
      destruct (N.eqb y req) eqn:Ey; simpl; [exact IH|]. rewrite N.eqb_sym, Ey. simpl. exact IH.
  Qed.

  (* the ERROR as the caller's session sees it *)
  Definition caller_view (callee_reg : registry) (traceback_app : bool) (tbv : option V) (e : exn)
             (call_req : N) (meta : string -> option MV) : errmsg :=
    mkErr 48%N call_req (err_uri callee_reg e) (Some (x_args e))
          (add_traceback (x_kwargs e) (if traceback_app then tbv else None)) meta.

  Lemma end_to_end_spec : forall callee_reg caller_reg tba tbv (e : exn) inv_req call_req meta p tbl q,
    aget N.eqb 48%N p = Some tbl -> find_req call_req tbl = Some q -> rq_done q = false ->
    let m := caller_view callee_reg tba tbv e call_req meta in
    let '(p', d) := end_to_end note callee_hook construct caller_hook callee_reg caller_reg tba tbv e inv_req call_req meta p in
    (exists tbl', aget N.eqb 48%N p' = Some tbl' /\ find_req call_req tbl' = None) /\
    d = match fst (exception_from_message construct caller_hook caller_reg m) with
        | Ok ce => Rejected call_req ce
        | Raise x => Escaped call_req x
        end.
  Proof.
    intros callee_reg caller_reg tba tbv e inv_req call_req meta p tbl q Hp Hf Hd m.
    unfold end_to_end, invocation_error. rewrite guarded_none.
    set (reply := message_from_exception callee_reg 68%N inv_req e (if tba then tbv else None)).
    set (w := over_the_wire 48%N call_req meta reply).
    assert (Hw : m_rtype w = 48%N /\ m_request w = call_req).
    { destruct (wire_fields 48%N call_req meta reply) as (_ & H1 & H2 & _). split; assumption. }
    destruct Hw as [Hw1 Hw2].
    pose proof (on_error_call caller_reg p tbl q w Hw1 Hp) as H. rewrite Hw2 in H. specialize (H Hf Hd).
    destruct (on_error construct caller_hook caller_reg p w) as [p' d].
    destruct H as [H1 H2]. split; [exact H1|]. rewrite H2.
    unfold w. rewrite efm_wire. reflexivity.
  Qed.
End ErrFacts.
