(* C02 header table: the model's header cascade against the RFC rules, for every configuration and all 65536 values
   of the first two octets. *)
From Coq Require Import NArith List Bool Lia.
From AV Require Import Model.Masker Gen.WsConsts Model.WsRecv.
From AV Require Export Proofs.WsRecvHeaderBase.
Import ListNotations.
Open Scope N_scope.

Lemma nonemptyv_nil l : nonemptyv l = false <-> l = [].
Proof. destruct l; cbn; split; intros; try reflexivity; discriminate. Qed.

Lemma in_bools b : In b bools. Proof. destruct b; cbn; auto. Qed.

Lemma fcell sv mo pm ins fin r1 r2 r3 op masked gt is1 : op < 16 ->
  fcell_ok sv mo pm ins fin r1 r2 r3 op masked gt is1 = true.
Proof.
  intros Hop. pose proof field_sweep as S. unfold field_table in S.
  repeat match type of S with allb ?f = true => let b := fresh "b" in pose proof (allb_spec f S) as S' ; clear S; rename S' into S end.
  specialize (S sv). cbv beta in S. apply allb_spec with (b := mo) in S. apply allb_spec with (b := pm) in S.
  apply allb_spec with (b := ins) in S. apply allb_spec with (b := fin) in S. apply allb_spec with (b := r1) in S.
  apply allb_spec with (b := r2) in S. apply allb_spec with (b := r3) in S. apply allb_spec with (b := masked) in S.
  apply allb_spec with (b := gt) in S. apply allb_spec with (b := is1) in S.
  rewrite forallb_forall in S. apply S. apply (proj2 (rangeN_in 16 op)). exact Hop.
Qed.

Lemma fcell_spec sv mo pm ins fin r1 r2 r3 op masked gt is1 :
  fcell_ok sv mo pm ins fin r1 r2 r3 op masked gt is1 = true ->
  let cf := ctx_cfg sv mo mo pm in
  let vs := hdr_body cf ins fin (bits_rsv r1 r2 r3) op masked gt is1 in
  let rv := rfc_body cf ins fin r1 r2 r3 op masked gt is1 in
  (vs = [] <-> rv = []) /\ (forall v, In v vs -> In v rv).
Proof.
  unfold fcell_ok. intros H. apply andb_true_iff in H. destruct H as [H1 H2]. cbv zeta. split.
  - apply Bool.eqb_prop in H1. rewrite <- !nonemptyv_nil, H1. reflexivity.
  - intros v Hv. rewrite forallb_forall in H2. specialize (H2 v Hv).
    apply existsb_exists in H2. destruct H2 as [w [Hw He]]. apply hviol_eqb_eq in He. now subst.
Qed.

(* the table for every configuration *)
Theorem header_table cf ins b0 b1 : b0 < 256 -> b1 < 256 ->
  (hdr_viols cf ins b0 b1 = [] <-> rfc_header_verdict cf ins b0 b1 = []) /\
  (forall v, In v (hdr_viols cf ins b0 b1) -> In v (rfc_header_verdict cf ins b0 b1)).
Proof.
  intros H0 H1.
  pose proof b0_sweep as S0. rewrite forallb_forall in S0. specialize (S0 b0 (proj2 (rangeN_in 256 b0) H0)).
  pose proof b1_sweep as S1. rewrite forallb_forall in S1. specialize (S1 b1 (proj2 (rangeN_in 256 b1) H1)).
  unfold b0_ok in S0. unfold b1_ok in S1.
  repeat (apply andb_true_iff in S0; destruct S0 as [S0 ?]). repeat (apply andb_true_iff in S1; destruct S1 as [S1 ?]).
  repeat match goal with X : Bool.eqb _ _ = true |- _ => apply Bool.eqb_prop in X end.
  repeat match goal with X : (_ =? _) = true |- _ => apply N.eqb_eq in X end.
  match goal with X : (_ <? _) = true |- _ => apply N.ltb_lt in X; rename X into Hop end.
  rewrite hdr_viols_body, rfc_verdict_body.
  repeat match goal with X : hb_fin _ = _ |- _ => rewrite X; clear X | X : hb_rsv _ = _ |- _ => rewrite X; clear X
                       | X : hb_opcode _ = _ |- _ => rewrite X; clear X | X : hb_masked _ = _ |- _ => rewrite X; clear X
                       | X : hb_len1 _ = _ |- _ => rewrite X; clear X end.
  change (pd_ctl_len_bad (b1 mod 128)) with (125 <? b1 mod 128). change (pd_len1_is1 (b1 mod 128)) with (b1 mod 128 =? 1).
  destruct cf as [sv rm am ap fb uv mf mm pm ec].
  destruct sv.
  - exact (fcell_spec true rm pm ins _ _ _ _ _ _ _ _ (fcell true rm pm ins _ _ _ _ _ _ _ _ Hop)).
  - exact (fcell_spec false am pm ins _ _ _ _ _ _ _ _ (fcell false am pm ins _ _ _ _ _ _ _ _ Hop)).
Qed.
