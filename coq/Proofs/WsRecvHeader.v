(* C02 header table: the model's header cascade against the RFC rules, for every context and all 65536 values of the
   first two octets (exhaustive vm_compute sweep in four shards, lifted), plus structural lemmas on the cascade. *)
From Coq Require Import NArith List Bool Lia.
From AV Require Import Model.Masker Gen.WsConsts Model.WsRecv.
From AV Require Export Proofs.WsRecvHeaderBase.
From AV Require Import Proofs.WsRecvHeaderS0 Proofs.WsRecvHeaderS1 Proofs.WsRecvHeaderS2 Proofs.WsRecvHeaderS3.
Import ListNotations.
Open Scope N_scope.

Lemma header_sweep :
  forallb (fun sv => forallb (fun mo => forallb (fun pm => forallb (fun ins =>
    sweep_ctx sv mo pm ins) bools) bools) bools) bools = true.
Proof.
  apply forallb_forall; intros sv _. apply forallb_forall; intros mo _.
  destruct sv, mo; [exact header_sweep_0|exact header_sweep_1|exact header_sweep_2|exact header_sweep_3].
Qed.

Lemma nonemptyv_nil l : nonemptyv l = false <-> l = [].
Proof. destruct l; cbn; split; intros; try reflexivity; discriminate. Qed.

Lemma cell_ok_spec sv mo pm ins b0 b1 :
  cell_ok sv mo pm ins b0 b1 = true ->
  let cf := ctx_cfg sv mo mo pm in
  (hdr_viols cf ins b0 b1 = [] <-> rfc_header_verdict cf ins b0 b1 = []) /\
  (forall v, In v (hdr_viols cf ins b0 b1) -> In v (rfc_header_verdict cf ins b0 b1)).
Proof.
  unfold cell_ok. intros H. apply andb_true_iff in H. destruct H as [H1 H2]. cbv zeta. split.
  - apply Bool.eqb_prop in H1. rewrite <- !nonemptyv_nil, H1. reflexivity.
  - intros v Hv. rewrite forallb_forall in H2. specialize (H2 v Hv).
    apply existsb_exists in H2. destruct H2 as [w [Hw He]]. apply hviol_eqb_eq in He. now subst.
Qed.

Lemma in_bools b : In b bools. Proof. destruct b; cbn; auto. Qed.

Lemma header_table_ctx sv mo pm ins b0 b1 : b0 < 256 -> b1 < 256 -> cell_ok sv mo pm ins b0 b1 = true.
Proof.
  intros H0 H1. pose proof header_sweep as S.
  rewrite forallb_forall in S. specialize (S sv (in_bools sv)).
  rewrite forallb_forall in S. specialize (S mo (in_bools mo)).
  rewrite forallb_forall in S. specialize (S pm (in_bools pm)).
  rewrite forallb_forall in S. specialize (S ins (in_bools ins)).
  unfold sweep_ctx in S. rewrite forallb_forall in S.
  specialize (S b0 (proj2 (rangeN_in 256 b0) H0)).
  rewrite forallb_forall in S. exact (S b1 (proj2 (rangeN_in 256 b1) H1)).
Qed.

(* the table for every configuration *)
Theorem header_table cf ins b0 b1 : b0 < 256 -> b1 < 256 ->
  (hdr_viols cf ins b0 b1 = [] <-> rfc_header_verdict cf ins b0 b1 = []) /\
  (forall v, In v (hdr_viols cf ins b0 b1) -> In v (rfc_header_verdict cf ins b0 b1)).
Proof.
  intros H0 H1.
  destruct cf as [sv rm am ap fb uv mf mm pm ec].
  destruct sv.
  - pose proof (cell_ok_spec true rm pm ins b0 b1 (header_table_ctx true rm pm ins b0 b1 H0 H1)) as H. exact H.
  - pose proof (cell_ok_spec false am pm ins b0 b1 (header_table_ctx false am pm ins b0 b1 H0 H1)) as H. exact H.
Qed.
