(* Top-level results for the 25 schemas: well-formedness facts (by computation), the round-trip, outcome,
   strictness and equivalence theorems closed over every validator, witnesses and refutations. *)
From Coq Require Import NArith ZArith List Bool String Lia.
From AV Require Import Model.WampValue Model.WampSchema Model.WampMsg
  Proofs.WampDictProofs Proofs.WampLayoutProofs Proofs.WampWfProofs Proofs.WampExtractProofs
  Proofs.WampCheckProofs Proofs.WampRoundtripProofs Proofs.WampOutcomeProofs Proofs.WampStrictProofs.
Import ListNotations.
Open Scope list_scope.

(* the only law the theorems need of the custom-attribute predicate: it does not match WELCOME's own detail
   keys ("realm", "authid", ..., "roles").  True of _CUSTOM_ATTRIBUTE = ^x_([a-z][\da-z_]+)?$ *)
Definition custom_law (custom_ok : str -> bool) : Prop :=
  forallb (fun k => negb (custom_ok k)) (all_keys Welcome) = true.

Lemma wf_all : forall custom_ok, custom_law custom_ok ->
  forall s, In s schemas -> wf_schema custom_ok s = true.
Proof.
  intros custom_ok H s Hin. unfold schemas in Hin. simpl in Hin.
  repeat (destruct Hin as [<-|Hin]; [try (vm_compute; reflexivity)|]); try contradiction.
  unfold wf_schema. unfold custom_law in H. rewrite H. vm_compute. reflexivity.
Qed.

(* ---------- C03 ---------- *)
Theorem roundtrip_all : forall uri_ok custom_ok, custom_law custom_ok ->
  forall s m, In s schemas -> valid uri_ok custom_ok s m ->
  parse uri_ok custom_ok s (marshal s m) = Ok m.
Proof. intros. apply roundtrip; auto. apply wf_all; auto. Qed.

Theorem roundtrip_norm_all : forall uri_ok custom_ok, custom_law custom_ok ->
  forall s m, In s schemas ->
  shape_ok custom_ok s m = true -> fields_ok uri_ok custom_ok s m = true ->
  parse uri_ok custom_ok s (marshal s m) = Ok (norm s m).
Proof. intros. apply parse_marshal; auto. apply wf_all; auto. Qed.

(* a constructible message that does not come back unchanged: Welcome(realm="") -> realm None *)
Definition welcome_empty_realm : msg :=
  {| m_pos := [VInt 1];
     m_opts := [VStr []; VNull; VNull; VNull; VNull; VNull; VNull; VNull; VNull];
     m_pl := null_pl;
     m_roles := [(KS (s2l "broker"), map (fun _ => VNull) (snd (nth 0 welcome_roles ("", []))))];
     m_custom := [] |}.

Theorem roundtrip_exact_refuted : forall uri_ok custom_ok, custom_law custom_ok ->
  exists s m, In s schemas /\ shape_ok custom_ok s m = true /\ fields_ok uri_ok custom_ok s m = true
              /\ parse uri_ok custom_ok s (marshal s m) <> Ok m.
Proof.
  intros uri_ok custom_ok H. exists Welcome, welcome_empty_realm.
  assert (Hin : In Welcome schemas) by (simpl; auto).
  assert (Hs : shape_ok custom_ok Welcome welcome_empty_realm = true) by (vm_compute; reflexivity).
  assert (Hf : fields_ok uri_ok custom_ok Welcome welcome_empty_realm = true) by (vm_compute; reflexivity).
  repeat split; auto.
  rewrite (roundtrip_norm_all uri_ok custom_ok H Welcome _ Hin Hs Hf).
  intros E. injection E as E. vm_compute in E. discriminate.
Qed.

(* every option that is set is marshalled: no option of any class is conditional on another attribute
   (the one exception, Welcome.authmethod under `if self.authrole`, was repaired by a9cc81d8) *)
Definition not_gated (o : ospec) : bool := match o_mc o with MGatedBy _ => false | _ => true end.

Lemma no_option_gated : forallb (fun s => forallb not_gated (s_opts s)) schemas = true.
Proof. vm_compute. reflexivity. Qed.

Theorem fields_preserved_all : forall custom_ok, custom_law custom_ok ->
  forall s m i o v, In s schemas -> shape_ok custom_ok s m = true ->
  nth_error (s_opts s) i = Some o -> nth_error (m_opts m) i = Some v ->
  own_holds o v = true ->
  dget (s2l (o_key o)) (marshal_dict s m) = Some v.
Proof.
  intros custom_ok H s m i o v Hin Hs Ho Hv Hown.
  eapply option_marshalled; eauto. apply wf_all; auto.
  pose proof no_option_gated as G. rewrite forallb_forall in G. specialize (G s Hin).
  rewrite forallb_forall in G. specialize (G o (nth_error_In _ _ Ho)).
  unfold not_gated in G. unfold holds. unfold own_holds in Hown.
  destruct (o_mc o); auto. discriminate.
Qed.

(* the documented payload-transparency triple: written exactly when a non-empty payload is present *)
Theorem payload_triple : forall custom_ok, custom_law custom_ok ->
  forall s m pc, In s schemas -> s_payload s = Some pc ->
  (truthy (p_payload (m_pl m)) = true ->
     getn "enc_algo" (marshal_dict s m) = p_enc_algo (m_pl m)
     /\ getn "enc_key" (marshal_dict s m) = p_enc_key (m_pl m)
     /\ getn "enc_serializer" (marshal_dict s m) = p_enc_ser (m_pl m))
  /\ (truthy (p_payload (m_pl m)) = false -> emit_enc (m_pl m) = []).
Proof.
  intros custom_ok H s m pc Hin Ep. split.
  - intros T. pose proof (wf_all custom_ok H s Hin) as W.
    destruct (wf_schema_inv _ _ W) as (_ & _ & _ & _ & _ & Hsp).
    unfold special_none, payload_none in Hsp. rewrite Ep in Hsp.
    eapply enc_marshal_dict; eauto.
    destruct (s_special s); [reflexivity | simpl in Hsp; discriminate | simpl in Hsp; discriminate].
  - intros T. unfold emit_enc. rewrite T. reflexivity.
Qed.

(* ---------- C08 ---------- *)
Theorem unserialize_outcomes : forall uri_ok custom_ok raw e,
  unserialize1 uri_ok custom_ok raw = Raise e ->
  is_proto e = true
  \/ exists s l, raw = VList l /\ In s schemas
       /\ ((e = AssertionError /\ ctor_ok custom_ok s (extract custom_ok s l) = false)
           \/ (e = TypeError /\ s_special s <> SpNone)).
Proof. exact unserialize1_outcomes. Qed.

Lemma unserialize_all_outcomes : forall uri_ok custom_ok raws e,
  unserialize_all uri_ok custom_ok raws = Raise e ->
  exists raw, In raw raws /\ unserialize1 uri_ok custom_ok raw = Raise e.
Proof.
  induction raws as [|r raws IH]; simpl; intros e H; [discriminate|].
  destruct (unserialize1 uri_ok custom_ok r) eqn:E1.
  - destruct (unserialize_all uri_ok custom_ok raws) eqn:E2; [discriminate|].
    injection H as <-. destruct (IH _ eq_refl) as [raw [Hin Hr]]. exists raw; auto.
  - injection H as <-. exists r; auto.
Qed.

(* EVENT with an opaque payload and enc_key but no enc_algo: every check of parse() passes, the constructor
   assertion `(enc_algo is None and enc_key is None and ...) or (payload is not None and enc_algo is not None)` fires *)
Definition event_enc_key_witness : value :=
  VList [VInt 36; VInt 1; VInt 2; VDict [(KS (s2l "enc_key"), VStr (s2l "k"))]; VBytes [120%N]].
(* UNSUBSCRIBED with request <> 0 and a subscription detail: constructor assertion *)
Definition unsubscribed_combo_witness : value :=
  VList [VInt 35; VInt 5; VDict [(KS (s2l "subscription"), VInt 7)]].
(* HELLO whose caller features contain the key "self" *)
Definition hello_self_witness : value :=
  VList [VInt 1; VNull;
         VDict [(KS (s2l "roles"),
                 VDict [(KS (s2l "caller"), VDict [(KS (s2l "features"), VDict [(KS (s2l "self"), VBool true)])])])]].

Theorem total_refuted : forall uri_ok custom_ok,
  unserialize1 uri_ok custom_ok event_enc_key_witness = Raise AssertionError
  /\ unserialize1 uri_ok custom_ok unsubscribed_combo_witness = Raise AssertionError
  /\ unserialize1 uri_ok custom_ok hello_self_witness = Raise TypeError.
Proof. intros. repeat split; vm_compute; reflexivity. Qed.

(* repaired by ea2362f8: a malformed forward_for is a ProtocolError in every class, Unregister included *)
Definition event_ff_witness : value :=
  VList [VInt 36; VInt 1; VInt 2; VDict [(KS (s2l "forward_for"), VList [VInt 1])]].
Definition unregister_ff_value : value :=
  VList [VInt 66; VInt 1; VInt 2; VDict [(KS (s2l "forward_for"), VList [VInt 1; VInt 2])]].
Theorem forward_for_repaired : forall uri_ok custom_ok,
  unserialize1 uri_ok custom_ok event_ff_witness = Raise ProtocolError
  /\ unserialize1 uri_ok custom_ok unregister_ff_value = Raise ProtocolError.
Proof. intros. split; vm_compute; reflexivity. Qed.

(* what the repaired validator guarantees of an accepted forward_for option *)
Lemma ff_loop_ok : forall l, ff_loop_broke l = false -> forallb ff_entry_passes l = true.
Proof.
  induction l as [|x l IH]; simpl; intros H; auto.
  destruct (ff_entry_passes x); [simpl; auto | discriminate].
Qed.
Theorem forward_for_entries : forall uri_ok x,
  okind_check uri_ok OFwd x = None -> exists l, x = VList l /\ forallb ff_entry_passes l = true.
Proof.
  intros uri_ok x H. simpl in H. destruct x; simpl in H; try discriminate.
  exists l. split; auto. apply ff_loop_ok. destruct (ff_loop_broke l); [discriminate|reflexivity].
Qed.

(* accepted although a session id inside the details is out of range / a forward_for entry is malformed *)
Definition event_publisher_witness : list value :=
  [VInt 36; VInt 1; VInt 2; VDict [(KS (s2l "publisher"), VInt (-5))]].
Definition cancel_ff_session_witness : list value :=
  [VInt 49; VInt 1;
   VDict [(KS (s2l "forward_for"),
           VList [VDict [(KS (s2l "session"), VInt (-1)); (KS (s2l "authid"), VNull); (KS (s2l "authrole"), VStr (s2l "r"))]])]].

Theorem strict_refuted : forall uri_ok custom_ok,
  (exists m o x, parse uri_ok custom_ok Event event_publisher_witness = Ok m
      /\ In o (s_opts Event) /\ dget (s2l (o_key o)) (find_opts (s_slots Event) (tl event_publisher_witness)) = Some x
      /\ strict_okind_ok uri_ok (o_kind o) x = false)
  /\ (exists m o x, parse uri_ok custom_ok Cancel cancel_ff_session_witness = Ok m
      /\ In o (s_opts Cancel) /\ dget (s2l (o_key o)) (find_opts (s_slots Cancel) (tl cancel_ff_session_witness)) = Some x
      /\ strict_okind_ok uri_ok (o_kind o) x = false).
Proof.
  intros. split.
  - eexists. exists (o_nn "publisher" OInt), (VInt (-5)). split; [vm_compute; reflexivity|].
    split; [simpl; auto|]. split; vm_compute; reflexivity.
  - eexists. exists o_fwd,
      (VList [VDict [(KS (s2l "session"), VInt (-1)); (KS (s2l "authid"), VNull); (KS (s2l "authrole"), VStr (s2l "r"))]]).
    split; [vm_compute; reflexivity|]. split; [simpl; auto|]. split; vm_compute; reflexivity.
Qed.

Theorem remarshal_equiv_all : forall uri_ok custom_ok, custom_law custom_ok ->
  forall s w m, In s schemas ->
  parse uri_ok custom_ok s w = Ok m ->
  (forall pc, s_payload s = Some pc -> pl_unambiguous pc (m_pl m) = true) ->
  parse uri_ok custom_ok s w = Ok (extract custom_ok s w)
  /\ extract custom_ok s (marshal s m) = norm s (extract custom_ok s w).
Proof.
  intros uri_ok custom_ok H s w m Hin Hp Hu. split.
  - destruct (parse_ok_inv uri_ok custom_ok s w m Hp) as (body & _ & _ & Hm & _). rewrite <- Hm. exact Hp.
  - eapply parse_remarshal_equiv; eauto. apply wf_all; auto.
Qed.

(* all classes but Publish are unambiguous by construction *)
Lemma only_publish_ambiguous :
  forallb (fun s => match s_payload s with
                    | Some pc => negb (pc_publish pc) || String.eqb (s_name s) "Publish"
                    | None => true end) schemas = true.
Proof. vm_compute. reflexivity. Qed.

Theorem remarshal_equiv_nonpublish : forall uri_ok custom_ok, custom_law custom_ok ->
  forall s w m, In s schemas -> s_name s <> "Publish"%string ->
  parse uri_ok custom_ok s w = Ok m ->
  extract custom_ok s (marshal s m) = norm s (extract custom_ok s w).
Proof.
  intros uri_ok custom_ok H s w m Hin Hn Hp.
  assert (Hnp : forall pc, s_payload s = Some pc -> pc_publish pc = false).
  { intros pc Ep. pose proof only_publish_ambiguous as G. rewrite forallb_forall in G. specialize (G s Hin).
    rewrite Ep in G. apply orb_true_iff in G. destruct G as [G|G].
    - apply negb_true_iff in G. exact G.
    - apply String.eqb_eq in G. contradiction. }
  pose proof (parse_shape_ok_nonpublish uri_ok custom_ok s w m Hp Hnp) as Hs.
  destruct (parse_ok_inv uri_ok custom_ok s w m Hp) as (body & _ & _ & Hm & _).
  rewrite <- Hm. apply extract_marshal; auto. apply wf_all; auto.
Qed.

(* ---------- serializer flags ---------- *)
Theorem binary_flag : forall s,
  serialize_flag s = ser_binary s
  /\ ser_binary s = negb (produces_text s)
  /\ flag_check s (Some (serialize_flag s)) = None
  /\ flag_check s (Some (negb (serialize_flag s))) = Some ProtocolError
  /\ flag_check s None = None.
Proof. destruct s; repeat split; reflexivity. Qed.

(* ---------- envelope ---------- *)
Theorem envelope_ok_inv : forall uri_ok custom_ok raw t m,
  unserialize1 uri_ok custom_ok raw = Ok (t, m) ->
  exists l s, raw = VList (VInt t :: l) /\ find_schema schemas t = Some s /\ In s schemas /\ s_type s = t
              /\ parse uri_ok custom_ok s (VInt t :: l) = Ok m.
Proof.
  intros uri_ok custom_ok raw t m H. unfold unserialize1 in H.
  destruct raw; try discriminate. destruct l as [|h l]; [discriminate|]. destruct h; try discriminate.
  destruct (find_schema schemas z) as [s|] eqn:Ef; [|discriminate].
  destruct (parse uri_ok custom_ok s (VInt z :: l)) eqn:Ep; [|discriminate].
  injection H as <- <-. destruct (find_schema_spec _ _ _ Ef) as [Hin Ht].
  exists l, s. auto.
Qed.

Theorem unserialize_model_outcomes : forall uri_ok custom_ok s isBinary decoded e,
  unserialize_model uri_ok custom_ok s isBinary decoded = Raise e ->
  is_proto e = true
  \/ exists raws raw, decoded = Some raws /\ In raw raws /\ unserialize1 uri_ok custom_ok raw = Raise e.
Proof.
  intros uri_ok custom_ok s isBinary decoded e H. unfold unserialize_model in H.
  destruct (flag_check s isBinary) as [e'|] eqn:Ef.
  - injection H as <-. left. unfold flag_check in Ef. destruct isBinary; [|discriminate].
    destruct (Bool.eqb b (ser_binary s)); simpl in Ef; [discriminate|]. injection Ef as <-. reflexivity.
  - destruct decoded as [raws|]; [|injection H as <-; auto].
    destruct (unserialize_all_outcomes _ _ _ _ H) as [raw [Hin Hr]]. right. exists raws, raw. auto.
Qed.

(* ---------- call histories ---------- *)
Theorem unserialize_stateless : forall uri_ok custom_ok decode pre c post,
  nth_error (run_history uri_ok custom_ok decode (pre ++ c :: post)) (List.length pre)
  = Some (unserialize_octets uri_ok custom_ok decode (fst (fst c)) (snd (fst c)) (snd c)).
Proof.
  intros. unfold run_history. rewrite map_app. rewrite nth_error_app2; rewrite map_length; [|lia].
  rewrite Nat.sub_diag. reflexivity.
Qed.

Lemma find_schema_self : forall s, In s schemas -> find_schema schemas (s_type s) = Some s.
Proof.
  intros s Hin. unfold schemas in Hin. simpl in Hin.
  repeat (destruct Hin as [<-|Hin]; [vm_compute; reflexivity|]). contradiction.
Qed.

Lemma unserialize1_marshal : forall uri_ok custom_ok, custom_law custom_ok ->
  forall s m, In s schemas -> valid uri_ok custom_ok s m ->
  unserialize1 uri_ok custom_ok (VList (marshal s m)) = Ok (s_type s, m).
Proof.
  intros uri_ok custom_ok H s m Hin Hv.
  pose proof (roundtrip_all uri_ok custom_ok H s m Hin Hv) as R.
  unfold unserialize1. remember (marshal s m) as w eqn:Ew.
  assert (Hw : w = VInt (s_type s) :: tl w) by (subst w; reflexivity).
  rewrite Hw. rewrite (find_schema_self s Hin). rewrite <- Hw. rewrite R. reflexivity.
Qed.

(* a valid message whose octets decode to its marshalled list comes back as itself at ANY position of ANY history *)
Theorem roundtrip_any_history : forall uri_ok custom_ok decode, custom_law custom_ok ->
  forall sr s m p pre post, In s schemas -> valid uri_ok custom_ok s m ->
  decode sr p = Some [VList (marshal s m)] ->
  nth_error (run_history uri_ok custom_ok decode (pre ++ (sr, Some (ser_binary sr), p) :: post)) (List.length pre)
  = Some (Ok [(s_type s, m)]).
Proof.
  intros uri_ok custom_ok decode H sr s m p pre post Hin Hv Hd.
  rewrite unserialize_stateless. f_equal. cbn [fst snd]. unfold unserialize_octets, unserialize_model, flag_check.
  rewrite Bool.eqb_reflx. cbn [require]. rewrite Hd. cbn [unserialize_all].
  rewrite (unserialize1_marshal uri_ok custom_ok H s m Hin Hv). reflexivity.
Qed.

(* ---------- HELLO / WELCOME roles: accepted feature flags are bool or None ---------- *)
Theorem check_roles_none_inv : forall uri_ok cfg od, check_roles uri_ok cfg od = None ->
  exists rd, dget (s2l "roles") od = Some (VDict rd) /\ rd <> []
             /\ forall kv, In kv rd -> check_role uri_ok cfg kv = None.
Proof.
  intros uri_ok cfg od H. unfold check_roles in H.
  destruct (dget (s2l "roles") od) as [r|]; [|discriminate].
  apply andthen_none_inv in H. destruct H as [H1 H].
  destruct r; simpl in H1; try discriminate.
  apply andthen_none_inv in H. destruct H as [H2 H3]. apply require_none in H2.
  exists d. split; [reflexivity|]. split; [destruct d; [discriminate|discriminate]|].
  intros kv Hin. eapply chk_all_none_inv; eauto.
Qed.

Theorem role_features_strict : forall uri_ok cfg kv name feats d fd f x,
  check_role uri_ok cfg kv = None -> fst kv = KS name -> find_role cfg name = Some feats ->
  snd kv = VDict d -> dget (s2l "features") d = Some (VDict fd) ->
  In f feats -> dget (s2l f) fd = Some x ->
  x = VNull \/ exists b, x = VBool b.
Proof.
  intros uri_ok cfg [k v] name feats d fd f x H Hk Hf Hv Hd Hin Hx. simpl in Hk, Hv. subst k v.
  unfold check_role in H. cbn [fst snd] in H. rewrite Hf in H.
  apply andthen_none_inv in H. destruct H as [_ H]. rewrite Hd in H.
  apply andthen_none_inv in H. destruct H as [_ H].
  apply andthen_none_inv in H. destruct H as [_ H].
  assert (Ho : In (feature_spec f) (role_specs feats)) by (unfold role_specs; apply in_map; exact Hin).
  pose proof (check_opts_none_in uri_ok _ _ H (feature_spec f) x Ho Hx) as K. simpl in K.
  apply require_none in K. destruct x; simpl in K; try discriminate; eauto.
Qed.

(* ---------- repeated sub-structures are handled entry by entry (no state across loop iterations) ---------- *)
(* parse: the i-th role of the object is computed from the i-th entry of details["roles"] alone *)
Theorem extract_roles_pointwise : forall cfg od rd i,
  dget (s2l "roles") od = Some (VDict rd) ->
  nth_error (extract_roles cfg od) i = option_map (extract_role cfg) (nth_error rd i).
Proof. intros cfg od rd i H. unfold extract_roles. rewrite H. apply nth_error_map. Qed.

(* marshal: the i-th entry written under "roles" is computed from the i-th role of the object alone *)
Theorem marshal_roles_pointwise : forall cfg rs i,
  match marshal_roles cfg rs with
  | VDict rd => nth_error rd i = option_map (marshal_role cfg) (nth_error rs i)
  | _ => False
  end.
Proof. intros. unfold marshal_roles. cbv iota beta. apply nth_error_map. Qed.

(* every feature flag that is set on a role is written under that role's own "features", with its value *)
Theorem role_feature_marshalled : forall cfg name feats vals i f v,
  cfg_wf cfg = true -> find_role cfg name = Some feats ->
  List.length vals = List.length feats ->
  nth_error feats i = Some f -> nth_error vals i = Some v -> is_null v = false ->
  exists e, snd (marshal_role cfg (KS name, vals)) = VDict [(KS (s2l "features"), VDict e)]
            /\ dget (s2l f) e = Some v.
Proof.
  intros cfg name feats vals i f v Hcfg Hf Hlen Hi Hv Hn.
  unfold marshal_role. cbn [fst snd]. rewrite Hf.
  assert (Hnd : NoDup (okeys (role_specs feats))).
  { rewrite okeys_role_specs. apply nodupb_NoDup. exact (cfg_wf_nodup (fun _ => true) cfg Hcfg name feats Hf). }
  assert (Hs : nth_error (role_specs feats) i = Some (feature_spec f)).
  { unfold role_specs. rewrite nth_error_map, Hi. reflexivity. }
  assert (Hh : holds vals (feature_spec f) v = true) by (unfold holds; simpl; rewrite Hn; reflexivity).
  pose proof (dget_emit_nth vals (role_specs feats) vals [] [] i (feature_spec f) v Hnd (fun _ _ => eq_refl) Hs Hv Hh) as D.
  simpl in D. rewrite app_nil_r in D. fold (emit (role_specs feats) vals) in D.
  destruct (emit (role_specs feats) vals) as [|x e] eqn:Ee.
  - simpl in D. discriminate.
  - simpl is_nil. cbv iota. exists (x :: e). split; [reflexivity | exact D].
Qed.

(* ... and a role comes back with exactly its own feature values, whatever the other roles carry *)
Theorem role_roundtrip : forall cfg r, cfg_wf cfg = true -> role_shape_ok cfg r = true ->
  extract_role cfg (marshal_role cfg r) = r.
Proof. intros. apply extract_role_marshal_role; auto. apply (cfg_wf_nodup (fun _ => true)); auto. Qed.

Lemma roles_cfg_wf : cfg_wf hello_roles = true /\ cfg_wf welcome_roles = true.
Proof. split; vm_compute; reflexivity. Qed.
