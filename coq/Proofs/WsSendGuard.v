(* C16, send side: every message-level send API refuses exactly the over-limit messages, a refused message writes
   nothing, what is written is never a truncation, and the peer reads exactly the messages that were not refused --
   also the compressed ones after a refusal (the compressor is reset, so it never refers back to octets the peer has
   not seen). *)
From Coq Require Import NArith List Bool Lia.
From AV Require Import Model.Masker Gen.WsConsts Model.WsRecv Model.WsSendGuard.
Import ListNotations.
Open Scope N_scope.

Lemma sm_limit_spec max len : sm_limit max len = true <-> 0 < max /\ max < len.
Proof. unfold sm_limit. rewrite andb_true_iff, !N.ltb_lt. reflexivity. Qed.
Lemma spm_limit_spec max len : spm_limit max len = true <-> 0 < max /\ max < len.
Proof. unfold spm_limit. rewrite andb_true_iff, !N.ltb_lt. reflexivity. Qed.
Lemma spm_is_sm max len : spm_limit max len = sm_limit max len.
Proof. reflexivity. Qed.

Section WithCompressor.
Variable Z : Type.
Variable z0 : Z.
Variable deflate : Z -> list N -> Z * list N.
Notation send_step := (send_step Z z0 deflate).
Notation send_all := (send_all Z z0 deflate).
Notation measured := (measured Z z0 deflate).
Notation ctx := (ctx Z z0).

(* one operation, all APIs: the result in closed form *)
Lemma send_step_closed cf o op :
  send_step cf o op =
    if compressed cf op then
      if sm_limit (maxMsg cf) (measured cf o op) then (None, Refused)
      else (Some (fst (deflate (ctx o) (so_payload op))), Wrote true (snd (deflate (ctx o) (so_payload op))) (so_bin op))
    else
      if sm_limit (maxMsg cf) (measured cf o op) then (o, Refused) else (o, Wrote false (so_payload op) (so_bin op)).
Proof.
  unfold send_step, measured, compressed. destruct op as [[d | d] p b]; cbn [so_api so_payload so_bin].
  - unfold send_message. destruct (pmc cf && negb d); [|reflexivity].
    destruct (deflate (ctx o) p) as [z' c]; reflexivity.
  - unfold send_prepared, send_message. destruct (pmc cf), d; cbn [negb orb andb]; try rewrite spm_is_sm; try reflexivity.
    destruct (deflate (ctx o) p) as [z' c]; reflexivity.
Qed.

(* refused <-> over the limit, for every API *)
Lemma send_step_refused cf o op :
  snd (send_step cf o op) = Refused <-> 0 < maxMsg cf /\ maxMsg cf < measured cf o op.
Proof.
  rewrite send_step_closed, <- sm_limit_spec.
  destruct (compressed cf op), (sm_limit (maxMsg cf) (measured cf o op)); cbn; split; intros H; try reflexivity; discriminate.
Qed.

(* what is written is the whole message (compressed as a whole or as given), and within a configured limit *)
Lemma send_step_wrote cf o op r d b :
  snd (send_step cf o op) = Wrote r d b ->
  b = so_bin op /\ r = compressed cf op /\
  d = (if compressed cf op then snd (deflate (ctx o) (so_payload op)) else so_payload op) /\
  lenN d = measured cf o op /\ (0 < maxMsg cf -> lenN d <= maxMsg cf).
Proof.
  rewrite send_step_closed. unfold measured.
  destruct (compressed cf op) eqn:Hc;
    match goal with |- context [sm_limit ?a ?b] => destruct (sm_limit a b) eqn:Hl end; cbn; intros H; try discriminate;
    injection H as <- <- <-; repeat split; intros Hm;
    destruct (N.le_gt_cases (lenN (if true then snd (deflate (ctx o) (so_payload op)) else so_payload op)) (maxMsg cf)) as [Hle | Hgt];
    cbn in *; try assumption;
    try (exfalso; assert (Ht : sm_limit (maxMsg cf) (lenN (snd (deflate (ctx o) (so_payload op)))) = true)
           by (apply sm_limit_spec; split; assumption); congruence).
  all: destruct (N.le_gt_cases (lenN (so_payload op)) (maxMsg cf)) as [Hle' | Hgt']; try assumption;
       exfalso; assert (Ht : sm_limit (maxMsg cf) (lenN (so_payload op)) = true) by (apply sm_limit_spec; split; assumption);
       congruence.
Qed.

(* a refusal leaves the connection's compressor fresh (compressed path) or untouched (uncompressed path) *)
Lemma send_step_refused_ctx cf o op :
  snd (send_step cf o op) = Refused ->
  fst (send_step cf o op) = (if compressed cf op then None else o).
Proof.
  rewrite send_step_closed.
  destruct (compressed cf op), (sm_limit (maxMsg cf) (measured cf o op)); cbn; intros H; try reflexivity; discriminate.
Qed.

Variable I : Type.
Variable inflate : I -> list N -> I * option (list N).
Notation peer_read := (peer_read I inflate).

(* the peer reads exactly the accepted messages, in order, whatever was refused in between *)
Lemma peer_reads_accepted sync : deflate_laws Z z0 deflate I inflate sync ->
  forall cf ops o i o' outs, sync (ctx o) i -> send_all cf o ops = (o', outs) ->
  peer_read i outs = accepted ops outs /\ length outs = length ops.
Proof.
  intros [Hstep Hfresh] cf. induction ops as [|op ops IH]; intros o i o' outs Hs H.
  - cbn in H. injection H as <- <-. split; reflexivity.
  - cbn [WsSendGuard.send_all] in H. rewrite send_step_closed in H.
    destruct (compressed cf op).
    + destruct (sm_limit (maxMsg cf) (measured cf o op)).
      * destruct (send_all cf None ops) as [o2 outs2] eqn:Hr. injection H as <- <-.
        destruct (IH None i o2 outs2 (Hfresh _ _ Hs) Hr) as [E L]. cbn. rewrite E, L. split; reflexivity.
      * destruct (send_all cf (Some (fst (deflate (ctx o) (so_payload op)))) ops) as [o2 outs2] eqn:Hr. injection H as <- <-.
        destruct (Hstep (ctx o) i (so_payload op) Hs) as (i' & Hi & Hs').
        destruct (IH (Some (fst (deflate (ctx o) (so_payload op)))) i' o2 outs2 Hs' Hr) as [E L]. cbn. rewrite Hi, E, L. split; reflexivity.
    + destruct (sm_limit (maxMsg cf) (measured cf o op)).
      * destruct (send_all cf o ops) as [o2 outs2] eqn:Hr. injection H as <- <-.
        destruct (IH o i o2 outs2 Hs Hr) as [E L]. cbn. rewrite E, L. split; reflexivity.
      * destruct (send_all cf o ops) as [o2 outs2] eqn:Hr. injection H as <- <-.
        destruct (IH o i o2 outs2 Hs Hr) as [E L]. cbn. rewrite E, L. split; reflexivity.
Qed.

(* [accepted] read off the operations alone: the payloads (as handed over) of the operations within the limit *)
Lemma accepted_spec cf : forall ops o o' outs, send_all cf o ops = (o', outs) ->
  forall k op, nth_error ops k = Some op ->
  exists out o_k, nth_error outs k = Some out /\ out = snd (send_step cf o_k op).
Proof.
  induction ops as [|op0 ops IH]; intros o o' outs H k op Hk.
  - destruct k; discriminate.
  - cbn [WsSendGuard.send_all] in H. destruct (send_step cf o op0) as [o1 out] eqn:H1.
    destruct (send_all cf o1 ops) as [o2 outs2] eqn:Hr. injection H as <- <-.
    destruct k as [|k]; cbn in Hk |- *.
    + injection Hk as <-. exists out, o. rewrite H1. split; reflexivity.
    + exact (IH o1 o2 outs2 Hr k op Hk).
Qed.

End WithCompressor.

(* ---- the toy pair obeys the laws; and WITHOUT the reset the statement is false of it ---- *)
Lemma toy_laws : deflate_laws N 0 toy_deflate N toy_inflate toy_sync.
Proof.
  split.
  - intros z i p [-> | ->]; cbn.
    + rewrite N.eqb_refl. exists (i + 1). split; [reflexivity | left; reflexivity].
    + destruct i as [|q]; exists 1; (split; [reflexivity | left; reflexivity]).
  - intros z i _. right. reflexivity.
Qed.

Definition toy_cfg (max : N) : cfg := mkCfg true true false true true true 0 max true false.
Definition toy_ops : list (list N * bool) := [([1], true); ([1; 2; 3; 4; 5; 6], true); ([2], true)].

Lemma noreset_refuted :
  let outs := snd (send_all_noreset N 0 toy_deflate (toy_cfg 4) None toy_ops) in
  outs = [Wrote true [0; 1] true; Refused; Wrote true [2; 2] true] /\
  peer_read N toy_inflate 0 outs = [Some ([1], true); None].
Proof. vm_compute. split; reflexivity. Qed.

Lemma reset_example :
  let ops := map (fun pb => mkSend (ApiMessage false) (fst pb) (snd pb)) toy_ops in
  let outs := snd (send_all N 0 toy_deflate (toy_cfg 4) None ops) in
  outs = [Wrote true [0; 1] true; Refused; Wrote true [0; 2] true] /\
  peer_read N toy_inflate 0 outs = [Some ([1], true); Some ([2], true)].
Proof. vm_compute. split; reflexivity. Qed.

(* ---- the write queue: a failure's close frame reaches the wire, after everything that was queued before it ---- *)
Lemma sq_write_spec p : sq_write (pst_code p) = match p with CLOSED => false | _ => true end.
Proof. destruct p; reflexivity. Qed.

Lemma drain_not_closed p : p <> CLOSED -> forall q wire, drain (length q) p (mkWq q wire) = mkWq [] (wire ++ q).
Proof.
  intros Hp. induction q as [|e r IH]; intros wire; cbn [length drain].
  - now rewrite app_nil_r.
  - unfold drain_one. cbn [wq_q wq_wire]. rewrite sq_write_spec.
    destruct p; try congruence; rewrite IH, <- app_assoc; reflexivity.
Qed.

Lemma close_frame_reaches_wire w close_frame :
  fail_and_drain w close_frame = mkWq [] (wq_wire w ++ wq_q w ++ [close_frame]).
Proof.
  unfold fail_and_drain, send_data. cbn [orb]. destruct w as [q wire]. cbn [wq_q wq_wire].
  destruct q as [|e r]; cbn [nonemptyq].
  - cbn. reflexivity.
  - rewrite drain_not_closed by discriminate. reflexivity.
Qed.

(* whereas once the connection is CLOSED (dropped) nothing that is still queued is written *)
Lemma drain_closed : forall q wire, drain (length q) CLOSED (mkWq q wire) = mkWq [] wire.
Proof. induction q as [|e r IH]; intros wire; cbn [length drain]; [reflexivity|]. unfold drain_one. cbn. apply IH. Qed.
