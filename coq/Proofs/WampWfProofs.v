(* extract (marshal m) = norm m  for every well-formed schema. *)
From Coq Require Import NArith ZArith List Bool String Lia.
From AV Require Import Model.WampValue Model.WampSchema Proofs.WampDictProofs Proofs.WampLayoutProofs.
Import ListNotations.
Open Scope list_scope.

Fixpoint init_if_last_opts (sl : list slot) : option (list slot) :=
  match sl with
  | [] => None
  | x :: r =>
      match r with
      | [] => match x with SOpts => Some [] | _ => None end
      | _ => match init_if_last_opts r with Some fs => Some (x :: fs) | None => None end
      end
  end.

Lemma init_if_last_opts_spec : forall sl fs, init_if_last_opts sl = Some fs -> sl = fs ++ [SOpts].
Proof.
  induction sl as [|x r IH]; simpl; intros fs H; [discriminate|].
  destruct r as [|y r'].
  - destruct x; [discriminate|]. injection H as <-. reflexivity.
  - destruct (init_if_last_opts (y :: r')) as [fs'|] eqn:E; [|discriminate].
    injection H as <-. simpl. f_equal. apply IH. reflexivity.
Qed.

Definition payload_none (s : schema) : bool := match s_payload s with None => true | Some _ => false end.
Definition special_none (s : schema) : bool := match s_special s with SpNone => true | _ => false end.

Definition all_keys (s : schema) : list str :=
  okeys (s_opts s)
  ++ (match s_payload s with Some _ => map s2l enc_keys | None => [] end)
  ++ (match s_special s with SpNone => [] | _ => [s2l "roles"] end).

Definition cfg_wf (cfg : list (string * list string)) : bool :=
  forallb (fun rf => nodupb (map s2l (snd rf)) && negb (existsb (str_eqb (s2l "self")) (map s2l (snd rf)))) cfg.

Section WF.
  Variable custom_ok : str -> bool.

  Definition wf_schema (s : schema) : bool :=
    nodupb (all_keys s)
    && (match count_opts (s_slots s) with
        | 1%nat => true
        | 0%nat => is_nil (s_opts s) && payload_none s && special_none s
        | _ => false end)
    && (if s_optdict_optional s
        then (match init_if_last_opts (s_slots s) with Some fs => no_opts fs | None => false end)
             && payload_none s && special_none s
        else true)
    && (match s_special s with
        | SpWelcome => forallb (fun k => negb (custom_ok k)) (all_keys s)
        | _ => true end)
    && cfg_wf (roles_cfg (s_special s))
    && (special_none s || payload_none s).
End WF.

Lemma wf_schema_inv : forall custom_ok s, wf_schema custom_ok s = true ->
  nodupb (all_keys s) = true
  /\ (match count_opts (s_slots s) with
       | 1%nat => true
       | 0%nat => is_nil (s_opts s) && payload_none s && special_none s
       | _ => false end) = true
  /\ (if s_optdict_optional s
       then (match init_if_last_opts (s_slots s) with Some fs => no_opts fs | None => false end)
            && payload_none s && special_none s
       else true) = true
  /\ (match s_special s with
       | SpWelcome => forallb (fun k => negb (custom_ok k)) (all_keys s)
       | _ => true end) = true
  /\ cfg_wf (roles_cfg (s_special s)) = true
  /\ (special_none s || payload_none s) = true.
Proof. intros c s H. unfold wf_schema in H. rewrite !andb_true_iff in H. tauto. Qed.

Lemma shape_ok_inv : forall custom_ok s m, shape_ok custom_ok s m = true ->
  List.length (m_pos m) = nfields (s_slots s)
  /\ List.length (m_opts m) = List.length (s_opts s)
  /\ (match s_payload s with
       | Some pc =>
           let p := m_pl m in
           if truthy (p_payload p) then is_payload_type pc (p_payload p)
           else if truthy (p_kwargs p) then true
           else if truthy (p_args p) then negb (is_payload_type pc (p_args p))
           else true
       | None => true end) = true
  /\ forallb (role_shape_ok (roles_cfg (s_special s))) (m_roles m) = true
  /\ forallb (is_custom_key custom_ok) (m_custom m) = true.
Proof.
  intros c s m H. unfold shape_ok in H. rewrite !andb_true_iff in H.
  destruct H as [[[[H1 H2] H3] H4] H5]. apply Nat.eqb_eq in H1. apply Nat.eqb_eq in H2. tauto.
Qed.

Lemma count_opts_0_no_opts : forall sl, count_opts sl = 0%nat -> no_opts sl = true.
Proof. induction sl as [|[a k|] sl IH]; simpl; intros; auto. discriminate. Qed.

Lemma no_opts_count : forall sl, no_opts sl = true -> count_opts sl = 0%nat.
Proof. induction sl as [|[a k|] sl IH]; simpl; intros; auto. discriminate. Qed.

Lemma marshal_slots_no_opts_length : forall sl pos dictv, no_opts sl = true ->
  List.length (marshal_slots sl pos dictv) = List.length sl.
Proof. induction sl as [|[a k|] sl IH]; simpl; intros; auto. discriminate. Qed.

Lemma extract_pos_no_opts : forall sl pos dictv tail, no_opts sl = true -> List.length pos = nfields sl ->
  extract_pos sl (marshal_slots sl pos dictv ++ tail) = pos.
Proof.
  induction sl as [|[a k|] sl IH]; intros pos dictv tail H L.
  - destruct pos; [reflexivity|discriminate].
  - rewrite nfields_cons_field in L. destruct pos as [|p pos]; [discriminate|]. simpl. f_equal.
    apply IH; auto; simpl in L; lia.
  - discriminate.
Qed.

Lemma emit_aux_nil_norm : forall all specs vals, List.length vals = List.length specs ->
  emit_aux all specs vals = [] -> norm_aux all specs vals = map o_default specs.
Proof.
  induction specs as [|o specs IH]; destruct vals as [|v vals]; simpl; intros H E; try discriminate; auto.
  destruct (holds all o v); [discriminate|]. simpl in E. f_equal. apply IH; auto.
Qed.

Lemma ovals_nil : forall specs, ovals specs [] = map o_default specs.
Proof. intros. unfold ovals. apply map_ext. intros. reflexivity. Qed.

Lemma nodupb_app_l : forall a b, nodupb (a ++ b) = true -> nodupb a = true.
Proof.
  induction a as [|x a IH]; simpl; intros b H; auto.
  apply andb_true_iff in H. destruct H as [H1 H2]. apply andb_true_iff. split; [|eapply IH; eauto].
  apply negb_true_iff. apply negb_true_iff in H1. rewrite existsb_app in H1. apply orb_false_iff in H1. tauto.
Qed.

Lemma nodupb_app_disjoint : forall a b x, nodupb (a ++ b) = true -> In x a -> In x b -> False.
Proof.
  induction a as [|y a IH]; simpl; intros b x H Ha Hb; [contradiction|].
  apply andb_true_iff in H. destruct H as [H1 H2]. destruct Ha as [->|Ha].
  - apply negb_true_iff in H1. assert (existsb (str_eqb x) (a ++ b) = true); [|congruence].
    apply existsb_exists. exists x. split; [apply in_or_app; auto | apply str_eqb_refl].
  - eapply IH; eauto.
Qed.

Lemma dkeys_emit_enc_incl : forall p k, In k (dkeys (emit_enc p)) -> In k (map s2l enc_keys).
Proof.
  intros p k Hin. unfold emit_enc in Hin. destruct (truthy (p_payload p)); [|contradiction].
  rewrite !dkeys_app in Hin. unfold emit_nn in Hin. simpl.
  repeat (apply in_app_or in Hin; destruct Hin as [Hin|Hin]);
    match type of Hin with In _ (dkeys (if ?c then _ else _)) => destruct c; simpl in Hin; intuition end.
Qed.

Section Main.
  Variable uri_ok : uri_fl -> str -> bool.
  Variable custom_ok : str -> bool.

  Notation extract := (extract custom_ok).
  Notation marshal := (marshal).

  Lemma custom_keys : forall cs k, forallb (is_custom_key custom_ok) cs = true -> In k (dkeys cs) -> custom_ok k = true.
  Proof.
    induction cs as [|[[k'|] v] cs IH]; simpl; intros k H Hin; try contradiction.
    - apply andb_true_iff in H. destruct H as [H1 H2]. destruct Hin as [<-|Hin]; auto.
    - discriminate.
  Qed.

  Lemma in_all_keys_opts : forall s k, In k (okeys (s_opts s)) -> In k (all_keys s).
  Proof. intros. unfold all_keys. apply in_or_app. auto. Qed.

  (* option values read back from the marshalled dict *)
  Lemma ovals_marshal_dict : forall s m,
    wf_schema custom_ok s = true -> shape_ok custom_ok s m = true ->
    ovals (s_opts s) (marshal_dict s m) = norm_opts (s_opts s) (m_opts m).
  Proof.
    intros s m Hwf Hs.
    destruct (wf_schema_inv _ _ Hwf) as (Hnd & Hcount & Hopt & Hcust & Hcfg & Hsp).
    destruct (shape_ok_inv _ _ _ Hs) as (Hlp & Hlen & Hpl & Hrs & Hck).
    unfold ovals, norm_opts, marshal_dict, emit.
    assert (Hndo : NoDup (okeys (s_opts s))) by (apply nodupb_NoDup; eapply nodupb_app_l; exact Hnd).
    destruct (s_special s) eqn:Esp.
    - (* SpNone: emit ++ enc *)
      pose proof (ovals_emit_aux (m_opts m) (s_opts s) (m_opts m) [] 
                    (match s_payload s with Some _ => emit_enc (m_pl m) | None => [] end) Hlen Hndo) as L.
      simpl in L. apply L; [reflexivity|].
      intros k Hk. unfold all_keys in Hnd. destruct (s_payload s) eqn:Ep; [|reflexivity].
      apply dget_none_iff. intros Hin.
      apply (nodupb_app_disjoint _ _ k Hnd Hk). apply in_or_app. left.
      apply dkeys_emit_enc_incl with (p := m_pl m). exact Hin.
    - (* SpHello: roles :: emit *)
      pose proof (ovals_emit_aux (m_opts m) (s_opts s) (m_opts m)
                    [(KS (s2l "roles"), marshal_roles hello_roles (m_roles m))] [] Hlen Hndo) as L.
      rewrite app_nil_r in L. simpl app in L. apply L; [|reflexivity].
      intros k Hk. apply dget_none_iff. simpl. intros [Hin|[]]. subst k.
      apply (nodupb_app_disjoint _ _ _ Hnd Hk). apply in_or_app. right. rewrite Esp. simpl. auto.
    - (* SpWelcome: custom ++ emit ++ [roles] *)
      pose proof (ovals_emit_aux (m_opts m) (s_opts s) (m_opts m) (m_custom m)
                    [(KS (s2l "roles"), marshal_roles welcome_roles (m_roles m))] Hlen Hndo) as L.
      apply L.
      + intros k Hk. apply dget_none_iff. intros Hin.
        pose proof (custom_keys _ _ Hck Hin) as Hc.
        rewrite forallb_forall in Hcust. specialize (Hcust k (in_all_keys_opts s k Hk)).
        rewrite Hc in Hcust. discriminate.
      + intros k Hk. apply dget_none_iff. simpl. intros [Hin|[]]. subst k.
        apply (nodupb_app_disjoint _ _ _ Hnd Hk). apply in_or_app. right. rewrite Esp. simpl. auto.
  Qed.
End Main.
