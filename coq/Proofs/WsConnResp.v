(* Lemmas about the connection model, part 6: the responsive peer (C17_responsive_drop, C17_responsive_close). *)
From Coq Require Import NArith List Bool Lia Arith.
From AV Require Import Gen.WsConnConsts Model.WsConn Proofs.WsConnProofs Proofs.WsConnProofs2 Proofs.WsConnProofs3
  Proofs.WsConnTimers Proofs.WsConnLive.
Import ListNotations.
Open Scope N_scope.

(* ================================================================================================ *)
(* server TCP drop in time: connectionLost closes the connection, leaves the timeout flags alone, and from then on
   they are frozen *)
Definition I_to (a b d : bool) (log : list out) (s : cstate) : Prop :=
  wasOpenTO s = a /\ wasCloseTO s = b /\ wasDropTO s = d.
Lemma I_to_core : forall a b d, core_only (I_to a b d).
Proof.
  unfold core_only, I_to. intros a b d log s s' H.
  destruct H as (_&_&_&_&_&_&_&_&_&_&_&_&E13&E14&E15&_). rewrite E13, E14, E15. auto.
Qed.
Ltac leaf_to := intros log s HG HI; unfold I_to in *; guard_facts; simpl in *; auto.
Lemma conn_lost_to : forall a b d c, presL (I_to a b d) (conn_lost c).
Proof. intros a b d c. pose proof (I_to_core a b d) as Hcore. unfold conn_lost. pres_go leaf_to fail. Qed.

Lemma conn_lost_st : forall c s, st (fst (conn_lost c s)) = CLOSED.
Proof.
  intros c s. unfold conn_lost. fold lost_final. fold lost_closed.
  do 4 (apply seq_post; intro). rewrite fst_seq. rewrite lost_final_st. apply lost_closed_st.
Qed.

Lemma responsive_drop : forall c evs b evs2, gone (fst (run c evs)) = false ->
  let s := fst (run c evs) in let s2 := fst (run c (evs ++ EPeerDrop b :: evs2)) in
  st s2 = CLOSED /\ wasOpenTO s2 = wasOpenTO s /\ wasCloseTO s2 = wasCloseTO s /\ wasDropTO s2 = wasDropTO s.
Proof.
  intros c evs b evs2 Hg. cbv zeta.
  replace (evs ++ EPeerDrop b :: evs2) with ((evs ++ [EPeerDrop b]) ++ evs2) by (rewrite <- app_assoc; reflexivity).
  assert (H1 : st (fst (run c (evs ++ [EPeerDrop b]))) = CLOSED /\
               I_to (wasOpenTO (fst (run c evs))) (wasCloseTO (fst (run c evs))) (wasDropTO (fst (run c evs))) [] (fst (run c (evs ++ [EPeerDrop b])))).
  { rewrite run_app. rewrite run_from_cons. simpl. unfold handle, ifS. rewrite Hg. split; [apply conn_lost_st|].
    apply (conn_lost_to _ _ _ c [] (fst (run c evs))). unfold I_to. auto. }
  destruct H1 as [Hc (F1 & F2 & F3)].
  destruct (flags_frozen c (evs ++ [EPeerDrop b]) evs2 Hc) as (G0 & G1 & G2 & G3).
  rewrite G1, G2, G3, F1, F2, F3. auto.
Qed.

(* ================================================================================================ *)
(* the close-handshake call: at most one is ever pending, the handle hClose points to it; it is cancelled when the
   peer's reply is accepted (wasClean) and never armed again *)
Definition K := TCloseHS.
Definition isK (c : tkind * N) : bool := tkind_eqb (fst c) K.
Definition nk_entry (e : tentry) : nat := length (filter isK (te_calls e)).
Fixpoint nk (l : list tentry) : nat := match l with [] => 0 | e :: r => nk_entry e + nk r end%nat.
Definition ids_ok (h : option N) (l : list tentry) : Prop :=
  forall e id, In e l -> In (K, id) (te_calls e) -> h = Some id.

Lemma nk_app : forall a b, nk (a ++ b) = (nk a + nk b)%nat.
Proof. induction a; simpl; intros; [reflexivity|]. rewrite IHa. lia. Qed.

Lemma filter_isK_app : forall a b, filter isK (a ++ b) = filter isK a ++ filter isK b.
Proof. intros. apply filter_app. Qed.

Lemma nk_bucket_add : forall rt n call l,
  nk (bucket_add rt n call l) = (nk l + (if isK call then 1 else 0))%nat.
Proof.
  intros rt n call l. induction l as [|e r IH]; simpl.
  - unfold nk_entry. simpl. destruct (isK call); simpl; lia.
  - destruct (key_is rt e); simpl.
    + unfold nk_entry. simpl. rewrite filter_isK_app, app_length. simpl. destruct (isK call); simpl; lia.
    + rewrite IH. lia.
Qed.

Lemma ids_bucket_add : forall h rt n k id l, ids_ok h l -> (k = K -> h = Some id) -> ids_ok h (bucket_add rt n (k, id) l).
Proof.
  intros h rt n k id l. induction l as [|e r IH]; intros H Hk x i Hx Hi; simpl in Hx.
  - destruct Hx as [Hx|[]]. subst x. simpl in Hi. destruct Hi as [Hi|[]]. inversion Hi; subst. auto.
  - destruct (key_is rt e).
    + destruct Hx as [Hx|Hx].
      * subst x. simpl in Hi. apply in_app_or in Hi. destruct Hi as [Hi|[Hi|[]]].
        { apply (H e i); [left; reflexivity|exact Hi]. }
        { inversion Hi; subst. auto. }
      * apply (H x i); [right; exact Hx|exact Hi].
    + destruct Hx as [Hx|Hx].
      * subst x. apply (H e i); [left; reflexivity|exact Hi].
      * apply (IH (fun e0 i0 He0 Hi0 => H e0 i0 (or_intror He0) Hi0) Hk x i Hx Hi).
Qed.

Lemma isK_call_is : forall k id c, call_is k id c = true -> k <> K -> isK c = false.
Proof.
  intros k id c H Hne. unfold isK. destruct (tkind_eqb (fst c) K) eqn:E; [|reflexivity].
  apply call_is_kind in H. apply tkind_eqb_eq in E. congruence.
Qed.

Lemma filter_isK_remove_other : forall k id cs, k <> K ->
  filter isK (filter (fun c => negb (call_is k id c)) cs) = filter isK cs.
Proof.
  intros k id cs Hne. induction cs as [|c cs IH]; simpl; [reflexivity|].
  destruct (call_is k id c) eqn:E; simpl.
  - rewrite (isK_call_is k id c E Hne). exact IH.
  - destruct (isK c); simpl; rewrite IH; reflexivity.
Qed.

Lemma nk_remove_other : forall k id l, k <> K -> nk (remove_call k id l) = nk l.
Proof.
  intros k id l Hne. induction l as [|e r IH]; simpl; [reflexivity|].
  destruct (existsb (call_is k id) (te_calls e)) eqn:E.
  - pose proof (filter_isK_remove_other k id (te_calls e) Hne) as HF.
    destruct (filter (fun c => negb (call_is k id c)) (te_calls e)) as [|c cs] eqn:Ef.
    + unfold nk_entry. rewrite <- HF. simpl. reflexivity.
    + simpl. unfold nk_entry. simpl te_calls. rewrite HF. reflexivity.
  - simpl. rewrite IH. reflexivity.
Qed.

Lemma in_filter_neg : forall (f : tkind * N -> bool) x cs, In x (filter (fun c => negb (f c)) cs) -> In x cs.
Proof. intros f x cs H. apply filter_In in H. tauto. Qed.

Lemma ids_remove : forall h k id l, ids_ok h l -> ids_ok h (remove_call k id l).
Proof.
  intros h k id l. induction l as [|e r IH]; intros H x i Hx Hi; simpl in Hx; [destruct Hx|].
  destruct (existsb (call_is k id) (te_calls e)).
  - destruct (filter (fun c => negb (call_is k id c)) (te_calls e)) as [|c cs] eqn:Ef.
    + apply (H x i); [right; exact Hx|exact Hi].
    + destruct Hx as [Hx|Hx].
      * subst x. cbn [te_calls] in Hi. rewrite <- Ef in Hi. apply in_filter_neg in Hi. apply (H e i); [left; reflexivity|exact Hi].
      * apply (H x i); [right; exact Hx|exact Hi].
  - destruct Hx as [Hx|Hx].
    + subst x. apply (H e i); [left; reflexivity|exact Hi].
    + apply (IH (fun e0 i0 He0 Hi0 => H e0 i0 (or_intror He0) Hi0) x i Hx Hi).
Qed.

Lemma nk_entry_pos : forall e id, In (K, id) (te_calls e) -> (1 <= nk_entry e)%nat.
Proof.
  intros e id H. unfold nk_entry. assert (In (K, id) (filter isK (te_calls e))) by (apply filter_In; split; [exact H|reflexivity]).
  destruct (filter isK (te_calls e)); [destruct H0|simpl; lia].
Qed.

Lemma nk_entry_zero_no : forall e, nk_entry e = 0%nat -> forall id, ~ In (K, id) (te_calls e).
Proof. intros e H id Hin. pose proof (nk_entry_pos e id Hin). lia. Qed.

(* cancelling the handle's call removes the only pending one *)
Lemma filter_isK_all_id : forall id cs, (forall i, In (K, i) cs -> i = id) ->
  filter isK (filter (fun c => negb (call_is K id c)) cs) = [].
Proof.
  intros id cs H. induction cs as [|[k i] cs IH]; simpl; [reflexivity|].
  destruct (call_is K id (k, i)) eqn:E; simpl.
  - apply IH. intros j Hj. apply H. right. exact Hj.
  - destruct (isK (k, i)) eqn:Ek.
    + exfalso. unfold isK in Ek. simpl in Ek. apply tkind_eqb_eq in Ek. subst k.
      assert (i = id) by (apply H; left; reflexivity). subst i.
      unfold call_is in E. simpl in E. rewrite N.eqb_refl in E. discriminate.
    + apply IH. intros j Hj. apply H. right. exact Hj.
Qed.

Lemma nk_remove_same : forall id l, (nk l <= 1)%nat -> ids_ok (Some id) l -> nk (remove_call K id l) = 0%nat.
Proof.
  intros id l. induction l as [|e r IH]; intros Hn Hi; simpl; [reflexivity|]. simpl in Hn.
  assert (Hall : forall i, In (K, i) (te_calls e) -> i = id).
  { intros i Hin. assert (Some id = Some i) by (apply (Hi e i); [left; reflexivity|exact Hin]). congruence. }
  assert (Hr : ids_ok (Some id) r) by (intros x i Hx Hxi; apply (Hi x i); [right; exact Hx|exact Hxi]).
  destruct (existsb (call_is K id) (te_calls e)) eqn:E.
  - apply existsb_exists in E. destruct E as ([k i] & Hin & Hc).
    pose proof (call_is_kind K id (k, i) Hc) as Hk. simpl in Hk. subst k.
    pose proof (nk_entry_pos e i Hin) as Hp.
    assert (Hr0 : nk r = 0%nat) by lia.
    pose proof (filter_isK_all_id id (te_calls e) Hall) as HF.
    destruct (filter (fun c => negb (call_is K id c)) (te_calls e)) as [|c cs] eqn:Ef; [exact Hr0|].
    simpl. unfold nk_entry. simpl te_calls. rewrite HF. simpl. exact Hr0.
  - simpl.
    assert (He : nk_entry e = 0%nat).
    { unfold nk_entry. destruct (filter isK (te_calls e)) as [|[k i] cs] eqn:Ef; [reflexivity|]. exfalso.
      assert (Hin : In (k, i) (filter isK (te_calls e))) by (rewrite Ef; left; reflexivity).
      apply filter_In in Hin. destruct Hin as [Hin Hk]. unfold isK in Hk. simpl in Hk. apply tkind_eqb_eq in Hk. subst k.
      pose proof (Hall i Hin). subst i.
      assert (existsb (call_is K id) (te_calls e) = true).
      { apply existsb_exists. exists (K, id). split; [exact Hin|]. unfold call_is. simpl. rewrite N.eqb_refl. reflexivity. }
      congruence. }
    rewrite He. simpl. apply IH; [lia|exact Hr].
Qed.

Lemma nk_pop : forall m l e rest, pop_at m l = Some (e, rest) -> nk l = (nk_entry e + nk rest)%nat.
Proof.
  intros m l. induction l as [|e0 r IH]; intros e rest H; simpl in H; [discriminate|].
  destruct (te_time e0 =? m).
  - inversion H; subst. reflexivity.
  - destruct (pop_at m r) as [[x r']|] eqn:Ep; [|discriminate]. inversion H; subst. simpl. rewrite (IH _ _ eq_refl). lia.
Qed.
Lemma nk_pick : forall t l e rest, pick_due t l = Some (e, rest) -> nk l = (nk_entry e + nk rest)%nat.
Proof.
  intros t l e rest H. unfold pick_due in H. destruct (min_time l); [|discriminate]. destruct (n <=? t); [|discriminate].
  eapply nk_pop; eauto.
Qed.

(* ---------- state level ---------- *)
Definition G (s : cstate) : Prop :=
  (nk (timers s) <= 1)%nat /\ ids_ok (hClose s) (timers s) /\
  ((rank (st s) <= 1)%nat -> nk (timers s) = 0%nat /\ wasClean s = false) /\
  (wasClean s = true -> nk (timers s) = 0%nat).
Definition I_G (log : list out) (s : cstate) : Prop := G s.

Lemma nk0_ids : forall h l, nk l = 0%nat -> ids_ok h l.
Proof.
  intros h l H e id He Hi. exfalso. induction l as [|x r IH]; [destruct He|]. simpl in H.
  destruct He as [He|He]; [subst x; pose proof (nk_entry_pos e id Hi); lia | apply IH; [lia|exact He]].
Qed.

Lemma hClose_set_slot_other : forall k v s, k <> K -> hClose (set_slot k v s) = hClose s.
Proof. intros k v s H. destruct k; try reflexivity. exfalso. apply H. reflexivity. Qed.
Lemma isK_other : forall k id, k <> K -> isK (k, id) = false.
Proof. intros k id H. unfold isK. simpl. destruct (tkind_eqb k K) eqn:E; [|reflexivity]. apply tkind_eqb_eq in E. congruence. Qed.

Lemma core_wasClean : forall s s', same_core s s' -> wasClean s' = wasClean s.
Proof. intros s s' H. destruct H as (_&_&_&_&_&_&H&_). exact H. Qed.

Lemma arm_batched_G : forall k d, k <> K -> presL I_G (arm_batched k d).
Proof.
  intros k d Hk log s (G1 & G2 & G3 & G4). destruct (arm_batched_eff k d s) as (Et & Ec & _).
  unfold I_G, G. rewrite Et, (core_st _ _ Ec), (core_wasClean _ _ Ec).
  assert (Hh : hClose (fst (arm_batched k d s)) = hClose s).
  { unfold arm_batched. simpl. rewrite hClose_set_slot_other by exact Hk. reflexivity. }
  rewrite Hh, nk_bucket_add, (isK_other k _ Hk), Nat.add_0_r.
  repeat split; auto; try (apply G3; assumption).
  apply ids_bucket_add; [exact G2|]. intro. congruence.
Qed.
Lemma arm_exact_G : forall k d, k <> K -> presL I_G (arm_exact k d).
Proof.
  intros k d Hk log s (G1 & G2 & G3 & G4). destruct (arm_exact_eff k d s) as (Et & Ec & _).
  unfold I_G, G. rewrite Et, (core_st _ _ Ec), (core_wasClean _ _ Ec).
  assert (Hh : hClose (fst (arm_exact k d s)) = hClose s).
  { unfold arm_exact. simpl. rewrite hClose_set_slot_other by exact Hk. reflexivity. }
  rewrite Hh, nk_app. simpl. unfold nk_entry. simpl. rewrite (isK_other k _ Hk). simpl. rewrite !Nat.add_0_r.
  repeat split; auto; try (apply G3; assumption).
  intros e id He Hi. apply in_app_or in He. destruct He as [He|[He|[]]]; [apply (G2 e id He Hi)|].
  subst e. simpl in Hi. destruct Hi as [Hi|[]]. inversion Hi. congruence.
Qed.
Lemma cancel_slot_G : forall k, k <> K -> presL I_G (cancel_slot k).
Proof.
  intros k Hk log s (G1 & G2 & G3 & G4). destruct (cancel_slot_eff k s) as (Et & Ec & _).
  unfold I_G, G. rewrite (core_st _ _ Ec), (core_wasClean _ _ Ec).
  assert (Hh : hClose (fst (cancel_slot k s)) = hClose s).
  { unfold cancel_slot. destruct (slot_of k s); simpl; [rewrite hClose_set_slot_other by exact Hk|]; reflexivity. }
  rewrite Hh. destruct Et as [Et|[id Et]]; rewrite Et; [repeat split; auto; apply G3; assumption|].
  rewrite nk_remove_other by exact Hk. repeat split; auto; try (apply G3; assumption). apply ids_remove. exact G2.
Qed.

(* sendCloseFrame(isReply=False) from OPEN arms the one and only close-handshake call *)
Lemma send_close_frame_G : forall c o code reason, presL I_G (send_close_frame c o code reason false).
Proof.
  intros c o code reason log s (G1 & G2 & G3 & G4). unfold send_close_frame, bindS.
  destruct (st s) eqn:E.
  - unfold say. simpl. unfold I_G, G. rewrite E. auto.
  - (* OPEN *)
    assert (H0 : nk (timers s) = 0%nat /\ wasClean s = false) by (apply G3; simpl; lia). destruct H0 as [H0 Hw].
    unfold I_G. rewrite fst_seq. unfold emit_and at 1. cbn [fst].
    match goal with |- G (fst (whenM ?b ?m ?x)) => set (s1 := x); destruct b end.
    + unfold whenM. destruct (arm_batched_eff TCloseHS (closeHandshakeTimeout c) s1) as (Et & Ec & _).
      unfold G. rewrite Et, (core_st _ _ Ec), (core_wasClean _ _ Ec).
      assert (T1 : timers s1 = timers s) by reflexivity. assert (S1 : st s1 = CLOSING) by reflexivity.
      assert (W1 : wasClean s1 = wasClean s) by reflexivity.
      assert (Hh : hClose (fst (arm_batched TCloseHS (closeHandshakeTimeout c) s1)) = Some (nextId s1)) by reflexivity.
      rewrite Hh, nk_bucket_add, T1, H0, S1, W1, Hw. simpl.
      repeat split; try lia; try discriminate.
      apply ids_bucket_add; [apply nk0_ids; exact H0 | reflexivity].
    + unfold whenM, ret. cbn [fst]. unfold G. simpl. rewrite H0, Hw. repeat split; try lia; try discriminate.
      apply nk0_ids. exact H0.
  - unfold ret. simpl. unfold I_G, G. rewrite E. auto.
  - unfold ret. simpl. unfold I_G, G. rewrite E. auto.
Qed.

Lemma nk0_G : forall s, nk (timers s) = 0%nat -> (2 <= rank (st s))%nat -> G s.
Proof.
  intros s H0 Hr. unfold G. rewrite H0. repeat split; try lia; auto. apply nk0_ids. exact H0.
Qed.

Lemma scf_reply_open : forall c o code reason s, st s = OPEN ->
  fst (send_close_frame c o code reason true s) =
  set_closingSince (Some (now s)) (set_localReason reason (set_localCode code (set_closedByMe false (set_st CLOSING s)))).
Proof.
  intros c o code reason s E. unfold send_close_frame, bindS. rewrite E. unfold seqM, emit_and, whenM. simpl. reflexivity.
Qed.

Lemma drop_eff : forall abort s, st s <> CLOSED -> fst (drop_connection abort s) = set_st CLOSED (set_droppedByMe true s).
Proof.
  intros abort s H. unfold drop_connection, ifS, in_state, seqM, upd, say.
  destruct (wstate_eqb (st s) CLOSED) eqn:E; [|reflexivity]. exfalso. apply H. destruct (st s); simpl in E; congruence.
Qed.

Lemma dispatch_G : forall c, presL I_G (on_close_dispatch c).
Proof.
  intros c log s (G1 & G2 & G3 & G4). unfold I_G, on_close_dispatch, bindS. destruct (st s) eqn:E.
  - unfold ret. simpl. unfold G. rewrite E. auto.
  - (* OPEN *)
    assert (H0 : nk (timers s) = 0%nat) by (apply G3; simpl; lia).
    rewrite !fst_seq. unfold upd. cbn [fst].
    set (sa := set_wasClean true s). assert (Ea : st sa = OPEN) by exact E.
    assert (Hb : forall code reason, let sb := fst (send_close_frame c OReply code reason true sa) in
                 G (fst ((if is_server c then drop_connection false
                          else whenM (0 <? serverConnectionDropTimeout c) (arm_exact TServerDrop (serverConnectionDropTimeout c))) sb))).
    { intros code reason. cbv zeta. rewrite (scf_reply_open c OReply code reason sa Ea).
      match goal with |- G (fst (_ ?x)) => set (sb := x) end.
      assert (Tb : timers sb = timers s) by reflexivity. assert (Sb : st sb = CLOSING) by reflexivity.
      destruct (is_server c).
      - rewrite drop_eff by (rewrite Sb; discriminate). apply nk0_G; simpl; [rewrite H0; reflexivity|lia].
      - unfold whenM. destruct (0 <? serverConnectionDropTimeout c).
        + destruct (arm_exact_eff TServerDrop (serverConnectionDropTimeout c) sb) as (Et & Ec & _).
          apply nk0_G; [rewrite Et, nk_app, Tb, H0; reflexivity | rewrite (core_st _ _ Ec), Sb; simpl; lia].
        + unfold ret. cbn [fst]. apply nk0_G; [rewrite Tb; exact H0 | rewrite Sb; simpl; lia]. }
    destruct (echoCloseCodeReason c); [unfold bindS|]; apply Hb.
  - (* CLOSING: the reply; the handle's call is cancelled *)
    rewrite !fst_seq. unfold upd. cbn [fst].
    destruct (cancel_slot_eff TCloseHS s) as (Et & Ec & _).
    set (sa := fst (cancel_slot TCloseHS s)) in *.
    assert (Ha : nk (timers sa) = 0%nat).
    { unfold sa, cancel_slot. simpl slot_of. destruct (hClose s) as [id|] eqn:Eh; simpl.
      - apply nk_remove_same; [exact G1|exact G2].
      - destruct (nk (timers s)) eqn:En; [reflexivity|]. exfalso.
        assert (exists e id, In e (timers s) /\ In (K, id) (te_calls e)) as (e & id & He & Hi).
        { clear -En. induction (timers s) as [|x r IH]; simpl in En; [discriminate|].
          destruct (nk_entry x) eqn:Ex.
          - destruct IH as (e & id & He & Hi); [exact En|]. exists e, id. split; [right; exact He|exact Hi].
          - unfold nk_entry in Ex. destruct (filter isK (te_calls x)) as [|[k i] cs] eqn:Ef; [discriminate|].
            assert (Hin : In (k, i) (filter isK (te_calls x))) by (rewrite Ef; left; reflexivity).
            apply filter_In in Hin. destruct Hin as [Hin Hk]. unfold isK in Hk. simpl in Hk. apply tkind_eqb_eq in Hk. subst k.
            exists x, i. split; [left; reflexivity|exact Hin]. }
        specialize (G2 e id He Hi). congruence. }
    remember (set_wasClean true sa) as sb eqn:Hsb.
    assert (Tb : timers sb = timers sa) by (subst sb; reflexivity).
    assert (Sb : st sb = CLOSING) by (subst sb; simpl; rewrite (core_st _ _ Ec); exact E).
    destruct (is_server c).
    + rewrite drop_eff by (rewrite Sb; discriminate). apply nk0_G; simpl; [rewrite Tb; exact Ha|lia].
    + unfold whenM. destruct (0 <? serverConnectionDropTimeout c).
      * destruct (arm_exact_eff TServerDrop (serverConnectionDropTimeout c) sb) as (Et2 & Ec2 & _).
        apply nk0_G; [rewrite Et2, nk_app, Tb, Ha; reflexivity | rewrite (core_st _ _ Ec2), Sb; simpl; lia].
      * unfold ret. cbn [fst]. apply nk0_G; [rewrite Tb; exact Ha | rewrite Sb; simpl; lia].
  - unfold upd. simpl. unfold G. simpl. rewrite E. split; [exact G1|]. split; [exact G2|]. split.
    + simpl. intro Hr. lia.
    + discriminate.
Qed.

Ltac leaf_G :=
  intros log s HG HI; unfold I_G, G in *; guard_facts; simpl in *;
  repeat match goal with H : st ?x = _ |- _ => rewrite H in * end; simpl in *;
  repeat match goal with H : (?a <= ?b)%nat -> _ |- _ =>
           let H' := fresh in assert (H' : (a <= b)%nat) by lia; specialize (H H'); clear H' end;
  try solve [ intuition (try lia; try discriminate; try congruence) ].
Ltac blocks_G := idtac;
  match goal with
  | |- presG _ _ (send_close_frame _ _ _ _ false) => apply presG_weaken; apply send_close_frame_G
  | |- presG _ _ (on_close_dispatch _) => apply presG_weaken; apply dispatch_G
  | |- presG _ _ (arm_batched _ _) => apply presG_weaken; apply arm_batched_G; discriminate
  | |- presG _ _ (arm_exact _ _) => apply presG_weaken; apply arm_exact_G; discriminate
  | |- presG _ _ (cancel_slot _) => apply presG_weaken; apply cancel_slot_G; discriminate
  end.

Lemma on_timer_G : forall c k, k <> K -> presL I_G (on_timer c k).
Proof.
  intros c k Hk. destruct k; try (exfalso; apply Hk; reflexivity); unfold on_timer; pres_go leaf_G blocks_G.
Qed.

(* nothing of the kind pending *)
Definition G0 (s : cstate) : Prop := nk (timers s) = 0%nat /\ ((rank (st s) <= 1)%nat -> wasClean s = false).
Definition I_G0 (log : list out) (s : cstate) : Prop := G0 s.
Lemma G0_G : forall s, G0 s -> G s.
Proof.
  intros s [H0 Hw]. unfold G. rewrite H0. repeat split; auto. apply nk0_ids. exact H0.
Qed.
Lemma arm_batched_G0 : forall k d, k <> K -> presL I_G0 (arm_batched k d).
Proof.
  intros k d Hk log s [H0 Hw]. destruct (arm_batched_eff k d s) as (Et & Ec & _).
  unfold I_G0, G0. rewrite Et, (core_st _ _ Ec), (core_wasClean _ _ Ec), nk_bucket_add, (isK_other k _ Hk), Nat.add_0_r. auto.
Qed.
Ltac leaf_G0 :=
  intros log s HG HI; unfold I_G0, G0 in *; guard_facts; simpl in *;
  repeat match goal with H : st ?x = _ |- _ => rewrite H in * end; simpl in *;
  try solve [ intuition (try lia; try discriminate; try congruence) ].
Ltac blocks_G0 := idtac;
  match goal with
  | |- presG _ _ (arm_batched _ _) => apply presG_weaken; apply arm_batched_G0; discriminate
  end.
Lemma on_timer_G0 : forall c k, presL I_G0 (on_timer c k).
Proof. intros c k. destruct k; unfold on_timer; pres_go leaf_G0 blocks_G0. Qed.

Lemma presL_run_calls_nonK : forall (I : list out -> cstate -> Prop) c,
  (forall k, k <> K -> presL I (on_timer c k)) ->
  forall calls, (forall id, ~ In (K, id) calls) -> presL I (run_calls c calls).
Proof.
  intros I c H calls. induction calls as [|[k id] r IH]; intros Hn; simpl.
  - apply presL_ret.
  - apply presL_seq.
    + apply H. intro Hk. subst k. apply (Hn id). left. reflexivity.
    + apply IH. intros i Hi. apply (Hn i). right. exact Hi.
Qed.

Lemma sub_ids : forall h l l', (forall x, In x l' -> In x l) -> ids_ok h l -> ids_ok h l'.
Proof. intros h l l' Hs H e id He Hi. apply (H e id); auto. Qed.

Lemma iter_G : forall c t s e rest, G s -> pick_due t (timers s) = Some (e, rest) ->
  G (fst (run_calls c (te_calls e) (set_now (N.max (now s) (te_time e)) (set_timers rest s)))).
Proof.
  intros c t s e rest (G1 & G2 & G3 & G4) Hp.
  pose proof (nk_pick t _ e rest Hp) as Hn. destruct (pick_due_spec t _ e rest Hp) as (_ & _ & _ & Hsub).
  set (s1 := set_now (N.max (now s) (te_time e)) (set_timers rest s)).
  destruct (nk_entry e) eqn:Ee.
  - (* no close-handshake call in this entry *)
    apply (presL_run_calls_nonK I_G c (on_timer_G c) (te_calls e) (nk_entry_zero_no e Ee) [] s1).
    unfold I_G, G, s1. simpl. rewrite Hn in *. simpl in *.
    split; [exact G1|]. split; [eapply sub_ids; eauto|]. split; [exact G3|exact G4].
  - (* the one call fires: nothing of the kind is left *)
    apply G0_G. apply (presL_run_calls I_G0 c (on_timer_G0 c) (te_calls e) [] s1).
    unfold I_G0, G0, s1. simpl. split; [lia|]. intro Hr. apply G3. exact Hr.
Qed.

Lemma fire_loop_G : forall c t fuel s, G s -> G (fst (fire_loop fuel c t s)).
Proof.
  intros c t fuel. induction fuel as [|f IH]; intros s H; simpl; [exact H|].
  unfold bindS. destruct (pick_due t (timers s)) as [[e rest]|] eqn:E; [|exact H].
  rewrite !fst_seq. unfold upd. cbn [fst]. apply IH. apply (iter_G c t s e rest H E).
Qed.

Lemma tick_G : forall c t, presL I_G (tick c t).
Proof.
  intros c t log s H. unfold I_G, tick. rewrite fst_seq. unfold bindS, upd. cbn [fst].
  pose proof (fire_loop_G c t (timers_weight (timers s)) s H) as H1.
  set (s1 := fst (fire_loop (timers_weight (timers s)) c t s)) in *.
  unfold G in *. simpl. replace (timers (set_now (N.max (now s1) t) s1)) with (timers s1) by (destruct s1; reflexivity).
  replace (hClose (set_now (N.max (now s1) t) s1)) with (hClose s1) by (destruct s1; reflexivity). exact H1.
Qed.

Lemma step_G : forall c e, presL I_G (handle c e).
Proof.
  intros c e. destruct e; unfold handle; try apply tick_G; pres_go leaf_G blocks_G.
Qed.

Lemma G_run : forall c evs, G (fst (run c evs)).
Proof.
  intros c evs. apply (presL_run I_G c); [|apply step_G].
  unfold I_G. apply G0_G. unfold G0, init, whenM. destruct (0 <? openHandshakeTimeout c).
  - destruct (arm_batched_eff TOpenHS (openHandshakeTimeout c) (init0 c)) as (Et & Ec & _).
    rewrite Et, (core_wasClean _ _ Ec), nk_bucket_add. simpl. auto.
  - simpl. auto.
Qed.

(* ---------- once the reply is accepted: no close-handshake call, for ever ---------- *)
Definition Nn (s : cstate) : Prop := (2 <= rank (st s))%nat /\ nk (timers s) = 0%nat /\ wasCloseTO s = false.
Definition I_N (log : list out) (s : cstate) : Prop := Nn s.

Lemma filter_isK_sub : forall k id cs, (length (filter isK (filter (fun c => negb (call_is k id c)) cs)) <= length (filter isK cs))%nat.
Proof.
  intros k id cs. induction cs as [|c cs IH]; simpl; [lia|].
  destruct (call_is k id c); simpl; destruct (isK c); simpl; lia.
Qed.
Lemma nk_remove_le : forall k id l, (nk (remove_call k id l) <= nk l)%nat.
Proof.
  intros k id l. induction l as [|e r IH]; simpl; [lia|].
  destruct (existsb (call_is k id) (te_calls e)).
  - pose proof (filter_isK_sub k id (te_calls e)) as HF.
    destruct (filter (fun c => negb (call_is k id c)) (te_calls e)) as [|c cs] eqn:Ef.
    + lia.
    + simpl. unfold nk_entry at 1. simpl te_calls. unfold nk_entry. lia.
  - simpl. lia.
Qed.

Lemma core_wasCloseTO : forall s s', same_core s s' -> wasCloseTO s' = wasCloseTO s.
Proof. intros s s' H. destruct H as (_&_&_&_&_&_&_&_&_&_&_&_&_&H&_). exact H. Qed.

Lemma arm_batched_N : forall k d, k <> K -> presL I_N (arm_batched k d).
Proof.
  intros k d Hk log s (H1 & H2 & H3). destruct (arm_batched_eff k d s) as (Et & Ec & _).
  unfold I_N, Nn. rewrite Et, (core_st _ _ Ec), (core_wasCloseTO _ _ Ec), nk_bucket_add, (isK_other k _ Hk), Nat.add_0_r. auto.
Qed.
Lemma arm_exact_N : forall k d, k <> K -> presL I_N (arm_exact k d).
Proof.
  intros k d Hk log s (H1 & H2 & H3). destruct (arm_exact_eff k d s) as (Et & Ec & _).
  unfold I_N, Nn. rewrite Et, (core_st _ _ Ec), (core_wasCloseTO _ _ Ec), nk_app. simpl. unfold nk_entry. simpl.
  rewrite (isK_other k _ Hk). simpl. rewrite H2. auto.
Qed.
Lemma cancel_slot_N : forall k, presL I_N (cancel_slot k).
Proof.
  intros k log s (H1 & H2 & H3). destruct (cancel_slot_eff k s) as (Et & Ec & _).
  unfold I_N, Nn. rewrite (core_st _ _ Ec), (core_wasCloseTO _ _ Ec).
  destruct Et as [Et|[id Et]]; rewrite Et; [auto|]. pose proof (nk_remove_le k id (timers s)). repeat split; auto. lia.
Qed.

Ltac absurd_N :=
  intros log s HG HI; unfold I_N, Nn in *; guard_facts; simpl in *;
  match goal with H : st ?x = _, H2 : (2 <= rank (st ?x))%nat |- _ => rewrite H in H2; simpl in H2; lia end.
Ltac leaf_N :=
  intros log s HG HI; unfold I_N, Nn in *; guard_facts; simpl in *;
  try solve [ intuition (try lia; try congruence; try discriminate)
            | match goal with H : (2 <= rank ?w)%nat /\ _ |- _ => destruct H as (? & ? & ?); repeat split; auto; simpl; lia end ].
Ltac blocks_N := idtac;
  match goal with
  | |- presG _ _ (arm_batched _ _) => apply presG_weaken; apply arm_batched_N; discriminate
  | |- presG _ _ (arm_exact _ _) => apply presG_weaken; apply arm_exact_N; discriminate
  | |- presG _ _ (cancel_slot _) => apply presG_weaken; apply cancel_slot_N
  end.

Lemma on_timer_N : forall c k, k <> K -> presL I_N (on_timer c k).
Proof.
  intros c k Hk. destruct k; try (exfalso; apply Hk; reflexivity); unfold on_timer; pres_go3 leaf_N blocks_N absurd_N.
Qed.

Lemma nk0_entries : forall l, nk l = 0%nat -> forall e, In e l -> nk_entry e = 0%nat.
Proof. induction l as [|x r IH]; intros H e He; [destruct He|]. simpl in H. destruct He as [He|He]; [subst; lia|apply IH; [lia|exact He]]. Qed.

Lemma fire_loop_N : forall c t fuel s, Nn s -> Nn (fst (fire_loop fuel c t s)).
Proof.
  intros c t fuel. induction fuel as [|f IH]; intros s H; simpl; [exact H|].
  unfold bindS. destruct (pick_due t (timers s)) as [[e rest]|] eqn:E; [|exact H].
  rewrite !fst_seq. unfold upd. cbn [fst]. apply IH.
  destruct H as (H1 & H2 & H3). pose proof (nk_pick t _ e rest E) as Hn.
  destruct (pick_due_spec t _ e rest E) as (He & _ & _ & _).
  pose proof (nk0_entries _ H2 e He) as Hz.
  apply (presL_run_calls_nonK I_N c (on_timer_N c) (te_calls e) (nk_entry_zero_no e Hz) []).
  unfold I_N, Nn. simpl. repeat split; auto. lia.
Qed.

Lemma tick_N : forall c t, presL I_N (tick c t).
Proof.
  intros c t log s H. unfold I_N, tick. rewrite fst_seq. unfold bindS, upd. cbn [fst].
  pose proof (fire_loop_N c t (timers_weight (timers s)) s H) as H1.
  set (s1 := fst (fire_loop (timers_weight (timers s)) c t s)) in *.
  unfold Nn in *. simpl. replace (timers (set_now (N.max (now s1) t) s1)) with (timers s1) by (destruct s1; reflexivity). exact H1.
Qed.

Lemma step_N : forall c e, presL I_N (handle c e).
Proof.
  intros c e. destruct e; unfold handle; try apply tick_N; pres_go3 leaf_N blocks_N absurd_N.
Qed.

(* C17_responsive_close: once the peer's reply has been accepted (wasClean = True) in CLOSING/CLOSED, no
   close-handshake call is pending and none is ever armed again: the close-handshake timeout can never be reported *)
Lemma responsive_close : forall c evs evs2,
  (2 <= rank (st (fst (run c evs))))%nat -> wasClean (fst (run c evs)) = true -> wasCloseTO (fst (run c evs)) = false ->
  wasCloseTO (fst (run c (evs ++ evs2))) = false /\ nk (timers (fst (run c (evs ++ evs2)))) = 0%nat.
Proof.
  intros c evs evs2 Hr Hw Hf. destruct (G_run c evs) as (_ & _ & _ & G4).
  rewrite run_app.
  destruct (presL_run_from I_N c (step_N c) evs2 (fst (run c evs)) (snd (run c evs))) as (_ & N2 & N3).
  - unfold I_N, Nn. auto.
  - auto.
Qed.

(* ... and a well-formed close frame received in CLOSING is accepted *)
Lemma dispatch_sets_clean : forall c s, st s = CLOSING -> wasClean (fst (on_close_dispatch c s)) = true.
Proof.
  intros c s E. unfold on_close_dispatch, bindS. rewrite E. rewrite !fst_seq. unfold upd. cbn [fst].
  destruct (cancel_slot_eff TCloseHS s) as (_ & Ec & _).
  set (sa := fst (cancel_slot TCloseHS s)) in *.
  assert (Sb : st (set_wasClean true sa) = CLOSING) by (simpl; rewrite (core_st _ _ Ec); exact E).
  destruct (is_server c).
  - rewrite drop_eff by (rewrite Sb; discriminate). reflexivity.
  - unfold whenM. destruct (0 <? serverConnectionDropTimeout c).
    + destruct (arm_exact_eff TServerDrop (serverConnectionDropTimeout c) (set_wasClean true sa)) as (_ & Ec2 & _).
      rewrite (core_wasClean _ _ Ec2). reflexivity.
    + reflexivity.
Qed.

Lemma ocf_valid_clean : forall c body txt s, body_valid body -> st s = CLOSING ->
  wasClean (fst (on_close_frame c body txt s)) = true.
Proof.
  intros c body txt s Hv E. unfold on_close_frame. rewrite fst_seq. unfold upd at 1. cbn [fst].
  set (s0 := set_remoteReason None (set_remoteCode None s)). assert (E0 : st s0 = CLOSING) by exact E.
  assert (Hr : forall r sx, st sx = CLOSING -> match r with Some x => wf_utf8 x = true | None => True end ->
               wasClean (fst (on_close_reason c r txt sx)) = true).
  { intros r sx Ex Hr. unfold on_close_reason. destruct r as [x|].
    - rewrite Hr. rewrite fst_seq. unfold upd. cbn [fst]. apply dispatch_sets_clean. exact Ex.
    - apply dispatch_sets_clean. exact Ex. }
  destruct body as [[cd r]|]; cbn [body_code body_reason].
  - destruct Hv as [Hc Hrr]. rewrite Hc. rewrite fst_seq. unfold upd at 1. cbn [fst]. apply Hr; [exact E0|exact Hrr].
  - apply Hr; [exact E0|exact I].
Qed.

Definition I_ct (v : bool) (log : list out) (s : cstate) : Prop := wasCloseTO s = v.
Lemma I_ct_core : forall v, core_only (I_ct v).
Proof. unfold core_only, I_ct. intros v log s s' H. rewrite (core_wasCloseTO _ _ H). auto. Qed.
Ltac leaf_ct := intros log s HG HI; unfold I_ct in *; guard_facts; simpl in *; auto.
Lemma peer_close_ct : forall v c body txt, presL (I_ct v) (handle c (EPeerClose body txt)).
Proof. intros v c body txt. pose proof (I_ct_core v) as Hcore. unfold handle. pres_go leaf_ct fail. Qed.

Lemma responsive_close_reply : forall c evs body txt evs2,
  gone (fst (run c evs)) = false -> st (fst (run c evs)) = CLOSING -> rxPartial (fst (run c evs)) = false -> body_valid body ->
  wasCloseTO (fst (run c evs)) = false ->
  wasCloseTO (fst (run c (evs ++ EPeerClose body txt :: evs2))) = false.
Proof.
  intros c evs body txt evs2 Hg Hs Hx Hv Hf.
  replace (evs ++ EPeerClose body txt :: evs2) with ((evs ++ [EPeerClose body txt]) ++ evs2) by (rewrite <- app_assoc; reflexivity).
  apply responsive_close.
  - pose proof (forward_only_run c [EPeerClose body txt] (fst (run c evs)) (snd (run c evs))) as Hfw.
    rewrite run_app. rewrite Hs in Hfw. simpl in Hfw. exact Hfw.
  - rewrite run_app, run_from_cons. simpl. unfold handle, ifS, frames_ready, frames_flow. rewrite Hg, Hs, Hx. simpl.
    rewrite fst_seq. unfold upd. cbn [fst]. apply ocf_valid_clean; [exact Hv|exact Hs].
  - rewrite run_app, run_from_cons. simpl.
    apply (peer_close_ct false c body txt (snd (run c evs)) (fst (run c evs))). exact Hf.
Qed.

(* ================================================================================================ *)
(* a matching pong while a ping is outstanding: the handle of the ping timeout is cancelled and cleared, the ping is no
   longer outstanding, and (interval > 0) the next ping is armed with a fire time <= now + interval *)
Lemma core_pingPending : forall s s', same_core s s' -> pingPending s' = pingPending s.
Proof. intros s s' H. destruct H as (_&_&_&_&_&_&_&_&_&_&_&_&_&_&_&H&_). exact H. Qed.

Lemma responsive_ping_step : forall c s q, frames_ready s = true -> pingPending s = Some q ->
  TI1 (timers s) (now s) ->
  let s' := fst (step c s (EPeerPong true)) in
  pingPending s' = None /\ hPingTO s' = None /\ st s' = st s /\
  (0 < autoPingInterval c -> pendLe TAutoPing (now s + autoPingInterval c) (timers s')).
Proof.
  intros c s q Hf Hq HT. cbv zeta. unfold step, handle, ifS. rewrite Hf. unfold on_pong.
  rewrite fst_seq. assert (Hsay : forall o x, fst (say o x) = x) by reflexivity. rewrite Hsay.
  unfold ifS. rewrite Hq. simpl isSome. simpl andb. cbv iota.
  rewrite !fst_seq. unfold upd. cbn [fst].
  destruct (cancel_slot_eff TAutoPingTO s) as (Et & Ec & _).
  set (sa := fst (cancel_slot TAutoPingTO s)) in *.
  assert (Ha : hPingTO sa = None).
  { unfold sa, cancel_slot. simpl slot_of. destruct (hPingTO s) eqn:E; simpl; [reflexivity|exact E]. }
  assert (TIa : TI1 (timers sa) (now s)).
  { destruct Et as [Et|[id Et]]; rewrite Et; [exact HT|apply TI1_remove; exact HT]. }
  remember (set_pingPending None sa) as sb eqn:Hsb.
  assert (Pb : pingPending sb = None) by (subst sb; reflexivity).
  assert (Hb : hPingTO sb = None) by (subst sb; simpl; exact Ha).
  assert (Sb : st sb = st s) by (subst sb; simpl; apply (core_st _ _ Ec)).
  assert (Nb : now sb = now s) by (subst sb; simpl; apply (core_now _ _ Ec)).
  assert (Tb : timers sb = timers sa) by (subst sb; reflexivity).
  unfold whenM. destruct (0 <? autoPingInterval c) eqn:Ei.
  - destruct (arm_batched_eff TAutoPing (autoPingInterval c) sb) as (Et2 & Ec2 & _).
    split; [rewrite (core_pingPending _ _ Ec2); exact Pb|]. split.
    + unfold arm_batched. simpl. exact Hb.
    + split; [rewrite (core_st _ _ Ec2); exact Sb|]. intros _.
      pose proof (arm_batched_pending TAutoPing (autoPingInterval c) sb) as Hp. rewrite Nb, Tb in Hp. apply Hp. exact TIa.
  - unfold ret. cbn [fst]. repeat split; auto. intro H. apply N.ltb_lt in H. congruence.
Qed.

(* ================================================================================================ *)
(* "any traffic": the end of EVERY data frame -- final or not, first fragment or continuation, delivered in one read or
   in several -- cancels a pending ping timeout and re-arms the ping, when autoPingRestartOnAnyTraffic is set *)
Lemma restart_step : forall c s, isSome (hPingTO s) = true -> autoPingRestartOnAnyTraffic c = true ->
  TI1 (timers s) (now s) ->
  let s' := fst (restart_on_traffic c s) in
  pingPending s' = None /\ hPingTO s' = None /\ st s' = st s /\ now s' = now s /\
  (0 < autoPingInterval c -> pendLe TAutoPing (now s + autoPingInterval c) (timers s')).
Proof.
  intros c s Hto Hr HT. cbv zeta. unfold restart_on_traffic, ifS. rewrite Hto, Hr. simpl andb. cbv iota.
  unfold cancel_auto_ping_timeout. rewrite !fst_seq. unfold upd. cbn [fst].
  destruct (cancel_slot_eff TAutoPingTO s) as (Et & Ec & _).
  set (sa := fst (cancel_slot TAutoPingTO s)) in *.
  assert (Ha : hPingTO sa = None).
  { unfold sa, cancel_slot. simpl slot_of. destruct (hPingTO s) eqn:E; simpl; [reflexivity|exact E]. }
  assert (TIa : TI1 (timers sa) (now s)).
  { destruct Et as [Et|[id Et]]; rewrite Et; [exact HT|apply TI1_remove; exact HT]. }
  remember (set_pingPending None sa) as sb eqn:Hsb.
  assert (Tb : timers sb = timers sa) by (subst sb; reflexivity).
  assert (Nb : now sb = now s) by (subst sb; simpl; apply (core_now _ _ Ec)).
  assert (Sb : st sb = st s) by (subst sb; simpl; apply (core_st _ _ Ec)).
  destruct (cancel_slot_eff TAutoPing sb) as (Et3 & Ec3 & _).
  set (sc := fst (cancel_slot TAutoPing sb)) in *.
  assert (Pc : pingPending sc = None) by (rewrite (core_pingPending _ _ Ec3); subst sb; reflexivity).
  assert (Hc : hPingTO sc = None).
  { unfold sc, cancel_slot. simpl slot_of. destruct (hPing sb) eqn:E; simpl; subst sb; simpl; exact Ha. }
  assert (Nc : now sc = now s) by (rewrite (core_now _ _ Ec3); exact Nb).
  assert (Sc : st sc = st s) by (rewrite (core_st _ _ Ec3); exact Sb).
  assert (TIc : TI1 (timers sc) (now s)).
  { destruct Et3 as [Et3|[id Et3]]; rewrite Et3, Tb; [exact TIa|apply TI1_remove; exact TIa]. }
  unfold whenM. destruct (0 <? autoPingInterval c) eqn:Ei.
  - destruct (arm_batched_eff TAutoPing (autoPingInterval c) sc) as (Et2 & Ec2 & _).
    split; [rewrite (core_pingPending _ _ Ec2); exact Pc|]. split; [unfold arm_batched; simpl; exact Hc|].
    split; [rewrite (core_st _ _ Ec2); exact Sc|]. split; [rewrite (core_now _ _ Ec2); exact Nc|]. intros _.
    pose proof (arm_batched_pending TAutoPing (autoPingInterval c) sc) as Hp. rewrite Nc in Hp. apply Hp. exact TIc.
  - unfold ret. cbn [fst]. repeat split; auto. intro H. apply N.ltb_lt in H. congruence.
Qed.

Lemma any_data_frame_restarts : forall c s cont fin,
  frames_ready s = true -> Bool.eqb cont (inMsg s) = true ->
  isSome (hPingTO s) = true -> autoPingRestartOnAnyTraffic c = true -> TI1 (timers s) (now s) ->
  let s' := fst (step c s (EPeerFrag cont fin)) in
  pingPending s' = None /\ hPingTO s' = None /\
  (0 < autoPingInterval c -> pendLe TAutoPing (now s + autoPingInterval c) (timers s')).
Proof.
  intros c s cont fin Hf Hc Hto Hr HT. cbv zeta. unfold step, handle, ifS. rewrite Hf, Hc. simpl andb. cbv iota.
  unfold data_frame_end. rewrite fst_seq.
  destruct (restart_step c s Hto Hr HT) as (P1 & P2 & _ & _ & P5).
  set (s1 := fst (restart_on_traffic c s)) in *.
  destruct fin.
  - rewrite fst_seq. unfold upd, ifS, ret, say. destruct (failedByMe s1); simpl; auto.
  - unfold upd. simpl. auto.
Qed.

(* the streaming send API outside OPEN: silently ignored, nothing is written *)
Lemma streaming_not_open : forall c s, st s <> OPEN ->
  step c s EBeginMessage = (s, []) /\ step c s ESendFrame = (s, []) /\ step c s EEndMessage = (s, []).
Proof.
  intros c s H. unfold step, handle, begin_message, send_message_frame, end_message, ifS, in_state, ret.
  destruct (st s); simpl; auto. congruence.
Qed.
