(* Batching framing: JSON 0x18 separator and 32-bit length prefix. *)
From Coq Require Import NArith ZArith List Bool Lia.
From AV Require Import Model.WampValue Model.WampSchema Model.WampMsg.
Import ListNotations.
Open Scope list_scope.
Open Scope N_scope.

(* ---------- JSON ---------- *)
Lemma split_sep_app : forall c rest, ~ In sep c -> split_sep (c ++ sep :: rest) = c :: split_sep rest.
Proof.
  induction c as [|b c IH]; intros rest H.
  - simpl. reflexivity.
  - simpl app. cbn [split_sep]. rewrite IH by (intros X; apply H; right; exact X).
    destruct (b =? sep) eqn:E.
    + apply N.eqb_eq in E. exfalso. apply H. left. auto.
    + reflexivity.
Qed.

Lemma batch_json_cons : forall c l, batch_json (c :: l) = c ++ sep :: batch_json l.
Proof. intros. unfold batch_json. simpl. rewrite <- app_assoc. reflexivity. Qed.

Lemma split_sep_batch : forall l, Forall (fun c => ~ In sep c) l -> split_sep (batch_json l) = l ++ [[]].
Proof.
  induction l as [|c l IH]; intros H.
  - reflexivity.
  - inversion H; subst. rewrite batch_json_cons, split_sep_app by auto. rewrite IH by auto. reflexivity.
Qed.

Lemma unbatch_batch_json : forall l, l <> [] -> Forall (fun c => ~ In sep c) l ->
  unbatch_json (batch_json l) = BOk l.
Proof.
  intros l Hne H. unfold unbatch_json. rewrite split_sep_batch by auto. rewrite removelast_last.
  destruct l; [contradiction|reflexivity].
Qed.

Lemma unbatch_json_empty : unbatch_json (batch_json []) = BErr.
Proof. reflexivity. Qed.

(* ---------- 32-bit length prefix ---------- *)
Ltac Zify.zify_post_hook ::= Z.to_euclidean_division_equations.

Lemma de32_be32 : forall n, n < 4294967296 ->
  match be32 n with [a; b; c; d] => de32 a b c d = n | _ => False end.
Proof. intros n H. unfold be32, de32. lia. Qed.

Lemma lenN_app : forall a b, lenN (a ++ b) = lenN a + lenN b.
Proof. intros. unfold lenN. rewrite app_length. lia. Qed.

Lemma firstn_lenN_app : forall (a b : list N), firstn (N.to_nat (lenN a)) (a ++ b) = a.
Proof.
  intros. unfold lenN. rewrite Nat2N.id. rewrite firstn_app, Nat.sub_diag. simpl.
  rewrite firstn_all, app_nil_r. reflexivity.
Qed.

Lemma skipn_lenN_app : forall (a b : list N), skipn (N.to_nat (lenN a)) (a ++ b) = b.
Proof.
  intros. unfold lenN. rewrite Nat2N.id. rewrite skipn_app, Nat.sub_diag, skipn_all. reflexivity.
Qed.

Lemma batch32_cons : forall c l, batch32 (c :: l) = be32 (lenN c) ++ c ++ batch32 l.
Proof. intros. unfold batch32. cbn [map List.concat]. rewrite <- app_assoc. reflexivity. Qed.

Lemma unbatch32_fuel_batch : forall l fuel,
  (List.length l < fuel)%nat ->
  Forall (fun c => lenN c < 4294967296) l ->
  unbatch32_fuel fuel (batch32 l) = BOk l.
Proof.
  induction l as [|c l IH]; intros fuel Hf H.
  - destruct fuel; reflexivity.
  - inversion H as [|? ? Hc Hl]; subst.
    destruct fuel as [|f]; [simpl in Hf; lia|].
    rewrite batch32_cons.
    pose proof (de32_be32 (lenN c) Hc) as D.
    unfold be32 in *. cbn [app].
    cbn [unbatch32_fuel]. rewrite D.
    rewrite lenN_app.
    replace (lenN c + lenN (batch32 l) <? lenN c) with false by (symmetry; apply N.ltb_ge; lia).
    rewrite skipn_lenN_app, firstn_lenN_app.
    rewrite IH; auto. simpl in Hf. lia.
Qed.

Lemma batch32_length : forall l, (List.length l <= List.length (batch32 l))%nat.
Proof.
  induction l as [|c l IH]; [simpl; lia|].
  rewrite batch32_cons. unfold be32. rewrite !app_length. simpl. lia.
Qed.

Lemma unbatch_batch32 : forall l, Forall (fun c => lenN c < 4294967296) l -> unbatch32 (batch32 l) = BOk l.
Proof.
  intros l H. unfold unbatch32. apply unbatch32_fuel_batch; auto.
  pose proof (batch32_length l). lia.
Qed.

(* the fuel of [unbatch32] always suffices *)
Lemma unbatch32_fuel_enough : forall fuel p, (List.length p < fuel)%nat -> unbatch32_fuel fuel p <> BOutOfFuel.
Proof.
  induction fuel as [|f IH]; intros p H; [lia|].
  destruct p as [|a [|b [|c [|d rest]]]]; simpl; try discriminate.
  destruct (lenN rest <? de32 a b c d); [discriminate|].
  assert (X : unbatch32_fuel f (skipn (N.to_nat (de32 a b c d)) rest) <> BOutOfFuel).
  { apply IH. pose proof (skipn_length (N.to_nat (de32 a b c d)) rest). simpl in H. lia. }
  destruct (unbatch32_fuel f (skipn (N.to_nat (de32 a b c d)) rest)); try discriminate. contradiction.
Qed.

Lemma unbatch32_total : forall p, unbatch32 p <> BOutOfFuel.
Proof. intros. apply unbatch32_fuel_enough. lia. Qed.
