(* Lemmas about the connection model, part 5: pending reactor calls and bounded closing (C05_bounded). *)
From Coq Require Import NArith List Bool Lia Arith.
From AV Require Import Gen.WsConnConsts Model.WsConn Proofs.WsConnProofs Proofs.WsConnProofs2 Proofs.WsConnProofs3
  Proofs.WsConnTimers.
Import ListNotations.
Open Scope N_scope.

(* ================================================================================================ *)
(* list level: a call of kind k is pending with fire time <= B *)
Definition has_call (k : tkind) (e : tentry) : bool := existsb (fun c => tkind_eqb (fst c) k) (te_calls e).
Definition pendLe (k : tkind) (B : N) (l : list tentry) : Prop :=
  exists e, In e l /\ has_call k e = true /\ te_time e <= B.

Lemma tkind_eqb_refl : forall k, tkind_eqb k k = true.
Proof. destruct k; reflexivity. Qed.
Lemma tkind_eqb_eq : forall a b, tkind_eqb a b = true -> a = b.
Proof. destruct a, b; simpl; congruence. Qed.

Lemma pendLe_app : forall k B l l', pendLe k B l -> pendLe k B (l ++ l').
Proof. intros k B l l' (e & H1 & H2 & H3). exists e. split; [apply in_or_app; auto|auto]. Qed.

Lemma pendLe_bucket_add : forall k B rt tnow call l, pendLe k B l -> pendLe k B (bucket_add rt tnow call l).
Proof.
  intros k B rt tnow call l. induction l as [|e0 r IH]; intros (e & H1 & H2 & H3).
  - destruct H1.
  - simpl. destruct (key_is rt e0) eqn:E.
    + destruct H1 as [H1|H1].
      * subst e. exists (mkT (te_time e0) (te_key e0) (te_calls e0 ++ [call])). split; [left; reflexivity|]. split; [|exact H3].
        unfold has_call in *. simpl. rewrite existsb_app, H2. reflexivity.
      * exists e. split; [right; exact H1|auto].
    + destruct H1 as [H1|H1].
      * subst e. exists e0. split; [left; reflexivity|auto].
      * destruct (IH (ex_intro _ e (conj H1 (conj H2 H3)))) as (e' & G1 & G2 & G3).
        exists e'. split; [right; exact G1|auto].
Qed.

Lemma call_is_kind : forall k id c, call_is k id c = true -> fst c = k.
Proof. intros k id c H. unfold call_is in H. apply andb_prop in H. destruct H as [H _]. apply tkind_eqb_eq. exact H. Qed.

Lemma has_call_filter_other : forall k k' id cs, k <> k' ->
  existsb (fun c => tkind_eqb (fst c) k) cs = true ->
  existsb (fun c => tkind_eqb (fst c) k) (filter (fun c => negb (call_is k' id c)) cs) = true.
Proof.
  intros k k' id cs Hne. induction cs as [|c cs IH]; simpl; intro H; [exact H|].
  apply orb_prop in H. destruct H as [H|H].
  - assert (E : call_is k' id c = false).
    { destruct (call_is k' id c) eqn:E; [|reflexivity]. apply call_is_kind in E. apply tkind_eqb_eq in H. congruence. }
    rewrite E. simpl. rewrite H. reflexivity.
  - destruct (negb (call_is k' id c)); simpl; [rewrite (IH H); apply orb_true_r | apply IH; exact H].
Qed.

Lemma pendLe_remove_other : forall k k' id B l, k <> k' -> pendLe k B l -> pendLe k B (remove_call k' id l).
Proof.
  intros k k' id B l Hne. induction l as [|e0 r IH]; intros (e & H1 & H2 & H3).
  - destruct H1.
  - simpl. destruct (existsb (call_is k' id) (te_calls e0)) eqn:E.
    + destruct H1 as [H1|H1].
      * subst e. pose proof (has_call_filter_other k k' id (te_calls e0) Hne H2) as Hf.
        destruct (filter (fun c => negb (call_is k' id c)) (te_calls e0)) as [|c cs] eqn:Ef.
        { simpl in Hf. discriminate. }
        exists (mkT (te_time e0) (te_key e0) (c :: cs)). split; [left; reflexivity|]. split; [exact Hf|exact H3].
      * destruct (filter (fun c => negb (call_is k' id c)) (te_calls e0)); exists e; (split; [|auto]); [exact H1|right; exact H1].
    + destruct H1 as [H1|H1].
      * subst e. exists e0. split; [left; reflexivity|auto].
      * destruct (IH (ex_intro _ e (conj H1 (conj H2 H3)))) as (e' & G1 & G2 & G3).
        exists e'. split; [right; exact G1|auto].
Qed.

(* buckets never lie after max(now, real_time) *)
Definition bucket_ok (n : N) (e : tentry) : Prop :=
  match te_key e with Some rt => te_time e <= N.max n rt | None => True end.
Definition TI1 (l : list tentry) (n : N) : Prop := Forall (bucket_ok n) l.

Lemma TI1_mono : forall l n n', n <= n' -> TI1 l n -> TI1 l n'.
Proof.
  intros l n n' Hle H. unfold TI1 in *. eapply Forall_impl; [|exact H].
  intros e He. unfold bucket_ok in *. destruct (te_key e); [lia|exact I].
Qed.

Lemma TI1_bucket_add : forall rt n call l, TI1 l n -> TI1 (bucket_add rt n call l) n.
Proof.
  intros rt n call l. induction l as [|e0 r IH]; intro H; simpl.
  - constructor; [|constructor]. unfold bucket_ok. simpl. lia.
  - inversion H; subst. destruct (key_is rt e0).
    + constructor; [|assumption]. unfold bucket_ok in *. simpl. exact H2.
    + constructor; [assumption|]. apply IH. assumption.
Qed.

Lemma TI1_app_exact : forall l n F cs, TI1 l n -> TI1 (l ++ [mkT F None cs]) n.
Proof.
  intros. unfold TI1. apply Forall_app. split; [assumption|]. constructor; [|constructor]. unfold bucket_ok. simpl. exact I.
Qed.

Lemma TI1_remove : forall k id l n, TI1 l n -> TI1 (remove_call k id l) n.
Proof.
  intros k id l n. induction l as [|e0 r IH]; intro H; simpl; [constructor|].
  inversion H; subst. destruct (existsb (call_is k id) (te_calls e0)).
  - destruct (filter (fun c => negb (call_is k id c)) (te_calls e0)); [assumption|].
    constructor; [|assumption]. unfold bucket_ok in *. simpl. exact H2.
  - constructor; [assumption|]. apply IH. assumption.
Qed.

Lemma pop_at_spec : forall m l e rest, pop_at m l = Some (e, rest) ->
  In e l /\ te_time e = m /\ (forall x, In x l -> x = e \/ In x rest) /\ (forall x, In x rest -> In x l).
Proof.
  intros m l. induction l as [|e0 r IH]; intros e rest H; simpl in H; [discriminate|].
  destruct (te_time e0 =? m) eqn:E.
  - inversion H; subst. apply N.eqb_eq in E. split; [left; reflexivity|]. split; [exact E|].
    split; intros x Hx; [destruct Hx; auto | right; exact Hx].
  - destruct (pop_at m r) as [[x r']|] eqn:Ep; [|discriminate]. inversion H; subst.
    destruct (IH e r' eq_refl) as (G1 & G2 & G3 & G4).
    split; [right; exact G1|]. split; [exact G2|]. split; intros y Hy.
    + destruct Hy as [Hy|Hy]; [right; left; exact Hy|]. destruct (G3 y Hy); [left; assumption|right; right; assumption].
    + destruct Hy as [Hy|Hy]; [left; exact Hy|right; apply G4; exact Hy].
Qed.

Lemma pick_due_spec : forall t l e rest, pick_due t l = Some (e, rest) ->
  In e l /\ te_time e <= t /\ (forall x, In x l -> x = e \/ In x rest) /\ (forall x, In x rest -> In x l).
Proof.
  intros t l e rest H. unfold pick_due in H. destruct (min_time l) as [m|]; [|discriminate].
  destruct (m <=? t) eqn:E; [|discriminate]. apply N.leb_le in E.
  destruct (pop_at_spec m l e rest H) as (G1 & G2 & G3 & G4). repeat split; auto. lia.
Qed.

Lemma TI1_sub : forall l l' n, (forall x, In x l' -> In x l) -> TI1 l n -> TI1 l' n.
Proof. intros l l' n Hs H. unfold TI1 in *. rewrite Forall_forall in *. auto. Qed.

(* a fresh call *)
Lemma pendLe_bucket_new : forall k id rt tnow B l, TI1 l tnow -> N.max tnow rt <= B ->
  pendLe k B (bucket_add rt tnow (k, id) l).
Proof.
  intros k id rt tnow B l. induction l as [|e0 r IH]; intros HT HB; simpl.
  - exists (mkT (N.max tnow rt) (Some rt) [(k, id)]). split; [left; reflexivity|]. split; [|simpl; exact HB].
    unfold has_call. simpl. rewrite tkind_eqb_refl. reflexivity.
  - inversion HT; subst. destruct (key_is rt e0) eqn:E.
    + exists (mkT (te_time e0) (te_key e0) (te_calls e0 ++ [(k, id)])). split; [left; reflexivity|]. split.
      * unfold has_call. simpl. rewrite existsb_app. simpl. rewrite tkind_eqb_refl. rewrite orb_true_r. reflexivity.
      * simpl. unfold key_is in E. unfold bucket_ok in H1. destruct (te_key e0) as [k0|]; [|discriminate].
        apply N.eqb_eq in E. subst k0. lia.
    + destruct (IH H2 HB) as (e' & G1 & G2 & G3). exists e'. split; [right; exact G1|auto].
Qed.

Lemma pendLe_exact_new : forall k id F B l, F <= B -> pendLe k B (l ++ [mkT F None [(k, id)]]).
Proof.
  intros. exists (mkT F None [(k, id)]). split; [apply in_or_app; right; left; reflexivity|]. split; [|simpl; assumption].
  unfold has_call. simpl. rewrite tkind_eqb_refl. reflexivity.
Qed.

(* ================================================================================================ *)
(* state level *)
Lemma arm_batched_eff : forall k d s,
  timers (fst (arm_batched k d s)) = bucket_add (quant (now s + d)) (now s) (k, nextId s) (timers s)
  /\ same_core s (fst (arm_batched k d s)) /\ snd (arm_batched k d s) = [].
Proof.
  intros. split; [|apply arm_batched_core]. unfold arm_batched. destruct k; reflexivity.
Qed.
Lemma arm_exact_eff : forall k d s,
  timers (fst (arm_exact k d s)) = timers s ++ [mkT (now s + d) None [(k, nextId s)]]
  /\ same_core s (fst (arm_exact k d s)) /\ snd (arm_exact k d s) = [].
Proof.
  intros. split; [|apply arm_exact_core]. unfold arm_exact. destruct k; reflexivity.
Qed.
Lemma cancel_slot_eff : forall k s,
  (timers (fst (cancel_slot k s)) = timers s \/ exists id, timers (fst (cancel_slot k s)) = remove_call k id (timers s))
  /\ same_core s (fst (cancel_slot k s)) /\ snd (cancel_slot k s) = [].
Proof.
  intros. split; [|apply cancel_slot_core]. unfold cancel_slot. destruct (slot_of k s) as [id|]; simpl.
  - right. exists id. destruct k; reflexivity.
  - left. reflexivity.
Qed.

Lemma core_now : forall s s', same_core s s' -> now s' = now s.
Proof. intros s s' H. destruct H as (_ & H & _). exact H. Qed.
Lemma core_st : forall s s', same_core s s' -> st s' = st s.
Proof. intros s s' H. destruct H as (H & _). exact H. Qed.

(* --- I_ti1 --- *)
Definition I_ti1 (log : list out) (s : cstate) : Prop := TI1 (timers s) (now s).

Lemma arm_batched_ti1 : forall k d, presL I_ti1 (arm_batched k d).
Proof.
  intros k d log s H. destruct (arm_batched_eff k d s) as (Et & Ec & Eo). unfold I_ti1 in *.
  rewrite Et, (core_now _ _ Ec). apply TI1_bucket_add. exact H.
Qed.
Lemma arm_exact_ti1 : forall k d, presL I_ti1 (arm_exact k d).
Proof.
  intros k d log s H. destruct (arm_exact_eff k d s) as (Et & Ec & Eo). unfold I_ti1 in *.
  rewrite Et, (core_now _ _ Ec). apply TI1_app_exact. exact H.
Qed.
Lemma cancel_slot_ti1 : forall k, presL I_ti1 (cancel_slot k).
Proof.
  intros k log s H. destruct (cancel_slot_eff k s) as (Et & Ec & Eo). unfold I_ti1 in *.
  rewrite (core_now _ _ Ec). destruct Et as [Et|[id Et]]; rewrite Et; [exact H|apply TI1_remove; exact H].
Qed.

Ltac blocks_ti1 := idtac;
  match goal with
  | |- presG _ _ (arm_batched _ _) => apply presG_weaken; apply arm_batched_ti1
  | |- presG _ _ (arm_exact _ _) => apply presG_weaken; apply arm_exact_ti1
  | |- presG _ _ (cancel_slot _) => apply presG_weaken; apply cancel_slot_ti1
  end.
Ltac leaf_ti1 := intros log s HG HI; unfold I_ti1 in *; guard_facts; simpl in *; auto.

Lemma on_timer_ti1 : forall c k, presL I_ti1 (on_timer c k).
Proof. intros c k. destruct k; unfold on_timer; pres_go leaf_ti1 blocks_ti1. Qed.

(* the reactor loop with the popped entry known *)
Lemma presL_fire_loop' : forall (I : list out -> cstate -> Prop) c t,
  (forall k, presL I (on_timer c k)) ->
  (forall log s e rest, pick_due t (timers s) = Some (e, rest) -> I log s ->
     I log (set_now (N.max (now s) (te_time e)) (set_timers rest s))) ->
  forall fuel, presL I (fire_loop fuel c t).
Proof.
  intros I c t Hk Ht fuel. induction fuel as [|f IH]; simpl.
  - apply presL_ret.
  - intros log s H. unfold bindS. destruct (pick_due t (timers s)) as [[e rest]|] eqn:E.
    + (* the first update is applied to s itself *)
      rewrite snd_seq, fst_seq. unfold upd at 1 2 3. cbn [fst snd app].
      specialize (Ht log s e rest E H).
      assert (P2 : presL I (run_calls c (te_calls e) ;; fire_loop f c t))
        by (apply presL_seq; [apply presL_run_calls; assumption | exact IH]).
      exact (P2 log _ Ht).
    + unfold ret. simpl. rewrite app_nil_r. exact H.
Qed.

Lemma presL_tick' : forall (I : list out -> cstate -> Prop) c t,
  (forall k, presL I (on_timer c k)) ->
  (forall log s e rest, pick_due t (timers s) = Some (e, rest) -> I log s ->
     I log (set_now (N.max (now s) (te_time e)) (set_timers rest s))) ->
  (forall log s, I log s -> I log (set_now (N.max (now s) t) s)) ->
  presL I (tick c t).
Proof.
  intros I c t Hk Ht Hn. unfold tick. apply presL_seq.
  - apply presL_bindS. intro. apply presL_fire_loop'; assumption.
  - apply presL_upd. exact Hn.
Qed.

Lemma tick_ti1 : forall c t, presL I_ti1 (tick c t).
Proof.
  intros c t. apply presL_tick'; [apply on_timer_ti1| |].
  - intros log s e rest E H. unfold I_ti1 in *. simpl.
    destruct (pick_due_spec t _ e rest E) as (_ & _ & _ & G4).
    apply TI1_mono with (n := now s); [lia|]. eapply TI1_sub; eauto.
  - intros log s H. unfold I_ti1 in *. simpl. replace (timers (set_now (N.max (now s) t) s)) with (timers s) by (destruct s; reflexivity).
    apply TI1_mono with (n := now s); [lia|exact H].
Qed.

Lemma step_ti1 : forall c e, presL I_ti1 (handle c e).
Proof.
  intros c e. destruct e; unfold handle; try apply tick_ti1; pres_go leaf_ti1 blocks_ti1.
Qed.

(* --- a pending call stays pending unless it is cancelled or fired --- *)
Definition I_pend (k : tkind) (B : N) (log : list out) (s : cstate) : Prop := pendLe k B (timers s).

Lemma arm_batched_pend : forall k B k' d, presL (I_pend k B) (arm_batched k' d).
Proof.
  intros k B k' d log s H. destruct (arm_batched_eff k' d s) as (Et & _ & _). unfold I_pend in *.
  rewrite Et. apply pendLe_bucket_add. exact H.
Qed.
Lemma arm_exact_pend : forall k B k' d, presL (I_pend k B) (arm_exact k' d).
Proof.
  intros k B k' d log s H. destruct (arm_exact_eff k' d s) as (Et & _ & _). unfold I_pend in *.
  rewrite Et. apply pendLe_app. exact H.
Qed.
Lemma cancel_slot_pend : forall k B k', k <> k' -> presL (I_pend k B) (cancel_slot k').
Proof.
  intros k B k' Hne log s H. destruct (cancel_slot_eff k' s) as (Et & _ & _). unfold I_pend in *.
  destruct Et as [Et|[id Et]]; rewrite Et; [exact H|apply pendLe_remove_other; assumption].
Qed.

Ltac blocks_pend := idtac;
  match goal with
  | |- presG _ _ (arm_batched _ _) => apply presG_weaken; apply arm_batched_pend
  | |- presG _ _ (arm_exact _ _) => apply presG_weaken; apply arm_exact_pend
  | |- presG _ _ (cancel_slot _) => apply presG_weaken; apply cancel_slot_pend; discriminate
  end.
Ltac leaf_pend := intros log s HG HI; unfold I_pend in *; guard_facts; simpl in *; auto.

Lemma on_timer_pend : forall k B c k', presL (I_pend k B) (on_timer c k').
Proof. intros k B c k'. destruct k'; unfold on_timer; pres_go leaf_pend blocks_pend. Qed.

(* --- no reactor call is overdue (what a fair reactor guarantees between events) --- *)
Definition no_overdue (s : cstate) : Prop := Forall (fun e => now s <= te_time e) (timers s).
Definition I_no (log : list out) (s : cstate) : Prop := no_overdue s.

Lemma NO_bucket_add : forall rt n call l,
  Forall (fun e => n <= te_time e) l -> Forall (fun e => n <= te_time e) (bucket_add rt n call l).
Proof.
  intros rt n call l. induction l as [|e0 r IH]; intro H; simpl.
  - constructor; [simpl; lia|constructor].
  - inversion H; subst. destruct (key_is rt e0); constructor; auto.
Qed.
Lemma NO_remove : forall k id n l,
  Forall (fun e => n <= te_time e) l -> Forall (fun e => n <= te_time e) (remove_call k id l).
Proof.
  intros k id n l. induction l as [|e0 r IH]; intro H; simpl; [constructor|].
  inversion H; subst. destruct (existsb (call_is k id) (te_calls e0)).
  - destruct (filter (fun c => negb (call_is k id c)) (te_calls e0)); [assumption|constructor; auto].
  - constructor; auto.
Qed.

Lemma arm_batched_no : forall k d, presL I_no (arm_batched k d).
Proof.
  intros k d log s H. destruct (arm_batched_eff k d s) as (Et & Ec & _). unfold I_no, no_overdue in *.
  rewrite Et, (core_now _ _ Ec). apply NO_bucket_add. exact H.
Qed.
Lemma arm_exact_no : forall k d, presL I_no (arm_exact k d).
Proof.
  intros k d log s H. destruct (arm_exact_eff k d s) as (Et & Ec & _). unfold I_no, no_overdue in *.
  rewrite Et, (core_now _ _ Ec). apply Forall_app. split; [exact H|]. constructor; [simpl; lia|constructor].
Qed.
Lemma cancel_slot_no : forall k, presL I_no (cancel_slot k).
Proof.
  intros k log s H. destruct (cancel_slot_eff k s) as (Et & Ec & _). unfold I_no, no_overdue in *.
  rewrite (core_now _ _ Ec). destruct Et as [Et|[id Et]]; rewrite Et; [exact H|apply NO_remove; exact H].
Qed.
Ltac blocks_no := idtac;
  match goal with
  | |- presG _ _ (arm_batched _ _) => apply presG_weaken; apply arm_batched_no
  | |- presG _ _ (arm_exact _ _) => apply presG_weaken; apply arm_exact_no
  | |- presG _ _ (cancel_slot _) => apply presG_weaken; apply cancel_slot_no
  | |- presL _ (tick _ _) => fail 1
  end.
Ltac leaf_no := intros log s HG HI; unfold I_no, no_overdue in *; guard_facts; simpl in *; auto.

(* every event except the clock itself keeps the reactor's calls on time *)
Lemma step_no : forall c e, (forall t, e <> ETick t) -> presL I_no (handle c e).
Proof.
  intros c e Hne. destruct e; unfold handle; try (exfalso; eapply Hne; reflexivity); pres_go leaf_no blocks_no.
Qed.

Lemma init_st : forall c, st (init c) = CONNECTING.
Proof. intros c. rewrite (core_st _ _ (init_core c)). reflexivity. Qed.
Lemma I_ti1_init : forall c, TI1 (timers (init c)) (now (init c)).
Proof.
  intros c. unfold init, whenM. destruct (0 <? openHandshakeTimeout c).
  - apply (arm_batched_ti1 TOpenHS (openHandshakeTimeout c) [] (init0 c)). unfold I_ti1. simpl. constructor.
  - simpl. constructor.
Qed.

(* ================================================================================================ *)
(* the closing invariant: in CLOSING a close-handshake or a server-drop call is pending, due by the bound *)
Section Closing.
Variable c : cfg.
Hypothesis Hclose : 0 < closeHandshakeTimeout c.
Hypothesis Hdrop : is_server c = false -> 0 < serverConnectionDropTimeout c.

Definition closing_ok (s : cstate) : Prop :=
  st s = CLOSING ->
  exists tc, closingSince s = Some tc /\
    (pendLe TCloseHS (tc + closeHandshakeTimeout c) (timers s) \/
     (is_server c = false /\ pendLe TServerDrop (tc + closeHandshakeTimeout c + serverConnectionDropTimeout c) (timers s))).

Definition I_ci (log : list out) (s : cstate) : Prop := TI1 (timers s) (now s) /\ closing_ok s /\ no_overdue s.

Lemma closing_ok_core : forall s s', same_core s s' -> timers s' = timers s -> closing_ok s -> closing_ok s'.
Proof.
  intros s s' Hc Ht H. unfold closing_ok in *. rewrite Ht, (core_st _ _ Hc).
  destruct Hc as (_&_&_&_&_&_&_&_&_&_&_&_&_&_&_&_&_&E18&_). rewrite E18. exact H.
Qed.

(* arming / cancelling calls of the kinds that do not matter here *)
Lemma arm_batched_ci : forall k d, presL I_ci (arm_batched k d).
Proof.
  intros k d log s (H1 & H2 & H3).
  split; [apply (arm_batched_ti1 k d log s H1)|]. split; [|apply (arm_batched_no k d log s H3)].
  destruct (arm_batched_eff k d s) as (Et & Ec & _).
  unfold closing_ok in *. rewrite (core_st _ _ Ec). intro Hs. destruct (H2 Hs) as (tc & E & Hp).
  exists tc. destruct Ec as (_&_&_&_&_&_&_&_&_&_&_&_&_&_&_&_&_&E18&_). rewrite E18. split; [exact E|].
  rewrite Et. destruct Hp as [Hp|[Hr Hp]]; [left|right; split; [exact Hr|]]; apply pendLe_bucket_add; exact Hp.
Qed.
Lemma cancel_slot_ci : forall k, k <> TCloseHS -> k <> TServerDrop -> presL I_ci (cancel_slot k).
Proof.
  intros k N1 N2 log s (H1 & H2 & H3).
  split; [apply (cancel_slot_ti1 k log s H1)|]. split; [|apply (cancel_slot_no k log s H3)].
  destruct (cancel_slot_eff k s) as (Et & Ec & _).
  unfold closing_ok in *. rewrite (core_st _ _ Ec). intro Hs. destruct (H2 Hs) as (tc & E & Hp).
  exists tc. destruct Ec as (_&_&_&_&_&_&_&_&_&_&_&_&_&_&_&_&_&E18&_). rewrite E18. split; [exact E|].
  destruct Et as [Et|[id Et]]; rewrite Et; [exact Hp|].
  destruct Hp as [Hp|[Hr Hp]]; [left|right; split; [exact Hr|]]; apply pendLe_remove_other; auto.
Qed.

(* sendCloseFrame(isReply=False): CLOSING begins, the close-handshake call is armed *)
Lemma send_close_frame_ci : forall o code reason, presL I_ci (send_close_frame c o code reason false).
Proof.
  intros o code reason log s (H1 & H2 & H3). unfold send_close_frame, bindS.
  destruct (st s) eqn:E.
  - unfold say. simpl. unfold I_ci. auto.
  - (* OPEN *)
    apply N.ltb_lt in Hclose. simpl negb. simpl andb. rewrite Hclose. unfold whenM.
    rewrite snd_seq, fst_seq. unfold emit_and at 1 2 3. cbn [fst snd].
    match goal with |- context[arm_batched _ _ ?x] => set (s1 := x) end.
    destruct (arm_batched_eff TCloseHS (closeHandshakeTimeout c) s1) as (Et & Ec & Eo).
    assert (N1 : now s1 = now s) by reflexivity. assert (T1 : timers s1 = timers s) by reflexivity.
    unfold I_ci.
    split; [|split].
    + rewrite Et, (core_now _ _ Ec), N1, T1. apply TI1_bucket_add. exact H1.
    + unfold closing_ok. intros _. exists (now s). split.
      * destruct Ec as (_&_&_&_&_&_&_&_&_&_&_&_&_&_&_&_&_&E18&_). rewrite E18. reflexivity.
      * left. rewrite Et, N1, T1. apply pendLe_bucket_new; [exact H1|].
        pose proof (quant_bounds (now s + closeHandshakeTimeout c)). lia.
    + unfold no_overdue in *. rewrite Et, (core_now _ _ Ec), N1, T1. apply NO_bucket_add. exact H3.
  - unfold ret. simpl. rewrite app_nil_r. unfold I_ci. auto.
  - unfold ret. simpl. rewrite app_nil_r. unfold I_ci. auto.
Qed.

Lemma send_close_frame_reply_open : forall o code reason s, st s = OPEN ->
  send_close_frame c o code reason true s =
  (set_closingSince (Some (now s)) (set_localReason reason (set_localCode code (set_closedByMe false (set_st CLOSING s)))),
   [(now s, WClose o code reason)]).
Proof.
  intros o code reason s E. unfold send_close_frame, bindS. rewrite E. unfold seqM, emit_and, whenM. simpl. reflexivity.
Qed.

Lemma drop_connection_eff : forall abort s, st s <> CLOSED ->
  fst (drop_connection abort s) = set_st CLOSED (set_droppedByMe true s).
Proof.
  intros abort s H. unfold drop_connection, ifS, in_state, seqM, upd, say.
  destruct (wstate_eqb (st s) CLOSED) eqn:E; [|reflexivity]. exfalso. apply H. destruct (st s); simpl in E; congruence.
Qed.

(* the state dispatch of onCloseFrame *)
Lemma dispatch_ci : presL I_ci (on_close_dispatch c).
Proof.
  intros log s (H1 & H2 & H3). unfold on_close_dispatch, bindS. destruct (st s) eqn:E.
  - unfold ret. simpl. rewrite app_nil_r. unfold I_ci. auto.
  - (* OPEN: reply *)
    set (sa := set_wasClean true s).
    assert (Ea : st sa = OPEN) by exact E.
    assert (Hrep : forall code reason, exists o1,
               (send_close_frame c OReply code reason true sa) =
               (set_closingSince (Some (now s)) (set_localReason reason (set_localCode code (set_closedByMe false (set_st CLOSING sa)))), o1)).
    { intros. eexists. apply (send_close_frame_reply_open OReply code reason sa Ea). }
    unfold I_ci. rewrite !fst_seq. unfold upd. cbn [fst snd]. fold sa.
    assert (G : forall sb, st sb = CLOSING -> closingSince sb = Some (now s) -> timers sb = timers s -> now sb = now s ->
              let r := (if is_server c then drop_connection false
                        else whenM (0 <? serverConnectionDropTimeout c) (arm_exact TServerDrop (serverConnectionDropTimeout c))) sb in
              TI1 (timers (fst r)) (now (fst r)) /\ closing_ok (fst r) /\ no_overdue (fst r)).
    { intros sb Sb Cb Tb Nb. cbv zeta. destruct (is_server c) eqn:Es.
      - rewrite drop_connection_eff by congruence. simpl. rewrite Tb, Nb.
        split; [exact H1|]. split; [|unfold no_overdue; simpl; rewrite Tb, Nb; exact H3].
        unfold closing_ok. simpl. discriminate.
      - pose proof (Hdrop eq_refl) as Hd. apply N.ltb_lt in Hd. rewrite Hd. unfold whenM.
        destruct (arm_exact_eff TServerDrop (serverConnectionDropTimeout c) sb) as (Et & Ec & _).
        split; [|split].
        + rewrite Et, (core_now _ _ Ec), Tb, Nb. apply TI1_app_exact. exact H1.
        + unfold closing_ok. intros _. exists (now s). split.
          * destruct Ec as (_&_&_&_&_&_&_&_&_&_&_&_&_&_&_&_&_&E18&_). rewrite E18. exact Cb.
          * right. split; [exact Es|]. rewrite Et, Nb. apply pendLe_exact_new. lia.
        + unfold no_overdue in *. rewrite Et, (core_now _ _ Ec), Tb, Nb. apply Forall_app. split; [exact H3|].
          constructor; [simpl; lia|constructor]. }
    destruct (echoCloseCodeReason c).
    + unfold bindS. destruct (Hrep (remoteCode sa) (truncate_opt (remoteReason sa))) as [o1 Er]. rewrite Er. cbn [fst].
      apply G; reflexivity.
    + destruct (Hrep (Some code_normal) None) as [o1 Er]. rewrite Er. cbn [fst]. apply G; reflexivity.
  - (* CLOSING: the peer's reply *)
    unfold I_ci. rewrite !fst_seq. unfold upd. cbn [fst].
    destruct (cancel_slot_eff TCloseHS s) as (Et & Ec & _).
    set (sa := fst (cancel_slot TCloseHS s)) in *.
    assert (Sb : st (set_wasClean true sa) = CLOSING) by (simpl; rewrite (core_st _ _ Ec); exact E).
    assert (Nb : now (set_wasClean true sa) = now s) by (simpl; apply (core_now _ _ Ec)).
    assert (Tb : timers (set_wasClean true sa) = timers sa) by reflexivity.
    assert (Cb : closingSince (set_wasClean true sa) = closingSince s).
    { simpl. destruct Ec as (_&_&_&_&_&_&_&_&_&_&_&_&_&_&_&_&_&E18&_). exact E18. }
    remember (set_wasClean true sa) as sb eqn:Hsb.
    assert (TIb : TI1 (timers sb) (now s)).
    { rewrite Tb. destruct Et as [Et|[id Et]]; rewrite Et; [exact H1|apply TI1_remove; exact H1]. }
    assert (NOb : Forall (fun e => now s <= te_time e) (timers sb)).
    { rewrite Tb. destruct Et as [Et|[id Et]]; rewrite Et; [exact H3|apply NO_remove; exact H3]. }
    destruct (is_server c) eqn:Es.
    + rewrite drop_connection_eff by congruence. simpl.
      split; [rewrite Nb; exact TIb|]. split; [unfold closing_ok; simpl; discriminate|].
      unfold no_overdue. simpl. rewrite Nb. exact NOb.
    + pose proof (Hdrop eq_refl) as Hd. apply N.ltb_lt in Hd. rewrite Hd. unfold whenM.
      destruct (arm_exact_eff TServerDrop (serverConnectionDropTimeout c) sb) as (Et2 & Ec2 & _).
      split; [|split].
      * rewrite Et2, (core_now _ _ Ec2), Nb. apply TI1_app_exact. exact TIb.
      * unfold closing_ok. intros _. destruct (H2 E) as (tc & Ecs & Hp). exists tc. split.
        { destruct Ec2 as (_&_&_&_&_&_&_&_&_&_&_&_&_&_&_&_&_&E18&_). rewrite E18, Cb. exact Ecs. }
        right. split; [exact Es|]. rewrite Et2. destruct Hp as [Hp|[_ Hp]].
        { (* the close-handshake call was still pending, hence not overdue: the reply came in time *)
          destruct Hp as (e & He1 & He2 & He3).
          unfold no_overdue in H3. rewrite Forall_forall in H3. specialize (H3 e He1).
          apply pendLe_exact_new. rewrite Nb. lia. }
        { apply pendLe_app. rewrite Tb. destruct Et as [Et|[id Et]]; rewrite Et; [exact Hp|].
          apply pendLe_remove_other; [discriminate|exact Hp]. }
      * unfold no_overdue. rewrite Et2, (core_now _ _ Ec2), Nb. apply Forall_app. split; [exact NOb|].
        constructor; [simpl; lia|constructor].
  - unfold upd. simpl. rewrite app_nil_r. unfold I_ci. split; [exact H1|]. split; [|exact H3].
    unfold closing_ok in *. simpl. exact H2.
Qed.


(* _connectionLost ends in CLOSED *)
Lemma lost_final_st : forall s, st (fst (lost_final s)) = st s.
Proof.
  intros s. unfold lost_final, ifS, bindS, emit_and, seqM, upd, ret.
  destruct (wasClean s); simpl; [reflexivity|]. destruct (negb (droppedByMe s) && _); reflexivity.
Qed.
Lemma conn_lost_closed : forall s, st (fst (conn_lost c s)) = CLOSED.
Proof.
  intros s. unfold conn_lost. fold lost_final. fold lost_closed.
  do 4 (apply seq_post; intro). rewrite fst_seq. rewrite lost_final_st. apply lost_closed_st.
Qed.
Lemma conn_lost_ti1 : presL I_ti1 (conn_lost c).
Proof. unfold conn_lost. pres_go leaf_ti1 blocks_ti1. Qed.
Lemma conn_lost_no : presL I_no (conn_lost c).
Proof. unfold conn_lost. pres_go leaf_no blocks_no. Qed.
Lemma conn_lost_ci : presL I_ci (conn_lost c).
Proof.
  intros log s (H1 & H2 & H3). split; [apply (conn_lost_ti1 log s H1)|]. split; [|apply (conn_lost_no log s H3)].
  unfold closing_ok. rewrite conn_lost_closed. discriminate.
Qed.

Ltac leaf_ci :=
  intros log s HG HI; unfold I_ci, closing_ok, no_overdue in *; guard_facts; simpl in *;
  try solve [ intuition (try discriminate; try congruence) ].

Ltac blocks_ci := idtac;
  match goal with
  | |- presG _ _ (send_close_frame _ _ _ _ false) => apply presG_weaken; apply send_close_frame_ci
  | |- presG _ _ (on_close_dispatch _) => apply presG_weaken; apply dispatch_ci
  | |- presG _ _ (conn_lost _) => apply presG_weaken; apply conn_lost_ci
  | |- presG _ _ (arm_batched _ _) => apply presG_weaken; apply arm_batched_ci
  | |- presG _ _ (cancel_slot _) => apply presG_weaken; apply cancel_slot_ci; discriminate
  end.

Lemma step_ci : forall e, (forall t, e <> ETick t) -> presL I_ci (handle c e).
Proof.
  intros e Hne. destruct e; unfold handle; try (exfalso; eapply Hne; reflexivity); pres_go leaf_ci blocks_ci.
Qed.


(* --- the clock: a timeout handler of a pending close-handshake / server-drop call closes the connection --- *)
Lemma on_timer_closes : forall k s, (k = TCloseHS \/ k = TServerDrop) -> st (fst (on_timer c k s)) = CLOSED.
Proof.
  intros k s [Hk|Hk]; subst k; unfold on_timer, seqM, upd, ifS, in_state, ret, drop_connection, ifS, in_state, seqM, upd, say, ret;
    simpl; destruct (wstate_eqb (st s) CLOSED) eqn:E; simpl; try rewrite E; simpl; try reflexivity;
    destruct (st s); simpl in E; congruence.
Qed.

Lemma run_calls_rank3 : forall calls, presL (I_rank 3) (run_calls c calls).
Proof. intro. apply presL_run_calls. intro. apply on_timer_rank. Qed.

Lemma closed_of_rank3 : forall s, (3 <= rank (st s))%nat -> st s = CLOSED.
Proof. intros s H. destruct (st s); simpl in H; try lia. reflexivity. Qed.

Lemma run_calls_closes : forall calls k id s, In (k, id) calls -> (k = TCloseHS \/ k = TServerDrop) ->
  st (fst (run_calls c calls s)) = CLOSED.
Proof.
  induction calls as [|[k0 id0] r IH]; intros k id s Hin Hk; [destruct Hin|].
  simpl run_calls. rewrite fst_seq. destruct Hin as [Hin|Hin].
  - inversion Hin; subst. apply closed_of_rank3.
    apply (run_calls_rank3 r [] (fst (on_timer c k s))). unfold I_rank. rewrite (on_timer_closes k s Hk). simpl. lia.
  - eapply IH; eauto.
Qed.

(* timeout handlers never begin a closing handshake, never touch closingSince *)
Definition I_nc (log : list out) (s : cstate) : Prop := st s <> CLOSING.
Lemma I_nc_core : core_only I_nc.
Proof. unfold core_only, I_nc. intros log s s' H. rewrite (core_st _ _ H). auto. Qed.
Ltac leaf_nc := intros log s HG HI; unfold I_nc in *; guard_facts; simpl in *; try congruence; try discriminate; auto.
Lemma on_timer_nc : forall k, presL I_nc (on_timer c k).
Proof. intros k. pose proof I_nc_core as Hcore. destruct k; unfold on_timer; pres_go leaf_nc fail. Qed.

Definition I_cs (v : option N) (log : list out) (s : cstate) : Prop := closingSince s = v.
Lemma I_cs_core : forall v, core_only (I_cs v).
Proof.
  unfold core_only, I_cs, same_core. intros v log s s' H.
  destruct H as (_&_&_&_&_&_&_&_&_&_&_&_&_&_&_&_&_&E18&_). rewrite E18. auto.
Qed.
Ltac leaf_cs := intros log s HG HI; unfold I_cs in *; guard_facts; simpl in *; auto.
Lemma on_timer_cs : forall v k, presL (I_cs v) (on_timer c k).
Proof. intros v k. pose proof (I_cs_core v) as Hcore. destruct k; unfold on_timer; pres_go leaf_cs fail. Qed.

Definition CI' (s : cstate) : Prop := TI1 (timers s) (now s) /\ closing_ok s.

Lemma has_call_in : forall k e, has_call k e = true -> exists id, In (k, id) (te_calls e).
Proof.
  intros k e H. unfold has_call in H. apply existsb_exists in H. destruct H as ([k0 id] & Hin & Hk).
  simpl in Hk. apply tkind_eqb_eq in Hk. subst k0. exists id. exact Hin.
Qed.

(* one iteration of the reactor loop *)
Lemma iter_ci : forall t s e rest, CI' s -> pick_due t (timers s) = Some (e, rest) ->
  CI' (fst (run_calls c (te_calls e) (set_now (N.max (now s) (te_time e)) (set_timers rest s)))).
Proof.
  intros t s e rest [H1 H2] Hp.
  destruct (pick_due_spec t _ e rest Hp) as (G1 & G2 & G3 & G4).
  set (s1 := set_now (N.max (now s) (te_time e)) (set_timers rest s)).
  assert (T1 : I_ti1 [] s1).
  { unfold I_ti1, s1. simpl. apply TI1_mono with (n := now s); [lia|]. eapply TI1_sub; eauto. }
  pose proof (presL_run_calls I_ti1 c (on_timer_ti1 c) (te_calls e) [] s1 T1) as T2.
  split; [exact T2|].
  unfold closing_ok. intro Hs2.
  destruct (st s) eqn:Es;
    try (exfalso; apply (presL_run_calls I_nc c on_timer_nc (te_calls e) [] s1); [unfold I_nc, s1; simpl; rewrite Es; discriminate | exact Hs2]).
  destruct (H2 Es) as (tc & Ecs & Hpend).
  exists tc. split.
  { apply (presL_run_calls (I_cs (Some tc)) c (on_timer_cs (Some tc)) (te_calls e) [] s1). unfold I_cs, s1. simpl. exact Ecs. }
  assert (Hkeep : forall k B, (k = TCloseHS \/ k = TServerDrop) -> pendLe k B (timers s) ->
                  pendLe k B (timers (fst (run_calls c (te_calls e) s1)))).
  { intros k B Hk (w & W1 & W2 & W3). destruct (G3 w W1) as [Hw|Hw].
    - subst w. exfalso. destruct (has_call_in k e W2) as [id Hid].
      rewrite (run_calls_closes (te_calls e) k id s1 Hid Hk) in Hs2. discriminate.
    - apply (presL_run_calls (I_pend k B) c (on_timer_pend k B c) (te_calls e) [] s1).
      unfold I_pend, s1. simpl. exists w. auto. }
  destruct Hpend as [Hp1|[Hr Hp2]]; [left; apply Hkeep; auto | right; split; [exact Hr|apply Hkeep; auto]].
Qed.

Lemma fire_loop_ci : forall t fuel s, CI' s -> CI' (fst (fire_loop fuel c t s)).
Proof.
  intros t fuel. induction fuel as [|f IH]; intros s H; simpl.
  - exact H.
  - unfold bindS. destruct (pick_due t (timers s)) as [[e rest]|] eqn:E.
    + rewrite fst_seq. unfold upd at 1. cbn [fst]. rewrite fst_seq. apply IH. apply (iter_ci t s e rest H E).
    + exact H.
Qed.

Lemma tick_ci : forall t s, CI' s -> CI' (fst (tick c t s)).
Proof.
  intros t s H. unfold tick. rewrite fst_seq. unfold bindS, upd. cbn [fst].
  pose proof (fire_loop_ci t (timers_weight (timers s)) s H) as [H1 H2].
  set (s1 := fst (fire_loop (timers_weight (timers s)) c t s)) in *.
  split.
  - simpl. replace (timers (set_now (N.max (now s1) t) s1)) with (timers s1) by (destruct s1; reflexivity).
    apply TI1_mono with (n := now s1); [lia|exact H1].
  - unfold closing_ok in *. simpl. replace (timers (set_now (N.max (now s1) t) s1)) with (timers s1) by (destruct s1; reflexivity).
    exact H2.
Qed.

Lemma step_ci' : forall e s, (forall t, e <> ETick t) -> CI' s -> no_overdue s -> CI' (fst (handle c e s)).
Proof.
  intros e s Hne [H1 H2] H3. destruct (step_ci e Hne [] s (conj H1 (conj H2 H3))) as (R1 & R2 & _). split; assumption.
Qed.

(* fairness: between events no reactor call is overdue, at every point of the run *)
Definition fair_run (evs : list event) : Prop :=
  forall evs1 evs2, evs = evs1 ++ evs2 -> no_overdue (fst (run c evs1)).

Lemma ci_run : forall evs, fair_run evs -> CI' (fst (run c evs)).
Proof.
  intros evs. induction evs as [|e evs IH] using rev_ind; intro Hf.
  - unfold run. simpl. split.
    + apply (I_ti1_init).
    + unfold closing_ok. rewrite init_st. discriminate.
  - assert (Hf' : fair_run evs).
    { intros a b Hab. apply (Hf a (b ++ [e])). rewrite Hab. rewrite app_assoc. reflexivity. }
    specialize (IH Hf'). rewrite run_app. simpl. rewrite run_from_cons. simpl.
    destruct e;
      try (apply step_ci'; [intros t0 Ht0; discriminate Ht0 | exact IH | eapply Hf; reflexivity]).
    apply tick_ci. exact IH.
Qed.

(* bounded closing, for fair runs *)
Lemma closing_bounded_fair : forall evs tc, fair_run evs ->
  st (fst (run c evs)) = CLOSING -> closingSince (fst (run c evs)) = Some tc ->
  now (fst (run c evs)) <= tc + closeHandshakeTimeout c + (if is_server c then 0 else serverConnectionDropTimeout c).
Proof.
  intros evs tc Hf Hs Hc. destruct (ci_run evs Hf) as [_ H2].
  assert (Hno : no_overdue (fst (run c evs))) by (apply (Hf evs []); rewrite app_nil_r; reflexivity).
  destruct (H2 Hs) as (tc' & E & Hp). rewrite Hc in E. inversion E; subst tc'.
  unfold no_overdue in Hno. rewrite Forall_forall in Hno.
  destruct Hp as [(e & He1 & _ & He3)|[Hr (e & He1 & _ & He3)]]; specialize (Hno e He1).
  - destruct (is_server c); lia.
  - rewrite Hr. lia.
Qed.
End Closing.

(* ================================================================================================ *)
(* the clock is fair: Tick t runs every call due up to t, so no call is ever overdue between events *)

Lemma min_time_le : forall l m, min_time l = Some m -> forall x, In x l -> m <= te_time x.
Proof.
  induction l as [|e r IH]; intros m H x Hx; [destruct Hx|]. simpl in H.
  destruct (min_time r) as [m'|] eqn:E.
  - inversion H; subst. destruct Hx as [Hx|Hx]; [subst; lia|]. specialize (IH m' eq_refl x Hx). lia.
  - inversion H; subst. destruct Hx as [Hx|Hx]; [subst; lia|]. destruct r; [destruct Hx|simpl in E; destruct (min_time r); discriminate].
Qed.
Lemma min_time_none : forall l, min_time l = None -> l = [].
Proof. destruct l as [|e r]; [reflexivity|]. simpl. destruct (min_time r); discriminate. Qed.
Lemma min_time_in : forall l m, min_time l = Some m -> exists e, In e l /\ te_time e = m.
Proof.
  induction l as [|e r IH]; intros m H; [discriminate|]. simpl in H.
  destruct (min_time r) as [m'|] eqn:E.
  - inversion H; subst. destruct (N.min_spec (te_time e) m') as [[_ Hm]|[_ Hm]]; rewrite Hm.
    + exists e. split; [left; reflexivity|reflexivity].
    + destruct (IH m' eq_refl) as (x & X1 & X2). exists x. split; [right; exact X1|exact X2].
  - inversion H; subst. exists e. split; [left; reflexivity|reflexivity].
Qed.
Lemma pop_at_some : forall m l, (exists e, In e l /\ te_time e = m) -> exists e rest, pop_at m l = Some (e, rest).
Proof.
  intros m l. induction l as [|e0 r IH]; intros (e & H1 & H2); [destruct H1|]. simpl.
  destruct (te_time e0 =? m) eqn:E; [eauto|].
  destruct H1 as [H1|H1]; [subst; rewrite N.eqb_refl in E; discriminate|].
  destruct (IH (ex_intro _ e (conj H1 H2))) as (x & rest & Hx). rewrite Hx. eauto.
Qed.

Lemma pick_due_min : forall t l e rest, pick_due t l = Some (e, rest) -> forall x, In x l -> te_time e <= te_time x.
Proof.
  intros t l e rest H x Hx. unfold pick_due in H. destruct (min_time l) as [m|] eqn:Em; [|discriminate].
  destruct (m <=? t); [|discriminate]. destruct (pop_at_spec m l e rest H) as (_ & G2 & _). rewrite G2.
  eapply min_time_le; eauto.
Qed.
Lemma pick_due_none : forall t l, pick_due t l = None -> forall x, In x l -> t < te_time x.
Proof.
  intros t l H x Hx. unfold pick_due in H. destruct (min_time l) as [m|] eqn:Em.
  - destruct (m <=? t) eqn:E.
    + exfalso. destruct (pop_at_some m l (min_time_in l m Em)) as (e & rest & Hp). rewrite Hp in H. discriminate.
    + apply N.leb_gt in E. pose proof (min_time_le l m Em x Hx). lia.
  - apply min_time_none in Em. subst l. destruct Hx.
Qed.

Lemma on_timer_no : forall c k, presL I_no (on_timer c k).
Proof. intros c k. destruct k; unfold on_timer; pres_go leaf_no blocks_no. Qed.

Lemma fire_loop_no : forall c t fuel, presL I_no (fire_loop fuel c t).
Proof.
  intros c t fuel. apply presL_fire_loop'; [apply on_timer_no|].
  intros log s e rest E H. unfold I_no, no_overdue in *. simpl.
  destruct (pick_due_spec t _ e rest E) as (G1 & _ & _ & G4).
  rewrite Forall_forall in *. intros x Hx. specialize (G4 x Hx).
  pose proof (pick_due_min t _ e rest E x G4). specialize (H x G4). lia.
Qed.

(* weights: the loop terminates within the fuel computed by [tick] *)
Lemma weight_pop : forall m l e rest, pop_at m l = Some (e, rest) ->
  timers_weight l = (entry_weight e + timers_weight rest)%nat.
Proof.
  intros m l. induction l as [|e0 r IH]; intros e rest H; simpl in H; [discriminate|].
  destruct (te_time e0 =? m).
  - inversion H; subst. reflexivity.
  - destruct (pop_at m r) as [[x r']|] eqn:Ep; [|discriminate]. inversion H; subst.
    cbn [timers_weight fold_right]. fold (timers_weight r). fold (timers_weight r'). rewrite (IH _ _ eq_refl). lia.
Qed.
Lemma weight_bucket_add : forall rt n call l,
  (timers_weight (bucket_add rt n call l) <= timers_weight l + S (call_weight call))%nat.
Proof.
  intros rt n call l. induction l as [|e0 r IH]; simpl.
  - unfold entry_weight. simpl. lia.
  - destruct (key_is rt e0); simpl.
    + unfold entry_weight. simpl. rewrite fold_right_app. simpl.
      assert (forall cs a, fold_right (fun c0 a0 => (call_weight c0 + a0)%nat) a cs =
                           (fold_right (fun c0 a0 => (call_weight c0 + a0)%nat) 0%nat cs + a)%nat).
      { induction cs; simpl; intros; [reflexivity|]. rewrite IHcs. lia. }
      rewrite (H (te_calls e0)). lia.
    + lia.
Qed.

Definition I_tm (l : list tentry) (log : list out) (s : cstate) : Prop := timers s = l.
Ltac leaf_tm := intros log s HG HI; unfold I_tm in *; guard_facts; simpl in *; auto.

Lemma on_timer_weight : forall c k st0,
  (timers_weight (timers (fst (on_timer c k st0))) <= timers_weight (timers st0) + (match k with TAutoPing => 2 | _ => 0 end))%nat.
Proof.
  intros c k st0.
  assert (Hsame : forall m, presL (I_tm (timers st0)) m -> (timers_weight (timers (fst (m st0))) <= timers_weight (timers st0) + 0)%nat).
  { intros m P. specialize (P [] st0 eq_refl). unfold I_tm in P. rewrite P. lia. }
  destruct k.
  - apply Hsame. unfold on_timer. pres_go leaf_tm fail.
  - apply Hsame. unfold on_timer. pres_go leaf_tm fail.
  - apply Hsame. unfold on_timer. pres_go leaf_tm fail.
  - (* _sendAutoPing *)
    unfold on_timer, send_auto_ping. rewrite fst_seq, fst_seq. unfold upd at 1. cbn [fst].
    set (s1 := (let seq := pingSeq st0 + 1 in set_pingPending (Some seq) (set_pingSeq seq (set_hPing None st0)))).
    assert (T1 : timers s1 = timers st0) by reflexivity.
    assert (T2 : timers (fst (bindS (fun s0 => send_ping (pingPending s0)) s1)) = timers st0).
    { unfold bindS, send_ping, ifS, say, ret. destruct (in_state OPEN s1); simpl; exact T1. }
    unfold whenM. destruct (0 <? autoPingTimeout c).
    + destruct (arm_batched_eff TAutoPingTO (autoPingTimeout c) (fst (bindS (fun s0 => send_ping (pingPending s0)) s1))) as (Et & _ & _).
      rewrite Et, T2. pose proof (weight_bucket_add (quant (now (fst (bindS (fun s0 => send_ping (pingPending s0)) s1)) + autoPingTimeout c))
                                   (now (fst (bindS (fun s0 => send_ping (pingPending s0)) s1)))
                                   (TAutoPingTO, nextId (fst (bindS (fun s0 => send_ping (pingPending s0)) s1))) (timers st0)) as W.
      replace (call_weight (TAutoPingTO, nextId (fst (bindS (fun s0 => send_ping (pingPending s0)) s1)))) with 1%nat in W by reflexivity. lia.
    + unfold ret. cbn [fst]. rewrite T2. lia.
  - apply Hsame. unfold on_timer. pres_go leaf_tm fail.
Qed.

Lemma run_calls_weight : forall c calls s,
  (timers_weight (timers (fst (run_calls c calls s))) <=
   timers_weight (timers s) + fold_right (fun c0 a => call_weight c0 + a) 0 calls)%nat.
Proof.
  intros c calls. induction calls as [|[k id] r IH]; intro s; simpl.
  - unfold ret. simpl. lia.
  - rewrite fst_seq. specialize (IH (fst (on_timer c k s))). pose proof (on_timer_weight c k s) as W.
    unfold call_weight at 1. simpl fst. destruct k; lia.
Qed.

Lemma fire_loop_complete : forall c t fuel s, (timers_weight (timers s) <= fuel)%nat ->
  pick_due t (timers (fst (fire_loop fuel c t s))) = None.
Proof.
  intros c t fuel. induction fuel as [|f IH]; intros s Hw; simpl.
  - destruct (timers s) as [|e r]; [reflexivity|]. simpl in Hw. unfold entry_weight in Hw. lia.
  - unfold bindS. destruct (pick_due t (timers s)) as [[e rest]|] eqn:E; [|exact E].
    rewrite fst_seq. unfold upd at 1. cbn [fst]. rewrite fst_seq. apply IH.
    set (s1 := set_now (N.max (now s) (te_time e)) (set_timers rest s)).
    pose proof (run_calls_weight c (te_calls e) s1) as W.
    assert (T1 : timers s1 = rest) by reflexivity. rewrite T1 in W.
    unfold pick_due in E. destruct (min_time (timers s)) as [m|]; [|discriminate]. destruct (m <=? t); [|discriminate].
    pose proof (weight_pop m _ e rest E) as Wp. unfold entry_weight in Wp. lia.
Qed.

Lemma tick_no : forall c t, presL I_no (tick c t).
Proof.
  intros c t log s H. unfold tick. rewrite fst_seq. unfold bindS, upd. cbn [fst].
  pose proof (fire_loop_no c t (timers_weight (timers s)) log s H) as H1.
  pose proof (fire_loop_complete c t (timers_weight (timers s)) s (Nat.le_refl _)) as H2.
  set (s1 := fst (fire_loop (timers_weight (timers s)) c t s)) in *.
  unfold I_no, no_overdue in *. simpl.
  replace (timers (set_now (N.max (now s1) t) s1)) with (timers s1) by (destruct s1; reflexivity).
  rewrite Forall_forall in *. intros x Hx. specialize (H1 x Hx). pose proof (pick_due_none t _ H2 x Hx). lia.
Qed.

(* C17_tick_complete: after Tick t nothing scheduled for a time <= t is left *)
Lemma tick_complete : forall c t s x, In x (timers (fst (step c s (ETick t)))) -> t < te_time x.
Proof.
  intros c t s x Hx. unfold step, handle, tick in Hx. rewrite fst_seq in Hx. unfold bindS, upd in Hx. cbn [fst] in Hx.
  pose proof (fire_loop_complete c t (timers_weight (timers s)) s (Nat.le_refl _)) as H2.
  set (s1 := fst (fire_loop (timers_weight (timers s)) c t s)) in *.
  replace (timers (set_now (N.max (now s1) t) s1)) with (timers s1) in Hx by (destruct s1; reflexivity).
  apply (pick_due_none t _ H2 x Hx).
Qed.

Lemma no_overdue_run : forall c evs, no_overdue (fst (run c evs)).
Proof.
  intros c evs. apply (presL_run I_no c).
  - unfold I_no, no_overdue, init, whenM. destruct (0 <? openHandshakeTimeout c).
    + apply (arm_batched_no TOpenHS (openHandshakeTimeout c) [] (init0 c)). unfold I_no, no_overdue. simpl. constructor.
    + simpl. constructor.
  - intro e. destruct e; try (apply step_no; intros t0 Ht0; discriminate Ht0). apply tick_no.
Qed.

Lemma all_runs_fair : forall c evs, fair_run c evs.
Proof. intros c evs evs1 evs2 _. apply no_overdue_run. Qed.

(* C05_bounded *)
Lemma closing_bounded_all : forall c, 0 < closeHandshakeTimeout c ->
  (is_server c = false -> 0 < serverConnectionDropTimeout c) ->
  forall evs tc, st (fst (run c evs)) = CLOSING -> closingSince (fst (run c evs)) = Some tc ->
  now (fst (run c evs)) <= tc + closeHandshakeTimeout c + (if is_server c then 0 else serverConnectionDropTimeout c).
Proof. intros c H1 H2 evs tc. apply closing_bounded_fair; auto. apply all_runs_fair. Qed.

(* once CLOSING or CLOSED, closingSince is frozen *)
Definition I_csr (v : option N) (log : list out) (s : cstate) : Prop := (2 <= rank (st s))%nat /\ closingSince s = v.
Lemma I_csr_core : forall v, core_only (I_csr v).
Proof.
  unfold core_only, I_csr. intros v log s s' H. rewrite (core_st _ _ H).
  destruct H as (_&_&_&_&_&_&_&_&_&_&_&_&_&_&_&_&_&E18&_). rewrite E18. auto.
Qed.
Ltac absurd_csr :=
  intros log s HG HI; unfold I_csr in *; guard_facts; simpl in *;
  match goal with H : st ?x = _, H2 : (2 <= rank (st ?x))%nat |- _ => rewrite H in H2; simpl in H2; lia end.
Ltac leaf_csr :=
  intros log s HG HI; unfold I_csr in *; guard_facts; simpl in *;
  try solve [ intuition (try lia; try congruence)
            | match goal with H : (2 <= rank ?w)%nat /\ _ |- _ => destruct H; split; [simpl; lia|auto] end ].
Lemma on_timer_csr : forall v c k, presL (I_csr v) (on_timer c k).
Proof. intros v c k. pose proof (I_csr_core v) as Hcore. destruct k; unfold on_timer; pres_go3 leaf_csr fail absurd_csr. Qed.
Lemma step_csr : forall v c e, presL (I_csr v) (handle c e).
Proof.
  intros v c e. pose proof (I_csr_core v) as Hcore.
  destruct e; unfold handle;
    try (apply presL_tick; [apply on_timer_csr | unfold time_insensitive, I_csr; intros; simpl; assumption]);
    pres_go3 leaf_csr fail absurd_csr.
Qed.

(* C05_bounded, as a statement about every later point of the run *)
Lemma closing_bounded_later : forall c, 0 < closeHandshakeTimeout c ->
  (is_server c = false -> 0 < serverConnectionDropTimeout c) ->
  forall evs evs2 tc, st (fst (run c evs)) = CLOSING -> closingSince (fst (run c evs)) = Some tc ->
  tc + closeHandshakeTimeout c + (if is_server c then 0 else serverConnectionDropTimeout c) < now (fst (run c (evs ++ evs2))) ->
  st (fst (run c (evs ++ evs2))) = CLOSED.
Proof.
  intros c H1 H2 evs evs2 tc Hs Hc Hlt.
  assert (Hinv : I_csr (Some tc) (snd (run c (evs ++ evs2))) (fst (run c (evs ++ evs2)))).
  { rewrite run_app. apply presL_run_from; [intro; apply step_csr|]. unfold I_csr. rewrite Hs. simpl. split; [lia|exact Hc]. }
  destruct Hinv as [Hr Hc2].
  destruct (st (fst (run c (evs ++ evs2)))) eqn:E; simpl in Hr; try lia; [|reflexivity].
  exfalso. pose proof (closing_bounded_all c H1 H2 (evs ++ evs2) tc E Hc2). lia.
Qed.

(* once CLOSED the timeout flags never change any more *)
Definition I_flags (a b d : bool) (log : list out) (s : cstate) : Prop :=
  st s = CLOSED /\ wasOpenTO s = a /\ wasCloseTO s = b /\ wasDropTO s = d.
Lemma I_flags_core : forall a b d, core_only (I_flags a b d).
Proof.
  unfold core_only, I_flags. intros a b d log s s' H. rewrite (core_st _ _ H).
  destruct H as (_&_&_&_&_&_&_&_&_&_&_&_&E13&E14&E15&_). rewrite E13, E14, E15. auto.
Qed.
Ltac absurd_flags := intros log s HG HI; unfold I_flags in *; guard_facts; simpl in *; try congruence; try discriminate.
Ltac leaf_flags := intros log s HG HI; unfold I_flags in *; guard_facts; simpl in *;
  try solve [ intuition (try congruence; try discriminate) ].
Lemma on_timer_flags : forall a b d c k, presL (I_flags a b d) (on_timer c k).
Proof. intros a b d c k. pose proof (I_flags_core a b d) as Hcore. destruct k; unfold on_timer; pres_go3 leaf_flags fail absurd_flags. Qed.
Lemma step_flags : forall a b d c e, presL (I_flags a b d) (handle c e).
Proof.
  intros a b d c e. pose proof (I_flags_core a b d) as Hcore.
  destruct e; unfold handle;
    try (apply presL_tick; [apply on_timer_flags | unfold time_insensitive, I_flags; intros; simpl; assumption]);
    pres_go3 leaf_flags fail absurd_flags.
Qed.
Lemma flags_frozen : forall c evs evs2, st (fst (run c evs)) = CLOSED ->
  let s := fst (run c evs) in let s2 := fst (run c (evs ++ evs2)) in
  st s2 = CLOSED /\ wasOpenTO s2 = wasOpenTO s /\ wasCloseTO s2 = wasCloseTO s /\ wasDropTO s2 = wasDropTO s.
Proof.
  intros c evs evs2 H. cbv zeta. rewrite run_app.
  apply (presL_run_from (I_flags (wasOpenTO (fst (run c evs))) (wasCloseTO (fst (run c evs))) (wasDropTO (fst (run c evs)))) c
           (step_flags _ _ _ c) evs2 (fst (run c evs)) (snd (run c evs))).
  unfold I_flags. auto.
Qed.

(* ================================================================================================ *)
(* C17: a pending timeout call of a dropping kind fires when the clock reaches it *)
Definition drop_kind (k : tkind) : Prop := k = TCloseHS \/ k = TServerDrop \/ k = TAutoPingTO.

Lemma closed_rank3 : forall s, (3 <= rank (st s))%nat -> st s = CLOSED.
Proof. intros s H. destruct (st s); simpl in H; try lia. reflexivity. Qed.
Lemma has_call_in2 : forall k e, has_call k e = true -> exists id, In (k, id) (te_calls e).
Proof.
  intros k e H. unfold has_call in H. apply existsb_exists in H. destruct H as ([k0 id] & Hin & Hk).
  simpl in Hk. apply tkind_eqb_eq in Hk. subst k0. exists id. exact Hin.
Qed.

Lemma on_timer_closes3 : forall c k s, drop_kind k -> st (fst (on_timer c k s)) = CLOSED.
Proof.
  intros c k s [Hk|[Hk|Hk]]; subst k; unfold on_timer, seqM, upd, ifS, in_state, ret, drop_connection, ifS, in_state, seqM, upd, say, ret;
    simpl; destruct (wstate_eqb (st s) CLOSED) eqn:E; simpl; try rewrite E; simpl; try reflexivity;
    destruct (st s); simpl in E; congruence.
Qed.

Lemma run_calls_closes3 : forall c calls k id s, In (k, id) calls -> drop_kind k ->
  st (fst (run_calls c calls s)) = CLOSED.
Proof.
  intros c. induction calls as [|[k0 id0] r IH]; intros k id s Hin Hk; [destruct Hin|].
  simpl run_calls. rewrite fst_seq. destruct Hin as [Hin|Hin].
  - inversion Hin; subst. apply closed_rank3.
    apply (presL_run_calls (I_rank 3) c (on_timer_rank 3 c) r [] (fst (on_timer c k s))).
    unfold I_rank. rewrite (on_timer_closes3 c k s Hk). simpl. lia.
  - eapply IH; eauto.
Qed.

Lemma fire_loop_rank3 : forall c t fuel, presL (I_rank 3) (fire_loop fuel c t).
Proof.
  intros. apply presL_fire_loop; [intro; apply on_timer_rank|]. unfold time_insensitive, I_rank. intros. simpl. assumption.
Qed.

Lemma fire_loop_pend : forall c t k B, drop_kind k -> forall fuel s, pendLe k B (timers s) ->
  st (fst (fire_loop fuel c t s)) = CLOSED \/ pendLe k B (timers (fst (fire_loop fuel c t s))).
Proof.
  intros c t k B Hk fuel. induction fuel as [|f IH]; intros s Hp; simpl.
  - right. exact Hp.
  - unfold bindS. destruct (pick_due t (timers s)) as [[e rest]|] eqn:E; [|right; exact Hp].
    rewrite !fst_seq. unfold upd. cbn [fst].
    set (s1 := set_now (N.max (now s) (te_time e)) (set_timers rest s)).
    destruct (pick_due_spec t _ e rest E) as (G1 & G2 & G3 & G4).
    destruct Hp as (w & W1 & W2 & W3). destruct (G3 w W1) as [Hw|Hw].
    + subst w. left. destruct (has_call_in2 k e W2) as [id Hid].
      apply closed_rank3. apply (fire_loop_rank3 c t f [] (fst (run_calls c (te_calls e) s1))).
      unfold I_rank. rewrite (run_calls_closes3 c (te_calls e) k id s1 Hid Hk). simpl. lia.
    + apply IH. apply (presL_run_calls (I_pend k B) c (on_timer_pend k B c) (te_calls e) [] s1).
      unfold I_pend, s1. simpl. exists w. auto.
Qed.

Lemma timeout_fires : forall c k B t s, drop_kind k -> pendLe k B (timers s) -> B <= t ->
  st (fst (step c s (ETick t))) = CLOSED.
Proof.
  intros c k B t s Hk Hp Ht. unfold step, handle, tick. rewrite fst_seq. unfold bindS, upd. cbn [fst].
  pose proof (fire_loop_complete c t (timers_weight (timers s)) s (Nat.le_refl _)) as Hc.
  destruct (fire_loop_pend c t k B Hk (timers_weight (timers s)) s Hp) as [H|H].
  - simpl. exact H.
  - exfalso. destruct H as (w & W1 & W2 & W3). pose proof (pick_due_none t _ Hc w W1). lia.
Qed.

(* what _sendAutoPing and sendCloseFrame arm: the call is pending with a fire time no later than the nominal deadline *)
Lemma arm_batched_pending : forall k d s, TI1 (timers s) (now s) ->
  pendLe k (now s + d) (timers (fst (arm_batched k d s))).
Proof.
  intros k d s H. destruct (arm_batched_eff k d s) as (Et & _ & _). rewrite Et.
  apply pendLe_bucket_new; [exact H|]. pose proof (quant_bounds (now s + d)). lia.
Qed.

Lemma ti1_run : forall c evs, TI1 (timers (fst (run c evs))) (now (fst (run c evs))).
Proof. intros c evs. apply (presL_run I_ti1 c); [apply I_ti1_init | apply step_ti1]. Qed.
