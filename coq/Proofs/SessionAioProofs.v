(* Lemmas about Model/Session.v, part 2: the transport-open flag and the asyncio queue; asyncio histories with the
   loop run to quiescence between any two events ("settled") have the Twisted life-cycle. *)
From Coq Require Import NArith ZArith List Bool Lia.
From AV Require Import Gen.WampTypeCodes Model.Session Proofs.SessionProofs.
Import ListNotations.
Open Scope N_scope.

(* callbacks that schedule nothing and do not touch the life-cycle *)
Definition inert (t : thunk) : Prop :=
  match t with
  | TLeaf (LUserDone _ _) | TLeaf (LLeaveK _) | TLeaf (LCancelSend _) | TLeaf (LYield _) => True
  | _ => False
  end.

(* topen untouched; the queue only grows by inert callbacks (asyncio) / stays (Twisted) *)
Definition QQ (fl : flavour) (s s' : sess) : Prop :=
  topen s' = topen s /\
  match fl with
  | Tx => queue s' = queue s
  | Aio => exists Q, queue s' = queue s ++ Q /\ Forall inert Q
  end.

Lemma QQ_refl : forall fl s, QQ fl s s.
Proof. intros. split; [reflexivity|]. destruct fl; [reflexivity|]. exists []. rewrite app_nil_r. split; [reflexivity | constructor]. Qed.

Lemma QQ_trans : forall fl s s1 s2, QQ fl s s1 -> QQ fl s1 s2 -> QQ fl s s2.
Proof.
  intros fl s s1 s2 [A1 B1] [A2 B2]. split; [congruence|]. destruct fl; [congruence|].
  destruct B1 as [Q1 [E1 F1]]. destruct B2 as [Q2 [E2 F2]]. exists (Q1 ++ Q2). split.
  - rewrite E2, E1, app_assoc. reflexivity.
  - apply Forall_app. split; assumption.
Qed.

(* state changes that touch neither topen nor the queue *)
Lemma QQ_same : forall fl s s', topen s' = topen s -> queue s' = queue s -> QQ fl s s'.
Proof.
  intros fl s s' Ht Hq. split; [assumption|]. destruct fl; [assumption|]. exists []. rewrite app_nil_r. split; [assumption | constructor].
Qed.

Lemma QQ_from : forall fl s s0 s', topen s0 = topen s -> queue s0 = queue s -> QQ fl s0 s' -> QQ fl s s'.
Proof. intros fl s s0 s' Ht Hq H. eapply QQ_trans; [apply QQ_same; eassumption | exact H]. Qed.

Lemma api_step_tq : forall cfg s o, topen (fst (api_step cfg s o)) = topen s /\ queue (fst (api_step cfg s o)) = queue s.
Proof.
  intros cfg s o. destruct o; try (split; reflexivity); unfold api_step.
  - destruct (negb (transport s)); [split; reflexivity|]. unfold new_request. cbv zeta beta iota.
    destruct (send_req cfg _ _) as [o1 ok]. destruct ok; split; reflexivity.
  - destruct (negb (transport s)); [split; reflexivity|]. destruct (po_wants_ack o); unfold new_request, new_id_only; cbv zeta beta iota;
      destruct (send_req cfg _ _) as [o1 ok]; destruct ok; split; reflexivity.
  - destruct (negb (transport s)); [split; reflexivity|]. unfold new_request. cbv zeta beta iota.
    destruct (send_req cfg _ _) as [o1 ok]. destruct ok; split; reflexivity.
  - destruct (negb (transport s)); [split; reflexivity|]. unfold new_request. cbv zeta beta iota.
    destruct (send_req cfg _ _) as [o1 ok]. destruct ok; split; reflexivity.
  - destruct (reg_id_of s h) as [regid|]; [|split; reflexivity]. destruct (assoc regid (regs s)) as [h'|]; [|split; reflexivity].
    destruct (negb (h' =? h)); [split; reflexivity|]. destruct (negb (transport s)); [split; reflexivity|].
    unfold new_request. cbv zeta beta iota. destruct (send_req cfg _ _) as [o1 ok]. destruct ok; split; reflexivity.
Qed.

Lemma react_tq : forall cfg s f, topen (fst (react cfg s f)) = topen s /\ queue (fst (react cfg s f)) = queue s.
Proof. intros. unfold react. destruct (assoc f (reacts s)); [apply api_step_tq | split; reflexivity]. Qed.

Lemma QQ_complete : forall fl cfg s f r, QQ fl s (fst (complete fl cfg s f r)).
Proof.
  intros. unfold complete. destruct (is_done s f); [apply QQ_refl|]. destruct fl; simpl.
  - destruct (react_tq cfg (set_done s (done s ++ [(f, r)])) f) as [A B].
    destruct (react cfg (set_done s (done s ++ [(f, r)])) f) as [s2 o2]. simpl in *. apply QQ_same; assumption.
  - split; [reflexivity|]. exists [TLeaf (LUserDone f r)]. split; [reflexivity | repeat constructor].
Qed.

Lemma QQ_errback_list : forall fl cfg e l s, QQ fl s (fst (errback_list fl cfg s e l)).
Proof.
  induction l as [|r t IH]; simpl; intro s; [apply QQ_refl|].
  pose proof (QQ_complete fl cfg s (r_fut r) (RErr e)) as H1. destruct (complete fl cfg s (r_fut r) (RErr e)) as [s1 o1].
  specialize (IH s1). destruct (errback_list fl cfg s1 e t) as [s2 o2]. simpl in *. eapply QQ_trans; eassumption.
Qed.

Lemma QQ_errback_all : forall fl cfg s e, QQ fl s (fst (errback_all fl cfg s e)).
Proof. intros. unfold errback_all. eapply QQ_from; [| |apply QQ_errback_list]; reflexivity. Qed.

Lemma QQ_pop_reply : forall fl s k rq found,
  (forall r s1, topen s1 = topen s -> queue s1 = queue s -> QQ fl s (fst (found r s1))) ->
  QQ fl s (fst (pop_reply s k rq found)).
Proof.
  intros fl s k rq found H. unfold pop_reply. destruct (find_req k rq (pend s)); [|apply QQ_refl].
  destruct (is_done _ _); [apply QQ_same; reflexivity | apply H; reflexivity].
Qed.

Lemma QQ_complete_from : forall fl cfg s s1 f r, topen s1 = topen s -> queue s1 = queue s -> QQ fl s (fst (complete fl cfg s1 f r)).
Proof. intros. eapply QQ_from; [eassumption | eassumption | apply QQ_complete]. Qed.

Lemma QQ_yield : forall fl cfg s rq, QQ fl s (fst (defer_leaf fl cfg s (LYield rq))).
Proof.
  intros. destruct fl; simpl.
  - destruct (transport s); [destruct (send cfg _ _)|]; apply QQ_same; reflexivity.
  - split; [reflexivity|]. exists [TLeaf (LYield rq)]. split; [reflexivity | repeat constructor].
Qed.

Lemma QQ_established : forall fl cfg s o, (forall r, o <> RGoodbye r) -> QQ fl s (fst (on_message_established fl cfg s o)).
Proof.
  intros fl cfg s o Hng. destruct o; simpl; try apply QQ_refl.
  - exfalso. eapply Hng. reflexivity.
  - apply QQ_pop_reply. intros. now apply QQ_complete_from.
  - apply QQ_pop_reply. intros. now apply QQ_complete_from.
  - apply QQ_pop_reply. intros. now apply QQ_complete_from.
  - destruct (find_req KCall rq (pend s)) as [r|]; [|apply QQ_refl]. destruct progress.
    + destruct (r_opts r) as [c|]; [|apply QQ_refl]. destruct (co_progress c); apply QQ_refl.
    + destruct (is_done _ _); [apply QQ_same; reflexivity | now apply QQ_complete_from].
  - apply QQ_pop_reply. intros r s1 Ht Hq. destruct (assoc regid (regs s1)); [apply QQ_same; assumption | now apply QQ_complete_from].
  - destruct (rq =? 0).
    + destruct regid as [g|]; [destruct (assoc g (regs s))|]; apply QQ_refl.
    + apply QQ_pop_reply. intros. now apply QQ_complete_from.
  - destruct (kind_of_code rtype) as [k|]; [|apply QQ_refl].
    destruct (find_req k rq (pend s)); [now apply QQ_complete_from | apply QQ_refl].
  - destruct (assoc subid (subs s)); apply QQ_refl.
  - destruct (memN rq (invs s)); [apply QQ_refl|]. destruct (assoc regid (regs s)); [|apply QQ_refl].
    eapply QQ_from; [| |apply QQ_yield]; reflexivity.
Qed.

Lemma QQ_unsub_step : forall fl cfg s h, QQ fl s (fst (unsub_step fl cfg s h)).
Proof.
  intros fl cfg s h. unfold unsub_step.
  destruct (sub_id_of s h) as [subid|]; [|apply QQ_refl]. destruct (negb (memN h _)); [apply QQ_refl|].
  destruct (negb (transport s)); [apply QQ_refl|].
  destruct (remove1 h match assoc subid (subs s) with Some l => l | None => [] end) as [|x rest'].
  + unfold new_request. cbv zeta beta iota. destruct (send_req cfg _ _) as [o1 ok]. destruct ok; apply QQ_same; reflexivity.
  + match goal with |- context [complete fl cfg ?S ?F ?R] =>
      pose proof (QQ_complete fl cfg S F R) as Hc; destruct (complete fl cfg S F R) as [s2 o2] end.
    simpl in *. eapply QQ_from; [| |exact Hc]; reflexivity.
Qed.

Lemma QQ_api : forall fl cfg s o, is_quiet_api o = true -> QQ fl s (fst (step fl cfg s o)).
Proof.
  intros fl cfg s o Hq.
  assert (Hapi : QQ fl s (fst (api_step cfg s o))) by (destruct (api_step_tq cfg s o); now apply QQ_same).
  destruct o; try discriminate; clear Hq; try exact Hapi; clear Hapi; unfold step; cbv beta iota.
  - apply QQ_unsub_step.
  - destruct (is_done s f); [apply QQ_refl|]. destruct (assoc f (issued s)) as [[k id]|]; [|apply QQ_refl].
    destruct fl.
    + assert (Hc : QQ Tx s (fst (let '(s1, o2) := complete Tx cfg s f (RErr ECancelled) in (s1, o2 ++ [ApiReturned None])))).
      { pose proof (QQ_complete Tx cfg s f (RErr ECancelled)) as Hc. destruct (complete Tx cfg s f (RErr ECancelled)). exact Hc. }
      destruct k; try exact Hc. destruct (transport s); [|apply QQ_refl].
      destruct (send cfg s (MCancel id)) as [o1 ok]. destruct ok; [|apply QQ_refl].
      pose proof (QQ_complete Tx cfg s f (RErr ECancelled)) as Hc2. destruct (complete Tx cfg s f (RErr ECancelled)). exact Hc2.
    + destruct k; simpl; (split; [reflexivity|]);
        try (exists [TLeaf (LUserDone f (RErr ECancelled))]; split; [reflexivity | repeat constructor]).
      exists [TLeaf (LCancelSend id); TLeaf (LUserDone f (RErr ECancelled))]. split; [|repeat constructor].
      unfold enqueue. simpl. rewrite <- app_assoc. reflexivity.
  - destruct (is_fail_op o); [|apply QQ_refl].
    assert (H1 : QQ fl s (fst (match o with AUnsubscribe h => unsub_step fl cfg (set_failnext s (Some e)) h
                               | _ => api_step cfg (set_failnext s (Some e)) o end))).
    { eapply QQ_from with (s0 := set_failnext s (Some e)); [reflexivity | reflexivity |].
      destruct o; try (destruct (api_step_tq cfg (set_failnext s (Some e)) o) as [A B]; apply QQ_same; [exact A | exact B]);
        try (match goal with |- context [api_step cfg ?S ?O] => destruct (api_step_tq cfg S O) as [A B]; apply QQ_same; [exact A | exact B] end).
      apply QQ_unsub_step. }
    destruct (match o with AUnsubscribe h => unsub_step fl cfg (set_failnext s (Some e)) h
              | _ => api_step cfg (set_failnext s (Some e)) o end) as [s1 o1]. simpl in *.
    eapply QQ_trans; [exact H1 | apply QQ_same; reflexivity].
  - destruct (is_react_op o && negb (is_done s f) && isNoneB (assoc f (reacts s))); apply QQ_same; reflexivity.
Qed.

(* ---- running scheduled callbacks (asyncio) ---- *)
Definition semi (t : thunk) : Prop := inert t \/ t = TLeaf LLeaveDisconnect.
Definition is_ld (t : thunk) : bool := match t with TLeaf LLeaveDisconnect => true | _ => false end.

Lemma inert_semi : forall Q, Forall inert Q -> Forall semi Q /\ existsb is_ld Q = false.
Proof.
  induction Q as [|t r IH]; intro H; [split; [constructor | reflexivity]|].
  inversion H as [|? ? Ht Hr]; subst. destruct (IH Hr) as [A B]. split; [constructor; [now left | assumption]|].
  simpl. rewrite B. destruct t as [l| | | |]; try contradiction. destruct l; try contradiction; reflexivity.
Qed.

Lemma run_semi_one : forall cfg s t, semi t ->
  let r := run_thunk Aio cfg s t in
  levs (snd r) = [] /\ lcore (fst r) = lcore s /\ queue (fst r) = queue s
  /\ topen (fst r) = (if is_ld t && transport s then false else topen s).
Proof.
  intros cfg s t [Hi| ->].
  - destruct t as [l| | | |]; try contradiction. destruct l; try contradiction; simpl.
    + pose proof (LQ_react cfg s f) as [A B]. destruct (react_tq cfg s f) as [C D].
      destruct (react cfg s f) as [s2 o2]. simpl in *. repeat split; assumption.
    + destruct raised; repeat split; reflexivity.
    + destruct (transport s); [|repeat split; reflexivity].
      assert (Hm : forall r, MCancel id <> MGoodbye r) by (intros r E; discriminate).
      pose proof (send_lq cfg s (MCancel id) Hm) as Hs. destruct (send cfg s (MCancel id)) as [o ok]. simpl in *.
      rewrite levs_app, Hs. destruct ok; repeat split; reflexivity.
    + destruct (transport s); [|repeat split; reflexivity].
      assert (Hm : forall r, MYield rq <> MGoodbye r) by (intros r E; discriminate).
      pose proof (send_lq cfg (set_invs s (remove1 rq (invs s))) (MYield rq) Hm) as Hs.
      destruct (send cfg (set_invs s (remove1 rq (invs s))) (MYield rq)) as [o ok]. simpl in *.
      rewrite levs_app, Hs. destruct ok; repeat split; reflexivity.
  - simpl. destruct (transport s) eqn:Et; simpl; repeat split; try reflexivity.
    unfold lcore. simpl. rewrite Et. reflexivity.
Qed.

Lemma run_semi : forall cfg Q s, Forall semi Q ->
  let r := run_queue Aio cfg s Q in
  levs (snd r) = [] /\ lcore (fst r) = lcore s /\ queue (fst r) = queue s
  /\ topen (fst r) = (if existsb is_ld Q && transport s then false else topen s).
Proof.
  induction Q as [|t r IH]; intros s H; simpl.
  - repeat split; reflexivity.
  - inversion H as [|? ? Ht Hr]; subst.
    destruct (run_semi_one cfg s t Ht) as [A1 [B1 [C1 D1]]]. destruct (run_thunk Aio cfg s t) as [s1 o1]. simpl in *.
    destruct (IH s1 Hr) as [A2 [B2 [C2 D2]]]. destruct (run_queue Aio cfg s1 r) as [s2 o2]. simpl in *.
    assert (Htr : transport s1 = transport s) by (unfold lcore in B1; inversion B1; reflexivity).
    rewrite levs_app, A1, A2. repeat split; try congruence.
    rewrite D2, D1, Htr. destruct (is_ld t); destruct (existsb is_ld r); destruct (transport s); reflexivity.
Qed.

(* one loop iteration on a queue of such callbacks *)
Lemma turn_semi : forall cfg s, Forall semi (queue s) ->
  let r := step Aio cfg s OTurn in
  levs (snd r) = [] /\ lcore (fst r) = lcore s /\ queue (fst r) = []
  /\ topen (fst r) = (if existsb is_ld (queue s) && transport s then false else topen s).
Proof.
  intros cfg s H. unfold step. cbv beta iota.
  destruct (run_semi cfg (queue s) (set_queue s []) H) as [A [B [C D]]].
  destruct (run_queue Aio cfg (set_queue s []) (queue s)) as [s1 o1]. simpl in *.
  repeat split; assumption.
Qed.

Lemma turn_empty : forall cfg s, queue s = [] -> step Aio cfg s OTurn = (set_queue s [], []).
Proof. intros cfg s H. unfold step. rewrite H. reflexivity. Qed.

(* the continuation of onDisconnect (the final sweep of onClose) is not inert: it schedules the callbacks of the
   futures it rejects -- those are inert; so two loop iterations still settle everything *)
Definition semi2 (t : thunk) : Prop := semi t \/ exists r, t = TDiscK r.

Lemma run_semi2_one : forall cfg s t, semi2 t ->
  let r := run_thunk Aio cfg s t in
  levs (snd r) = [] /\ lcore (fst r) = lcore s /\ (exists Q', queue (fst r) = queue s ++ Q' /\ Forall inert Q')
  /\ topen (fst r) = (if is_ld t && transport s then false else topen s).
Proof.
  intros cfg s t [Hs|[r0 ->]].
  - destruct (run_semi_one cfg s t Hs) as [A [B [C D]]]. repeat split; try assumption.
    exists []. rewrite app_nil_r. split; [assumption | constructor].
  - simpl. pose proof (LQ_errback_all Aio cfg s ETransportLost) as [A1 B1].
    pose proof (QQ_errback_all Aio cfg s ETransportLost) as [T1 [Q1 [E1 F1]]].
    destruct (errback_all Aio cfg s ETransportLost) as [s1 o1]. simpl in *.
    rewrite levs_app, A1. split; [destruct r0; reflexivity|]. split; [assumption|]. split; [|assumption].
    exists Q1. split; assumption.
Qed.

Lemma run_semi2 : forall cfg Q s, Forall semi2 Q ->
  let r := run_queue Aio cfg s Q in
  levs (snd r) = [] /\ lcore (fst r) = lcore s /\ (exists Q', queue (fst r) = queue s ++ Q' /\ Forall inert Q')
  /\ topen (fst r) = (if existsb is_ld Q && transport s then false else topen s).
Proof.
  induction Q as [|t r IH]; intros s H; simpl.
  - repeat split; try reflexivity. exists []. rewrite app_nil_r. split; [reflexivity | constructor].
  - inversion H as [|? ? Ht Hr]; subst.
    destruct (run_semi2_one cfg s t Ht) as [A1 [B1 [[Q1 [C1 F1]] D1]]]. destruct (run_thunk Aio cfg s t) as [s1 o1]. simpl in *.
    destruct (IH s1 Hr) as [A2 [B2 [[Q2 [C2 F2]] D2]]]. destruct (run_queue Aio cfg s1 r) as [s2 o2]. simpl in *.
    assert (Htr : transport s1 = transport s) by (unfold lcore in B1; inversion B1; reflexivity).
    rewrite levs_app, A1, A2. repeat split; try congruence.
    + exists (Q1 ++ Q2). split; [rewrite C2, C1, app_assoc; reflexivity | apply Forall_app; split; assumption].
    + rewrite D2, D1, Htr. destruct (is_ld t); destruct (existsb is_ld r); destruct (transport s); reflexivity.
Qed.

Lemma semi_semi2 : forall Q, Forall semi Q -> Forall semi2 Q.
Proof. intros Q H. eapply Forall_impl; [|exact H]. intros t Ht. now left. Qed.

(* ---- the default onLeave / onDisconnect in both flavours: life-cycle, topen, queue ---- *)
Definition leave_queue (cfg : ucfg) (Q : list thunk) : Prop :=
  Forall semi Q /\ existsb is_ld Q = u_leave_super cfg.

Lemma aio_leave_then : forall cfg s rs,
  let r := (let '(s2, o2, raised) := do_onLeave Aio cfg s rs in
            let '(s3, o3) := defer_leaf Aio cfg s2 (LLeaveK raised) in (s3, o2 ++ o3)) in
  levs (snd r) = [LvLeave] /\ lcore (fst r) = lcore s /\ topen (fst r) = topen s
  /\ exists Q, queue (fst r) = queue s ++ Q /\ leave_queue cfg Q.
Proof.
  intros cfg s rs. unfold do_onLeave, leave_queue. destruct (u_leave_super cfg).
  - pose proof (LQ_errback_all Aio cfg s (ELeave rs)) as [A1 B1]. pose proof (QQ_errback_all Aio cfg s (ELeave rs)) as [T1 [Q1 [E1 F1]]].
    destruct (errback_all Aio cfg s (ELeave rs)) as [s1 o1]. simpl in *.
    rewrite !app_nil_r, A1. repeat split; try assumption.
    exists (Q1 ++ [TLeaf LLeaveDisconnect] ++ [TLeaf (LLeaveK (u_leave_raises cfg))]).
    destruct (inert_semi Q1 F1) as [S1 N1]. split; [|split].
    + unfold enqueue. simpl. rewrite E1, <- !app_assoc. reflexivity.
    + apply Forall_app. split; [assumption|]. constructor; [now right|]. constructor; [left; exact I | constructor].
    + rewrite existsb_app, N1. reflexivity.
  - simpl. repeat split; try reflexivity. exists [TLeaf (LLeaveK (u_leave_raises cfg))]. split; [reflexivity|].
    split; [repeat constructor; left; exact I | reflexivity].
Qed.

Lemma tx_leave_topen : forall cfg s rs,
  let r := (let '(s2, o2, raised) := do_onLeave Tx cfg s rs in
            let '(s3, o3) := defer_leaf Tx cfg s2 (LLeaveK raised) in (s3, o2 ++ o3)) in
  topen (fst r) = (if u_leave_super cfg && transport s then false else topen s) /\ queue (fst r) = queue s.
Proof.
  intros cfg s rs. unfold do_onLeave. destruct (u_leave_super cfg); [|simpl; destruct (u_leave_raises cfg); split; reflexivity].
  pose proof (LQ_errback_all Tx cfg s (ELeave rs)) as [A1 B1]. pose proof (QQ_errback_all Tx cfg s (ELeave rs)) as [T1 Q1].
  destruct (errback_all Tx cfg s (ELeave rs)) as [s1 o1]. simpl in *.
  assert (Htr : transport s1 = transport s) by (unfold lcore in B1; inversion B1; reflexivity).
  rewrite Htr. destruct (transport s); simpl; destruct (u_leave_raises cfg); simpl; split; congruence.
Qed.

Lemma any_onDisconnect : forall fl cfg s,
  let r := (let '(s4, o4, raised) := do_onDisconnect fl cfg s in
            let '(s5, o5) := defer fl cfg s4 (TDiscK raised) in (s5, o4 ++ o5)) in
  levs (snd r) = [LvDisconnect] /\ lcore (fst r) = lcore s /\ topen (fst r) = topen s /\
  match fl with
  | Tx => queue (fst r) = queue s
  | Aio => exists Q, queue (fst r) = queue s ++ Q /\ Forall semi2 Q /\ existsb is_ld Q = false /\ exists r0, In (TDiscK r0) Q
  end.
Proof.
  intros fl cfg s.
  assert (Hfin : forall s4 raised, lcore s4 = lcore s -> topen s4 = topen s ->
            match fl with Tx => queue s4 = queue s
                        | Aio => exists Q, queue s4 = queue s ++ Q /\ Forall inert Q end ->
            let r5 := defer fl cfg s4 (TDiscK raised) in
            levs (snd r5) = [] /\ lcore (fst r5) = lcore s /\ topen (fst r5) = topen s /\
            match fl with
            | Tx => queue (fst r5) = queue s
            | Aio => exists Q, queue (fst r5) = queue s ++ Q /\ Forall semi2 Q /\ existsb is_ld Q = false /\ exists r0, In (TDiscK r0) Q
            end).
  { intros s4 raised Hl Ht Hq. destruct fl; cbn [defer run_thunk].
    - pose proof (LQ_errback_all Tx cfg s4 ETransportLost) as [A1 B1]. pose proof (QQ_errback_all Tx cfg s4 ETransportLost) as [T1 Q1].
      destruct (errback_all Tx cfg s4 ETransportLost) as [s5 o5]. simpl in *.
      rewrite levs_app, A1. split; [destruct raised; reflexivity|]. repeat split; congruence.
    - cbn [fst snd levs]. split; [reflexivity|]. split; [exact Hl|]. split; [exact Ht|].
      destruct Hq as [Q [E F]]. exists (Q ++ [TDiscK raised]). destruct (inert_semi Q F) as [S N]. split; [|split; [|split]].
      + unfold enqueue. cbn [queue set_queue]. rewrite E, app_assoc. reflexivity.
      + apply Forall_app. split; [now apply semi_semi2 | constructor; [right; eexists; reflexivity | constructor]].
      + rewrite existsb_app, N. reflexivity.
      + exists raised. apply in_or_app. right. now left. }
  unfold do_onDisconnect. destruct (u_disc_super cfg).
  - pose proof (LQ_errback_all fl cfg s ETransportLost) as [A1 B1]. pose proof (QQ_errback_all fl cfg s ETransportLost) as [T1 Q1].
    destruct (errback_all fl cfg s ETransportLost) as [s1 o1]. cbn [fst snd] in *.
    specialize (Hfin s1 (u_disc_raises cfg) B1 T1 Q1). destruct (defer fl cfg s1 (TDiscK (u_disc_raises cfg))) as [s5 o5].
    cbn [fst snd] in *. destruct Hfin as [A5 R5]. rewrite !levs_app, A1, A5. split; [reflexivity | exact R5].
  - assert (Hq : match fl with Tx => queue s = queue s | Aio => exists Q, queue s = queue s ++ Q /\ Forall inert Q end).
    { destruct fl; [reflexivity|]. exists []. rewrite app_nil_r. split; [reflexivity | constructor]. }
    specialize (Hfin s (u_disc_raises cfg) eq_refl eq_refl Hq). destruct (defer fl cfg s (TDiscK (u_disc_raises cfg))) as [s5 o5].
    cbn [fst snd] in *. destruct Hfin as [A5 R5]. rewrite !levs_app, A5. split; [reflexivity | exact R5].
Qed.

(* ---- the transport-open flag, exactly (Twisted) ---- *)
Definition spec_topen (cfg : ucfg) (s : sess) (o : op) : bool :=
  match o with
  | OOpen => if transport s then topen s else true
  | OLost _ => if transport s then false else topen s
  | ADisconnect => if transport s then false else topen s
  | RAbort _ => if transport s && isNone (sid s) && u_leave_super cfg then false else topen s
  | RChallenge => if transport s && isNone (sid s) && match u_challenge cfg with ChRaise => true | _ => false end
                     && send_ok cfg s && u_leave_super cfg then false else topen s
  | RGoodbye _ => if transport s && negb (isNone (sid s)) && (goodbye_sent s || send_ok cfg s) && u_leave_super cfg
                  then false else topen s
  | _ => topen s
  end.

Theorem tx_step_topen : forall cfg s o, topen (fst (step Tx cfg s o)) = spec_topen cfg s o.
Proof.
  intros cfg s o.
  destruct (is_quiet_api o) eqn:Eq.
  { destruct (QQ_api Tx cfg s o Eq) as [A _]. rewrite A. destruct o; try discriminate; reflexivity. }
  destruct o; try discriminate; clear Eq;
    try solve [ unfold step; cbv beta iota; destruct (transport s); [|reflexivity]; simpl negb; cbv iota;
                destruct (sid s) eqn:Es; [|reflexivity];
                match goal with |- context [on_message_established Tx cfg s ?O] =>
                  let Hng := fresh in
                  assert (Hng : forall r, O <> RGoodbye r) by (intros r E; discriminate);
                  destruct (QQ_established Tx cfg s O Hng) as [A _]; rewrite A; reflexivity end ].
  - (* OOpen *)
    unfold step. simpl. destruct (transport s); [reflexivity|]. simpl.
    destruct (u_connect cfg); [|reflexivity]. unfold sid_truthy. simpl. fold (sid_truthy s). destruct (sid_truthy s); [reflexivity|]. simpl.
    unfold send. simpl. reflexivity.
  - (* OLost *)
    unfold step. cbv beta iota. unfold spec_topen. destruct (transport s) eqn:Et; [|reflexivity]. simpl negb. cbv iota.
    set (s0 := set_conn s (opened s) false false).
    assert (H3 : topen (fst (if sid_truthy s0
                             then let '(s1, o1, raised) := do_onLeave Tx cfg s0 RsTransportLost in
                                  let '(s2, o2) := defer_leaf Tx cfg s1 (LLeaveK raised) in (set_sid s2 None, o1 ++ o2)
                             else (s0, []))) = false).
    { destruct (sid_truthy s0); [|reflexivity].
      pose proof (tx_leave_topen cfg s0 RsTransportLost) as [A _].
      destruct (do_onLeave Tx cfg s0 RsTransportLost) as [[s1 o1] raised].
      destruct (defer_leaf Tx cfg s1 (LLeaveK raised)) as [s2 o2]. simpl in *. rewrite A.
      destruct (u_leave_super cfg); reflexivity. }
    destruct (if sid_truthy s0
              then let '(s1, o1, raised) := do_onLeave Tx cfg s0 RsTransportLost in
                   let '(s2, o2) := defer_leaf Tx cfg s1 (LLeaveK raised) in (set_sid s2 None, o1 ++ o2)
              else (s0, [])) as [s3 o3]. simpl in H3.
    pose proof (any_onDisconnect Tx cfg s3) as [_ [_ [A _]]].
    destruct (do_onDisconnect Tx cfg s3) as [[s4 o4] raised]. destruct (defer Tx cfg s4 (TDiscK raised)) as [s5 o5].
    simpl in *. congruence.
  - reflexivity.
  - (* ALeave *)
    unfold step. cbv beta iota. destruct (negb (sid_truthy s)); [reflexivity|]. destruct (goodbye_sent s); [reflexivity|].
    destruct (negb (transport s)); [reflexivity|]. destruct (send cfg s _) as [o1 ok]. destruct ok; reflexivity.
  - (* ADisconnect *)
    unfold step. cbv beta iota. unfold spec_topen. destruct (transport s); reflexivity.
  - (* RWelcome *)
    unfold step. cbv beta iota. destruct (transport s) eqn:Et; [|reflexivity]. simpl negb. cbv iota.
    destruct (sid s); [reflexivity|]. simpl. destruct (u_welcome cfg); simpl; rewrite Et.
    + simpl. reflexivity.
    + destruct (send cfg s (MAbort RsCannotAuth)). reflexivity.
    + destruct (send cfg s (MAbort RsCannotAuth)). reflexivity.
  - (* RAbort *)
    unfold step. cbv beta iota. unfold spec_topen. destruct (transport s) eqn:Et; [|reflexivity]. simpl negb. cbv iota.
    destruct (sid s); [reflexivity|]. unfold on_message_unjoined. cbn [andb isNone].
    pose proof (tx_leave_topen cfg s r) as [A _].
    destruct (do_onLeave Tx cfg s r) as [[s2 o2] raised]. destruct (defer_leaf Tx cfg s2 (LLeaveK raised)) as [s3 o3].
    cbn [fst snd] in *. rewrite A, Et, andb_true_r. reflexivity.
  - (* RChallenge *)
    unfold step. cbv beta iota. unfold spec_topen. destruct (transport s) eqn:Et; [|reflexivity]. simpl negb. cbv iota.
    destruct (sid s); [reflexivity|]. unfold on_message_unjoined. cbn [andb isNone].
    destruct (u_challenge cfg); simpl.
    + rewrite Et. destruct (send cfg s MAuthenticate) as [o1 ok]. destruct ok; reflexivity.
    + reflexivity.
    + unfold challenge_failed. rewrite Et. destruct (send_fst_snd cfg s (MAbort RsCannotAuth)) as [Hok _].
      destruct (send cfg s (MAbort RsCannotAuth)) as [o1 ok]. simpl in Hok. rewrite <- Hok. destruct ok; [|reflexivity].
      pose proof (tx_leave_topen cfg s RsCannotAuth) as [A _].
      destruct (do_onLeave Tx cfg s RsCannotAuth) as [[s2 o2] raised]. destruct (defer_leaf Tx cfg s2 (LLeaveK raised)) as [s3 o3].
      cbn [fst snd] in *. rewrite A, Et, andb_true_r. reflexivity.
  - (* RGoodbye *)
    unfold step. cbv beta iota. unfold spec_topen. destruct (transport s) eqn:Et; [|reflexivity]. simpl negb. cbv iota.
    destruct (sid s) eqn:Es; [|reflexivity]. unfold on_message_established. cbn [andb isNone negb].
    destruct (goodbye_sent s) eqn:Eg.
    + pose proof (tx_leave_topen cfg (set_sid s None) r) as [A _].
      destruct (do_onLeave Tx cfg (set_sid s None) r) as [[s2 o2] raised].
      destruct (defer_leaf Tx cfg s2 (LLeaveK raised)) as [s3 o3]. cbn [fst snd orb] in *.
      rewrite A. simpl. rewrite Et, andb_true_r. reflexivity.
    + destruct (send_fst_snd cfg s (MGoodbye RsNormal)) as [Hok _].
      destruct (send cfg s (MGoodbye RsNormal)) as [o1 ok]. cbn [fst snd] in Hok. rewrite <- Hok. destruct ok; [|reflexivity].
      pose proof (tx_leave_topen cfg (set_sid s None) r) as [A _].
      destruct (do_onLeave Tx cfg (set_sid s None) r) as [[s2 o2] raised].
      destruct (defer_leaf Tx cfg s2 (LLeaveK raised)) as [s3 o3]. cbn [fst snd orb] in *.
      rewrite A. simpl. rewrite Et, andb_true_r. reflexivity.
Qed.

(* ---- asyncio, settled: one event followed by two loop iterations ---- *)
(* every life can be left: whatever happened before, an object that has no transport and no session id, is connected
   (its onConnect joins), is welcomed by the router and then calls leave(), sends GOODBYE *)
Theorem tx_leave_in_every_life : forall cfg s v r, transport s = false -> sid s = None ->
  u_connect cfg = CnJoin -> u_welcome cfg = WlNone -> v <> 0 ->
  levs (concat (snd (run Tx cfg s [OOpen; RWelcome v; ALeave r]))) = [LvConnect; LvJoin; LvGoodbye].
Proof.
  intros cfg s v r Ht Hs Hc Hw Hv. cbn [run].
  destruct (tx_step_spec cfg s OOpen) as [A1 B1]. pose proof (tx_step_topen cfg s OOpen) as C1.
  destruct (step Tx cfg s OOpen) as [s1 o1]. simpl in A1, B1, C1.
  destruct (tx_step_spec cfg s1 (RWelcome v)) as [A2 B2]. pose proof (tx_step_topen cfg s1 (RWelcome v)) as C2.
  destruct (step Tx cfg s1 (RWelcome v)) as [s2 o2]. simpl in A2, B2, C2.
  destruct (tx_step_spec cfg s2 (ALeave r)) as [A3 _]. destruct (step Tx cfg s2 (ALeave r)) as [s3 o3]. simpl in A3.
  cbn [fst snd concat]. rewrite app_nil_r, !levs_app, A1, A2, A3. clear A1 A2 A3.
  rewrite Ht in *. rewrite Hc in B1. unfold sid_truthy in B1. rewrite Hs in B1. unfold lcore in B1, B2.
  pose proof (f_equal (fun c => snd (fst (fst c))) B1) as E2. pose proof (f_equal (fun c => snd (fst c)) B1) as E3.
  pose proof (f_equal snd B1) as E4. cbn [fst snd] in E2, E3, E4. clear B1.
  unfold isNone in *. rewrite E2, E3, Hw in *. cbn [andb] in *.
  pose proof (f_equal (fun c => snd (fst (fst c))) B2) as F2. pose proof (f_equal (fun c => snd (fst c)) B2) as F3.
  pose proof (f_equal snd B2) as F4. cbn [fst snd] in F2, F3, F4. clear B2.
  unfold sid_truthy. rewrite F3, F4, E4, F2, C2, C1.
  destruct (v =? 0) eqn:Ev; [apply N.eqb_eq in Ev; contradiction|]. reflexivity.
Qed.

Definition turn2 (cfg : ucfg) (s1 : sess) : sess * list out :=
  let '(s2, o2) := step Aio cfg s1 OTurn in
  let '(s3, o3) := step Aio cfg s2 OTurn in (s3, o2 ++ o3).
Definition macro (cfg : ucfg) (s : sess) (o : op) : sess * list out :=
  let '(s1, o1) := step Aio cfg s o in
  let '(s3, o23) := turn2 cfg s1 in (s3, o1 ++ o23).

(* on asyncio an exception inside the success callback of onChallenge is routed to the errback: a missing signature
   behaves like a raising onChallenge *)
Definition aio_cfg (cfg : ucfg) : ucfg :=
  {| u_connect := u_connect cfg; u_welcome := u_welcome cfg;
     u_challenge := match u_challenge cfg with ChNone => ChRaise | c => c end;
     u_join_raises := u_join_raises cfg; u_leave_super := u_leave_super cfg; u_leave_raises := u_leave_raises cfg;
     u_disc_super := u_disc_super cfg; u_disc_raises := u_disc_raises cfg; t_lenient := t_lenient cfg |}.

Lemma turn2_semi : forall cfg s1, Forall semi (queue s1) ->
  let r := turn2 cfg s1 in
  levs (snd r) = [] /\ lcore (fst r) = lcore s1 /\ queue (fst r) = []
  /\ topen (fst r) = (if existsb is_ld (queue s1) && transport s1 then false else topen s1).
Proof.
  intros cfg s1 H. unfold turn2. destruct (turn_semi cfg s1 H) as [A [B [C D]]].
  destruct (step Aio cfg s1 OTurn) as [s2 o2]. cbn [fst snd] in *. rewrite (turn_empty cfg s2 C). cbn [fst snd].
  rewrite app_nil_r. repeat split; assumption.
Qed.

Lemma turn2_semi2 : forall cfg s1, Forall semi2 (queue s1) ->
  let r := turn2 cfg s1 in
  levs (snd r) = [] /\ lcore (fst r) = lcore s1 /\ queue (fst r) = []
  /\ topen (fst r) = (if existsb is_ld (queue s1) && transport s1 then false else topen s1).
Proof.
  intros cfg s1 H. unfold turn2.
  assert (H1 : let r := step Aio cfg s1 OTurn in
               levs (snd r) = [] /\ lcore (fst r) = lcore s1 /\ Forall inert (queue (fst r))
               /\ topen (fst r) = (if existsb is_ld (queue s1) && transport s1 then false else topen s1)).
  { unfold step. cbv beta iota. destruct (run_semi2 cfg (queue s1) (set_queue s1 []) H) as [A [B [[Q' [C F]] D]]].
    destruct (run_queue Aio cfg (set_queue s1 []) (queue s1)) as [s2 o2]. simpl in *. rewrite C. repeat split; assumption. }
  destruct (step Aio cfg s1 OTurn) as [s2 o2]. cbn [fst snd] in *. destruct H1 as [A [B [F D]]].
  destruct (inert_semi _ F) as [S N]. destruct (turn_semi cfg s2 S) as [A2 [B2 [C2 D2]]].
  destruct (step Aio cfg s2 OTurn) as [s3 o3]. cbn [fst snd] in *. rewrite N in D2. simpl in D2.
  rewrite levs_app, A, A2. repeat split; congruence.
Qed.

Lemma macro_semi2 : forall cfg s o Q,
  queue (fst (step Aio cfg s o)) = Q -> Forall semi2 Q ->
  let r := macro cfg s o in
  levs (snd r) = levs (snd (step Aio cfg s o)) /\ lcore (fst r) = lcore (fst (step Aio cfg s o))
  /\ topen (fst r) = (if existsb is_ld Q && transport (fst (step Aio cfg s o)) then false else topen (fst (step Aio cfg s o)))
  /\ queue (fst r) = [].
Proof.
  intros cfg s o Q E F. unfold macro. destruct (step Aio cfg s o) as [s1 o1]. simpl in *. subst Q.
  destruct (turn2_semi2 cfg s1 F) as [A2 [B2 [C2 D2]]]. destruct (turn2 cfg s1) as [s3 o23]. simpl in *.
  rewrite levs_app, A2, app_nil_r. repeat split; assumption.
Qed.

Lemma macro_quiet : forall cfg s o,
  queue s = [] -> LQ s (fst (step Aio cfg s o)) (snd (step Aio cfg s o)) -> QQ Aio s (fst (step Aio cfg s o)) ->
  let r := macro cfg s o in
  levs (snd r) = [] /\ lcore (fst r) = lcore s /\ topen (fst r) = topen s /\ queue (fst r) = [].
Proof.
  intros cfg s o Hq [A B] [T [Q [E F]]]. unfold macro. destruct (step Aio cfg s o) as [s1 o1]. simpl in *.
  rewrite Hq in E. simpl in E. destruct (inert_semi Q F) as [S N].
  assert (Hs : Forall semi (queue s1)) by (rewrite E; exact S).
  destruct (turn2_semi cfg s1 Hs) as [A2 [B2 [C2 D2]]]. destruct (turn2 cfg s1) as [s3 o23]. simpl in *.
  rewrite levs_app, A, A2. rewrite E, N in D2. simpl in D2. repeat split; congruence.
Qed.

(* a step whose scheduled callbacks are all "semi" (asyncio) *)
Lemma macro_semi : forall cfg s o Q,
  queue (fst (step Aio cfg s o)) = Q -> Forall semi Q ->
  let r := macro cfg s o in
  levs (snd r) = levs (snd (step Aio cfg s o)) /\ lcore (fst r) = lcore (fst (step Aio cfg s o))
  /\ topen (fst r) = (if existsb is_ld Q && transport (fst (step Aio cfg s o)) then false else topen (fst (step Aio cfg s o)))
  /\ queue (fst r) = [].
Proof.
  intros cfg s o Q E F. unfold macro. destruct (step Aio cfg s o) as [s1 o1]. simpl in *. subst Q.
  destruct (turn2_semi cfg s1 F) as [A2 [B2 [C2 D2]]]. destruct (turn2 cfg s1) as [s3 o23]. simpl in *.
  rewrite levs_app, A2, app_nil_r. repeat split; assumption.
Qed.

Lemma step_turn_aio : forall cfg s, step Aio cfg s OTurn = run_queue Aio cfg (set_queue s []) (queue s).
Proof. reflexivity. Qed.

Lemma macro_one_thunk : forall cfg s o s0 t o1,
  step Aio cfg s o = (enqueue s0 t, o1) -> queue s0 = [] ->
  Forall semi (queue (fst (run_thunk Aio cfg (set_queue (enqueue s0 t) []) t))) ->
  let ra := run_thunk Aio cfg (set_queue (enqueue s0 t) []) t in
  let r := macro cfg s o in
  levs (snd r) = levs o1 ++ levs (snd ra) /\ lcore (fst r) = lcore (fst ra)
  /\ topen (fst r) = (if existsb is_ld (queue (fst ra)) && transport (fst ra) then false else topen (fst ra))
  /\ queue (fst r) = [].
Proof.
  intros cfg s o s0 t o1 Hst Hq0 Hsemi. cbv zeta.
  assert (Hm : macro cfg s o =
               let '(sa, oa) := run_thunk Aio cfg (set_queue (enqueue s0 t) []) t in
               let '(s3, o3) := step Aio cfg sa OTurn in (s3, o1 ++ (oa ++ []) ++ o3)).
  { unfold macro, turn2. rewrite Hst. rewrite (step_turn_aio cfg (enqueue s0 t)).
    unfold enqueue at 2. cbn [queue set_queue]. rewrite Hq0. cbn [app run_queue].
    destruct (run_thunk Aio cfg (set_queue (enqueue s0 t) []) t) as [sa oa].
    destruct (step Aio cfg sa OTurn) as [s3 o3]. reflexivity. }
  rewrite Hm. clear Hm.
  destruct (run_thunk Aio cfg (set_queue (enqueue s0 t) []) t) as [sa oa]. cbn [fst snd] in *.
  destruct (turn_semi cfg sa Hsemi) as [A [B [C D]]]. destruct (step Aio cfg sa OTurn) as [s3 o3]. cbn [fst snd] in *.
  rewrite !levs_app, A, !app_nil_r. repeat split; assumption.
Qed.

Lemma aio_challenge_failed : forall cfg s, transport s = true ->
  let r := challenge_failed Aio cfg s in
  (send_ok cfg s = true ->
     levs (snd r) = [LvLeave] /\ lcore (fst r) = lcore s /\ topen (fst r) = topen s
     /\ exists Q, queue (fst r) = queue s ++ Q /\ leave_queue cfg Q)
  /\ (send_ok cfg s = false -> levs (snd r) = [] /\ fst r = s).
Proof.
  intros cfg s Et. unfold challenge_failed. rewrite Et.
  assert (Hm : forall r, MAbort RsCannotAuth <> MGoodbye r) by (intros r E; discriminate).
  pose proof (send_lq cfg s _ Hm) as Hs. destruct (send_fst_snd cfg s (MAbort RsCannotAuth)) as [Hok _].
  destruct (send cfg s (MAbort RsCannotAuth)) as [o1 ok]. cbn [fst snd] in *. subst ok. split; intro Hk; rewrite Hk.
  - pose proof (aio_leave_then cfg s RsCannotAuth) as H.
    destruct (do_onLeave Aio cfg s RsCannotAuth) as [[s2 o2] raised]. destruct (defer_leaf Aio cfg s2 (LLeaveK raised)) as [s3 o3].
    cbn [fst snd] in *. destruct H as [A [B [C D]]].
    change (UserError :: o1 ++ o2 ++ o3) with ([UserError] ++ o1 ++ (o2 ++ o3)). rewrite levs_app, (levs_app o1), Hs, A.
    repeat split; assumption.
  - cbn [fst snd]. change (UserError :: o1 ++ [LoopError XTransportLost]) with ([UserError] ++ o1 ++ [LoopError XTransportLost]).
    rewrite levs_app, levs_app, Hs. split; reflexivity.
Qed.

Lemma aio_lost_step : forall cfg s clean, queue s = [] -> transport s = true ->
  exists Q, queue (fst (step Aio cfg s (OLost clean))) = Q /\ Forall semi2 Q /\ (exists r0, In (TDiscK r0) Q)
              /\ levs (snd (step Aio cfg s (OLost clean))) = (if sid_truthy s then [LvLeave] else []) ++ [LvDisconnect]
              /\ lcore (fst (step Aio cfg s (OLost clean))) = (opened s, false, (if sid_truthy s then None else sid s), goodbye_sent s)
              /\ topen (fst (step Aio cfg s (OLost clean))) = false.
Proof.
  intros cfg s clean Hq Et.
  set (s0 := set_conn s (opened s) false false).
  assert (Hq0 : queue s0 = []) by exact Hq.
 unfold step. cbv beta iota. rewrite Et. simpl negb. cbv iota. fold s0.
      assert (Htr : sid_truthy s0 = sid_truthy s) by reflexivity. rewrite Htr.
      destruct (sid_truthy s) eqn:Est.
      - pose proof (aio_leave_then cfg s0 RsTransportLost) as H.
        destruct (do_onLeave Aio cfg s0 RsTransportLost) as [[s1 o1] raised].
        destruct (defer_leaf Aio cfg s1 (LLeaveK raised)) as [s2 o2]. cbn [fst snd] in H.
        destruct H as [A [B [C [Q [E [F G]]]]]].
        pose proof (any_onDisconnect Aio cfg (set_sid s2 None)) as H4.
        destruct (do_onDisconnect Aio cfg (set_sid s2 None)) as [[s4 o4] raised4].
        destruct (defer Aio cfg s4 (TDiscK raised4)) as [s5 o5]. cbn [fst snd] in *.
        destruct H4 as [A4 [B4 [T4 [Q4 [E4 [F4 [N4 [r4 I4]]]]]]]].
        exists (Q ++ Q4). split; [|split; [|split; [|split; [|split]]]].
        + rewrite E4. cbn [queue set_sid]. rewrite E, Hq0. reflexivity.
        + apply Forall_app. split; [apply semi_semi2; assumption | exact F4].
        + exists r4. apply in_or_app. now right.
        + rewrite levs_app, A, A4. reflexivity.
        + rewrite B4. unfold lcore in *. cbn in *. inversion B. reflexivity.
        + rewrite T4. cbn. rewrite C. reflexivity.
      - pose proof (any_onDisconnect Aio cfg s0) as H4.
        destruct (do_onDisconnect Aio cfg s0) as [[s4 o4] raised4].
        destruct (defer Aio cfg s4 (TDiscK raised4)) as [s5 o5]. cbn [fst snd] in *.
        destruct H4 as [A4 [B4 [T4 [Q4 [E4 [F4 [N4 [r4 I4]]]]]]]].
        exists Q4. split; [|split; [|split; [|split; [|split]]]].
        + rewrite E4, Hq0. reflexivity.
        + exact F4.
        + exists r4. exact I4.
        + exact A4.
        + rewrite B4. reflexivity.
        + rewrite T4. reflexivity. Qed.

(* ---- asyncio: the final sweep of onClose runs one loop iteration after the loss ---- *)
Lemma semi2_pend_one : forall cfg s t, semi2 t -> transport s = false ->
  let s' := fst (run_thunk Aio cfg s t) in
  (pend s' = pend s \/ pend s' = []) /\ ((exists r, t = TDiscK r) -> pend s' = []).
Proof.
  intros cfg s t H Ht. destruct H as [[Hi| ->]|[r0 ->]].
  - destruct t as [l| | | |]; try contradiction. destruct l; try contradiction; simpl.
    + pose proof (sweep_react (fun _ => True) cfg s f) as Hs. destruct (react cfg s f) as [s2 o2]. simpl in *.
      split; [left; exact (sw_quiet _ _ _ Hs Ht) | intros [r0 E]; discriminate E].
    + split; [now left | intros [r0 E]; discriminate E].
    + rewrite Ht. split; [now left | intros [r0 E]; discriminate E].
    + rewrite Ht. split; [now left | intros [r0 E]; discriminate E].
  - simpl. rewrite Ht. split; [now left | intros [r0 E]; discriminate E].
  - simpl. destruct (errback_all_spec Aio cfg s ETransportLost) as [_ [_ [C _]]].
    destruct (errback_all Aio cfg s ETransportLost) as [s1 o1]. simpl in *.
    rewrite (C (or_introl Ht)). split; [now right | reflexivity].
Qed.

Lemma run_semi2_pend : forall cfg Q s, Forall semi2 Q -> transport s = false ->
  (pend s = [] \/ exists r, In (TDiscK r) Q) -> pend (fst (run_queue Aio cfg s Q)) = [].
Proof.
  induction Q as [|t r IH]; intros s H Ht Hp; simpl.
  - destruct Hp as [Hp|[r0 []]]. exact Hp.
  - inversion H as [|? ? Hs Hr]; subst.
    destruct (semi2_pend_one cfg s t Hs Ht) as [P1 P2]. destruct (run_semi2_one cfg s t Hs) as [_ [B1 _]].
    destruct (run_thunk Aio cfg s t) as [s1 o1]. simpl in *.
    assert (Ht1 : transport s1 = false) by (unfold lcore in B1; inversion B1; congruence).
    assert (Hp1 : pend s1 = [] \/ exists r0, In (TDiscK r0) r).
    { destruct Hp as [Hp|[r0 [E|Hin]]].
      - left. destruct P1 as [E|E]; congruence.
      - left. apply P2. exists r0. exact E.
      - right. exists r0. exact Hin. }
    specialize (IH s1 Hr Ht1 Hp1). destruct (run_queue Aio cfg s1 r) as [s2 o2]. exact IH.
Qed.

(* a settled loop, then the transport is lost: after the next loop iteration the tables are empty, whatever the user's
   onLeave / onDisconnect do *)
Theorem aio_lost_clears : forall cfg s clean, queue s = [] -> transport s = true ->
  let s1 := fst (step Aio cfg s (OLost clean)) in
  let s2 := fst (step Aio cfg s1 OTurn) in
  transport s2 = false /\ pend s2 = [].
Proof.
  intros cfg s clean Hq Et. destruct (aio_lost_step cfg s clean Hq Et) as [Q [EQ [FQ [[r0 IQ] [_ [BL _]]]]]].
  cbv zeta. destruct (step Aio cfg s (OLost clean)) as [s1 o1]. cbn [fst snd] in *.
  assert (Ht1 : transport s1 = false) by (unfold lcore in BL; inversion BL; reflexivity).
  unfold step. cbv beta iota. rewrite EQ.
  assert (Ht0 : transport (set_queue s1 []) = false) by exact Ht1.
  pose proof (run_semi2_pend cfg Q (set_queue s1 []) FQ Ht0 (or_intror (ex_intro _ r0 IQ))) as HP.
  destruct (run_semi2 cfg Q (set_queue s1 []) FQ) as [_ [B _]].
  destruct (run_queue Aio cfg (set_queue s1 []) Q) as [s2 o2]. cbn [fst snd] in *.
  split; [unfold lcore in B; inversion B; congruence | exact HP].
Qed.

Theorem aio_macro_spec : forall cfg s o, queue s = [] ->
  let r := macro cfg s o in
  levs (snd r) = spec_levs (aio_cfg cfg) s o /\ lcore (fst r) = spec_lcore (aio_cfg cfg) s o
  /\ topen (fst r) = spec_topen (aio_cfg cfg) s o /\ queue (fst r) = [].
Proof.
  intros cfg s o Hq.
  (* events invisible to the life-cycle *)
  assert (Hquiet : LQ s (fst (step Aio cfg s o)) (snd (step Aio cfg s o)) -> QQ Aio s (fst (step Aio cfg s o)) ->
                   spec_levs (aio_cfg cfg) s o = [] -> spec_lcore (aio_cfg cfg) s o = lcore s ->
                   spec_topen (aio_cfg cfg) s o = topen s ->
                   let r := macro cfg s o in
                   levs (snd r) = spec_levs (aio_cfg cfg) s o /\ lcore (fst r) = spec_lcore (aio_cfg cfg) s o
                   /\ topen (fst r) = spec_topen (aio_cfg cfg) s o /\ queue (fst r) = []).
  { intros HL HQ E1 E2 E3. destruct (macro_quiet cfg s o Hq HL HQ) as [A [B [C D]]]. rewrite E1, E2, E3. repeat split; assumption. }
  destruct (is_quiet_api o) eqn:Eq.
  { apply Hquiet; [now apply LQ_api | now apply QQ_api | | |]; destruct o; try discriminate; reflexivity. }
  assert (Hrq : forall (Hng : forall r, o <> RGoodbye r), is_router_msg o = true -> is_handshake o = false ->
            let r := macro cfg s o in
            levs (snd r) = spec_levs (aio_cfg cfg) s o /\ lcore (fst r) = spec_lcore (aio_cfg cfg) s o
            /\ topen (fst r) = spec_topen (aio_cfg cfg) s o /\ queue (fst r) = []).
  { intros Hng Hr Hh.
    assert (Hst : step Aio cfg s o = if negb (transport s) then (s, [])
                    else match sid s with None => on_message_unjoined Aio cfg s o | Some _ => on_message_established Aio cfg s o end).
    { destruct o; try discriminate; reflexivity. }
    apply Hquiet.
    - rewrite Hst. destruct (negb (transport s)); [apply LQ_refl|]. destruct (sid s); [now apply LQ_established|].
      destruct o; try discriminate; split; reflexivity.
    - rewrite Hst. destruct (negb (transport s)); [apply QQ_refl|]. destruct (sid s); [now apply QQ_established|].
      destruct o; try discriminate; apply QQ_refl.
    - destruct o; try discriminate; try reflexivity. exfalso. eapply Hng. reflexivity.
    - destruct o; try discriminate; try reflexivity. exfalso. eapply Hng. reflexivity.
    - destruct o; try discriminate; try reflexivity. exfalso. eapply Hng. reflexivity. }
  destruct o; try discriminate; clear Eq;
    try (apply Hrq; [intros r0 E; discriminate | reflexivity | reflexivity]); clear Hrq.
  - (* OOpen *)
    destruct (transport s) eqn:Eo.
    + apply Hquiet; unfold step, spec_levs, spec_lcore, spec_topen; rewrite ?Eo; try reflexivity; [apply LQ_refl | apply QQ_refl].
    + unfold macro, turn2, step. rewrite Eo. cbn [defer]. unfold enqueue. cbn [queue set_conn set_queue]. rewrite Hq.
      cbn [app run_queue run_thunk]. unfold spec_levs, spec_lcore, spec_topen, lcore. rewrite Eo. simpl.
      destruct (u_connect cfg); simpl; [|repeat split; reflexivity].
      unfold sid_truthy. simpl. fold (sid_truthy s). destruct (sid_truthy s); simpl; [repeat split; reflexivity|].
      unfold send. simpl. repeat split; reflexivity.
  - (* OLost *)
    destruct (transport s) eqn:Et.
    2:{ apply Hquiet; unfold step, spec_levs, spec_lcore, spec_topen; rewrite ?Et; try reflexivity; [apply LQ_refl | apply QQ_refl]. }
    set (s0 := set_conn s (opened s) false false).
    assert (Hq0 : queue s0 = []) by exact Hq.
    destruct (aio_lost_step cfg s clean Hq Et) as [Q [EQ [FQ [_ [AL [BL TL]]]]]].
    destruct (macro_semi2 cfg s (OLost clean) Q EQ FQ) as [A [B [C D]]].
    cbv zeta. unfold spec_levs, spec_lcore, spec_topen. rewrite Et. rewrite A, B, C, AL, BL, TL.
    repeat split; try assumption. destruct (existsb is_ld Q && _); reflexivity.
  - (* OTurn *)
    apply Hquiet; try reflexivity.
    + unfold step. rewrite Hq. simpl. split; reflexivity.
    + unfold step. rewrite Hq. simpl. apply QQ_same; [reflexivity | simpl; symmetry; exact Hq].
  - (* ALeave *)
    assert (Hsame : step Aio cfg s (ALeave r) = step Tx cfg s (ALeave r)) by reflexivity.
    assert (Hq1 : queue (fst (step Aio cfg s (ALeave r))) = []).
    { unfold step. destruct (negb (sid_truthy s)); [exact Hq|]. destruct (goodbye_sent s); [exact Hq|].
      destruct (negb (transport s)); [exact Hq|]. destruct (send cfg s _) as [o1 ok]. destruct ok; exact Hq. }
    destruct (macro_semi cfg s (ALeave r) [] Hq1 (Forall_nil _)) as [A [B [C D]]].
    destruct (tx_step_spec cfg s (ALeave r)) as [SA SB]. pose proof (tx_step_topen cfg s (ALeave r)) as ST.
    cbv zeta. rewrite A, B, C, Hsame, SA, SB, ST. simpl. repeat split; try reflexivity; assumption.
  - (* ADisconnect *)
    assert (Hsame : step Aio cfg s ADisconnect = step Tx cfg s ADisconnect) by reflexivity.
    assert (Hq1 : queue (fst (step Aio cfg s ADisconnect)) = []).
    { unfold step. destruct (transport s); exact Hq. }
    destruct (macro_semi cfg s ADisconnect [] Hq1 (Forall_nil _)) as [A [B [C D]]].
    destruct (tx_step_spec cfg s ADisconnect) as [SA SB]. pose proof (tx_step_topen cfg s ADisconnect) as ST.
    cbv zeta. rewrite A, B, C, Hsame, SA, SB, ST. simpl. repeat split; try reflexivity; assumption.
  - (* RWelcome *)
    destruct (transport s) eqn:Et.
    2:{ apply Hquiet; unfold step, spec_levs, spec_lcore, spec_topen; rewrite ?Et; try reflexivity; [apply LQ_refl | apply QQ_refl]. }
    destruct (sid s) as [v|] eqn:Es.
    { apply Hquiet; unfold step, spec_levs, spec_lcore, spec_topen; rewrite ?Et, ?Es; try reflexivity; [split; reflexivity | apply QQ_refl]. }
    unfold macro, turn2, step. rewrite Et, Es. cbn [negb on_message_unjoined defer]. unfold enqueue. cbn [queue set_queue]. rewrite Hq.
    cbn [app run_queue run_thunk]. unfold spec_levs, spec_lcore, spec_topen, lcore. rewrite Et, Es. cbn [isNone andb].
    cbn [aio_cfg u_welcome]. destruct (u_welcome cfg); cbn [transport set_queue]; rewrite ?Et.
    + cbn. rewrite Et. destruct (u_join_raises cfg); cbn; rewrite ?Et, ?Es; repeat split; reflexivity.
    + unfold send. cbn. destruct (topen s) eqn:Eo; [|destruct (t_lenient cfg && transport s) eqn:El]; cbn; rewrite ?Et, ?Es, ?Eo, ?El; repeat split; reflexivity.
    + unfold send. cbn. destruct (topen s) eqn:Eo; [|destruct (t_lenient cfg && transport s) eqn:El]; cbn; rewrite ?Et, ?Es, ?Eo, ?El; repeat split; reflexivity.
  - (* RAbort *)
    destruct (transport s) eqn:Et.
    2:{ apply Hquiet; unfold step, spec_levs, spec_lcore, spec_topen; rewrite ?Et; try reflexivity; [apply LQ_refl | apply QQ_refl]. }
    destruct (sid s) as [v|] eqn:Es.
    { apply Hquiet; unfold step, spec_levs, spec_lcore, spec_topen; rewrite ?Et, ?Es; try reflexivity; [split; reflexivity | apply QQ_refl]. }
    assert (Hst : step Aio cfg s (RAbort r) = (let '(s2, o2, raised) := do_onLeave Aio cfg s r in
                                              let '(s3, o3) := defer_leaf Aio cfg s2 (LLeaveK raised) in (s3, o2 ++ o3))).
    { unfold step. rewrite Et, Es. reflexivity. }
    pose proof (aio_leave_then cfg s r) as H. rewrite <- Hst in H. cbn zeta in H.
    destruct H as [A [B [C [Q [E [F G]]]]]]. rewrite Hq in E. simpl in E.
    destruct (macro_semi cfg s (RAbort r) Q E F) as [A2 [B2 [C2 D2]]].
    cbv zeta. unfold spec_levs, spec_lcore, spec_topen. rewrite Et, Es. cbn [isNone andb aio_cfg u_leave_super].
    rewrite A2, B2, C2, A, B, C, G.
    assert (Htr : transport (fst (step Aio cfg s (RAbort r))) = true) by (unfold lcore in B; inversion B; congruence).
    rewrite Htr. repeat split; try reflexivity; try assumption. destruct (u_leave_super cfg); reflexivity.
  - (* RChallenge *)
    destruct (transport s) eqn:Et.
    2:{ apply Hquiet; unfold step, spec_levs, spec_lcore, spec_topen; rewrite ?Et; try reflexivity; [apply LQ_refl | apply QQ_refl]. }
    destruct (sid s) as [v|] eqn:Es.
    { apply Hquiet; unfold step, spec_levs, spec_lcore, spec_topen; rewrite ?Et, ?Es; try reflexivity; [split; reflexivity | apply QQ_refl]. }
    assert (Hst : step Aio cfg s RChallenge = (enqueue s (TChallengeK (u_challenge cfg)), [Called CbChallenge])).
    { unfold step. rewrite Et, Es. reflexivity. }
    set (s' := set_queue (enqueue s (TChallengeK (u_challenge cfg))) []).
    assert (Et' : transport s' = true) by exact Et.
    assert (Hok' : send_ok cfg s' = send_ok cfg s) by reflexivity.
    assert (Hcf : let ra := challenge_failed Aio cfg s' in
                  Forall semi (queue (fst ra)) /\
                  levs (snd ra) = (if send_ok cfg s then [LvLeave] else []) /\ lcore (fst ra) = lcore s
                  /\ (if existsb is_ld (queue (fst ra)) && transport (fst ra) then false else topen (fst ra))
                     = (if send_ok cfg s && u_leave_super cfg then false else topen s)).
    { destruct (aio_challenge_failed cfg s' Et') as [H1 H2]. rewrite Hok' in *. destruct (send_ok cfg s) eqn:Ek.
      - destruct (H1 eq_refl) as [A [B [C [Q [E [F G]]]]]]. cbn zeta. cbn [queue set_queue] in E. simpl in E.
        rewrite E, A, B, C, G. split; [assumption|]. split; [reflexivity|]. split; [reflexivity|].
        assert (Htr : transport (fst (challenge_failed Aio cfg s')) = true) by (unfold lcore in B; inversion B; congruence).
        rewrite Htr. simpl. destruct (u_leave_super cfg); reflexivity.
      - destruct (H2 eq_refl) as [A E]. cbn zeta. rewrite E, A. split; [constructor|]. repeat split; reflexivity. }
    cbv zeta. unfold spec_levs, spec_lcore, spec_topen. rewrite Et, Es. cbn [isNone andb aio_cfg u_challenge u_leave_super].
    assert (Hsok : send_ok (aio_cfg cfg) s = send_ok cfg s) by reflexivity. rewrite Hsok.
    destruct (u_challenge cfg) eqn:Ec.
    + (* ChSig *)
      assert (Hth : let ra := run_thunk Aio cfg s' (TChallengeK ChSig) in
                Forall semi (queue (fst ra)) /\ levs (snd ra) = [] /\ lcore (fst ra) = lcore s
                /\ (if existsb is_ld (queue (fst ra)) && transport (fst ra) then false else topen (fst ra)) = topen s).
      { cbn [run_thunk]. rewrite Et'.
        assert (Hm : forall r, MAuthenticate <> MGoodbye r) by (intros r E; discriminate).
        pose proof (send_lq cfg s' _ Hm) as Hs. destruct (send_fst_snd cfg s' MAuthenticate) as [Hok _].
        destruct (send cfg s' MAuthenticate) as [o1 ok]. cbn [fst snd] in *. subst ok. rewrite Hok'.
        destruct (send_ok cfg s) eqn:Ek.
        - cbn [fst snd queue set_queue]. split; [constructor|]. repeat split; try assumption; reflexivity.
        - cbv zeta in Hcf. destruct Hcf as [F [A [B C]]]. destruct (challenge_failed Aio cfg s') as [s2 o2]. cbn [fst snd andb] in *.
          split; [assumption|]. rewrite levs_app, Hs, A. repeat split; assumption. }
      destruct Hth as [F [A [B C]]].
      destruct (macro_one_thunk cfg s RChallenge s (TChallengeK ChSig) [Called CbChallenge] Hst Hq F) as [A2 [B2 [C2 D2]]].
      fold s' in A2, B2, C2. rewrite A2, B2, C2, A, B, C. repeat split; try reflexivity; assumption.
    + (* ChNone: asyncio routes the exception of success() to error() *)
      destruct Hcf as [F [A [B C]]].
      assert (Hrt : run_thunk Aio cfg s' (TChallengeK ChNone) = challenge_failed Aio cfg s') by reflexivity.
      rewrite <- Hrt in F, A, B, C.
      destruct (macro_one_thunk cfg s RChallenge s (TChallengeK ChNone) [Called CbChallenge] Hst Hq F) as [A2 [B2 [C2 D2]]].
      fold s' in A2, B2, C2. rewrite A2, B2, C2, A, B, C. repeat split; try reflexivity; try assumption;
        try (destruct (send_ok cfg s); reflexivity).
    + destruct Hcf as [F [A [B C]]].
      assert (Hrt : run_thunk Aio cfg s' (TChallengeK ChRaise) = challenge_failed Aio cfg s') by reflexivity.
      rewrite <- Hrt in F, A, B, C.
      destruct (macro_one_thunk cfg s RChallenge s (TChallengeK ChRaise) [Called CbChallenge] Hst Hq F) as [A2 [B2 [C2 D2]]].
      fold s' in A2, B2, C2. rewrite A2, B2, C2, A, B, C. repeat split; try reflexivity; try assumption;
        try (destruct (send_ok cfg s); reflexivity).
  - (* RGoodbye *)
    destruct (transport s) eqn:Et.
    2:{ apply Hquiet; unfold step, spec_levs, spec_lcore, spec_topen; rewrite ?Et; try reflexivity; [apply LQ_refl | apply QQ_refl]. }
    destruct (sid s) as [v|] eqn:Es.
    2:{ apply Hquiet; unfold step, spec_levs, spec_lcore, spec_topen; rewrite ?Et, ?Es; try reflexivity; [split; reflexivity | apply QQ_refl]. }
    assert (Hstep : exists Q, queue (fst (step Aio cfg s (RGoodbye r))) = Q /\ Forall semi Q
              /\ levs (snd (step Aio cfg s (RGoodbye r))) = spec_levs cfg s (RGoodbye r)
              /\ lcore (fst (step Aio cfg s (RGoodbye r))) = spec_lcore cfg s (RGoodbye r)
              /\ topen (fst (step Aio cfg s (RGoodbye r))) = topen s
              /\ existsb is_ld Q = (goodbye_sent s || send_ok cfg s) && u_leave_super cfg).
    { unfold step, spec_levs, spec_lcore. rewrite Et, Es. cbn [negb isNone andb on_message_established].
      destruct (goodbye_sent s) eqn:Eg.
      - pose proof (aio_leave_then cfg (set_sid s None) r) as H.
        destruct (do_onLeave Aio cfg (set_sid s None) r) as [[s2 o2] raised].
        destruct (defer_leaf Aio cfg s2 (LLeaveK raised)) as [s3 o3]. cbn [fst snd app orb] in *.
        destruct H as [A [B [C [Q [E [F G]]]]]]. cbn [queue set_sid] in E. rewrite Hq in E. simpl in E.
        exists Q. repeat split; try assumption. rewrite B. unfold lcore. cbn. rewrite Et, Eg. reflexivity.
      - destruct (send_fst_snd cfg s (MGoodbye RsNormal)) as [Hok Hout].
        destruct (send cfg s (MGoodbye RsNormal)) as [o1 ok]. cbn [fst snd] in Hok, Hout. rewrite <- Hok. subst o1.
        destruct ok.
        + pose proof (aio_leave_then cfg (set_sid s None) r) as H.
          destruct (do_onLeave Aio cfg (set_sid s None) r) as [[s2 o2] raised].
          destruct (defer_leaf Aio cfg s2 (LLeaveK raised)) as [s3 o3]. cbn [fst snd orb] in *.
          destruct H as [A [B [C [Q [E [F G]]]]]]. cbn [queue set_sid] in E. rewrite Hq in E. simpl in E.
          exists Q. rewrite levs_app, A. split; [assumption|]. split; [assumption|]. split; [|split; [|split; assumption]].
          * unfold send_ok in Hok. destruct (topen s); [reflexivity|]. cbn [orb] in Hok.
            destruct (t_lenient cfg && transport s); [reflexivity | discriminate].
          * rewrite B. unfold lcore. cbn. rewrite Et, Eg. reflexivity.
        + cbn [fst snd orb]. exists []. rewrite levs_app. unfold send_ok in Hok. destruct (topen s); [discriminate|]. cbn [orb] in Hok.
          destruct (t_lenient cfg && transport s); [discriminate|]. cbn. rewrite Hq.
          repeat split; try reflexivity; try constructor; unfold lcore; rewrite ?Es, ?Eg; reflexivity. }
    destruct Hstep as [Q [EQ [FQ [AL [BL [TL XL]]]]]].
    destruct (macro_semi cfg s (RGoodbye r) Q EQ FQ) as [A [B [C D]]].
    assert (Htr : transport (fst (step Aio cfg s (RGoodbye r))) = true).
    { remember (step Aio cfg s (RGoodbye r)) as st eqn:Est. clear Est.
      pose proof (f_equal (fun c : bool * bool * option N * bool => snd (fst (fst c))) BL) as Ht2.
      unfold lcore, spec_lcore in Ht2. rewrite Et, Es in Ht2. cbn [isNone negb andb] in Ht2.
      destruct (goodbye_sent s || send_ok cfg s); cbn in Ht2; rewrite ?Et in Ht2; exact Ht2. }
    cbv zeta. split; [rewrite A, AL; reflexivity|]. split; [rewrite B, BL; reflexivity|]. split; [|exact D].
    rewrite C, TL, XL, Htr. unfold spec_topen. rewrite Et, Es. cbn [isNone negb andb aio_cfg u_leave_super].
    assert (Hsok : send_ok (aio_cfg cfg) s = send_ok cfg s) by reflexivity. rewrite Hsok.
    destruct (goodbye_sent s || send_ok cfg s); destruct (u_leave_super cfg); reflexivity.
Qed.

(* ---- settled asyncio histories have the Twisted life-cycle ---- *)
(* the loop runs until nothing is scheduled (two iterations always suffice) after every event *)
Definition settle (ops : list op) : list op := flat_map (fun o => [o; OTurn; OTurn]) ops.

Lemma spec_ext : forall cfg s1 s2 o, lcore s1 = lcore s2 -> topen s1 = topen s2 ->
  spec_levs cfg s1 o = spec_levs cfg s2 o /\ spec_lcore cfg s1 o = spec_lcore cfg s2 o
  /\ spec_topen cfg s1 o = spec_topen cfg s2 o.
Proof.
  intros cfg s1 s2 o Hl Ht. unfold lcore in Hl. inversion Hl as [[H1 H2 H3 H4]].
  destruct o; unfold spec_levs, spec_lcore, spec_topen, lcore, sid_truthy, send_ok; rewrite ?H1, ?H2, ?H3, ?H4, ?Ht;
    repeat split; reflexivity.
Qed.

Lemma run_settle_cons : forall cfg s o t,
  fst (run Aio cfg s (settle (o :: t))) = fst (run Aio cfg (fst (macro cfg s o)) (settle t)) /\
  concat (snd (run Aio cfg s (settle (o :: t)))) =
    snd (macro cfg s o) ++ concat (snd (run Aio cfg (fst (macro cfg s o)) (settle t))).
Proof.
  intros cfg s o t. unfold macro, turn2. change (settle (o :: t)) with (o :: OTurn :: OTurn :: settle t).
  cbn [run]. destruct (step Aio cfg s o) as [s1 o1]. destruct (step Aio cfg s1 OTurn) as [s2 o2].
  destruct (step Aio cfg s2 OTurn) as [s3 o3]. cbn [fst snd]. destruct (run Aio cfg s3 (settle t)) as [sf tr].
  cbn [fst snd concat]. split; [reflexivity|]. rewrite <- !app_assoc. reflexivity.
Qed.

Lemma settled_simulation : forall cfg ops sa st,
  lcore sa = lcore st -> topen sa = topen st -> queue sa = [] ->
  levs (concat (snd (run Aio cfg sa (settle ops)))) = levs (concat (snd (run Tx (aio_cfg cfg) st ops)))
  /\ lcore (fst (run Aio cfg sa (settle ops))) = lcore (fst (run Tx (aio_cfg cfg) st ops))
  /\ queue (fst (run Aio cfg sa (settle ops))) = [].
Proof.
  induction ops as [|o t IH]; intros sa st Hl Ht Hq.
  - simpl. repeat split; assumption.
  - destruct (run_settle_cons cfg sa o t) as [E1 E2]. rewrite E1, E2. clear E1 E2.
    destruct (aio_macro_spec cfg sa o Hq) as [A [B [C D]]].
    destruct (tx_step_spec (aio_cfg cfg) st o) as [TA TB]. pose proof (tx_step_topen (aio_cfg cfg) st o) as TC.
    destruct (spec_ext (aio_cfg cfg) sa st o Hl Ht) as [X1 [X2 X3]].
    cbn [run]. destruct (step Tx (aio_cfg cfg) st o) as [st1 ot1]. cbn [fst snd] in *.
    assert (Hl1 : lcore (fst (macro cfg sa o)) = lcore st1) by congruence.
    assert (Ht1 : topen (fst (macro cfg sa o)) = topen st1) by congruence.
    destruct (IH (fst (macro cfg sa o)) st1 Hl1 Ht1 D) as [I1 [I2 I3]].
    destruct (run Tx (aio_cfg cfg) st1 t) as [stf trt]. cbn [fst snd concat] in *.
    rewrite !levs_app, A, I1, X1, <- TA. repeat split; assumption.
Qed.

Theorem aio_settled_lifecycle : forall cfg ops,
  levs (trace Aio cfg (settle ops)) = levs (trace Tx (aio_cfg cfg) ops)
  /\ queue (final Aio cfg (settle ops)) = [].
Proof.
  intros cfg ops. destruct (settled_simulation cfg ops init init eq_refl eq_refl eq_refl) as [A [_ C]].
  split; assumption.
Qed.

(* ... hence every Twisted trace theorem about life-cycle events holds for settled asyncio histories *)
Theorem aio_settled_order : forall cfg ops, lives_ok ops = true ->
  exists m, mrun MFresh (levs (trace Aio cfg (settle ops))) = Some m.
Proof. intros cfg ops H. rewrite (proj1 (aio_settled_lifecycle cfg ops)), (tx_order _ _ H). eexists; reflexivity. Qed.

Theorem aio_settled_goodbye_once : forall cfg ops, grun false (levs (trace Aio cfg (settle ops))) <> None.
Proof. intros. rewrite (proj1 (aio_settled_lifecycle cfg ops)). apply tx_goodbye_once. Qed.
