(* C08: which exceptions parse can raise and when; what an accepted message satisfies. *)
From Coq Require Import NArith ZArith List Bool String Lia.
From AV Require Import Model.WampValue Model.WampSchema Model.WampMsg Proofs.WampDictProofs Proofs.WampLayoutProofs Proofs.WampWfProofs Proofs.WampExtractProofs Proofs.WampCheckProofs.
Import ListNotations.
Open Scope list_scope.

Definition is_proto (e : exn) : bool :=
  match e with ProtocolError | InvalidUriError => true | _ => false end.

Lemma andthen_some : forall a b e, (a ;; b) = Some e -> a = Some e \/ (a = None /\ b = Some e).
Proof. intros [x|] b e H; simpl in H; [left; exact H | right; auto]. Qed.

Lemma andthen_none_inv : forall a b, (a ;; b) = None -> a = None /\ b = None.
Proof. intros [x|] b H; simpl in H; [discriminate | auto]. Qed.

Lemma require_some : forall b e e', require b e = Some e' -> e' = e /\ b = false.
Proof. intros [|] e e' H; simpl in H; [discriminate | injection H as <-; auto]. Qed.

Lemma require_none : forall b e, require b e = None -> b = true.
Proof. intros [|] e H; simpl in H; [reflexivity | discriminate]. Qed.

Lemma chk_all_some : forall {A} (f : A -> chk) l e, chk_all f l = Some e -> exists x, In x l /\ f x = Some e.
Proof.
  induction l as [|x l IH]; simpl; intros e H; [discriminate|].
  apply andthen_some in H. destruct H as [H|[_ H]].
  - exists x; auto.
  - destruct (IH _ H) as [y [Hy Hf]]. exists y; auto.
Qed.

Lemma chk_all_none_inv : forall {A} (f : A -> chk) l, chk_all f l = None -> forall x, In x l -> f x = None.
Proof.
  induction l as [|y l IH]; simpl; intros H x Hin; [contradiction|].
  apply andthen_none_inv in H. destruct H as [H1 H2]. destruct Hin as [<-|Hin]; auto.
Qed.

Section Main.
  Variable uri_ok : uri_fl -> str -> bool.
  Variable custom_ok : str -> bool.

  Ltac req H := apply require_some in H; destruct H as [-> _]; reflexivity.

  Lemma check_uri_proto : forall fl an v e, check_uri uri_ok fl an v = Some e -> is_proto e = true.
  Proof. intros fl an v e H. destruct v; simpl in H; try (injection H as <-; reflexivity); req H. Qed.

  Lemma check_extra_proto : forall v e, check_extra v = Some e -> is_proto e = true.
  Proof. intros v e H. destruct v; simpl in H; try (injection H as <-; reflexivity); req H. Qed.

  Lemma check_id_proto : forall v e, check_id v = Some e -> is_proto e = true.
  Proof. intros v e H. destruct v; simpl in H; try (injection H as <-; reflexivity); req H. Qed.

  Lemma okind_check_proto : forall k v e, okind_check uri_ok k v = Some e -> is_proto e = true.
  Proof.
    intros k v e H. destruct k; simpl in H;
      try (req H); try (eapply check_uri_proto; eauto; fail); try discriminate;
      destruct v; simpl in H; try (injection H as <-; reflexivity); try (req H).
    - apply chk_all_some in H. destruct H as [x [_ H]]. req H.
    - apply chk_all_some in H. destruct H as [x [_ H]]. req H.
  Qed.

  Lemma pkind_check_proto : forall od k v e, pkind_check uri_ok od k v = Some e -> is_proto e = true.
  Proof.
    intros od k v e H. destruct k; cbn [pkind_check] in H.
    - eapply check_id_proto; eauto.
    - eapply check_uri_proto; eauto.
    - destruct (dget (s2l "match") od).
      + apply andthen_some in H. destruct H as [H|[_ H]].
        * eapply (okind_check_proto (OEnum match_kinds)); eauto.
        * eapply check_uri_proto; eauto.
      + eapply check_uri_proto; eauto.
    - req H.
    - eapply check_extra_proto; eauto.
    - destruct v; try (injection H as <-; reflexivity). req H.
  Qed.

  Lemma check_slots_proto : forall od sl body e, check_slots uri_ok od sl body = Some e -> is_proto e = true.
  Proof.
    induction sl as [|[a k|] sl IH]; intros body e H; simpl in H; [discriminate| |].
    - destruct body as [|v body]; [discriminate|]. apply andthen_some in H. destruct H as [H|[_ H]].
      + eapply pkind_check_proto; eauto.
      + eapply IH; eauto.
    - destruct body as [|v body]; [discriminate|]. apply andthen_some in H. destruct H as [H|[_ H]].
      + eapply check_extra_proto; eauto.
      + eapply IH; eauto.
  Qed.

  Lemma check_opts_proto : forall specs od e, check_opts uri_ok specs od = Some e -> is_proto e = true.
  Proof.
    intros specs od e H. unfold check_opts in H. apply chk_all_some in H. destruct H as [o [_ H]].
    unfold check_opt in H. destruct (dget (s2l (o_key o)) od).
    - eapply okind_check_proto; eauto.
    - destruct (o_reqif o); [req H | discriminate].
  Qed.

  Lemma check_pl_proto : forall pc od tail e, check_pl custom_ok pc od tail = Some e -> is_proto e = true.
  Proof.
    intros pc od tail e H. unfold check_pl in H. destruct (payload_mode pc tail).
    - apply andthen_some in H. destruct H as [H|[_ H]]; [req H|].
      apply andthen_some in H. destruct H as [H|[_ H]]; req H.
    - destruct tail as [|a r]; [discriminate|].
      apply andthen_some in H. destruct H as [H|[_ H]].
      + unfold check_args in H. destruct (pc_publish pc); req H.
      + destruct r as [|k r]; [discriminate|]. unfold check_kwargs in H. destruct (pc_publish pc); req H.
  Qed.

  Lemma check_role_outcome : forall cfg kv e, check_role uri_ok cfg kv = Some e -> is_proto e = true \/ e = TypeError.
  Proof.
    intros cfg [k v] e H. unfold check_role in H. cbn [fst snd] in H.
    destruct k as [name|]; [|injection H as <-; auto].
    destruct (find_role cfg name) as [feats|]; [|injection H as <-; auto].
    apply andthen_some in H. destruct H as [H|[_ H]]; [left; eapply check_extra_proto; eauto|].
    destruct v; try discriminate. destruct (dget (s2l "features") d) as [f|]; [|discriminate].
    apply andthen_some in H. destruct H as [H|[_ H]]; [left; eapply check_extra_proto; eauto|].
    destruct f; try discriminate.
    apply andthen_some in H. destruct H as [H|[_ H]].
    - apply require_some in H. destruct H as [-> _]. auto.
    - left. eapply check_opts_proto; eauto.
  Qed.

  Lemma check_roles_outcome : forall cfg od e, check_roles uri_ok cfg od = Some e -> is_proto e = true \/ e = TypeError.
  Proof.
    intros cfg od e H. unfold check_roles in H. destruct (dget (s2l "roles") od) as [r|]; [|injection H as <-; auto].
    apply andthen_some in H. destruct H as [H|[_ H]]; [left; eapply check_extra_proto; eauto|].
    destruct r; try discriminate.
    apply andthen_some in H. destruct H as [H|[_ H]]; [left; req H|].
    apply chk_all_some in H. destruct H as [kv [_ H]]. eapply check_role_outcome; eauto.
  Qed.

  (* every non-protocol exception of parse comes from a constructor assertion or from role_cls( ** features) *)
  Theorem check_nonproto : forall s w e,
    check uri_ok custom_ok s w = Some e -> is_proto e = false ->
    (e = AssertionError /\ ((forall body, w <> VInt (s_type s) :: body) \/ ctor_ok custom_ok s (extract custom_ok s w) = false))
    \/ (e = TypeError /\ s_special s <> SpNone).
  Proof.
    intros s w e H Hnp. unfold check in H.
    destruct w as [|h body]; [injection H as <-; left; split; auto; left; intros; discriminate|].
    destruct h; try (injection H as <-; left; split; auto; left; intros; discriminate).
    apply andthen_some in H. destruct H as [H|[H0 H]].
    { apply require_some in H. destruct H as [-> Hz]. left. split; auto. left. intros b Hb.
      injection Hb as -> _. rewrite Z.eqb_refl in Hz. discriminate. }
    apply andthen_some in H. destruct H as [H|[_ H]].
    { apply require_some in H. destruct H as [-> _]. discriminate. }
    cbv zeta in H.
    apply andthen_some in H. destruct H as [H|[_ H]].
    { apply check_slots_proto in H. congruence. }
    apply andthen_some in H. destruct H as [H|[_ H]].
    { destruct (s_special s) eqn:Esp; try discriminate.
      apply check_roles_outcome in H. destruct H as [H|H]; [congruence|]. right. split; auto. discriminate. }
    apply andthen_some in H. destruct H as [H|[_ H]].
    { destruct (s_payload s); [|discriminate]. apply check_pl_proto in H. congruence. }
    apply andthen_some in H. destruct H as [H|[_ H]].
    { apply check_opts_proto in H. congruence. }
    apply andthen_some in H. destruct H as [H|[_ H]].
    { destruct (s_special s) eqn:Esp; try discriminate.
      apply check_roles_outcome in H. destruct H as [H|H]; [congruence|]. right. split; auto. discriminate. }
    apply andthen_some in H. destruct H as [H|[_ H]].
    { apply require_some in H. destruct H as [-> Hc]. left. split; auto. }
    destruct (s_payload s); [|discriminate]. apply require_some in H. destruct H as [-> _]. discriminate.
  Qed.

  Lemma find_schema_spec : forall l t s, find_schema l t = Some s -> In s l /\ s_type s = t.
  Proof.
    induction l as [|x l IH]; simpl; intros t s H; [discriminate|].
    destruct (Z.eqb t (s_type x)) eqn:E.
    - injection H as <-. apply Z.eqb_eq in E. auto.
    - destruct (IH _ _ H). auto.
  Qed.

  Theorem unserialize1_outcomes : forall raw e,
    unserialize1 uri_ok custom_ok raw = Raise e ->
    is_proto e = true
    \/ exists s l, raw = VList l /\ In s schemas
         /\ ((e = AssertionError /\ ctor_ok custom_ok s (extract custom_ok s l) = false)
             \/ (e = TypeError /\ s_special s <> SpNone)).
  Proof.
    intros raw e H. unfold unserialize1 in H.
    destruct raw; try (injection H as <-; auto).
    destruct l as [|h body]; [injection H as <-; auto|].
    destruct h; try (injection H as <-; auto).
    destruct (find_schema schemas z) as [s|] eqn:Ef; [|injection H as <-; auto].
    destruct (find_schema_spec _ _ _ Ef) as [Hin Ht].
    unfold parse in H. destruct (check uri_ok custom_ok s (VInt z :: body)) as [e'|] eqn:Ec; [|discriminate].
    injection H as ->.
    destruct (is_proto e) eqn:Ep; [auto|]. right.
    destruct (check_nonproto _ _ _ Ec Ep) as [[-> [Hh|Hc]]|[-> Hsp]].
    - exfalso. apply (Hh body). rewrite Ht. reflexivity.
    - exists s, (VInt z :: body). auto.
    - exists s, (VInt z :: body). auto.
  Qed.

  (* ---- what an accepted message satisfies ---- *)
  Theorem parse_ok_inv : forall s w m,
    parse uri_ok custom_ok s w = Ok m ->
    exists body,
      w = VInt (s_type s) :: body
      /\ len_ok s (List.length w) = true
      /\ m = extract custom_ok s w
      /\ let od := find_opts (s_slots s) body in
         check_slots uri_ok od (s_slots s) body = None
         /\ check_opts uri_ok (s_opts s) od = None
         /\ (forall pc, s_payload s = Some pc ->
               check_pl custom_ok pc od (skipn (nslots s) body) = None /\ kwargs_ok (p_kwargs (m_pl m)) = true)
         /\ (s_special s <> SpNone -> check_roles uri_ok (roles_cfg (s_special s)) od = None)
         /\ ctor_ok custom_ok s m = true.
  Proof.
    intros s w m H. unfold parse in H.
    destruct (check uri_ok custom_ok s w) eqn:Ec; [discriminate|]. injection H as <-.
    unfold check in Ec. destruct w as [|h body]; [discriminate|]. destruct h; try discriminate.
    apply andthen_none_inv in Ec. destruct Ec as [E1 Ec]. apply require_none in E1. apply Z.eqb_eq in E1. subst z.
    apply andthen_none_inv in Ec. destruct Ec as [E2 Ec]. apply require_none in E2.
    cbv zeta in Ec.
    apply andthen_none_inv in Ec. destruct Ec as [E3 Ec].
    apply andthen_none_inv in Ec. destruct Ec as [E4 Ec].
    apply andthen_none_inv in Ec. destruct Ec as [E5 Ec].
    apply andthen_none_inv in Ec. destruct Ec as [E6 Ec].
    apply andthen_none_inv in Ec. destruct Ec as [E7 Ec].
    apply andthen_none_inv in Ec. destruct Ec as [E8 E9]. apply require_none in E8.
    exists body. split; [reflexivity|]. split; [exact E2|]. split; [reflexivity|]. cbv zeta.
    split; [exact E3|]. split; [exact E6|]. split; [|split; [|exact E8]].
    - intros pc Ep. rewrite Ep in E5, E9. split; [exact E5|]. apply require_none in E9. exact E9.
    - intros Hsp. destruct (s_special s); [contradiction| exact E4 | exact E7].
  Qed.

  Lemma check_id_none : forall v, check_id v = None -> exists z, v = VInt z /\ (0 <= z <= id_max)%Z.
  Proof.
    intros v H. destruct v; simpl in H; try discriminate. apply require_none in H.
    apply andb_true_iff in H. destruct H as [H1 H2]. apply Z.leb_le in H1. apply Z.leb_le in H2. eauto.
  Qed.

  Lemma check_uri_none : forall fl an v, check_uri uri_ok fl an v = None ->
    (v = VNull /\ an = true) \/ exists s, v = VStr s /\ uri_ok fl s = true.
  Proof.
    intros fl an v H. destruct v; simpl in H; try discriminate.
    - apply require_none in H. auto.
    - apply require_none in H. eauto.
  Qed.

  Lemma check_slots_none_nth : forall od sl body, check_slots uri_ok od sl body = None ->
    forall i a k x, nth_error sl i = Some (SField a k) -> nth_error body i = Some x ->
      pkind_check uri_ok od k x = None.
  Proof.
    induction sl as [|sl0 sl IH]; intros body H i a k x Hs Hb; [destruct i; discriminate|].
    destruct body as [|v body]; [destruct i; discriminate|].
    simpl in H. destruct sl0 as [a0 k0|].
    - apply andthen_none_inv in H. destruct H as [H1 H2]. destruct i as [|i]; simpl in Hs, Hb.
      + injection Hs as -> ->. injection Hb as ->. exact H1.
      + eapply IH; eauto.
    - apply andthen_none_inv in H. destruct H as [H1 H2]. destruct i as [|i]; simpl in Hs, Hb; [discriminate|].
      eapply IH; eauto.
  Qed.

  Lemma check_opts_none_in : forall specs od, check_opts uri_ok specs od = None ->
    forall o x, In o specs -> dget (s2l (o_key o)) od = Some x -> okind_check uri_ok (o_kind o) x = None.
  Proof.
    intros specs od H o x Hin Hd. unfold check_opts in H.
    pose proof (chk_all_none_inv _ _ H o Hin) as Ho. unfold check_opt in Ho. rewrite Hd in Ho. exact Ho.
  Qed.
End Main.
