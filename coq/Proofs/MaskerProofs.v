(* Proofs about Model/Masker.v : every implementation computes xor_spec, for all
   payloads, keys, pointers, alignments and chunkings. *)
From Coq Require Import NArith List Lia.
From AV Require Import Model.Masker.
Import ListNotations.
Open Scope N_scope.

Lemma land3_mod4 i : N.land i 3 = i mod 4.
Proof. change 3 with (N.ones 2). rewrite N.land_ones. reflexivity. Qed.

Lemma kget_mod k i : kget k i = nth (N.to_nat (i mod 4)) k 0.
Proof. unfold kget. rewrite land3_mod4. reflexivity. Qed.

Lemma kget_add4 k i : kget k (i + 4) = kget k i.
Proof.
  rewrite !kget_mod. replace (i + 4) with (i + 1 * 4) by lia.
  rewrite N.mod_add by lia. reflexivity.
Qed.

Lemma kget_add_mul4 k i n : kget k (i + 4 * n) = kget k i.
Proof.
  rewrite !kget_mod. replace (i + 4 * n) with (i + n * 4) by lia.
  rewrite N.mod_add by lia. reflexivity.
Qed.

Lemma lenN_cons b r : lenN (b :: r) = 1 + lenN r.
Proof. unfold lenN. cbn [length]. lia. Qed.

Lemma lenN_app a b : lenN (a ++ b) = lenN a + lenN b.
Proof. unfold lenN. rewrite app_length. lia. Qed.

Lemma lenN_nil : lenN [] = 0. Proof. reflexivity. Qed.

Lemma xor_spec_length k p d : length (xor_spec k p d) = length d.
Proof. revert p; induction d as [|b r IH]; intros p; cbn [xor_spec length]; [reflexivity|]. now rewrite IH. Qed.

Lemma xor_spec_app k p a b :
  xor_spec k p (a ++ b) = xor_spec k p a ++ xor_spec k (p + lenN a) b.
Proof.
  revert p; induction a as [|x a IH]; intros p; cbn [xor_spec app].
  - rewrite lenN_nil, N.add_0_r. reflexivity.
  - rewrite IH, lenN_cons. f_equal. f_equal. f_equal. lia.
Qed.

(* pointwise characterisation: the declarative reading of the specification *)
Lemma xor_spec_nth k p d i :
  (i < length d)%nat ->
  nth i (xor_spec k p d) 0 = N.lxor (nth i d 0) (nth (N.to_nat ((p + N.of_nat i) mod 4)) k 0).
Proof.
  revert p i; induction d as [|b r IH]; intros p i Hi; cbn [length] in Hi; [lia|].
  destruct i as [|i]; cbn [xor_spec nth].
  - rewrite kget_mod. now rewrite N.add_0_r.
  - rewrite IH by lia. replace (p + N.of_nat (S i)) with (p + 1 + N.of_nat i) by lia. reflexivity.
Qed.

Lemma xor_spec_shift4 k p n d : xor_spec k (p + 4 * n) d = xor_spec k p d.
Proof.
  revert p; induction d as [|b r IH]; intros p; cbn [xor_spec]; [reflexivity|].
  rewrite kget_add_mul4. f_equal.
  replace (p + 4 * n + 1) with (p + 1 + 4 * n) by lia. apply IH.
Qed.

(* ---------- simple ---------- *)
Lemma simple_loop_spec k p d : simple_loop k p d = (xor_spec k p d, p + lenN d).
Proof.
  revert p; induction d as [|b r IH]; intros p; cbn [simple_loop xor_spec].
  - rewrite lenN_nil, N.add_0_r. reflexivity.
  - rewrite IH, lenN_cons. unfold kget. f_equal. lia.
Qed.

(* ---------- shifted ---------- *)
Lemma mskarray_nth k j i : i < 4 -> nth (N.to_nat i) (mskarray k j) 0 = kget k (i + j).
Proof.
  intros Hi. unfold mskarray, kget.
  assert (i = 0 \/ i = 1 \/ i = 2 \/ i = 3) as [->|[->|[->| ->]]] by lia; reflexivity.
Qed.

Lemma shifted_loop_spec k p i d :
  shifted_loop (mskarray k (N.land p 3)) i d = xor_spec k (p + i) d.
Proof.
  revert i; induction d as [|b r IH]; intros i; cbn [shifted_loop xor_spec]; [reflexivity|].
  rewrite IH. f_equal.
  - f_equal. rewrite mskarray_nth.
    + rewrite !kget_mod, !land3_mod4. f_equal. f_equal.
      rewrite N.add_mod_idemp_l, N.add_mod_idemp_r by lia. f_equal. lia.
    + rewrite land3_mod4. apply N.mod_lt. lia.
  - f_equal. lia.
Qed.

Lemma shifted_process_spec k p d : shifted_process k p d = (xor_spec k p d, p + lenN d).
Proof. unfold shifted_process. rewrite shifted_loop_spec, N.add_0_r. reflexivity. Qed.

(* ---------- sse2 ---------- *)
Lemma mask16_is_spec k p : mask16 k p = xor_spec k p (repeat 0 16).
Proof.
  unfold mask16. cbn [map repeat xor_spec]. rewrite !N.lxor_0_l. unfold kget.
  rewrite <- !N.add_assoc. cbn [N.add Pos.add Pos.succ Pos.add_carry]. rewrite N.add_0_r. reflexivity.
Qed.

Lemma xor_lists_repeat k p a n :
  (length a <= n)%nat -> xor_lists a (xor_spec k p (repeat 0 n)) = xor_spec k p a.
Proof.
  revert p n; induction a as [|x a IH]; intros p n Hl; cbn [xor_lists xor_spec]; [reflexivity|].
  destruct n as [|n]; cbn [length] in Hl; [lia|]. cbn [repeat xor_spec].
  rewrite N.lxor_0_l. f_equal. apply IH. lia.
Qed.

Lemma xor_lists_mask16 k p a :
  (length a <= 16)%nat -> xor_lists a (mask16 k p) = xor_spec k p a.
Proof. intros H. rewrite mask16_is_spec. now apply xor_lists_repeat. Qed.

Lemma mask16_shift16 k p n : mask16 k (p + 16 * n) = mask16 k p.
Proof. rewrite !mask16_is_spec. replace (16 * n) with (4 * (4 * n)) by lia. apply xor_spec_shift4. Qed.

Lemma firstn_plus {A} a b (l : list A) : firstn (a + b) l = firstn a l ++ firstn b (skipn a l).
Proof. revert l; induction a as [|a IH]; intros l; [reflexivity|]. destruct l; cbn; [now destruct b| now rewrite IH]. Qed.
Lemma skipn_plus {A} a b (l : list A) : skipn (a + b) l = skipn b (skipn a l).
Proof. revert l; induction a as [|a IH]; intros l; [reflexivity|]. destruct l; cbn; [now destruct b| now rewrite IH]. Qed.

Lemma sse2_blocks_spec k p c d :
  (16 * c <= length d)%nat ->
  sse2_blocks (mask16 k p) c d =
    (xor_spec k p (firstn (16 * c) d), skipn (16 * c) d).
Proof.
  revert p d; induction c as [|c IH]; intros p d Hl.
  - cbn. reflexivity.
  - cbn [sse2_blocks].
    replace (mask16 k p) with (mask16 k (p + 16)) at 1
      by (replace (p + 16) with (p + 16 * 1) by lia; apply mask16_shift16).
    rewrite IH by (rewrite skipn_length; lia).
    rewrite xor_lists_mask16 by (rewrite firstn_length; lia).
    replace (16 * S c)%nat with (16 + 16 * c)%nat by lia.
    rewrite firstn_plus, skipn_plus, xor_spec_app.
    assert (Hf : length (firstn 16 d) = 16%nat) by (rewrite firstn_length; lia).
    unfold lenN. rewrite Hf. change (N.of_nat 16) with 16. reflexivity.
Qed.

Lemma sse2_process_spec k a p d : sse2_process k a p d = (xor_spec k p d, p + lenN d).
Proof.
  unfold sse2_process.
  remember (if 16 <=? lenN d then _ else 0) as h eqn:Eh.
  assert (Hh : h <= lenN d).
  { subst h. destruct (16 <=? lenN d) eqn:E1; [|lia].
    destruct (N.land a 15 =? 0) eqn:E2; [lia|].
    destruct (lenN d <? 16 - N.land a 15) eqn:E3; [lia|].
    apply N.ltb_ge in E3. exact E3. }
  clear Eh.
  rewrite simple_loop_spec.
  assert (Hd : d = firstn (N.to_nat h) d ++ skipn (N.to_nat h) d) by now rewrite firstn_skipn.
  assert (Hlh : lenN (firstn (N.to_nat h) d) = h).
  { unfold lenN in *. rewrite firstn_length. lia. }
  remember (firstn (N.to_nat h) d) as hd eqn:Ehd.
  remember (skipn (N.to_nat h) d) as d1 eqn:Ed1.
  clear Ehd Ed1. subst d. rewrite Hlh.
  remember (N.to_nat (lenN d1 / 16)) as c eqn:Ec.
  assert (Hc : (16 * c <= length d1)%nat).
  { subst c. unfold lenN. pose proof (N.mul_div_le (N.of_nat (length d1)) 16). lia. }
  clear Ec.
  rewrite sse2_blocks_spec by exact Hc.
  rewrite simple_loop_spec.
  assert (Hlf : lenN (firstn (16 * c) d1) = N.of_nat c * 16).
  { unfold lenN. rewrite firstn_length. lia. }
  rewrite xor_spec_app, lenN_app, Hlh.
  rewrite <- (firstn_skipn (16 * c) d1) at 4 5.
  rewrite xor_spec_app, lenN_app, Hlf.
  f_equal. lia.
Qed.

Lemma nvx_process_spec impl k a p d : nvx_process impl k a p d = (xor_spec k p d, p + lenN d).
Proof. unfold nvx_process. destruct (impl =? 2); [apply sse2_process_spec | apply simple_loop_spec]. Qed.

Lemma factory_process_spec fl hint k p d :
  factory_process fl hint k p d = (xor_spec k p d, p + lenN d).
Proof.
  unfold factory_process. destruct fl; destruct (match hint with None => true | Some n => n <? 128 end);
  first [apply simple_loop_spec | apply shifted_process_spec | apply nvx_process_spec].
Qed.

(* ---------- chunking ---------- *)
Lemma run_chunks_spec k proc p chunks :
  (forall q c, proc q c = (xor_spec k q c, q + lenN c)) ->
  run_chunks proc p chunks = (xor_spec k p (concat chunks), p + lenN (concat chunks)).
Proof.
  intros Hp. revert p; induction chunks as [|c cs IH]; intros p; cbn [run_chunks concat].
  - rewrite lenN_nil, N.add_0_r. reflexivity.
  - rewrite Hp, IH, xor_spec_app, lenN_app. f_equal. lia.
Qed.

(* chunks each processed by a different implementation / alignment (the NVX wrapper allocates a
   fresh buffer per call, so the alignment may differ from call to call) *)
Fixpoint run_chunks_any (k : list N) (ptr : N) (chunks : list ((N * N) * list N)) : list N * N :=
  match chunks with
  | [] => ([], ptr)
  | ((impl, a), c) :: cs =>
      let '(o, p1) := nvx_process impl k a ptr c in
      let '(os, p2) := run_chunks_any k p1 cs in (o ++ os, p2)
  end.

Lemma run_chunks_any_spec k p chunks :
  run_chunks_any k p chunks =
    (xor_spec k p (concat (map snd chunks)), p + lenN (concat (map snd chunks))).
Proof.
  revert p; induction chunks as [|[[impl a] c] cs IH]; intros p; cbn [run_chunks_any concat map snd].
  - rewrite lenN_nil, N.add_0_r. reflexivity.
  - rewrite nvx_process_spec, IH, xor_spec_app, lenN_app. f_equal. lia.
Qed.

(* ---------- involution ---------- *)
Definition bytes_ok (l : list N) : Prop := Forall (fun b => b < 256) l.

Lemma xor_spec_involutive k p d : xor_spec k p (xor_spec k p d) = d.
Proof.
  revert p; induction d as [|b r IH]; intros p; cbn [xor_spec]; [reflexivity|].
  rewrite IH. f_equal. rewrite N.lxor_assoc, N.lxor_nilpotent, N.lxor_0_r. reflexivity.
Qed.

Lemma lxor_lt_256 a b : a < 256 -> b < 256 -> N.lxor a b < 256.
Proof.
  intros Ha Hb.
  destruct (N.eq_dec (N.lxor a b) 0) as [->|Hz]; [lia|].
  apply N.log2_lt_pow2 with (b := 8); [lia|].
  eapply N.le_lt_trans; [apply N.log2_lxor|].
  destruct (N.eq_dec a 0) as [->|Ha0]; destruct (N.eq_dec b 0) as [->|Hb0]; cbn [N.log2 N.max]; try lia.
  - change (N.max 0 (N.log2 b)) with (N.max (N.log2 0) (N.log2 b)). apply N.max_lub_lt; [cbn; lia|]. apply N.log2_lt_pow2; lia.
  - apply N.max_lub_lt; [apply N.log2_lt_pow2; lia | cbn; lia].
  - apply N.max_lub_lt; apply N.log2_lt_pow2; lia.
Qed.

Lemma kget_ok k i : bytes_ok k -> kget k i < 256.
Proof.
  intros Hk. unfold kget.
  destruct (nth_in_or_default (N.to_nat (N.land i 3)) k 0) as [Hin| ->]; [|lia].
  unfold bytes_ok in Hk. rewrite Forall_forall in Hk. now apply Hk.
Qed.

Lemma xor_spec_bytes_ok k p d : bytes_ok k -> bytes_ok d -> bytes_ok (xor_spec k p d).
Proof.
  intros Hk Hd. revert p; induction Hd as [|b r Hb Hr IH]; intros p; cbn [xor_spec]; constructor.
  - apply lxor_lt_256; [exact Hb | now apply kget_ok].
  - apply IH.
Qed.
