(* Proofs about Model/SessionInv.v (callee side of ApplicationSession).  All statements are over every history,
   both txaio flavours, every exception registry; the transport's send() is a parameter.
   - one_terminal            counting invariant: transport up + send() classifies correctly =>
                             #terminal replies(req) + [req still in _invocations] = #accepted INVOCATIONs(req)
   - never_two_terminals     the same with <=, for EVERY send() and history (also after transport loss)
   - classify_ok_ws / _rs_tx / _rs_aio, leaky_*   how the real send() implementations classify (and how two of them did)
   - progress_only_if_requested   monitor [prog_ok] over the output trace + invariant on the progress closures
   - args_fidelity_global         monitor [call_ok]: every endpoint entry repeats what was accepted under its call index
   - single-step facts: unknown registration / duplicate request, INTERRUPT, argument fidelity of one step,
     order of progress and terminal reply inside the accepting step, the unguarded progress closure
   - witness histories for the refutation and the non-vacuity examples of Props/C10.v *)
From Coq Require Import NArith List Bool Lia.
From AV Require Import Model.SessionInv.
Import ListNotations.
Open Scope N_scope.

(* ---------- association lists ---------- *)
Lemma alookup_aremove_same {A} k (l : list (N * A)) : alookup k (aremove k l) = None.
Proof.
  induction l as [|[k' v] l IH]; cbn; [reflexivity|].
  destruct (k =? k') eqn:E; [exact IH|]. cbn. rewrite E. exact IH.
Qed.
Lemma alookup_aremove_other {A} k k' (l : list (N * A)) : k' <> k -> alookup k' (aremove k l) = alookup k' l.
Proof.
  intros Hn. induction l as [|[k2 v] l IH]; cbn; [reflexivity|].
  destruct (k =? k2) eqn:E.
  - apply N.eqb_eq in E. subst k2. destruct (k' =? k) eqn:E2; [apply N.eqb_eq in E2; congruence|]. exact IH.
  - cbn. destruct (k' =? k2); [reflexivity|exact IH].
Qed.
Lemma amem_aremove_same {A} k (l : list (N * A)) : amem k (aremove k l) = false.
Proof. unfold amem. now rewrite alookup_aremove_same. Qed.
Lemma amem_aremove_other {A} k k' (l : list (N * A)) : k' <> k -> amem k' (aremove k l) = amem k' l.
Proof. intros. unfold amem. now rewrite alookup_aremove_other. Qed.
Lemma amem_aset_same {A} k (v : A) l : amem k (aset k v l) = true.
Proof. unfold amem, aset. cbn. now rewrite N.eqb_refl. Qed.
Lemma amem_aset_other {A} k k' (v : A) l : k' <> k -> amem k' (aset k v l) = amem k' l.
Proof.
  intros Hn. unfold amem, aset. cbn. destruct (k' =? k) eqn:E; [apply N.eqb_eq in E; congruence|].
  now rewrite alookup_aremove_other.
Qed.
Lemma alookup_In {A} k (v : A) l : alookup k l = Some v -> In (k, v) l.
Proof.
  induction l as [|[k' v'] l IH]; cbn; [discriminate|].
  destruct (k =? k') eqn:E.
  - apply N.eqb_eq in E. intros [= ->]. left. now subst.
  - intros H. right. auto.
Qed.
Lemma forallb_aremove {A} (f : N * A -> bool) k l : forallb f l = true -> forallb f (aremove k l) = true.
Proof.
  induction l as [|[k' v] l IH]; cbn; [reflexivity|].
  intros H. apply andb_true_iff in H as [H1 H2]. destruct (k =? k'); [auto|]. cbn. rewrite H1. auto.
Qed.

(* ---------- counting ---------- *)
Lemma count_app f a b : count f (a ++ b) = (count f a + count f b)%nat.
Proof. unfold count. now rewrite filter_app, app_length. Qed.
Lemma count_cons f x l : count f (x :: l) = ((if f x then 1 else 0) + count f l)%nat.
Proof. unfold count. cbn. destruct (f x); reflexivity. Qed.

(* outputs that are neither terminal replies nor acceptances *)
Definition quiet_out (o : out) : bool :=
  match o with
  | OSent (MYield _ _ _ true) => true
  | OCalled _ _ _ _ _ => true
  | ORaised _ _ => true
  | OProgRaised _ _ => true
  | _ => false
  end.
Definition quiet (l : list out) : Prop := forallb quiet_out l = true.
Lemma quiet_counts l req : quiet l -> terminals req l = 0%nat /\ accepted req l = 0%nat.
Proof.
  unfold quiet, terminals, accepted. induction l as [|x l IH]; intros H; [split; reflexivity|].
  cbn [forallb] in H. apply andb_true_iff in H as [H1 H2]. destruct (IH H2) as [I1 I2].
  rewrite !count_cons, I1, I2.
  destruct x as [| |m| |]; try discriminate; cbn; auto.
  destruct m as [r s p [|]|]; try discriminate. cbn. auto.
Qed.
Lemma quiet_app a b : quiet a -> quiet b -> quiet (a ++ b).
Proof. unfold quiet. intros. rewrite forallb_app. now rewrite H, H0. Qed.
Lemma quiet_nil : quiet []. Proof. reflexivity. Qed.

Definition bal (s : st) (o : list out) (s' : st) : Prop :=
  forall req, (terminals req o + active req s' = accepted req o + active req s)%nat.
Definition trans (s : st) (o : list out) (s' : st) : Prop :=
  up s' = up s /\ (up s = true -> bal s o s').

Lemma trans_refl s : trans s [] s.
Proof. split; [reflexivity|]. intros _ req. reflexivity. Qed.
Lemma trans_comp s o1 s1 o2 s2 : trans s o1 s1 -> trans s1 o2 s2 -> trans s (o1 ++ o2) s2.
Proof.
  intros (U1 & B1) (U2 & B2). split; [congruence|].
  intros Hu req. unfold terminals, accepted. rewrite !count_app.
  specialize (B1 Hu req). rewrite <- U1 in Hu. specialize (B2 Hu req).
  unfold terminals, accepted in *. lia.
Qed.
Lemma trans_quiet s o s' : quiet o -> invs s' = invs s -> up s' = up s -> trans s o s'.
Proof.
  intros Q I U. split; [exact U|]. intros _ req.
  destruct (quiet_counts o req Q) as [-> ->]. unfold active. now rewrite I.
Qed.

Lemma invs_set_cst k cs s : invs (set_cst k cs s) = invs s.
Proof. unfold set_cst. now destruct (alookup k (calls s)). Qed.
Lemma up_set_cst k cs s : up (set_cst k cs s) = up s.
Proof. unfold set_cst. now destruct (alookup k (calls s)). Qed.
Lemma queue_set_cst k cs s : queue (set_cst k cs s) = queue s.
Proof. unfold set_cst. now destruct (alookup k (calls s)). Qed.
Section Main.
Variable classify : wmsg -> sres.
Variable ecls : list (N * N).
Hypothesis Hok : classify_ok classify.

Definition final_for (req : N) (m : wmsg) : Prop :=
  match m with MYield r _ _ g => r = req /\ g = false | MError r _ _ => r = req end.

(* with a correctly classifying transport the reply or one of its two fallbacks always reaches the wire *)
Lemma swf_ok m fs fe :
  p_unser (m_payload fs) = false -> p_big (m_payload fs) = false ->
  p_unser (m_payload fe) = false -> p_big (m_payload fe) = false ->
  exists m', send_with_fallback classify m fs fe = ([OSent m'], None) /\ (m' = m \/ m' = fs \/ m' = fe).
Proof.
  intros A B C D. unfold send_with_fallback. rewrite (Hok m), (Hok fs), (Hok fe), A, B, C, D.
  destruct (p_unser (m_payload m)); [eauto|]. destruct (p_big (m_payload m)); eauto.
Qed.

Lemma bal_final s req m s' :
  final_for req m -> amem req (invs s) = true -> invs s' = aremove req (invs s) -> bal s [OSent m] s'.
Proof.
  intros F M I r0. unfold terminals, accepted, active.
  assert (T : is_terminal r0 (OSent m) = (req =? r0)).
  { destruct m as [r sg p g|r u p]; cbn in F |- *; [destruct F as [-> ->]|subst r]; reflexivity. }
  rewrite !count_cons, I, T. change (is_accepted r0 (OSent m)) with false. change (count _ []) with 0%nat.
  destruct (req =? r0) eqn:E.
  - apply N.eqb_eq in E. subst r0. rewrite amem_aremove_same, M. reflexivity.
  - apply N.eqb_neq in E. rewrite amem_aremove_other by congruence. reflexivity.
Qed.

Lemma run_error_trans s req e s' o : run_error classify ecls s req e = (s', o) -> trans s o s'.
Proof.
  unfold run_error. destruct (alookup req (invs s)) as [k|] eqn:L.
  - destruct (up s) eqn:U.
    + destruct (swf_ok (MError req (uri_of ecls e) (epayload e))
                       (MError req UInvalidPayload (PFallback FbErrorSer))
                       (MError req UPayloadExceeded (PFallback FbExceeded))) as (m' & W & Hm); try reflexivity.
      rewrite W. intros [= <- <-]. split; [reflexivity|]. intros _.
      cbn [app]. apply bal_final with (req := req); [|unfold amem; now rewrite L|reflexivity].
      destruct Hm as [->|[->| ->]]; cbn; auto.
    + intros [= <- <-]. split; [reflexivity|]. cbn. rewrite U. discriminate.
  - intros [= <- <-]. apply trans_quiet; auto. reflexivity.
Qed.

Lemma run_success_trans fl s req r s' o : run_success classify ecls fl s req r = (s', o) -> trans s o s'.
Proof.
  unfold run_success. destruct (alookup req (invs s)) as [k|] eqn:L.
  - destruct (up s) eqn:U.
    + destruct (swf_ok (yield_of req r)
                       (MError req UInvalidPayload (PFallback FbSuccessSer))
                       (MError req UPayloadExceeded (PFallback FbExceeded))) as (m' & W & Hm); try reflexivity.
      rewrite W. intros [= <- <-]. split; [reflexivity|]. intros _.
      apply bal_final with (req := req); [|unfold amem; now rewrite L|reflexivity].
      destruct Hm as [->|[->| ->]]; cbn; auto. destruct r; cbn; auto.
    + intros [= <- <-]. split; [reflexivity|]. cbn. rewrite U. discriminate.
  - destruct fl.
    + intros [= <- <-]. apply trans_quiet; auto. reflexivity.
    + apply run_error_trans.
Qed.

Lemma run_cb_trans fl s k r s' o : run_cb classify ecls fl s k r = (s', o) -> trans s o s'.
Proof.
  unfold run_cb. destruct (alookup k (calls s)) as [c|].
  - destruct r as [v|e]; [apply run_success_trans|apply run_error_trans].
  - intros [= <- <-]. apply trans_refl.
Qed.

Lemma trans_set_cst s k cs : trans s [] (set_cst k cs s).
Proof. apply trans_quiet; [reflexivity|apply invs_set_cst|apply up_set_cst]. Qed.

Lemma complete_trans fl s k r s' o : complete classify ecls fl s k r = (s', o) -> trans s o s'.
Proof.
  unfold complete. destruct fl.
  - intros H. apply run_cb_trans in H.
    change o with ([] ++ o). eapply trans_comp; [|exact H]. apply trans_set_cst.
  - intros [= <- <-]. apply trans_quiet; [reflexivity| |].
    + cbn. apply invs_set_cst.
    + cbn. apply up_set_cst.
Qed.

Lemma progress_call_quiet s req p o x : progress_call classify s req p = (o, x) -> quiet o.
Proof.
  unfold progress_call. destruct (up s); [|intros [= <- _]; reflexivity].
  destruct (classify (MYield req false p true)); intros [= <- _]; reflexivity.
Qed.

Lemma run_pre_quiet s k req clos pre o ok : run_pre classify s k req clos pre = (o, ok) -> quiet o.
Proof.
  revert o ok. induction pre as [|p rest IH]; cbn; intros o ok.
  - intros [= <- _]. reflexivity.
  - destruct clos; [|intros [= <- _]; reflexivity].
    destruct (progress_call classify s req p) as [o1 [x|]] eqn:P.
    + intros [= <- _]. apply quiet_app; [eapply progress_call_quiet; eauto|reflexivity].
    + destruct (run_pre classify s k req true rest) as [o' ok'] eqn:R. intros [= <- _].
      apply quiet_app; [eapply progress_call_quiet; eauto|eapply IH; eauto].
Qed.

Lemma run_body_quiet s k c b o r : run_body classify s k c b = (o, r) -> quiet o.
Proof.
  unfold run_body. destruct (c_gate c); [intros [= <- _]; reflexivity|].
  destruct (run_pre classify s k (c_req c) (c_clos c) (b_pre b)) as [o1 ok] eqn:P. intros [= <- _].
  change (quiet ([OCalled k (c_req c) (c_reg c) (c_args c) (c_det c)] ++ o1)). apply quiet_app; [reflexivity|eapply run_pre_quiet; eauto].
Qed.

Lemma run_item_trans s q s' o : run_item classify ecls s q = (s', o) -> trans s o s'.
Proof.
  destruct q as [k r|k|k r]; cbn [run_item].
  - apply run_cb_trans.
  - destruct (alookup k (calls s)) as [c|] eqn:L; [|intros [= <- <-]; apply trans_refl].
    destruct (c_st c) as [|b mc| | | |] eqn:C; try (intros [= <- <-]; apply trans_refl).
    destruct mc.
    + destruct (complete classify ecls Aio s k (RErr ECancelled)) as [s1 o1] eqn:K. intros [= <- <-].
      apply complete_trans in K.
      rewrite <- (app_nil_r o1). eapply trans_comp; [exact K|]. apply trans_set_cst.
    + destruct (run_body classify s k c b) as [o1 [r|]] eqn:B; pose proof (run_body_quiet _ _ _ _ _ _ B) as Q.
      * destruct (complete classify ecls Aio s k r) as [s1 o2] eqn:K. intros [= <- <-].
        eapply trans_comp; [|eapply complete_trans; eauto]. apply trans_quiet; auto.
      * intros [= <- <-]. rewrite <- (app_nil_r o1). eapply trans_comp; [apply trans_quiet; auto|]. apply trans_set_cst.
  - unfold cst_of. destruct (alookup k (calls s)) as [c|]; cbn [option_map]; [|intros [= <- <-]; apply trans_refl].
    destruct (c_st c) as [| | |mc| |]; try (intros [= <- <-]; apply trans_refl).
    apply complete_trans.
Qed.

Lemma run_items_trans q : forall s s' o, run_items classify ecls s q = (s', o) -> trans s o s'.
Proof.
  induction q as [|i q IH]; cbn; intros s s' o.
  - intros [= <- <-]. apply trans_refl.
  - destruct (run_item classify ecls s i) as [s1 o1] eqn:I. destruct (run_items classify ecls s1 q) as [s2 o2] eqn:R.
    intros [= <- <-]. eapply trans_comp; [eapply run_item_trans; eauto|eapply IH; eauto].
Qed.

Lemma round_trans s s' o : round classify ecls s = (s', o) -> trans s o s'.
Proof.
  unfold round. intros R. change o with ([] ++ o). eapply trans_comp; [|eapply run_items_trans; eauto].
  apply trans_quiet; auto. reflexivity.
Qed.

Lemma turn_trans s s' o : turn classify ecls s = (s', o) -> trans s o s'.
Proof.
  unfold turn.
  destruct (round classify ecls s) as [s1 o1] eqn:R1. destruct (round classify ecls s1) as [s2 o2] eqn:R2.
  destruct (round classify ecls s2) as [s3 o3] eqn:R3. intros [= <- <-].
  eapply trans_comp; [eapply round_trans; eauto|]. eapply trans_comp; eapply round_trans; eauto.
Qed.

Lemma cst_of_some s k cs : cst_of s k = Some cs -> exists c, alookup k (calls s) = Some c /\ c_st c = cs.
Proof. unfold cst_of. destruct (alookup k (calls s)) as [c|]; cbn; [intros [= <-]; eauto|discriminate]. Qed.

Lemma enter_trans s req k c nk acc o :
  amem req (invs s) = false -> quiet o ->
  is_accepted req acc = true -> (forall r, is_terminal r acc = false) -> (forall r, r <> req -> is_accepted r acc = false) ->
  trans s (acc :: o) {| regs := regs s; invs := aset req k (invs s); calls := aset k c (calls s);
                        up := up s; joined := joined s; queue := queue s; nextk := nk |}.
Proof.
  intros M Q A T A'. split; [reflexivity|].
  intros _ r0. unfold terminals, accepted, active. rewrite !count_cons. cbn [invs].
  destruct (quiet_counts o r0 Q) as [Q1 Q2]. unfold terminals, accepted in Q1, Q2. rewrite Q1, Q2, T.
  destruct (N.eq_dec r0 req) as [->|Hn].
  - rewrite A, amem_aset_same, M. reflexivity.
  - rewrite A' by exact Hn. rewrite amem_aset_other by exact Hn. reflexivity.
Qed.

Lemma step_trans fl s o s' out :
  is_lose o = false -> step classify ecls fl s o = (s', out) -> trans s out s'.
Proof.
  intros Hl. destruct o as [reg d|reg|req reg args caller rp b|req|k r|k p| |]; cbn [step].
  - destruct (negb (joined s)); [intros [= <- <-]; apply trans_refl|].
    destruct (amem reg (regs s)); intros [= <- <-]; apply trans_quiet; auto; reflexivity.
  - destruct (joined s && amem reg (regs s)); intros [= <- <-]; apply trans_quiet; auto; reflexivity.
  - destruct (negb (joined s)); [intros [= <- <-]; apply trans_quiet; auto; reflexivity|].
    destruct (amem req (invs s)) eqn:M; [intros [= <- <-]; apply trans_quiet; auto; reflexivity|].
    destruct (alookup reg (regs s)) as [d|]; [|intros [= <- <-]; apply trans_quiet; auto; reflexivity].
    set (k := nextk s). set (clos := r_details d && rp_on rp). set (det := if r_details d then Some (eff_details reg caller, clos) else None).
    set (acc := OAccepted k req reg (with_self d args) caller rp (r_details d)).
    assert (A1 : is_accepted req acc = true) by (cbn; apply N.eqb_refl).
    assert (A2 : forall r, is_terminal r acc = false) by reflexivity.
    assert (A3 : forall r, r <> req -> is_accepted r acc = false).
    { intros r Hn. cbn. apply N.eqb_neq. congruence. }
    assert (Main : forall s0 o0,
      (let '(ob, r) := run_body classify s k {| c_req := req; c_reg := reg; c_args := with_self d args; c_det := det; c_clos := clos; c_st := CPending; c_gate := gate_of d |} b in
       let s1 := {| regs := regs s; invs := aset req k (invs s);
                    calls := aset k {| c_req := req; c_reg := reg; c_args := with_self d args; c_det := det; c_clos := clos; c_st := CPending; c_gate := gate_of d |} (calls s);
                    up := up s; joined := joined s; queue := queue s; nextk := k + 1 |} in
       match r with
       | None => (s1, acc :: ob)
       | Some r => let '(s2, o2) := complete classify ecls fl s1 k r in (s2, acc :: ob ++ o2)
       end) = (s0, o0) -> trans s o0 s0).
    { intros s0 o0.
      destruct (run_body classify s k _ b) as [ob [r|]] eqn:B; pose proof (run_body_quiet _ _ _ _ _ _ B) as Q; cbv beta iota zeta.
      - match goal with |- context [complete classify ecls fl ?s1 k r] => destruct (complete classify ecls fl s1 k r) as [s2 o2] eqn:K end.
        intros [= <- <-]. change (acc :: ob ++ o2) with ((acc :: ob) ++ o2).
        eapply trans_comp; [|eapply complete_trans; eauto]. apply enter_trans; auto.
      - intros [= <- <-]. apply enter_trans; auto. }
    destruct fl; [exact (Main s' out)|].
    destruct (defers d); [|exact (Main s' out)].
    intros [= <- <-].
    change [acc] with ([acc] ++ []).
    match goal with |- trans s _ (set_queue ?sx _) => apply (trans_comp s [acc] sx []) end.
    + apply enter_trans; auto. reflexivity.
    + apply trans_quiet; reflexivity.
  - destruct (negb (joined s)); [intros [= <- <-]; apply trans_quiet; auto; reflexivity|].
    destruct (alookup req (invs s)) as [k|]; [|intros [= <- <-]; apply trans_refl].
    destruct (cst_of s k) as [[|b mc| |mc| |]|] eqn:C; try (intros [= <- <-]; apply trans_refl).
    + apply complete_trans.
    + intros [= <- <-]. apply trans_set_cst.
    + intros [= <- <-]. apply trans_quiet; [reflexivity| |]; cbn; [apply invs_set_cst|apply up_set_cst].
    + intros [= <- <-]. apply trans_set_cst.
  - destruct (cst_of s k) as [[|b mc| |mc| |]|] eqn:C; try (intros [= <- <-]; apply trans_refl).
    + apply complete_trans.
    + intros [= <- <-]. apply trans_quiet; [reflexivity| |]; cbn; [apply invs_set_cst|apply up_set_cst].
  - destruct (alookup k (calls s)) as [c|]; [|intros [= <- <-]; apply trans_refl].
    assert (P : forall s0 o0, (if c_clos c then
               match progress_call classify s (c_req c) p with
               | (o, None) => (s, o)
               | (o, Some x) => (s, o ++ [OProgRaised k x])
               end else (s, [])) = (s0, o0) -> trans s o0 s0).
    { intros s0 o0. destruct (c_clos c); [|intros [= <- <-]; apply trans_refl].
      destruct (progress_call classify s (c_req c) p) as [o1 [x|]] eqn:PC; intros [= <- <-];
        apply trans_quiet; auto; [apply quiet_app; [eapply progress_call_quiet; eauto|reflexivity]|eapply progress_call_quiet; eauto]. }
    destruct (c_st c); try (destruct (c_gate c); [|apply P]); intros [= <- <-]; apply trans_refl.
  - discriminate.
  - destruct fl; [intros [= <- <-]; apply trans_refl|apply turn_trans].
Qed.

Lemma run_trans fl ops : forall s s' outs,
  stays_up ops -> run classify ecls fl s ops = (s', outs) -> trans s outs s'.
Proof.
  unfold stays_up. induction ops as [|o ops IH]; cbn [run forallb]; intros s s' outs Hu.
  - intros [= <- <-]. apply trans_refl.
  - apply andb_true_iff in Hu as [U1 U2]. apply negb_true_iff in U1.
    destruct (step classify ecls fl s o) as [s1 o1] eqn:S. destruct (run classify ecls fl s1 ops) as [s2 o2] eqn:R.
    intros [= <- <-]. eapply trans_comp; [eapply step_trans; eauto|eapply IH; eauto].
Qed.
End Main.

(* ================= C10_one_terminal ================= *)
Theorem one_terminal : forall classify ecls fl ops s outs,
  classify_ok classify -> stays_up ops ->
  run classify ecls fl init ops = (s, outs) ->
  forall req, (terminals req outs + active req s = accepted req outs)%nat.
Proof.
  intros classify ecls fl ops s outs Hok Hu R req.
  destruct (run_trans classify ecls Hok fl ops init s outs Hu R) as (_ & B).
  specialize (B eq_refl req). unfold active in B at 2. cbn in B. lia.
Qed.
(* ================= never more terminal replies than invocations: NO hypothesis on the transport ================= *)
Section AtMost.
Variable classify : wmsg -> sres.
Variable ecls : list (N * N).

Definition lebal (s : st) (o : list out) (s' : st) : Prop :=
  forall req, (terminals req o + active req s' <= accepted req o + active req s)%nat.
Lemma lebal_refl s : lebal s [] s.
Proof. intros req. cbn. lia. Qed.
Lemma lebal_comp s o1 s1 o2 s2 : lebal s o1 s1 -> lebal s1 o2 s2 -> lebal s (o1 ++ o2) s2.
Proof.
  intros B1 B2 req. specialize (B1 req). specialize (B2 req). unfold terminals, accepted in *. rewrite !count_app. lia.
Qed.
Lemma lebal_quiet s o s' : quiet o -> invs s' = invs s -> lebal s o s'.
Proof. intros Q I req. destruct (quiet_counts o req Q) as [-> ->]. unfold active. rewrite I. lia. Qed.

Lemma swf_shape m fs fe o x :
  send_with_fallback classify m fs fe = (o, x) -> o = [] \/ exists m', o = [OSent m'] /\ (m' = m \/ m' = fs \/ m' = fe).
Proof.
  unfold send_with_fallback. destruct (classify m); [|destruct (classify fs)|destruct (classify fe)|];
    intros [= <- _]; eauto 6.
Qed.

(* a closure's output: at most one final message for req, then possibly an escaping exception *)
Lemma lebal_remove s req o1 tail :
  amem req (invs s) = true ->
  (o1 = [] \/ exists m', o1 = [OSent m'] /\ final_for req m') -> quiet tail ->
  lebal s (o1 ++ tail) (set_invs s (aremove req (invs s))).
Proof.
  intros M H Q r0. destruct (quiet_counts tail r0 Q) as [T1 T2]. unfold terminals, accepted in *. rewrite !count_app, T1, T2.
  unfold active. cbn [invs set_invs].
  destruct H as [->|(m' & -> & F)].
  - cbn. destruct (N.eq_dec r0 req) as [->|Hn]; [rewrite amem_aremove_same, M; lia|rewrite amem_aremove_other by exact Hn; lia].
  - assert (T : is_terminal r0 (OSent m') = (req =? r0)).
    { destruct m' as [r sg p g|r u p]; cbn in F |- *; [destruct F as [-> ->]|subst r]; reflexivity. }
    rewrite !count_cons, T. change (is_accepted r0 (OSent m')) with false. change (count _ []) with 0%nat.
    destruct (req =? r0) eqn:E.
    + apply N.eqb_eq in E. subst r0. rewrite amem_aremove_same, M. lia.
    + apply N.eqb_neq in E. rewrite amem_aremove_other by congruence. lia.
Qed.

Lemma run_error_le s req e s' o : run_error classify ecls s req e = (s', o) -> lebal s o s'.
Proof.
  unfold run_error. destruct (alookup req (invs s)) as [k|] eqn:L.
  - assert (M : amem req (invs s) = true) by (unfold amem; now rewrite L).
    destruct (up s).
    + destruct (send_with_fallback classify _ _ _) as [o1 x] eqn:W. intros [= <- <-].
      apply lebal_remove; [exact M| |destruct x; reflexivity].
      destruct (swf_shape _ _ _ _ _ W) as [->|(m' & -> & Hm)]; [now left|right]. exists m'. split; [reflexivity|].
      destruct Hm as [->|[->| ->]]; cbn; auto.
    + intros [= <- <-]. change [ORaised InCallback XAttributeError] with ([] ++ [ORaised InCallback XAttributeError]).
      apply lebal_remove; [exact M|now left|reflexivity].
  - intros [= <- <-]. apply lebal_quiet; reflexivity.
Qed.

Lemma run_success_le fl s req r s' o : run_success classify ecls fl s req r = (s', o) -> lebal s o s'.
Proof.
  unfold run_success. destruct (alookup req (invs s)) as [k|] eqn:L.
  - assert (M : amem req (invs s) = true) by (unfold amem; now rewrite L).
    destruct (up s).
    + destruct (send_with_fallback classify _ _ _) as [o1 x] eqn:W.
      assert (Sh : o1 = [] \/ exists m', o1 = [OSent m'] /\ final_for req m').
      { destruct (swf_shape _ _ _ _ _ W) as [->|(m' & -> & Hm)]; [now left|right]. exists m'. split; [reflexivity|].
        destruct Hm as [->|[->| ->]]; cbn; auto. destruct r; cbn; auto. }
      destruct x as [x|].
      * destruct fl.
        -- intros [= <- <-]. apply lebal_remove; auto. reflexivity.
        -- destruct (run_error classify ecls _ req EInternal) as [s2 o2] eqn:E. intros [= <- <-].
           eapply lebal_comp; [|eapply run_error_le; eauto].
           rewrite <- (app_nil_r o1). apply lebal_remove; auto. reflexivity.
      * intros [= <- <-]. rewrite <- (app_nil_r o1). apply lebal_remove; auto. reflexivity.
    + intros [= <- <-]. change (@nil out) with (@nil out ++ []). apply lebal_remove; [exact M|now left|reflexivity].
  - destruct fl; [intros [= <- <-]; apply lebal_quiet; reflexivity|apply run_error_le].
Qed.

Lemma run_cb_le fl s k r s' o : run_cb classify ecls fl s k r = (s', o) -> lebal s o s'.
Proof.
  unfold run_cb. destruct (alookup k (calls s)); [|intros [= <- <-]; apply lebal_refl].
  destruct r; [apply run_success_le|apply run_error_le].
Qed.
Lemma complete_le fl s k r s' o : complete classify ecls fl s k r = (s', o) -> lebal s o s'.
Proof.
  unfold complete. destruct fl.
  - intros H. apply run_cb_le in H. change o with ([] ++ o). eapply lebal_comp; [|exact H].
    apply lebal_quiet; [reflexivity|apply invs_set_cst].
  - intros [= <- <-]. apply lebal_quiet; [reflexivity|]. cbn. apply invs_set_cst.
Qed.
Lemma run_item_le s q s' o : run_item classify ecls s q = (s', o) -> lebal s o s'.
Proof.
  destruct q as [k r|k|k r]; cbn [run_item].
  - apply run_cb_le.
  - destruct (alookup k (calls s)) as [c|] eqn:L; [|intros [= <- <-]; apply lebal_refl].
    destruct (c_st c) as [|b mc| | | |] eqn:C; try (intros [= <- <-]; apply lebal_refl).
    destruct mc.
    + destruct (complete classify ecls Aio s k (RErr ECancelled)) as [s1 o1] eqn:K. intros [= <- <-].
      apply complete_le in K. rewrite <- (app_nil_r o1). eapply lebal_comp; [exact K|].
      apply lebal_quiet; [reflexivity|apply invs_set_cst].
    + destruct (run_body classify s k c b) as [o1 [r|]] eqn:B; pose proof (run_body_quiet _ _ _ _ _ _ _ B) as Q.
      * destruct (complete classify ecls Aio s k r) as [s1 o2] eqn:K. intros [= <- <-].
        eapply lebal_comp; [|eapply complete_le; eauto]. apply lebal_quiet; auto.
      * intros [= <- <-]. apply lebal_quiet; [exact Q|apply invs_set_cst].
  - destruct (cst_of s k) as [[| | |mc| |]|]; try (intros [= <- <-]; apply lebal_refl). apply complete_le.
Qed.
Lemma run_items_le q : forall s s' o, run_items classify ecls s q = (s', o) -> lebal s o s'.
Proof.
  induction q as [|i q IH]; cbn; intros s s' o.
  - intros [= <- <-]. apply lebal_refl.
  - destruct (run_item classify ecls s i) as [s1 o1] eqn:I. destruct (run_items classify ecls s1 q) as [s2 o2] eqn:R.
    intros [= <- <-]. eapply lebal_comp; [eapply run_item_le; eauto|eapply IH; eauto].
Qed.
Lemma round_le s s' o : round classify ecls s = (s', o) -> lebal s o s'.
Proof.
  unfold round. intros R. change o with ([] ++ o). eapply lebal_comp; [|eapply run_items_le; eauto].
  apply lebal_quiet; reflexivity.
Qed.
Lemma turn_le s s' o : turn classify ecls s = (s', o) -> lebal s o s'.
Proof.
  unfold turn. destruct (round classify ecls s) as [s1 o1] eqn:R1. destruct (round classify ecls s1) as [s2 o2] eqn:R2.
  destruct (round classify ecls s2) as [s3 o3] eqn:R3. intros [= <- <-].
  eapply lebal_comp; [eapply round_le; eauto|]. eapply lebal_comp; eapply round_le; eauto.
Qed.

Lemma enter_le s req k c nk acc o :
  amem req (invs s) = false -> quiet o ->
  is_accepted req acc = true -> (forall r, is_terminal r acc = false) ->
  lebal s (acc :: o) {| regs := regs s; invs := aset req k (invs s); calls := aset k c (calls s);
                        up := up s; joined := joined s; queue := queue s; nextk := nk |}.
Proof.
  intros M Q A T r0. unfold terminals, accepted, active. rewrite !count_cons. cbn [invs].
  destruct (quiet_counts o r0 Q) as [Q1 Q2]. unfold terminals, accepted in Q1, Q2. rewrite Q1, Q2, T.
  destruct (N.eq_dec r0 req) as [->|Hn].
  - rewrite A, amem_aset_same, M. lia.
  - rewrite amem_aset_other by exact Hn. destruct (is_accepted r0 acc); lia.
Qed.

Lemma step_le fl s o s' out : step classify ecls fl s o = (s', out) -> lebal s out s'.
Proof.
  destruct o as [reg d|reg|req reg args caller rp b|req|k r|k p| |]; cbn [step].
  - destruct (negb (joined s)); [intros [= <- <-]; apply lebal_refl|].
    destruct (amem reg (regs s)); intros [= <- <-]; apply lebal_quiet; reflexivity.
  - destruct (joined s && amem reg (regs s)); intros [= <- <-]; apply lebal_quiet; reflexivity.
  - destruct (negb (joined s)); [intros [= <- <-]; apply lebal_quiet; reflexivity|].
    destruct (amem req (invs s)) eqn:M; [intros [= <- <-]; apply lebal_quiet; reflexivity|].
    destruct (alookup reg (regs s)) as [d|]; [|intros [= <- <-]; apply lebal_quiet; reflexivity].
    set (k := nextk s). set (clos := r_details d && rp_on rp). set (det := if r_details d then Some (eff_details reg caller, clos) else None).
    set (acc := OAccepted k req reg (with_self d args) caller rp (r_details d)).
    assert (A1 : is_accepted req acc = true) by (cbn; apply N.eqb_refl).
    assert (A2 : forall r, is_terminal r acc = false) by reflexivity.
    assert (Main : forall s0 o0,
      (let '(ob, r) := run_body classify s k {| c_req := req; c_reg := reg; c_args := with_self d args; c_det := det; c_clos := clos; c_st := CPending; c_gate := gate_of d |} b in
       let s1 := {| regs := regs s; invs := aset req k (invs s);
                    calls := aset k {| c_req := req; c_reg := reg; c_args := with_self d args; c_det := det; c_clos := clos; c_st := CPending; c_gate := gate_of d |} (calls s);
                    up := up s; joined := joined s; queue := queue s; nextk := k + 1 |} in
       match r with
       | None => (s1, acc :: ob)
       | Some r => let '(s2, o2) := complete classify ecls fl s1 k r in (s2, acc :: ob ++ o2)
       end) = (s0, o0) -> lebal s o0 s0).
    { intros s0 o0.
      destruct (run_body classify s k _ b) as [ob [r|]] eqn:B; pose proof (run_body_quiet _ _ _ _ _ _ _ B) as Q; cbv beta iota zeta.
      - match goal with |- context [complete classify ecls fl ?s1 k r] => destruct (complete classify ecls fl s1 k r) as [s2 o2] eqn:K end.
        intros [= <- <-]. change (acc :: ob ++ o2) with ((acc :: ob) ++ o2).
        eapply lebal_comp; [|eapply complete_le; eauto]. apply enter_le; auto.
      - intros [= <- <-]. apply enter_le; auto. }
    destruct fl; [exact (Main s' out)|]. destruct (defers d); [|exact (Main s' out)].
    intros [= <- <-]. change [acc] with ([acc] ++ []).
    match goal with |- lebal s _ (set_queue ?sx _) => apply (lebal_comp s [acc] sx []) end.
    + apply enter_le; auto. reflexivity.
    + apply lebal_quiet; reflexivity.
  - destruct (negb (joined s)); [intros [= <- <-]; apply lebal_quiet; reflexivity|].
    destruct (alookup req (invs s)) as [k|]; [|intros [= <- <-]; apply lebal_refl].
    destruct (cst_of s k) as [[|b mc| |mc| |]|]; try (intros [= <- <-]; apply lebal_refl).
    + apply complete_le.
    + intros [= <- <-]. apply lebal_quiet; [reflexivity|apply invs_set_cst].
    + intros [= <- <-]. apply lebal_quiet; [reflexivity|]. cbn. apply invs_set_cst.
    + intros [= <- <-]. apply lebal_quiet; [reflexivity|apply invs_set_cst].
  - destruct (cst_of s k) as [[|b mc| |mc| |]|]; try (intros [= <- <-]; apply lebal_refl).
    + apply complete_le.
    + intros [= <- <-]. apply lebal_quiet; [reflexivity|]. cbn. apply invs_set_cst.
  - destruct (alookup k (calls s)) as [c|]; [|intros [= <- <-]; apply lebal_refl].
    assert (P : forall s0 o0, (if c_clos c then
               match progress_call classify s (c_req c) p with
               | (o, None) => (s, o)
               | (o, Some x) => (s, o ++ [OProgRaised k x])
               end else (s, [])) = (s0, o0) -> lebal s o0 s0).
    { intros s0 o0. destruct (c_clos c); [|intros [= <- <-]; apply lebal_refl].
      destruct (progress_call classify s (c_req c) p) as [o1 [x|]] eqn:PC; intros [= <- <-];
        apply lebal_quiet; auto; [apply quiet_app; [eapply progress_call_quiet; eauto|reflexivity]|eapply progress_call_quiet; eauto]. }
    destruct (c_st c); try (destruct (c_gate c); [|apply P]); intros [= <- <-]; apply lebal_refl.
  - intros [= <- <-]. apply lebal_quiet; reflexivity.
  - destruct fl; [intros [= <- <-]; apply lebal_refl|apply turn_le].
Qed.

Lemma run_le fl ops : forall s s' outs, run classify ecls fl s ops = (s', outs) -> lebal s outs s'.
Proof.
  induction ops as [|o ops IH]; cbn [run]; intros s s' outs.
  - intros [= <- <-]. apply lebal_refl.
  - destruct (step classify ecls fl s o) as [s1 o1] eqn:S. destruct (run classify ecls fl s1 ops) as [s2 o2] eqn:R.
    intros [= <- <-]. eapply lebal_comp; [eapply step_le; eauto|eapply IH; eauto].
Qed.
End AtMost.

Theorem never_two_terminals : forall classify ecls fl ops s outs,
  run classify ecls fl init ops = (s, outs) ->
  forall req, (terminals req outs + active req s <= accepted req outs)%nat.
Proof.
  intros classify ecls fl ops s outs R req. pose proof (run_le classify ecls fl ops init s outs R req) as B.
  unfold active in B at 2. cbn in B. lia.
Qed.
(* ================= classification of the real transports ================= *)
Lemma classify_ok_ws : classify_ok ws_send.
Proof.
  intros m. unfold ws_send, ws_send_at, flag_size, flag_unser.
  destruct (p_unser (m_payload m)), (p_big (m_payload m)); reflexivity.
Qed.
Lemma classify_ok_rs_tx : classify_ok rs_tx_send.
Proof.
  intros m. unfold rs_tx_send, rs_tx_send_at, flag_size, flag_unser.
  destruct (p_unser (m_payload m)), (p_big (m_payload m)); reflexivity.
Qed.
Lemma classify_ok_rs_aio : classify_ok rs_aio_send.
Proof.
  intros m. unfold rs_aio_send, rs_aio_send_at, flag_size, flag_unser.
  destruct (p_unser (m_payload m)), (p_big (m_payload m)); reflexivity.
Qed.
Lemma leaky_unser_not_ok x : ~ classify_ok (leaky_unser_send x).
Proof. intros H. specialize (H (MYield 1 true (PVal 0 true false) false)). discriminate. Qed.
Lemma leaky_big_not_ok : ~ classify_ok leaky_big_send.
Proof. intros H. specialize (H (MYield 1 true (PVal 0 false true) false)). discriminate. Qed.

(* ================= single steps ================= *)
Lemma unknown_registration classify ecls fl s req reg args caller rp b :
  alookup reg (regs s) = None ->
  step classify ecls fl s (OInvocation req reg args caller rp b) = (s, [ORaised InOnMessage XProtocolError]).
Proof.
  intros L. cbn [step]. destruct (negb (joined s)); [reflexivity|]. destruct (amem req (invs s)); [reflexivity|].
  now rewrite L.
Qed.
Lemma duplicate_request classify ecls fl s req reg args caller rp b :
  amem req (invs s) = true ->
  step classify ecls fl s (OInvocation req reg args caller rp b) = (s, [ORaised InOnMessage XProtocolError]).
Proof. intros L. cbn [step]. destruct (negb (joined s)); [reflexivity|]. now rewrite L. Qed.

Lemma alookup_aset_same {A} k (v : A) l : alookup k (aset k v l) = Some v.
Proof. unfold aset. cbn. now rewrite N.eqb_refl. Qed.

Lemma interrupt_gives_error_tx classify ecls s req k c :
  classify_ok classify -> up s = true -> joined s = true ->
  alookup req (invs s) = Some k -> alookup k (calls s) = Some c -> c_req c = req -> c_st c = CPending ->
  exists s', step classify ecls Tx s (OInterrupt req) = (s', [OSent (MError req URuntime PEmpty)])
             /\ amem req (invs s') = false /\ cst_of s' k = Some CDone.
Proof.
  intros Hok U J Li Lc Rq St. cbn [step]. rewrite J, Li. cbn [negb]. unfold cst_of at 1. rewrite Lc. cbn [option_map]. rewrite St.
  unfold complete, run_cb. unfold set_cst at 1 2. rewrite Lc. cbn [calls set_calls]. rewrite alookup_aset_same. cbn [c_req].
  unfold run_error. cbn [invs set_calls up]. rewrite Rq, Li, U.
  unfold send_with_fallback. rewrite (Hok (MError req (uri_of ecls ECancelled) (epayload ECancelled))). cbn.
  eexists. split; [reflexivity|]. split; [apply amem_aremove_same|].
  unfold cst_of. cbn. now rewrite N.eqb_refl.
Qed.

(* asyncio: the INTERRUPT only schedules; the ERROR is sent when the loop runs the callback *)
Lemma interrupt_gives_error_aio classify ecls s req k c :
  classify_ok classify -> up s = true -> joined s = true ->
  alookup req (invs s) = Some k -> alookup k (calls s) = Some c -> c_req c = req -> c_st c = CPending ->
  exists s1, step classify ecls Aio s (OInterrupt req) = (s1, [])
    /\ queue s1 = queue s ++ [QCb k (RErr ECancelled)] /\ invs s1 = invs s /\ up s1 = true
    /\ exists s2, run_item classify ecls s1 (QCb k (RErr ECancelled)) = (s2, [OSent (MError req URuntime PEmpty)])
                  /\ amem req (invs s2) = false.
Proof.
  intros Hok U J Li Lc Rq St. cbn [step]. rewrite J, Li. cbn [negb]. unfold cst_of at 1. rewrite Lc. cbn [option_map]. rewrite St.
  unfold complete. eexists. split; [reflexivity|]. cbn [queue set_queue invs up].
  rewrite queue_set_cst, invs_set_cst, up_set_cst. repeat split; auto.
  cbn [run_item]. unfold run_cb. cbn [calls set_queue]. unfold set_cst. rewrite Lc. cbn [calls set_calls].
  rewrite alookup_aset_same. cbn [c_req]. unfold run_error. cbn [invs set_calls set_queue up]. rewrite Rq, Li, U.
  unfold send_with_fallback. rewrite (Hok (MError req (uri_of ecls ECancelled) (epayload ECancelled))). cbn.
  eexists. split; [reflexivity|]. apply amem_aremove_same.
Qed.

(* an INTERRUPT for a request that is not being processed is ignored *)
Lemma interrupt_unknown classify ecls fl s req :
  joined s = true -> alookup req (invs s) = None -> step classify ecls fl s (OInterrupt req) = (s, []).
Proof. intros J L. cbn [step]. now rewrite J, L. Qed.

(* outputs other than "endpoint entered" *)
Definition nocall (o : out) : bool := match o with OCalled _ _ _ _ _ => false | _ => true end.
Definition nocalls (l : list out) : Prop := forallb nocall l = true.
Lemma nocalls_app a b : nocalls a -> nocalls b -> nocalls (a ++ b).
Proof. unfold nocalls. intros. rewrite forallb_app. now rewrite H, H0. Qed.

Lemma swf_nocalls classify m fs fe o x : send_with_fallback classify m fs fe = (o, x) -> nocalls o.
Proof.
  unfold send_with_fallback. destruct (classify m); [| destruct (classify fs) | destruct (classify fe) |];
    intros [= <- _]; reflexivity.
Qed.
Lemma run_error_nocalls classify ecls s req e s' o : run_error classify ecls s req e = (s', o) -> nocalls o.
Proof.
  unfold run_error. destruct (alookup req (invs s)); [|intros [= _ <-]; reflexivity].
  destruct (up s); [|intros [= _ <-]; reflexivity].
  destruct (send_with_fallback classify _ _ _) as [o1 x] eqn:W. intros [= _ <-].
  apply nocalls_app; [eapply swf_nocalls; eauto|destruct x; reflexivity].
Qed.
Lemma run_success_nocalls classify ecls fl s req r s' o : run_success classify ecls fl s req r = (s', o) -> nocalls o.
Proof.
  unfold run_success. destruct (alookup req (invs s)).
  - destruct (up s); [|intros [= _ <-]; reflexivity].
    destruct (send_with_fallback classify _ _ _) as [o1 [x|]] eqn:W.
    + destruct fl.
      * intros [= _ <-]. apply nocalls_app; [eapply swf_nocalls; eauto|reflexivity].
      * destruct (run_error classify ecls _ req EInternal) as [s2 o2] eqn:E. intros [= _ <-].
        apply nocalls_app; [eapply swf_nocalls; eauto|eapply run_error_nocalls; eauto].
    + intros [= _ <-]. eapply swf_nocalls; eauto.
  - destruct fl; [intros [= _ <-]; reflexivity|apply run_error_nocalls].
Qed.
Lemma complete_nocalls classify ecls fl s k r s' o : complete classify ecls fl s k r = (s', o) -> nocalls o.
Proof.
  unfold complete, run_cb. destruct fl; [|intros [= _ <-]; reflexivity].
  destruct (alookup k (calls (set_cst k CDone s))); [|intros [= _ <-]; reflexivity].
  destruct r; [apply run_success_nocalls|apply run_error_nocalls].
Qed.
Lemma run_pre_nocalls classify s k req clos pre o ok : run_pre classify s k req clos pre = (o, ok) -> nocalls o.
Proof.
  revert o ok. induction pre as [|p rest IH]; cbn; intros o ok; [intros [= <- _]; reflexivity|].
  destruct clos; [|intros [= <- _]; reflexivity].
  destruct (progress_call classify s req p) as [o1 [x|]] eqn:P;
    assert (N1 : nocalls o1) by (unfold progress_call in P; destruct (up s); [destruct (classify _)|]; first [discriminate|inversion P; subst; reflexivity]).
  - intros [= <- _]. apply nocalls_app; [exact N1|reflexivity].
  - destruct (run_pre classify s k req true rest) as [o' ok'] eqn:R. intros [= <- _].
    apply nocalls_app; [exact N1|eapply IH; eauto].
Qed.

(* the endpoint is entered with exactly the caller's arguments, plus CallDetails iff the registration asked;
   nothing else in that step enters an endpoint *)
Lemma args_fidelity classify ecls fl s req reg args caller rp b d :
  joined s = true -> amem req (invs s) = false -> alookup reg (regs s) = Some d ->
  (fl = Tx \/ defers d = false) -> gate_of d = None ->
  exists s' rest,
    step classify ecls fl s (OInvocation req reg args caller rp b) =
      (s', OAccepted (nextk s) req reg (with_self d args) caller rp (r_details d)
           :: OCalled (nextk s) req reg (with_self d args) (if r_details d then Some (eff_details reg caller, r_details d && rp_on rp) else None) :: rest)
    /\ nocalls rest.
Proof.
  intros J M L F G. cbn [step]. rewrite J, M, L. cbn [negb].
  assert (E : forall (X Y : st * list out), (match fl, defers d with Aio, true => X | _, _ => Y end) = Y).
  { intros X Y. destruct F as [-> | ->]; [reflexivity|destruct fl; reflexivity]. }
  rewrite E. clear E. unfold run_body. cbn [c_req c_reg c_args c_det c_clos c_gate]. rewrite G.
  destruct (run_pre classify s (nextk s) req (r_details d && rp_on rp) (b_pre b)) as [o1 ok] eqn:P.
  pose proof (run_pre_nocalls _ _ _ _ _ _ _ _ P) as N1.
  destruct (if ok then match b_fin b with FReturn r => Some (ROk r) | FRaise e => Some (RErr e) | FPending => None end
            else Some (RErr EInternal)) as [r|].
  - match goal with |- context [complete classify ecls fl ?s1 ?k r] => destruct (complete classify ecls fl s1 k r) as [s2 o2] eqn:K end.
    eexists. eexists. split; [reflexivity|]. apply nocalls_app; [exact N1|eapply complete_nocalls; eauto].
  - eexists. eexists. split; [reflexivity|exact N1].
Qed.

(* asyncio coroutine endpoints: the INVOCATION only creates the Task; the body is entered by the loop with the
   arguments stored at acceptance *)
Lemma args_fidelity_aio_coro classify ecls s req reg args caller rp b d :
  joined s = true -> amem req (invs s) = false -> alookup reg (regs s) = Some d -> defers d = true ->
  exists s', step classify ecls Aio s (OInvocation req reg args caller rp b) =
      (s', [OAccepted (nextk s) req reg (with_self d args) caller rp (r_details d)])
    /\ queue s' = queue s ++ [QStep (nextk s)]
    /\ alookup (nextk s) (calls s') =
         Some {| c_req := req; c_reg := reg; c_args := with_self d args;
                 c_det := if r_details d then Some (eff_details reg caller, r_details d && rp_on rp) else None;
                 c_clos := r_details d && rp_on rp; c_st := CFresh b false; c_gate := gate_of d |}.
Proof.
  intros J M L C. cbn [step]. rewrite J, M, L, C. cbn [negb].
  eexists. split; [reflexivity|]. cbn. split; [reflexivity|]. now rewrite N.eqb_refl.
Qed.
Lemma coro_step_calls classify ecls s k c b :
  alookup k (calls s) = Some c -> c_st c = CFresh b false -> c_gate c = None ->
  exists s' rest, run_item classify ecls s (QStep k) = (s', OCalled k (c_req c) (c_reg c) (c_args c) (c_det c) :: rest)
                  /\ nocalls rest.
Proof.
  intros L C G. cbn [run_item]. rewrite L, C. unfold run_body. rewrite G.
  destruct (run_pre classify s k (c_req c) (c_clos c) (b_pre b)) as [o1 ok] eqn:P.
  pose proof (run_pre_nocalls _ _ _ _ _ _ _ _ P) as N1.
  destruct (if ok then match b_fin b with FReturn r => Some (ROk r) | FRaise e => Some (RErr e) | FPending => None end
            else Some (RErr EInternal)) as [r|].
  - destruct (complete classify ecls Aio s k r) as [s2 o2] eqn:K.
    eexists. eexists. split; [reflexivity|]. apply nocalls_app; [exact N1|eapply complete_nocalls; eauto].
  - eexists. eexists. split; [reflexivity|exact N1].
Qed.

(* ================= progressive results only if requested (global, every transport) ================= *)
(* monitor over the output trace: [seen] = request ids accepted so far with receive_progress AND details *)
Fixpoint prog_ok (seen : list N) (l : list out) : bool :=
  match l with
  | [] => true
  | OAccepted _ req _ _ _ rp wants :: r => prog_ok (if rp_on rp && wants then req :: seen else seen) r
  | OSent (MYield req _ _ true) :: r => existsb (N.eqb req) seen && prog_ok seen r
  | _ :: r => prog_ok seen r
  end.
Fixpoint seen_after (seen : list N) (l : list out) : list N :=
  match l with
  | [] => seen
  | OAccepted _ req _ _ _ rp wants :: r => seen_after (if rp_on rp && wants then req :: seen else seen) r
  | _ :: r => seen_after seen r
  end.
Lemma prog_ok_app seen a b : prog_ok seen (a ++ b) = prog_ok seen a && prog_ok (seen_after seen a) b.
Proof.
  revert seen. induction a as [|x a IH]; intros seen; [reflexivity|].
  destruct x as [k r g ar c rp w| |m| |]; cbn [app prog_ok seen_after]; try apply IH.
  destruct m as [r sg p [|]|]; try apply IH. rewrite IH. now rewrite andb_assoc.
Qed.
Lemma seen_after_app seen a b : seen_after seen (a ++ b) = seen_after (seen_after seen a) b.
Proof.
  revert seen. induction a as [|x a IH]; intros seen; [reflexivity|].
  destruct x; cbn [app seen_after]; apply IH.
Qed.
Lemma seen_after_incl seen l r : In r seen -> In r (seen_after seen l).
Proof.
  revert seen. induction l as [|x l IH]; intros seen H; [exact H|].
  destruct x as [k rq g ar c rp w| | | |]; cbn [seen_after]; try (apply IH; exact H).
  apply IH. destruct (rp_on rp && w); [now right|exact H].
Qed.

(* output of code that neither accepts an invocation nor needs anything from [seen] beyond what it has *)
Definition okout (seen : list N) (o : list out) : Prop := prog_ok seen o = true /\ seen_after seen o = seen.
Lemma okout_nil seen : okout seen []. Proof. split; reflexivity. Qed.
Lemma okout_app seen a b : okout seen a -> okout seen b -> okout seen (a ++ b).
Proof. intros [A1 A2] [B1 B2]. split; [rewrite prog_ok_app, A1, A2; exact B1|rewrite seen_after_app, A2; exact B2]. Qed.
Definition nonprog (m : wmsg) : Prop := match m with MYield _ _ _ g => g = false | MError _ _ _ => True end.
Lemma okout_sent seen m : nonprog m -> okout seen [OSent m].
Proof. destruct m as [r sg p g|]; cbn; [intros ->|intros _]; split; reflexivity. Qed.

(* the (request id, progress closure) of a call never change, and no call appears *)
Definition pres (s s' : st) : Prop :=
  forall k c', alookup k (calls s') = Some c' ->
  exists c, alookup k (calls s) = Some c /\ c_req c = c_req c' /\ c_clos c = c_clos c'
            /\ c_reg c = c_reg c' /\ c_args c = c_args c' /\ c_det c = c_det c'.
Lemma pres_refl s : pres s s. Proof. intros k c H. exists c. repeat split; auto. Qed.
Lemma pres_trans s1 s2 s3 : pres s1 s2 -> pres s2 s3 -> pres s1 s3.
Proof.
  intros A B k c3 H. destruct (B k c3 H) as (c2 & H2 & E1 & E2 & E3 & E4 & E5). destruct (A k c2 H2) as (c1 & H1 & F1 & F2 & F3 & F4 & F5).
  exists c1. repeat split; congruence.
Qed.
Lemma pres_same_calls s s' : calls s' = calls s -> pres s s'.
Proof. intros E k c H. rewrite E in H. exists c. repeat split; auto. Qed.
Lemma alookup_aset_other {A} k k' (v : A) l : k' <> k -> alookup k' (aset k v l) = alookup k' l.
Proof.
  intros Hn. unfold aset. cbn. destruct (k' =? k) eqn:E; [apply N.eqb_eq in E; congruence|].
  now apply alookup_aremove_other.
Qed.
Lemma pres_set_cst k cs s : pres s (set_cst k cs s).
Proof.
  unfold set_cst. destruct (alookup k (calls s)) as [c|] eqn:L; [|apply pres_refl].
  intros k' c' H. cbn [calls set_calls] in H. destruct (N.eq_dec k' k) as [->|Hn].
  - rewrite alookup_aset_same in H. injection H as <-. exists c. repeat split; auto.
  - rewrite alookup_aset_other in H by exact Hn. exists c'. repeat split; auto.
Qed.

Definition Inv (s : st) (seen : list N) : Prop :=
  forall k c, alookup k (calls s) = Some c -> c_clos c = true -> In (c_req c) seen.
Lemma Inv_pres s s' seen : Inv s seen -> pres s s' -> Inv s' seen.
Proof. intros I P k c' H C. destruct (P k c' H) as (c & L & E1 & E2 & _). rewrite <- E1. apply (I k c L). congruence. Qed.

Section Prog.
Variable classify : wmsg -> sres.
Variable ecls : list (N * N).

Lemma swf_okout seen m fs fe o x :
  nonprog m -> nonprog fs -> nonprog fe -> send_with_fallback classify m fs fe = (o, x) -> okout seen o.
Proof.
  intros A B C. unfold send_with_fallback. destruct (classify m); [|destruct (classify fs)|destruct (classify fe)|];
    intros [= <- _]; try apply okout_nil; now apply okout_sent.
Qed.
Lemma okout_raised seen w x : okout seen [ORaised w x]. Proof. split; reflexivity. Qed.

Lemma run_error_p seen s req e s' o : run_error classify ecls s req e = (s', o) -> okout seen o /\ pres s s'.
Proof.
  unfold run_error. destruct (alookup req (invs s)); [|intros [= <- <-]; split; [apply okout_raised|apply pres_refl]].
  destruct (up s); [|intros [= <- <-]; split; [apply okout_raised|now apply pres_same_calls]].
  destruct (send_with_fallback classify _ _ _) as [o1 x] eqn:W. intros [= <- <-]. split; [|now apply pres_same_calls].
  apply okout_app; [eapply swf_okout; eauto; exact I|destruct x; [apply okout_raised|apply okout_nil]].
Qed.
Lemma run_success_p seen fl s req r s' o : run_success classify ecls fl s req r = (s', o) -> okout seen o /\ pres s s'.
Proof.
  unfold run_success. destruct (alookup req (invs s)).
  - destruct (up s); [|intros [= <- <-]; split; [apply okout_nil|now apply pres_same_calls]].
    destruct (send_with_fallback classify _ _ _) as [o1 [x|]] eqn:W;
      assert (O1 : okout seen o1) by (eapply swf_okout; eauto; try exact I; destruct r; reflexivity).
    + destruct fl.
      * intros [= <- <-]. split; [apply okout_app; [exact O1|apply okout_raised]|now apply pres_same_calls].
      * destruct (run_error classify ecls _ req EInternal) as [s2 o2] eqn:E. intros [= <- <-].
        destruct (run_error_p seen _ _ _ _ _ E) as [O2 P2]. split; [now apply okout_app|].
        eapply pres_trans; [|exact P2]. now apply pres_same_calls.
    + intros [= <- <-]. split; [exact O1|now apply pres_same_calls].
  - destruct fl; [intros [= <- <-]; split; [apply okout_raised|apply pres_refl]|apply run_error_p].
Qed.
Lemma run_cb_p seen fl s k r s' o : run_cb classify ecls fl s k r = (s', o) -> okout seen o /\ pres s s'.
Proof.
  unfold run_cb. destruct (alookup k (calls s)); [|intros [= <- <-]; split; [apply okout_nil|apply pres_refl]].
  destruct r; [apply run_success_p|apply run_error_p].
Qed.
Lemma complete_p seen fl s k r s' o : complete classify ecls fl s k r = (s', o) -> okout seen o /\ pres s s'.
Proof.
  unfold complete. destruct fl.
  - intros H. destruct (run_cb_p seen _ _ _ _ _ _ H) as [O P]. split; [exact O|].
    eapply pres_trans; [apply pres_set_cst|exact P].
  - intros [= <- <-]. split; [apply okout_nil|]. eapply pres_trans; [apply pres_set_cst|now apply pres_same_calls].
Qed.
Lemma progress_call_p seen s req p o x : In req seen -> progress_call classify s req p = (o, x) -> okout seen o.
Proof.
  intros Hi. unfold progress_call. destruct (up s); [|intros [= <- _]; apply okout_nil].
  destruct (classify (MYield req false p true)); intros [= <- _]; try apply okout_nil.
  split; [|reflexivity]. cbn. rewrite andb_true_r. apply existsb_exists. exists req. split; [exact Hi|apply N.eqb_refl].
Qed.
Lemma okout_prograised seen k x : okout seen [OProgRaised k x]. Proof. split; reflexivity. Qed.
Lemma run_pre_p seen s k req clos pre o ok :
  (clos = true -> In req seen) -> run_pre classify s k req clos pre = (o, ok) -> okout seen o.
Proof.
  intros Hc. revert o ok. induction pre as [|p rest IH]; cbn; intros o ok; [intros [= <- _]; apply okout_nil|].
  destruct clos; [|intros [= <- _]; apply okout_nil].
  destruct (progress_call classify s req p) as [o1 [x|]] eqn:P; pose proof (progress_call_p seen _ _ _ _ _ (Hc eq_refl) P) as O1.
  - intros [= <- _]. apply okout_app; [exact O1|apply okout_prograised].
  - destruct (run_pre classify s k req true rest) as [o' ok'] eqn:R. intros [= <- _]. apply okout_app; [exact O1|eapply IH; eauto].
Qed.
Lemma okout_called seen k r g a d : okout seen [OCalled k r g a d]. Proof. split; reflexivity. Qed.
Lemma run_body_p seen s k c b o r :
  (c_clos c = true -> In (c_req c) seen) -> run_body classify s k c b = (o, r) -> okout seen o.
Proof.
  intros Hc. unfold run_body. destruct (c_gate c); [intros [= <- _]; apply okout_nil|].
  destruct (run_pre classify s k (c_req c) (c_clos c) (b_pre b)) as [o1 ok] eqn:P. intros [= <- _].
  change (okout seen ([OCalled k (c_req c) (c_reg c) (c_args c) (c_det c)] ++ o1)).
  apply okout_app; [apply okout_called|eapply run_pre_p; eauto].
Qed.
Lemma run_item_p seen s q s' o : Inv s seen -> run_item classify ecls s q = (s', o) -> okout seen o /\ pres s s'.
Proof.
  intros Hi. destruct q as [k r|k|k r]; cbn [run_item].
  - apply run_cb_p.
  - destruct (alookup k (calls s)) as [c|] eqn:L; [|intros [= <- <-]; split; [apply okout_nil|apply pres_refl]].
    destruct (c_st c) as [|b mc| | | |] eqn:C; try (intros [= <- <-]; split; [apply okout_nil|apply pres_refl]).
    destruct mc.
    + destruct (complete classify ecls Aio s k (RErr ECancelled)) as [s1 o1] eqn:K. intros [= <- <-].
      destruct (complete_p seen _ _ _ _ _ _ K) as [O P]. split; [exact O|]. eapply pres_trans; [exact P|apply pres_set_cst].
    + destruct (run_body classify s k c b) as [o1 [r|]] eqn:B; pose proof (run_body_p seen _ _ _ _ _ _ (Hi k c L) B) as O1.
      * destruct (complete classify ecls Aio s k r) as [s1 o2] eqn:K. intros [= <- <-].
        destruct (complete_p seen _ _ _ _ _ _ K) as [O P]. split; [now apply okout_app|exact P].
      * intros [= <- <-]. split; [exact O1|apply pres_set_cst].
  - destruct (cst_of s k) as [[| | |mc| |]|]; try (intros [= <- <-]; split; [apply okout_nil|apply pres_refl]).
    apply complete_p.
Qed.
Lemma run_items_p seen q : forall s s' o, Inv s seen -> run_items classify ecls s q = (s', o) -> okout seen o /\ pres s s'.
Proof.
  induction q as [|i q IH]; cbn; intros s s' o Hi.
  - intros [= <- <-]. split; [apply okout_nil|apply pres_refl].
  - destruct (run_item classify ecls s i) as [s1 o1] eqn:I1. destruct (run_items classify ecls s1 q) as [s2 o2] eqn:R.
    intros [= <- <-]. destruct (run_item_p seen _ _ _ _ Hi I1) as [O1 P1].
    destruct (IH _ _ _ (Inv_pres _ _ _ Hi P1) R) as [O2 P2]. split; [now apply okout_app|eapply pres_trans; eauto].
Qed.
Lemma round_p seen s s' o : Inv s seen -> round classify ecls s = (s', o) -> okout seen o /\ pres s s'.
Proof.
  intros Hi. unfold round. intros R.
  assert (P0 : pres s (set_queue s [])) by now apply pres_same_calls.
  destruct (run_items_p seen _ _ _ _ (Inv_pres _ _ _ Hi P0) R) as [O P]. split; [exact O|exact (pres_trans _ _ _ P0 P)].
Qed.
Lemma turn_p seen s s' o : Inv s seen -> turn classify ecls s = (s', o) -> okout seen o /\ pres s s'.
Proof.
  intros Hi. unfold turn.
  destruct (round classify ecls s) as [s1 o1] eqn:R1. destruct (round classify ecls s1) as [s2 o2] eqn:R2.
  destruct (round classify ecls s2) as [s3 o3] eqn:R3. intros [= <- <-].
  destruct (round_p seen _ _ _ Hi R1) as [O1 P1]. pose proof (Inv_pres _ _ _ Hi P1) as I1.
  destruct (round_p seen _ _ _ I1 R2) as [O2 P2]. pose proof (Inv_pres _ _ _ I1 P2) as I2.
  destruct (round_p seen _ _ _ I2 R3) as [O3 P3].
  split; [apply okout_app; [exact O1|now apply okout_app]|eapply pres_trans; [exact P1|eapply pres_trans; eauto]].
Qed.

Lemma step_p seen fl s o s' out :
  Inv s seen -> step classify ecls fl s o = (s', out) -> prog_ok seen out = true /\ Inv s' (seen_after seen out).
Proof.
  intros Hi.
  assert (Easy : forall s0 o0, okout seen o0 -> pres s s0 -> prog_ok seen o0 = true /\ Inv s0 (seen_after seen o0)).
  { intros s0 o0 [O1 O2] P. split; [exact O1|]. rewrite O2. eapply Inv_pres; eauto. }
  destruct o as [reg d|reg|req reg args caller rp b|req|k r|k p| |]; cbn [step].
  - destruct (negb (joined s)); [intros [= <- <-]; apply Easy; [apply okout_nil|apply pres_refl]|].
    destruct (amem reg (regs s)); intros [= <- <-]; apply Easy; try apply okout_nil; try apply okout_raised; now apply pres_same_calls.
  - destruct (joined s && amem reg (regs s)); intros [= <- <-]; apply Easy; try apply okout_nil; now apply pres_same_calls.
  - destruct (negb (joined s)); [intros [= <- <-]; apply Easy; [apply okout_raised|apply pres_refl]|].
    destruct (amem req (invs s)); [intros [= <- <-]; apply Easy; [apply okout_raised|apply pres_refl]|].
    destruct (alookup reg (regs s)) as [d|]; [|intros [= <- <-]; apply Easy; [apply okout_raised|apply pres_refl]].
    set (k := nextk s). set (clos := r_details d && rp_on rp). set (det := if r_details d then Some (eff_details reg caller, clos) else None).
    set (acc := OAccepted k req reg (with_self d args) caller rp (r_details d)).
    set (seen1 := if rp_on rp && r_details d then req :: seen else seen).
    assert (Hs1 : clos = true -> In req seen1).
    { unfold clos, seen1. rewrite andb_comm. intros ->. now left. }
    assert (Hm : forall r0, In r0 seen -> In r0 seen1) by (intros r0 H; unfold seen1; destruct (rp_on rp && r_details d); [now right|exact H]).
    assert (Ent : forall cs s1, s1 = {| regs := regs s; invs := aset req k (invs s);
                    calls := aset k {| c_req := req; c_reg := reg; c_args := with_self d args; c_det := det; c_clos := clos; c_st := cs; c_gate := gate_of d |} (calls s);
                    up := up s; joined := joined s; queue := queue s; nextk := k + 1 |} -> Inv s1 seen1).
    { intros cs s1 -> k' c' H C. cbn [calls] in H. destruct (N.eq_dec k' k) as [->|Hn].
      - rewrite alookup_aset_same in H. injection H as <-. cbn in C |- *. now apply Hs1.
      - rewrite alookup_aset_other in H by exact Hn. apply Hm. now apply (Hi k' c'). }
    assert (Main : forall s0 o0,
      (let '(ob, r) := run_body classify s k {| c_req := req; c_reg := reg; c_args := with_self d args; c_det := det; c_clos := clos; c_st := CPending; c_gate := gate_of d |} b in
       let s1 := {| regs := regs s; invs := aset req k (invs s);
                    calls := aset k {| c_req := req; c_reg := reg; c_args := with_self d args; c_det := det; c_clos := clos; c_st := CPending; c_gate := gate_of d |} (calls s);
                    up := up s; joined := joined s; queue := queue s; nextk := k + 1 |} in
       match r with
       | None => (s1, acc :: ob)
       | Some r => let '(s2, o2) := complete classify ecls fl s1 k r in (s2, acc :: ob ++ o2)
       end) = (s0, o0) -> prog_ok seen o0 = true /\ Inv s0 (seen_after seen o0)).
    { intros s0 o0.
      destruct (run_body classify s k _ b) as [ob [r|]] eqn:B;
        pose proof (fun H => run_body_p seen1 _ _ _ _ _ _ H B) as RB; cbn [c_clos c_req] in RB; destruct (RB Hs1) as [OB1 OB2]; clear RB; cbv beta iota zeta.
      - match goal with |- context [complete classify ecls fl ?s1 k r] => destruct (complete classify ecls fl s1 k r) as [s2 o2] eqn:K end.
        intros [= <- <-]. destruct (complete_p seen1 _ _ _ _ _ _ K) as [[O1 O2] P].
        unfold acc. cbn [prog_ok seen_after]. fold seen1. rewrite prog_ok_app, seen_after_app, OB1, OB2, O1, O2. split; [reflexivity|].
        eapply Inv_pres; [|exact P]. eapply Ent; reflexivity.
      - intros [= <- <-]. unfold acc. cbn [prog_ok seen_after]. fold seen1. rewrite OB1, OB2. split; [reflexivity|]. eapply Ent; reflexivity. }
    destruct fl; [exact (Main s' out)|]. destruct (defers d); [|exact (Main s' out)].
    intros [= <- <-]. unfold acc. cbn [prog_ok seen_after]. fold seen1. split; [reflexivity|].
    eapply Inv_pres; [eapply Ent; reflexivity|]. now apply pres_same_calls.
  - destruct (negb (joined s)); [intros [= <- <-]; apply Easy; [apply okout_raised|apply pres_refl]|].
    destruct (alookup req (invs s)) as [k|]; [|intros [= <- <-]; apply Easy; [apply okout_nil|apply pres_refl]].
    destruct (cst_of s k) as [[|b mc| |mc| |]|]; try (intros [= <- <-]; apply Easy; [apply okout_nil|apply pres_refl]).
    + intros K. destruct (complete_p seen _ _ _ _ _ _ K). now apply Easy.
    + intros [= <- <-]. apply Easy; [apply okout_nil|apply pres_set_cst].
    + intros [= <- <-]. apply Easy; [apply okout_nil|]. eapply pres_trans; [apply pres_set_cst|now apply pres_same_calls].
    + intros [= <- <-]. apply Easy; [apply okout_nil|apply pres_set_cst].
  - destruct (cst_of s k) as [[|b mc| |mc| |]|]; try (intros [= <- <-]; apply Easy; [apply okout_nil|apply pres_refl]).
    + intros K. destruct (complete_p seen _ _ _ _ _ _ K). now apply Easy.
    + intros [= <- <-]. apply Easy; [apply okout_nil|]. eapply pres_trans; [apply pres_set_cst|now apply pres_same_calls].
  - destruct (alookup k (calls s)) as [c|] eqn:L; [|intros [= <- <-]; apply Easy; [apply okout_nil|apply pres_refl]].
    assert (P : forall s0 o0, (if c_clos c then
               match progress_call classify s (c_req c) p with
               | (o, None) => (s, o)
               | (o, Some x) => (s, o ++ [OProgRaised k x])
               end else (s, [])) = (s0, o0) -> prog_ok seen o0 = true /\ Inv s0 (seen_after seen o0)).
    { intros s0 o0. destruct (c_clos c) eqn:C; [|intros [= <- <-]; apply Easy; [apply okout_nil|apply pres_refl]].
      destruct (progress_call classify s (c_req c) p) as [o1 [x|]] eqn:PC;
        pose proof (progress_call_p seen _ _ _ _ _ (Hi k c L C) PC) as O1; intros [= <- <-]; apply Easy; try apply pres_refl.
      - apply okout_app; [exact O1|apply okout_prograised].
      - exact O1. }
    destruct (c_st c); try (destruct (c_gate c); [|apply P]); intros [= <- <-]; apply Easy; try apply okout_nil; apply pres_refl.
  - intros [= <- <-]. apply Easy; [apply okout_nil|now apply pres_same_calls].
  - destruct fl; [intros [= <- <-]; apply Easy; [apply okout_nil|apply pres_refl]|].
    intros T. destruct (turn_p seen _ _ _ Hi T). now apply Easy.
Qed.

Lemma run_p fl ops : forall seen s s' outs,
  Inv s seen -> run classify ecls fl s ops = (s', outs) -> prog_ok seen outs = true.
Proof.
  induction ops as [|o ops IH]; cbn [run]; intros seen s s' outs Hi.
  - intros [= <- <-]. reflexivity.
  - destruct (step classify ecls fl s o) as [s1 o1] eqn:S. destruct (run classify ecls fl s1 ops) as [s2 o2] eqn:R.
    intros [= <- <-]. destruct (step_p seen _ _ _ _ _ Hi S) as [O1 I1].
    rewrite prog_ok_app, O1. cbn. eapply IH; eauto.
Qed.
End Prog.

(* declarative reading of the monitor *)
Lemma seen_after_origin l : forall seen r, In r (seen_after seen l) ->
  In r seen \/ exists k g a c, In (OAccepted k r g a c (Some true) true) l.
Proof.
  induction l as [|x l IH]; intros seen r H; [now left|].
  destruct x as [k rq g ar c rp w| | | |]; cbn [seen_after] in H;
    try (destruct (IH _ _ H) as [?|(k' & g' & a' & c' & Hin)]; [now left|right; exists k', g', a', c'; now right]).
  destruct (IH _ _ H) as [Hs|(k' & g' & a' & c' & Hin)].
  - destruct rp as [[|]|], w; cbn in Hs; try (now left). destruct Hs as [<-|Hs]; [|now left].
    right. exists k, g, ar, c. now left.
  - right. exists k', g', a', c'. now right.
Qed.
Lemma prog_ok_split seen pre req sg p post :
  prog_ok seen (pre ++ OSent (MYield req sg p true) :: post) = true -> In req (seen_after seen pre).
Proof.
  rewrite prog_ok_app. intros H. apply andb_true_iff in H as [_ H]. cbn in H. apply andb_true_iff in H as [H _].
  apply existsb_exists in H as (x & Hin & E). apply N.eqb_eq in E. now subst.
Qed.

Theorem progress_only_if_requested : forall classify ecls fl ops s outs,
  run classify ecls fl init ops = (s, outs) ->
  forall pre req sg p post, outs = pre ++ OSent (MYield req sg p true) :: post ->
  exists k reg args caller, In (OAccepted k req reg args caller (Some true) true) pre.
Proof.
  intros classify ecls fl ops s outs R pre req sg p post E.
  assert (I0 : Inv init []) by (intros k c H; discriminate).
  pose proof (run_p classify ecls fl ops [] init s outs I0 R) as P. rewrite E in P.
  apply prog_ok_split in P. destruct (seen_after_origin _ _ _ P) as [[]|H]. exact H.
Qed.

(* ================= progressive results before the terminal reply ================= *)
Definition notprog (o : out) : bool := match o with OSent (MYield _ _ _ true) => false | _ => true end.
Definition noprogs (l : list out) : Prop := forallb notprog l = true.
Lemma noprogs_app a b : noprogs a -> noprogs b -> noprogs (a ++ b).
Proof. unfold noprogs. intros. rewrite forallb_app. now rewrite H, H0. Qed.
Lemma swf_noprogs classify m fs fe o x :
  nonprog m -> nonprog fs -> nonprog fe -> send_with_fallback classify m fs fe = (o, x) -> noprogs o.
Proof.
  intros A B C. unfold send_with_fallback. destruct (classify m); [|destruct (classify fs)|destruct (classify fe)|];
    intros [= <- _]; try reflexivity.
  - destruct m as [? ? ? g|]; cbn in *; subst; reflexivity.
  - destruct fs as [? ? ? g|]; cbn in *; subst; reflexivity.
  - destruct fe as [? ? ? g|]; cbn in *; subst; reflexivity.
Qed.
Lemma run_error_noprogs classify ecls s req e s' o : run_error classify ecls s req e = (s', o) -> noprogs o.
Proof.
  unfold run_error. destruct (alookup req (invs s)); [|intros [= _ <-]; reflexivity].
  destruct (up s); [|intros [= _ <-]; reflexivity].
  destruct (send_with_fallback classify _ _ _) as [o1 x] eqn:W. intros [= _ <-].
  apply noprogs_app; [eapply swf_noprogs; eauto; exact I|destruct x; reflexivity].
Qed.
Lemma run_success_noprogs classify ecls fl s req r s' o : run_success classify ecls fl s req r = (s', o) -> noprogs o.
Proof.
  unfold run_success. destruct (alookup req (invs s)).
  - destruct (up s); [|intros [= _ <-]; reflexivity].
    destruct (send_with_fallback classify _ _ _) as [o1 [x|]] eqn:W;
      assert (O1 : noprogs o1) by (eapply swf_noprogs; eauto; try exact I; destruct r; reflexivity).
    + destruct fl.
      * intros [= _ <-]. apply noprogs_app; [exact O1|reflexivity].
      * destruct (run_error classify ecls _ req EInternal) as [s2 o2] eqn:E. intros [= _ <-].
        apply noprogs_app; [exact O1|eapply run_error_noprogs; eauto].
    + intros [= _ <-]. exact O1.
  - destruct fl; [intros [= _ <-]; reflexivity|apply run_error_noprogs].
Qed.
Lemma complete_noprogs classify ecls fl s k r s' o : complete classify ecls fl s k r = (s', o) -> noprogs o.
Proof.
  unfold complete, run_cb. destruct fl; [|intros [= _ <-]; reflexivity].
  destruct (alookup k (calls (set_cst k CDone s))); [|intros [= _ <-]; reflexivity].
  destruct r; [apply run_success_noprogs|apply run_error_noprogs].
Qed.

(* within the step that enters the endpoint: first everything the endpoint reports while running (no terminal reply
   among it), then the outcome of the reply callbacks (no progressive result among it) *)
Lemma progress_sync_before_terminal classify ecls fl s req reg args caller rp b d :
  joined s = true -> amem req (invs s) = false -> alookup reg (regs s) = Some d ->
  (fl = Tx \/ defers d = false) -> gate_of d = None ->
  exists s' body cb,
    step classify ecls fl s (OInvocation req reg args caller rp b) =
      (s', OAccepted (nextk s) req reg (with_self d args) caller rp (r_details d)
           :: OCalled (nextk s) req reg (with_self d args) (if r_details d then Some (eff_details reg caller, r_details d && rp_on rp) else None) :: body ++ cb)
    /\ quiet body /\ noprogs cb.
Proof.
  intros J M L F G. cbn [step]. rewrite J, M, L. cbn [negb].
  assert (E : forall (X Y : st * list out), (match fl, defers d with Aio, true => X | _, _ => Y end) = Y).
  { intros X Y. destruct F as [-> | ->]; [reflexivity|destruct fl; reflexivity]. }
  rewrite E. clear E. unfold run_body. cbn [c_req c_reg c_args c_det c_clos c_gate]. rewrite G.
  destruct (run_pre classify s (nextk s) req (r_details d && rp_on rp) (b_pre b)) as [o1 ok] eqn:P.
  pose proof (run_pre_quiet _ _ _ _ _ _ _ _ P) as Q1.
  destruct (if ok then match b_fin b with FReturn r => Some (ROk r) | FRaise e => Some (RErr e) | FPending => None end
            else Some (RErr EInternal)) as [r|].
  - match goal with |- context [complete classify ecls fl ?s1 ?k r] => destruct (complete classify ecls fl s1 k r) as [s2 o2] eqn:K end.
    exists s2, o1, o2. split; [reflexivity|]. split; [exact Q1|eapply complete_noprogs; eauto].
  - eexists. exists o1, []. rewrite app_nil_r. split; [reflexivity|]. split; [exact Q1|reflexivity].
Qed.

(* a later details.progress(...) is sent whenever the closure exists -- also for a finished call: no guard *)
Lemma progress_closure_unguarded classify ecls fl s k c p :
  alookup k (calls s) = Some c -> c_clos c = true -> c_gate c = None -> c_st c = CDone -> up s = true ->
  classify (MYield (c_req c) false p true) = Sent ->
  step classify ecls fl s (OProgress k p) = (s, [OSent (MYield (c_req c) false p true)]).
Proof.
  intros L C G D U S. cbn [step]. rewrite L, D, G, C. unfold progress_call. now rewrite U, S.
Qed.
Lemma progress_needs_closure classify ecls fl s k c p :
  alookup k (calls s) = Some c -> c_clos c = false -> step classify ecls fl s (OProgress k p) = (s, []).
Proof. intros L C. cbn [step]. rewrite L, C. destruct (c_st c); destruct (c_gate c); reflexivity. Qed.

(* ================= witnesses ================= *)
(* INVOCATION details of the witnesses: caller 7 disclosed, nothing else; what CallDetails then shows for registration 100 *)
Definition C7 : idet := (Some 7, None, None).
Definition D7 : cdet := (Some 7, None, 100).
Definition d_plain := {| r_details := true; r_coro := false; r_check := false; r_sig := SigOk; r_obj := None |}.
Definition d_coro := {| r_details := true; r_coro := true; r_check := false; r_sig := SigOk; r_obj := None |}.
Definition V (i : N) := PVal i false false.

(* progress after the terminal reply: INTERRUPT answered with ERROR, then the endpoint reports progress *)
Definition h_progress_after_terminal : list op :=
  [ORegister 100 d_plain;
   OInvocation 1 100 (V 11) C7 (Some true) {| b_pre := []; b_fin := FPending |};
   OInterrupt 1; OTurn; OProgress 0 (V 2)].
Lemma progress_before_terminal_refuted : forall fl,
  stays_up h_progress_after_terminal /\
  snd (run ws_send [] fl init h_progress_after_terminal) =
    [OAccepted 0 1 100 (V 11) C7 (Some true) true; OCalled 0 1 100 (V 11) (Some (D7, true))]
    ++ OSent (MError 1 URuntime PEmpty) :: [] ++ OSent (MYield 1 false (V 2) true) :: []
  /\ is_terminal 1 (OSent (MError 1 URuntime PEmpty)) = true
  /\ is_progressive 1 (OSent (MYield 1 false (V 2) true)) = true.
Proof. intros []; (split; [reflexivity|]); (split; [vm_compute; reflexivity|]); split; reflexivity. Qed.

(* the hypothesis classify_ok of one_terminal is needed: the two send() implementations as they were *)
Definition h_unser_result : list op :=
  [ORegister 100 {| r_details := false; r_coro := false; r_check := false; r_sig := SigOk; r_obj := None |};
   OInvocation 1 100 (V 0) C7 (None) {| b_pre := []; b_fin := FReturn (RPlain (PVal 1 true false)) |}; OTurn].
Lemma leaky_unser_loses_reply ser_exn ecls :
  stays_up h_unser_result /\
  exists s, run (leaky_unser_send ser_exn) ecls Tx init h_unser_result =
              (s, [OAccepted 0 1 100 (V 0) C7 (None) false; OCalled 0 1 100 (V 0) None; ORaised InCallback ser_exn])
    /\ active 1 s = 0%nat.
Proof. split; [reflexivity|]. eexists. split; reflexivity. Qed.
Definition h_big_error : list op :=
  [ORegister 100 {| r_details := false; r_coro := false; r_check := false; r_sig := SigOk; r_obj := None |};
   OInvocation 1 100 (V 0) C7 (None) {| b_pre := []; b_fin := FRaise (EApp 3 (PVal 1 false true)) |}; OTurn].
Lemma leaky_big_loses_reply ecls :
  stays_up h_big_error /\
  exists s, run leaky_big_send ecls Aio init h_big_error =
              (s, [OAccepted 0 1 100 (V 0) C7 (None) false; OCalled 0 1 100 (V 0) None; ORaised InCallback XValueError])
    /\ active 1 s = 0%nat.
Proof. split; [reflexivity|]. eexists. split; reflexivity. Qed.

(* two concurrent invocations finishing in reverse order *)
Definition h_reverse : list op :=
  [ORegister 100 d_plain;
   OInvocation 1 100 (V 11) C7 (None) {| b_pre := []; b_fin := FPending |};
   OInvocation 2 100 (V 12) C7 (None) {| b_pre := []; b_fin := FPending |};
   OResolve 1 (ROk (RPlain (V 22))); OTurn;
   OResolve 0 (RErr (EApp 3 (V 21))); OTurn].
(* progress, progress, INTERRUPT, late result *)
Definition h_progress_interrupt : list op :=
  [ORegister 100 d_plain;
   OInvocation 5 100 (V 11) C7 (Some true) {| b_pre := [V 1]; b_fin := FPending |};
   OProgress 0 (V 2); OInterrupt 5; OTurn; OResolve 0 (ROk (RPlain (V 3))); OTurn].
(* every payload class on both paths: the fallback ERRORs are what reaches the wire *)
Definition h_fallbacks : list op :=
  [ORegister 100 d_plain;
   OInvocation 1 100 (V 11) C7 (None) {| b_pre := []; b_fin := FReturn (RPlain (PVal 1 true false)) |};
   OInvocation 2 100 (V 12) C7 (None) {| b_pre := []; b_fin := FReturn (RCallResult (PVal 2 false true)) |};
   OInvocation 3 100 (V 13) C7 (None) {| b_pre := []; b_fin := FRaise (EApp 3 (PVal 3 false true)) |};
   OInvocation 4 100 (V 14) C7 (None) {| b_pre := []; b_fin := FRaise (EOther 9 (PVal 4 true false)) |};
   OInvocation 5 100 (V 15) C7 (None) {| b_pre := []; b_fin := FReturn (RPlain (PVal 5 true true)) |}; OTurn].
(* asyncio coroutine endpoint cancelled before its body ran / after its inner future was resolved *)
Definition h_coro_cancel : list op :=
  [ORegister 100 d_coro;
   OInvocation 1 100 (V 11) C7 (Some true) {| b_pre := [V 1]; b_fin := FPending |}; OInterrupt 1; OTurn; OProgress 0 (V 2);
   OInvocation 2 100 (V 12) C7 (None) {| b_pre := []; b_fin := FPending |}; OTurn; OResolve 1 (ROk (RPlain (V 3))); OInterrupt 2; OTurn].

Lemma args_fidelity_aio_coroutine : forall classify ecls s req reg args caller rp b d,
  joined s = true -> amem req (invs s) = false -> alookup reg (regs s) = Some d -> defers d = true ->
  (exists s', step classify ecls Aio s (OInvocation req reg args caller rp b) =
      (s', [OAccepted (nextk s) req reg (with_self d args) caller rp (r_details d)])
    /\ queue s' = queue s ++ [QStep (nextk s)]
    /\ alookup (nextk s) (calls s') =
         Some {| c_req := req; c_reg := reg; c_args := with_self d args;
                 c_det := if r_details d then Some (eff_details reg caller, r_details d && rp_on rp) else None;
                 c_clos := r_details d && rp_on rp; c_st := CFresh b false; c_gate := gate_of d |})
  /\ (forall s1 k c b1, alookup k (calls s1) = Some c -> c_st c = CFresh b1 false -> c_gate c = None ->
      exists s2 rest, run_item classify ecls s1 (QStep k) = (s2, OCalled k (c_req c) (c_reg c) (c_args c) (c_det c) :: rest)
                      /\ nocalls rest).
Proof. intros. split; [now apply args_fidelity_aio_coro|intros; eapply coro_step_calls; eauto]. Qed.

Lemma classify_ok_needed_unserializable : forall ser_exn ecls,
  ~ classify_ok (leaky_unser_send ser_exn) /\ stays_up h_unser_result /\
  exists s, run (leaky_unser_send ser_exn) ecls Tx init h_unser_result =
              (s, [OAccepted 0 1 100 (V 0) C7 (None) false; OCalled 0 1 100 (V 0) None; ORaised InCallback ser_exn])
    /\ active 1 s = 0%nat.
Proof. intros x e. split; [apply leaky_unser_not_ok|apply leaky_unser_loses_reply]. Qed.
Lemma classify_ok_needed_oversized : forall ecls,
  ~ classify_ok leaky_big_send /\ stays_up h_big_error /\
  exists s, run leaky_big_send ecls Aio init h_big_error =
              (s, [OAccepted 0 1 100 (V 0) C7 (None) false; OCalled 0 1 100 (V 0) None; ORaised InCallback XValueError])
    /\ active 1 s = 0%nat.
Proof. intros e. split; [apply leaky_big_not_ok|apply leaky_big_loses_reply]. Qed.

(* ================= argument fidelity, globally ================= *)
(* monitor: what was accepted under call index k; every "endpoint entered" must repeat exactly that, with
   CallDetails (caller, progress callable iff receive_progress) iff the registration asked for details *)
Definition acc_entry := (N * N * payload * option (cdet * bool))%type.
Definition det_of (reg : N) (caller : idet) (rp : option bool) (wants : bool) : option (cdet * bool) :=
  if wants then Some (eff_details reg caller, wants && rp_on rp) else None.
Definition optN_eqb (a b : option N) : bool :=
  match a, b with None, None => true | Some x, Some y => x =? y | _, _ => false end.
Lemma optN_eqb_refl a : optN_eqb a a = true. Proof. destruct a; cbn; [apply N.eqb_refl|reflexivity]. Qed.
Lemma optN_eqb_eq a b : optN_eqb a b = true -> a = b.
Proof. destruct a, b; cbn; try discriminate; [intros H; apply N.eqb_eq in H; now subst|reflexivity]. Qed.
Definition cdetb_eqb (a b : option (cdet * bool)) : bool :=
  match a, b with
  | None, None => true
  | Some ((c, u, p), x), Some ((c', u', p'), x') => optN_eqb c c' && optN_eqb u u' && (p =? p') && eqb x x'
  | _, _ => false
  end.
Lemma cdetb_eqb_refl a : cdetb_eqb a a = true.
Proof. destruct a as [[[[c u] p] x]|]; cbn; [|reflexivity]. now rewrite !optN_eqb_refl, N.eqb_refl, eqb_reflx. Qed.
Lemma cdetb_eqb_eq a b : cdetb_eqb a b = true -> a = b.
Proof.
  destruct a as [[[[c u] p] x]|], b as [[[[c' u'] p'] x']|]; cbn; try discriminate; [|reflexivity].
  intros H. repeat (apply andb_true_iff in H as [H ?]).
  apply optN_eqb_eq in H. apply optN_eqb_eq in H2. apply N.eqb_eq in H1. apply eqb_prop in H0. now subst.
Qed.
Fixpoint pl_eqb (p p' : payload) : bool :=
  match p, p' with
  | PVal i u b0, PVal i' u' b' => (i =? i') && eqb u u' && eqb b0 b'
  | PNone, PNone | PEmpty, PEmpty | PText, PText => true
  | PFallback k, PFallback k' => match k, k' with
                                 | FbSuccessSer, FbSuccessSer | FbErrorSer, FbErrorSer | FbExceeded, FbExceeded => true
                                 | _, _ => false end
  | PSelf o q, PSelf o' q' => (o =? o') && pl_eqb q q'
  | _, _ => false
  end.
Lemma pl_eqb_refl p : pl_eqb p p = true.
Proof. induction p as [i u b| | | |k|o q IH]; cbn; rewrite ?N.eqb_refl, ?eqb_reflx; cbn; try (destruct k); auto. Qed.
Lemma pl_eqb_eq p : forall p', pl_eqb p p' = true -> p = p'.
Proof.
  induction p as [i u b| | | |k|o q IH]; intros [i' u' b'| | | |k'|o' q']; cbn; try discriminate; try reflexivity; intros H.
  - repeat (apply andb_true_iff in H as [H ?]). apply N.eqb_eq in H. apply eqb_prop in H0. apply eqb_prop in H1. now subst.
  - destruct k, k'; try discriminate; reflexivity.
  - apply andb_true_iff in H as [A B]. apply N.eqb_eq in A. apply IH in B. now subst.
Qed.
Definition entry_eqb (a b : acc_entry) : bool :=
  let '(r, g, p, d) := a in let '(r', g', p', d') := b in
  (r =? r') && (g =? g') && pl_eqb p p' && cdetb_eqb d d'.
Lemma entry_eqb_refl a : entry_eqb a a = true.
Proof.
  destruct a as [[[r g] p] d]. cbn. rewrite !N.eqb_refl. cbn.
  now rewrite cdetb_eqb_refl, pl_eqb_refl.
Qed.
Lemma entry_eqb_eq a b : entry_eqb a b = true -> a = b.
Proof.
  destruct a as [[[r g] p] d], b as [[[r' g'] p'] d']. cbn. intros H.
  repeat (apply andb_true_iff in H as [H ?]).
  apply N.eqb_eq in H. apply N.eqb_eq in H2. subst.
  assert (p = p') by now apply pl_eqb_eq.
  assert (d = d') by now apply cdetb_eqb_eq.
  now subst.
Qed.

Fixpoint call_ok (tab : list (N * acc_entry)) (l : list out) : bool :=
  match l with
  | [] => true
  | OAccepted k req reg args caller rp wants :: r => call_ok ((k, (req, reg, args, det_of reg caller rp wants)) :: tab) r
  | OCalled k req reg args det :: r =>
      match alookup k tab with Some e => entry_eqb e (req, reg, args, det) | None => false end && call_ok tab r
  | _ :: r => call_ok tab r
  end.
Fixpoint tab_after (tab : list (N * acc_entry)) (l : list out) : list (N * acc_entry) :=
  match l with
  | [] => tab
  | OAccepted k req reg args caller rp wants :: r => tab_after ((k, (req, reg, args, det_of reg caller rp wants)) :: tab) r
  | _ :: r => tab_after tab r
  end.
Lemma call_ok_app tab a b : call_ok tab (a ++ b) = call_ok tab a && call_ok (tab_after tab a) b.
Proof.
  revert tab. induction a as [|x a IH]; intros tab; [reflexivity|].
  destruct x; cbn [app call_ok tab_after]; try apply IH. rewrite IH. now rewrite andb_assoc.
Qed.
Lemma tab_after_app tab a b : tab_after tab (a ++ b) = tab_after (tab_after tab a) b.
Proof. revert tab. induction a as [|x a IH]; intros tab; [reflexivity|]. destruct x; cbn [app tab_after]; apply IH. Qed.

(* outputs with no acceptance and no endpoint entry leave the monitor alone *)
Definition inert (o : out) : bool := match o with OAccepted _ _ _ _ _ _ _ => false | OCalled _ _ _ _ _ => false | _ => true end.
Definition inerts (l : list out) : Prop := forallb inert l = true.
Lemma inerts_ok tab l : inerts l -> call_ok tab l = true /\ tab_after tab l = tab.
Proof.
  unfold inerts. induction l as [|x l IH]; [split; reflexivity|]. cbn [forallb]. intros H. apply andb_true_iff in H as [H1 H2].
  destruct (IH H2) as [A B]. destruct x; try discriminate; cbn [call_ok tab_after]; auto.
Qed.
Lemma inerts_app a b : inerts a -> inerts b -> inerts (a ++ b).
Proof. unfold inerts. intros. rewrite forallb_app. now rewrite H, H0. Qed.
Lemma nocalls_quiet_inerts l : nocalls l -> (forall x, In x l -> match x with OAccepted _ _ _ _ _ _ _ => False | _ => True end) -> inerts l.
Proof.
  unfold nocalls, inerts. induction l as [|x l IH]; [reflexivity|]. cbn [forallb]. intros H A. apply andb_true_iff in H as [H1 H2].
  rewrite IH; [|exact H2|intros y Hy; apply A; now right]. specialize (A x (or_introl eq_refl)).
  destruct x; try discriminate; try reflexivity. contradiction.
Qed.

Definition InvC (s : st) (tab : list (N * acc_entry)) : Prop :=
  forall k c, alookup k (calls s) = Some c -> alookup k tab = Some (c_req c, c_reg c, c_args c, c_det c).
Lemma InvC_pres s s' tab : InvC s tab -> pres s s' -> InvC s' tab.
Proof.
  intros I P k c' H. destruct (P k c' H) as (c & L & E1 & _ & E3 & E4 & E5). rewrite (I k c L). congruence.
Qed.

Section Fid.
Variable classify : wmsg -> sres.
Variable ecls : list (N * N).

Lemma swf_inerts m fs fe o x : send_with_fallback classify m fs fe = (o, x) -> inerts o.
Proof.
  unfold send_with_fallback. destruct (classify m); [|destruct (classify fs)|destruct (classify fe)|]; intros [= <- _]; reflexivity.
Qed.
Lemma run_error_inerts s req e s' o : run_error classify ecls s req e = (s', o) -> inerts o.
Proof.
  unfold run_error. destruct (alookup req (invs s)); [|intros [= _ <-]; reflexivity].
  destruct (up s); [|intros [= _ <-]; reflexivity].
  destruct (send_with_fallback classify _ _ _) as [o1 x] eqn:W. intros [= _ <-].
  apply inerts_app; [eapply swf_inerts; eauto|destruct x; reflexivity].
Qed.
Lemma run_success_inerts fl s req r s' o : run_success classify ecls fl s req r = (s', o) -> inerts o.
Proof.
  unfold run_success. destruct (alookup req (invs s)).
  - destruct (up s); [|intros [= _ <-]; reflexivity].
    destruct (send_with_fallback classify _ _ _) as [o1 [x|]] eqn:W; pose proof (swf_inerts _ _ _ _ _ W) as O1.
    + destruct fl.
      * intros [= _ <-]. apply inerts_app; [exact O1|reflexivity].
      * destruct (run_error classify ecls _ req EInternal) as [s2 o2] eqn:E. intros [= _ <-].
        apply inerts_app; [exact O1|eapply run_error_inerts; eauto].
    + intros [= _ <-]. exact O1.
  - destruct fl; [intros [= _ <-]; reflexivity|apply run_error_inerts].
Qed.
Lemma complete_inerts fl s k r s' o : complete classify ecls fl s k r = (s', o) -> inerts o.
Proof.
  unfold complete, run_cb. destruct fl; [|intros [= _ <-]; reflexivity].
  destruct (alookup k (calls (set_cst k CDone s))); [|intros [= _ <-]; reflexivity].
  destruct r; [apply run_success_inerts|apply run_error_inerts].
Qed.
Lemma run_pre_inerts s k req clos pre o ok : run_pre classify s k req clos pre = (o, ok) -> inerts o.
Proof.
  revert o ok. induction pre as [|p rest IH]; cbn; intros o ok; [intros [= <- _]; reflexivity|].
  destruct clos; [|intros [= <- _]; reflexivity].
  destruct (progress_call classify s req p) as [o1 [x|]] eqn:P;
    assert (N1 : inerts o1) by (unfold progress_call in P; destruct (up s); [destruct (classify _)|]; first [discriminate|inversion P; subst; reflexivity]).
  - intros [= <- _]. apply inerts_app; [exact N1|reflexivity].
  - destruct (run_pre classify s k req true rest) as [o' ok'] eqn:R. intros [= <- _]. apply inerts_app; [exact N1|eapply IH; eauto].
Qed.
Lemma run_body_c tab s k c b o r :
  alookup k tab = Some (c_req c, c_reg c, c_args c, c_det c) -> run_body classify s k c b = (o, r) ->
  call_ok tab o = true /\ tab_after tab o = tab.
Proof.
  intros Ht. unfold run_body. destruct (c_gate c); [intros [= <- _]; split; reflexivity|].
  destruct (run_pre classify s k (c_req c) (c_clos c) (b_pre b)) as [o1 ok] eqn:P. intros [= <- _].
  destruct (inerts_ok tab o1 (run_pre_inerts _ _ _ _ _ _ _ P)) as [A B].
  split; [change (match alookup k tab with Some e => entry_eqb e (c_req c, c_reg c, c_args c, c_det c) | None => false end && call_ok tab o1 = true);
          rewrite Ht, entry_eqb_refl; exact A|exact B].
Qed.

Definition okc (tab : list (N * acc_entry)) (o : list out) : Prop := call_ok tab o = true /\ tab_after tab o = tab.
Lemma okc_app tab a b : okc tab a -> okc tab b -> okc tab (a ++ b).
Proof. intros [A1 A2] [B1 B2]. split; [rewrite call_ok_app, A1, A2; exact B1|rewrite tab_after_app, A2; exact B2]. Qed.
Lemma okc_inerts tab o : inerts o -> okc tab o. Proof. apply inerts_ok. Qed.

Lemma run_item_c tab s q s' o : InvC s tab -> run_item classify ecls s q = (s', o) -> okc tab o.
Proof.
  intros Hi. destruct q as [k r|k|k r]; cbn [run_item].
  - unfold run_cb. destruct (alookup k (calls s)); [|intros [= _ <-]; apply okc_inerts; reflexivity].
    destruct r; intros H; apply okc_inerts; [eapply run_success_inerts|eapply run_error_inerts]; eauto.
  - destruct (alookup k (calls s)) as [c|] eqn:L; [|intros [= _ <-]; apply okc_inerts; reflexivity].
    destruct (c_st c) as [|b mc| | | |] eqn:C; try (intros [= _ <-]; apply okc_inerts; reflexivity).
    destruct mc.
    + destruct (complete classify ecls Aio s k (RErr ECancelled)) as [s1 o1] eqn:K. intros [= _ <-].
      apply okc_inerts. eapply complete_inerts; eauto.
    + destruct (run_body classify s k c b) as [o1 [r|]] eqn:B; pose proof (run_body_c tab _ _ _ _ _ _ (Hi k c L) B) as O1.
      * destruct (complete classify ecls Aio s k r) as [s1 o2] eqn:K. intros [= _ <-].
        apply okc_app; [exact O1|apply okc_inerts; eapply complete_inerts; eauto].
      * intros [= _ <-]. exact O1.
  - destruct (cst_of s k) as [[| | |mc| |]|]; try (intros [= _ <-]; apply okc_inerts; reflexivity).
Qed.
Lemma Inv_all s : Inv s (map (fun kc => c_req (snd kc)) (calls s)).
Proof. intros k c H _. apply alookup_In in H. now apply (in_map (fun kc : N * call => c_req (snd kc)) _ (k, c)). Qed.
Lemma run_item_pres s q s' o : run_item classify ecls s q = (s', o) -> pres s s'.
Proof. intros H. exact (proj2 (run_item_p classify ecls _ _ _ _ _ (Inv_all s) H)). Qed.
Lemma turn_pres s s' o : turn classify ecls s = (s', o) -> pres s s'.
Proof. intros H. exact (proj2 (turn_p classify ecls _ _ _ _ (Inv_all s) H)). Qed.
Lemma complete_pres fl s k r s' o : complete classify ecls fl s k r = (s', o) -> pres s s'.
Proof. intros H. exact (proj2 (complete_p classify ecls [] _ _ _ _ _ _ H)). Qed.

Lemma run_items_c tab q : forall s s' o, InvC s tab -> run_items classify ecls s q = (s', o) -> okc tab o.
Proof.
  induction q as [|i q IH]; cbn; intros s s' o Hi.
  - intros [= _ <-]. apply okc_inerts. reflexivity.
  - destruct (run_item classify ecls s i) as [s1 o1] eqn:I1. destruct (run_items classify ecls s1 q) as [s2 o2] eqn:R.
    intros [= _ <-]. apply okc_app; [eapply run_item_c; eauto|].
    eapply IH; [|exact R]. eapply InvC_pres; [exact Hi|eapply run_item_pres; eauto].
Qed.
Lemma round_c tab s s' o : InvC s tab -> round classify ecls s = (s', o) -> okc tab o.
Proof.
  intros Hi. unfold round. intros R. eapply run_items_c; [|exact R].
  eapply InvC_pres; [exact Hi|now apply pres_same_calls].
Qed.
Lemma round_pres s s' o : round classify ecls s = (s', o) -> pres s s'.
Proof. intros H. exact (proj2 (round_p classify ecls _ _ _ _ (Inv_all s) H)). Qed.
Lemma turn_c tab s s' o : InvC s tab -> turn classify ecls s = (s', o) -> okc tab o.
Proof.
  intros Hi. unfold turn.
  destruct (round classify ecls s) as [s1 o1] eqn:R1. destruct (round classify ecls s1) as [s2 o2] eqn:R2.
  destruct (round classify ecls s2) as [s3 o3] eqn:R3. intros [= _ <-].
  pose proof (InvC_pres _ _ _ Hi (round_pres _ _ _ R1)) as I1. pose proof (InvC_pres _ _ _ I1 (round_pres _ _ _ R2)) as I2.
  apply okc_app; [exact (round_c _ _ _ _ Hi R1)|apply okc_app; [exact (round_c _ _ _ _ I1 R2)|exact (round_c _ _ _ _ I2 R3)]].
Qed.

Lemma step_c tab fl s o s' out :
  InvC s tab -> step classify ecls fl s o = (s', out) -> call_ok tab out = true /\ InvC s' (tab_after tab out).
Proof.
  intros Hi.
  assert (Easy : forall s0 o0, okc tab o0 -> pres s s0 -> call_ok tab o0 = true /\ InvC s0 (tab_after tab o0)).
  { intros s0 o0 [O1 O2] P. split; [exact O1|]. rewrite O2. eapply InvC_pres; eauto. }
  assert (Inert : forall s0 o0, inerts o0 -> pres s s0 -> call_ok tab o0 = true /\ InvC s0 (tab_after tab o0)).
  { intros s0 o0 H P. apply Easy; [now apply okc_inerts|exact P]. }
  destruct o as [reg d|reg|req reg args caller rp b|req|k r|k p| |]; cbn [step].
  - destruct (negb (joined s)); [intros [= <- <-]; apply Inert; [reflexivity|apply pres_refl]|].
    destruct (amem reg (regs s)); intros [= <- <-]; apply Inert; try reflexivity; now apply pres_same_calls.
  - destruct (joined s && amem reg (regs s)); intros [= <- <-]; apply Inert; try reflexivity; now apply pres_same_calls.
  - destruct (negb (joined s)); [intros [= <- <-]; apply Inert; [reflexivity|apply pres_refl]|].
    destruct (amem req (invs s)); [intros [= <- <-]; apply Inert; [reflexivity|apply pres_refl]|].
    destruct (alookup reg (regs s)) as [d|]; [|intros [= <- <-]; apply Inert; [reflexivity|apply pres_refl]].
    set (k := nextk s). set (clos := r_details d && rp_on rp). set (det := if r_details d then Some (eff_details reg caller, clos) else None).
    set (tab1 := (k, (req, reg, with_self d args, det_of reg caller rp (r_details d))) :: tab).
    assert (Hd : det_of reg caller rp (r_details d) = det) by reflexivity.
    assert (Ht : alookup k tab1 = Some (req, reg, with_self d args, det)).
    { unfold tab1. cbn. rewrite N.eqb_refl, Hd. reflexivity. }
    assert (Ent : forall cs s1, s1 = {| regs := regs s; invs := aset req k (invs s);
                    calls := aset k {| c_req := req; c_reg := reg; c_args := with_self d args; c_det := det; c_clos := clos; c_st := cs; c_gate := gate_of d |} (calls s);
                    up := up s; joined := joined s; queue := queue s; nextk := k + 1 |} -> InvC s1 tab1).
    { intros cs s1 -> k' c' H. cbn [calls] in H. destruct (N.eq_dec k' k) as [->|Hn].
      - rewrite alookup_aset_same in H. injection H as <-. exact Ht.
      - rewrite alookup_aset_other in H by exact Hn. unfold tab1. cbn.
        destruct (k' =? k) eqn:E; [apply N.eqb_eq in E; congruence|]. now apply Hi. }
    assert (Main : forall s0 o0,
      (let '(ob, r) := run_body classify s k {| c_req := req; c_reg := reg; c_args := with_self d args; c_det := det; c_clos := clos; c_st := CPending; c_gate := gate_of d |} b in
       let s1 := {| regs := regs s; invs := aset req k (invs s);
                    calls := aset k {| c_req := req; c_reg := reg; c_args := with_self d args; c_det := det; c_clos := clos; c_st := CPending; c_gate := gate_of d |} (calls s);
                    up := up s; joined := joined s; queue := queue s; nextk := k + 1 |} in
       match r with
       | None => (s1, OAccepted k req reg (with_self d args) caller rp (r_details d) :: ob)
       | Some r => let '(s2, o2) := complete classify ecls fl s1 k r in (s2, OAccepted k req reg (with_self d args) caller rp (r_details d) :: ob ++ o2)
       end) = (s0, o0) -> call_ok tab o0 = true /\ InvC s0 (tab_after tab o0)).
    { intros s0 o0.
      destruct (run_body classify s k _ b) as [ob [r|]] eqn:B;
        pose proof (fun H => run_body_c tab1 _ _ _ _ _ _ H B) as RB; cbn [c_req c_reg c_args c_det] in RB;
        destruct (RB Ht) as [OB1 OB2]; clear RB; cbv beta iota zeta.
      - match goal with |- context [complete classify ecls fl ?s1 k r] => destruct (complete classify ecls fl s1 k r) as [s2 o2] eqn:K end.
        intros [= <- <-]. destruct (inerts_ok tab1 o2 (complete_inerts _ _ _ _ _ _ K)) as [O1 O2].
        cbn [call_ok tab_after]. fold tab1. rewrite call_ok_app, tab_after_app, OB1, OB2, O1, O2. split; [reflexivity|].
        eapply InvC_pres; [eapply Ent; reflexivity|eapply complete_pres; eauto].
      - intros [= <- <-]. cbn [call_ok tab_after]. fold tab1. rewrite OB1, OB2. split; [reflexivity|]. eapply Ent; reflexivity. }
    destruct fl; [exact (Main s' out)|]. destruct (defers d); [|exact (Main s' out)].
    intros [= <- <-]. cbn [call_ok tab_after]. fold tab1. split; [reflexivity|].
    eapply InvC_pres; [eapply Ent; reflexivity|now apply pres_same_calls].
  - destruct (negb (joined s)); [intros [= <- <-]; apply Inert; [reflexivity|apply pres_refl]|].
    destruct (alookup req (invs s)) as [k|]; [|intros [= <- <-]; apply Inert; [reflexivity|apply pres_refl]].
    destruct (cst_of s k) as [[|b mc| |mc| |]|]; try (intros [= <- <-]; apply Inert; [reflexivity|apply pres_refl]).
    + intros K. apply Inert; [eapply complete_inerts; eauto|eapply complete_pres; eauto].
    + intros [= <- <-]. apply Inert; [reflexivity|apply pres_set_cst].
    + intros [= <- <-]. apply Inert; [reflexivity|]. eapply pres_trans; [apply pres_set_cst|now apply pres_same_calls].
    + intros [= <- <-]. apply Inert; [reflexivity|apply pres_set_cst].
  - destruct (cst_of s k) as [[|b mc| |mc| |]|]; try (intros [= <- <-]; apply Inert; [reflexivity|apply pres_refl]).
    + intros K. apply Inert; [eapply complete_inerts; eauto|eapply complete_pres; eauto].
    + intros [= <- <-]. apply Inert; [reflexivity|]. eapply pres_trans; [apply pres_set_cst|now apply pres_same_calls].
  - destruct (alookup k (calls s)) as [c|] eqn:L; [|intros [= <- <-]; apply Inert; [reflexivity|apply pres_refl]].
    assert (P : forall s0 o0, (if c_clos c then
               match progress_call classify s (c_req c) p with
               | (o, None) => (s, o)
               | (o, Some x) => (s, o ++ [OProgRaised k x])
               end else (s, [])) = (s0, o0) -> call_ok tab o0 = true /\ InvC s0 (tab_after tab o0)).
    { intros s0 o0. destruct (c_clos c) eqn:C; [|intros [= <- <-]; apply Inert; [reflexivity|apply pres_refl]].
      destruct (progress_call classify s (c_req c) p) as [o1 [x|]] eqn:PC;
        assert (N1 : inerts o1) by (unfold progress_call in PC; destruct (up s); [destruct (classify _)|]; first [discriminate|inversion PC; subst; reflexivity]);
        intros [= <- <-]; apply Inert; try apply pres_refl; [apply inerts_app; [exact N1|reflexivity]|exact N1]. }
    destruct (c_st c); try (destruct (c_gate c); [|apply P]); intros [= <- <-]; apply Inert; try reflexivity; apply pres_refl.
  - intros [= <- <-]. apply Inert; [reflexivity|now apply pres_same_calls].
  - destruct fl; [intros [= <- <-]; apply Inert; [reflexivity|apply pres_refl]|].
    intros T. apply Easy; [eapply turn_c; eauto|eapply turn_pres; eauto].
Qed.

Lemma run_c fl ops : forall tab s s' outs,
  InvC s tab -> run classify ecls fl s ops = (s', outs) -> call_ok tab outs = true.
Proof.
  induction ops as [|o ops IH]; cbn [run]; intros tab s s' outs Hi.
  - intros [= <- <-]. reflexivity.
  - destruct (step classify ecls fl s o) as [s1 o1] eqn:S. destruct (run classify ecls fl s1 ops) as [s2 o2] eqn:R.
    intros [= <- <-]. destruct (step_c tab _ _ _ _ _ Hi S) as [O1 I1].
    rewrite call_ok_app, O1. cbn. eapply IH; eauto.
Qed.
End Fid.

(* declarative reading *)
Lemma tab_after_origin l : forall tab k e, alookup k (tab_after tab l) = Some e ->
  alookup k tab = Some e \/ exists req reg args caller rp wants,
     In (OAccepted k req reg args caller rp wants) l /\ e = (req, reg, args, det_of reg caller rp wants).
Proof.
  induction l as [|x l IH]; intros tab k e H; [now left|].
  destruct x as [k0 rq g ar c rp w| | | |]; cbn [tab_after] in H;
    try (destruct (IH _ _ _ H) as [?|(a1 & a2 & a3 & a4 & a5 & a6 & Hin & E)]; [now left|right; exists a1, a2, a3, a4, a5, a6; split; [now right|exact E]]).
  destruct (IH _ _ _ H) as [Hs|(a1 & a2 & a3 & a4 & a5 & a6 & Hin & E)].
  - cbn in Hs. destruct (k =? k0) eqn:E.
    + apply N.eqb_eq in E. subst k0. injection Hs as <-. right. exists rq, g, ar, c, rp, w. split; [now left|reflexivity].
    + now left.
  - right. exists a1, a2, a3, a4, a5, a6. split; [now right|exact E].
Qed.
Lemma call_ok_split tab pre k req reg args det post :
  call_ok tab (pre ++ OCalled k req reg args det :: post) = true -> alookup k (tab_after tab pre) = Some (req, reg, args, det).
Proof.
  rewrite call_ok_app. intros H. apply andb_true_iff in H as [_ H]. cbn [call_ok] in H. apply andb_true_iff in H as [H _].
  destruct (alookup k (tab_after tab pre)) as [e|]; [|discriminate]. apply entry_eqb_eq in H. now subst.
Qed.

Theorem args_fidelity_global : forall classify ecls fl ops s outs,
  run classify ecls fl init ops = (s, outs) ->
  forall pre k req reg args det post, outs = pre ++ OCalled k req reg args det :: post ->
  exists caller rp wants, In (OAccepted k req reg args caller rp wants) pre
                          /\ det = (if wants then Some (eff_details reg caller, wants && rp_on rp) else None).
Proof.
  intros classify ecls fl ops s outs R pre k req reg args det post E.
  assert (I0 : InvC init []) by (intros k0 c H; discriminate).
  pose proof (run_c classify ecls fl ops [] init s outs I0 R) as P. rewrite E in P.
  apply call_ok_split in P. destruct (tab_after_origin _ _ _ _ P) as [H|(a1 & a2 & a3 & a4 & a5 & a6 & Hin & Ee)]; [discriminate|].
  injection Ee as -> -> -> ->. exists a4, a5, a6. split; [exact Hin|reflexivity].
Qed.

(* ================= exact size boundary of the real send() ================= *)
Lemma ws_boundary msize munser limit m : 0 < limit ->
  ws_send_at msize munser limit m = if munser m then SerErr else if msize m <=? limit then Sent else Exceeded.
Proof.
  intros H. unfold ws_send_at. destruct (munser m); [reflexivity|].
  apply N.ltb_lt in H. rewrite H. cbn. rewrite N.ltb_antisym. now destruct (msize m <=? limit).
Qed.
Lemma rs_tx_boundary msize munser limit m : 0 < limit ->
  rs_tx_send_at msize munser limit m = if munser m then SerErr else if msize m <=? limit then Sent else Exceeded.
Proof. exact (ws_boundary msize munser limit m). Qed.
Lemma rs_aio_boundary msize munser limit m :
  rs_aio_send_at msize munser limit m = if munser m then SerErr else if msize m <=? limit then Sent else Exceeded.
Proof.
  unfold rs_aio_send_at. destruct (munser m); [reflexivity|]. rewrite N.ltb_antisym. now destruct (msize m <=? limit).
Qed.
Lemma ws_no_limit msize munser m : ws_send_at msize munser 0 m = if munser m then SerErr else Sent.
Proof. unfold ws_send_at. now destruct (munser m). Qed.

(* ================= check_types / arguments that do not fit the endpoint ================= *)
Lemma gate_of_cases d e : gate_of d = Some e -> e = EInternal \/ (e = ETypeCheck /\ r_check d = true).
Proof. unfold gate_of. destruct (r_sig d); [discriminate|intros [= <-]; now left|destruct (r_check d); [intros [= <-]; now right|discriminate]]. Qed.
Lemma gated_call_rejected_tx classify ecls s req reg args caller rp b d e :
  classify_ok classify -> up s = true -> joined s = true -> amem req (invs s) = false ->
  alookup reg (regs s) = Some d -> gate_of d = Some e ->
  exists s', step classify ecls Tx s (OInvocation req reg args caller rp b) =
      (s', [OAccepted (nextk s) req reg (with_self d args) caller rp (r_details d); OSent (MError req (uri_of ecls e) PText)])
    /\ amem req (invs s') = false.
Proof.
  intros Hok U J M L G. cbn [step]. rewrite J, M, L. cbn [negb]. unfold run_body. cbn [c_gate]. rewrite G.
  unfold complete, run_cb. unfold set_cst. cbn [calls]. rewrite alookup_aset_same. cbn [calls set_calls].
  rewrite alookup_aset_same. cbn [c_req]. unfold run_error. cbn [invs set_calls up]. rewrite alookup_aset_same, U.
  assert (P : epayload e = PText) by (destruct (gate_of_cases _ _ G) as [->|[-> _]]; reflexivity).
  unfold send_with_fallback. rewrite (Hok (MError req (uri_of ecls e) (epayload e))), P. cbn.
  eexists. split; [reflexivity|]. cbn. unfold amem, aset. cbn. rewrite N.eqb_refl. now rewrite alookup_aremove_same.
Qed.

(* check_types: well-typed call, ill-typed call (type hint), unbindable call *)
Definition h_check_types : list op :=
  [ORegister 100 {| r_details := true; r_coro := false; r_check := true; r_sig := SigOk; r_obj := None |};
   ORegister 101 {| r_details := false; r_coro := false; r_check := true; r_sig := SigIllTyped; r_obj := None |};
   ORegister 102 {| r_details := false; r_coro := false; r_check := false; r_sig := SigShort; r_obj := None |};
   OInvocation 1 100 (V 11) C7 (None) {| b_pre := []; b_fin := FReturn (RPlain (V 21)) |}; OTurn;
   OInvocation 2 101 (V 12) C7 (None) {| b_pre := []; b_fin := FReturn (RPlain (V 22)) |}; OTurn;
   OInvocation 3 102 (V 13) C7 (None) {| b_pre := []; b_fin := FReturn (RPlain (V 23)) |}; OTurn].

(* receive_progress absent / explicitly false / true; details with and without caller disclosure and procedure *)
Definition h_tristate : list op :=
  [ORegister 100 d_plain;
   OInvocation 1 100 (V 11) (None, None, None) None {| b_pre := [V 1]; b_fin := FReturn (RPlain (V 21)) |}; OTurn;
   OInvocation 2 100 (V 12) (Some 7, Some 0, None) (Some false) {| b_pre := [V 1]; b_fin := FReturn (RPlain (V 22)) |}; OTurn;
   OInvocation 3 100 (V 13) (Some 7, Some 5, Some 900) (Some true) {| b_pre := [V 1]; b_fin := FReturn (RPlain (V 23)) |}; OTurn].

(* ================= registration of an object's decorated methods ================= *)
Lemma reg_object_method obj co ms reg own coro :
  In (reg, own, coro) ms ->
  In (ORegister reg {| r_details := resolve_details co own; r_coro := coro; r_check := false; r_sig := SigOk;
                       r_obj := Some obj |}) (reg_object obj co ms).
Proof. intros H. unfold reg_object. apply in_map_iff. exists (reg, own, coro). split; [reflexivity|exact H]. Qed.
Lemma reg_object_shape obj co ms :
  map (fun o => match o with ORegister reg _ => reg | _ => 0 end) (reg_object obj co ms) = map (fun m => fst (fst m)) ms.
Proof. unfold reg_object. rewrite map_map. apply map_ext. intros [[reg own] coro]. reflexivity. Qed.
Lemma resolve_details_spec co own :
  resolve_details co own = match own with Some b => b | None => match co with Some b => b | None => false end end.
Proof. reflexivity. Qed.

(* object 9: method 100 asks for details itself, method 101 has no options, method 102 has options without details;
   call-level options ask for details.  Each method is entered with the instance first and with details iff ITS
   effective options say so *)
Definition h_object : list op :=
  reg_object 9 (Some true) [(100, Some true, false); (101, None, false); (102, Some false, false)] ++
  [OInvocation 1 100 (V 11) C7 None {| b_pre := []; b_fin := FReturn (RPlain (V 21)) |}; OTurn;
   OInvocation 2 101 (V 12) C7 None {| b_pre := []; b_fin := FReturn (RPlain (V 22)) |}; OTurn;
   OInvocation 3 102 (V 13) C7 None {| b_pre := []; b_fin := FReturn (RPlain (V 23)) |}; OTurn].
