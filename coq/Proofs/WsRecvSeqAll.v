(* C02_sequence for both failure policies: (1) every run terminates (no OutOfFuel, no exception) under any policy;
   (2) up to the first failure the close-handshake policy behaves as the drop policy, so the judged events agree. *)
From Coq Require Import NArith List Bool Lia PeanoNat.
From AV Require Import Model.Masker Proofs.MaskerProofs Gen.WsConsts Model.WsRecv
                       Proofs.WsRecvHeader Proofs.WsRecvProofs Proofs.WsRecvLocal Proofs.WsRecvSplit Proofs.WsRecvSeq Proofs.WsRecvEcho.
Import ListNotations.
Open Scope N_scope.

Section Term.
Variable D : Type.
Variable cd : codec D.
Variable cf : cfg.
Notation rstate := (rstate D).

Lemma on_frame_begin_keeps (s : rstate) f :
  data D (fst (on_frame_begin D cd cf s f)) = data D s /\ cur D (fst (on_frame_begin D cd cf s f)) = cur D s.
Proof.
  unfold on_frame_begin. destruct (fb_is_ctl _); [split; reflexivity|].
  destruct (failed (cn D s)); [split; reflexivity|].
  destruct (on_message_frame_begin D cf _ _ _) as [[c1 m2] e]. split; reflexivity.
Qed.

Lemma on_frame_data_keeps (s : rstate) f p :
  let '(s2, _, _) := on_frame_data D cd cf s f p in data D s2 = data D s /\ mptr D s2 = mptr D s.
Proof.
  unfold on_frame_data. destruct (fd_is_ctl _); [split; reflexivity|].
  destruct (if zon D (ms D s) then _ else _) as [d1 pl]. destruct (uon D _).
  - destruct (u_validate _ pl) as [[v e] u1]. destruct v; cbn [negb]; [split; reflexivity|].
    destruct (invalid_payload cf (cn D s)) as [[c1 ev] stop]. destruct stop; split; reflexivity.
  - split; reflexivity.
Qed.

Lemma on_frame_end_cont (s : rstate) f :
  let '(s3, _, c3) := on_frame_end D cd cf s f in data D s3 = data D s /\ (c3 = Cont -> cur D s3 = None).
Proof.
  unfold on_frame_end, process_control_frame. destruct (fe_is_ctl _).
  - destruct (pc_is_close _).
    + destruct (on_close_frame cf _ _ _) as [c1 e1]. cbn. auto.
    + destruct (pc_is_ping _).
      * cbn [cn r_cdata]. destruct (st (cn D s)); [destruct (_ && _)|..]; cbn; split; auto; discriminate.
      * destruct (pc_is_pong _); cbn; auto.
  - destruct (f_fin f); [|cbn; auto].
    match goal with |- context [if ?b then invalid_payload cf ?c else _] => destruct b end.
    + destruct (invalid_payload cf (cn D s)) as [[c1 e1] stop]. destruct stop; cbn; split; auto; discriminate.
    + cbn. auto.
Qed.

Lemma step_mu (s s1 : rstate) e : PInv D s -> step D cd cf s = (s1, e, Cont) -> (mu D s1 < mu D s)%nat.
Proof.
  intros HP H. unfold step in H. destruct (cur D s) as [f|] eqn:Hcur.
  - (* payload *)
    unfold PInv in HP. rewrite Hcur in HP. destruct HP as [Hm _].
    rewrite step_payload_nf in H. cbv zeta in H. unfold pd_have_rest in H.
    assert (G : forall chunk rem, lenN chunk <= f_len f - mptr D s ->
              (lenN chunk = f_len f - mptr D s \/ rem = []) -> (length rem <= length (data D s))%nat ->
              (let '(s', e0, c) := pay_apply D cd cf (r_data D s rem) f chunk in (s', e0, cont_of c (data D s'))) = (s1, e, Cont) ->
              (mu D s1 < mu D s)%nat).
    { intros chunk rem Hle Hcase Hlen HH.
      destruct (pay_apply D cd cf (r_data D s rem) f chunk) as [[s' e'] c] eqn:PA. injection HH as Es Ee Ec'. subst s' e'.
      destruct c; cbn [cont_of] in Ec'; try discriminate.
      destruct (nonempty (data D s1)) eqn:Hn; [|discriminate].
      unfold pay_apply in PA. cbn [mkey mptr r_data cn ms data cur cdata] in PA.
      pose proof (mask_process_ptr (mkey D s) (mptr D s) chunk) as Hp.
      destruct (mask_process (mkey D s) (mptr D s) chunk) as [payload p1]. cbn [snd] in Hp. subst p1.
      match type of PA with context [on_frame_data D cd cf ?sx f payload] =>
        pose proof (on_frame_data_keeps sx f payload) as K; destruct (on_frame_data D cd cf sx f payload) as [[s2 e2] stop2] end.
      cbn [data mptr] in K. destruct K as [K1 K2]. destruct stop2; [discriminate|]. rewrite K2 in PA.
      destruct (N.eqb_spec (mptr D s + lenN chunk) (f_len f)) as [He|He].
      - pose proof (on_frame_end_cont s2 f) as E. destruct (on_frame_end D cd cf s2 f) as [[s3 e3] c3].
        injection PA as Es Ee Ec''. rewrite Ec'', Es in E. destruct E as [E1 E2].
        unfold mu. rewrite (E2 eq_refl), Hcur, E1, K1. lia.
      - destruct Hcase as [Hc|Hc]; [lia|]. injection PA as Es Ee. rewrite <- Es, K1, Hc in Hn. discriminate. }
    destruct (N.leb_spec (f_len f - mptr D s) (lenN (data D s))) as [Hr|Hr].
    + apply (G (take (f_len f - mptr D s) (data D s)) (drop (f_len f - mptr D s) (data D s))); [| | |exact H].
      * rewrite lenN_take by exact Hr. lia.
      * left. now apply lenN_take.
      * unfold drop. rewrite skipn_length. lia.
    + apply (G (data D s) []); [lia|right; reflexivity|cbn; lia|exact H].
  - (* header *)
    unfold step_header in H.
    destruct (negb (pd_have2 _)) eqn:H2; [discriminate|].
    destruct (pv_all cf (cn D s) _) as [[c1 e1] stop1]. destruct stop1; [discriminate|].
    destruct (header_len _ _) as [hl|] eqn:Ehl; [|discriminate].
    destruct (negb (pd_have_header _ hl)) eqn:Hh; [discriminate|].
    destruct (ext_len _ _) as [[plen lv] i] eqn:Ex.
    destruct (pv_all cf c1 lv) as [[c2 e2] stop2]. destruct stop2; [discriminate|].
    match type of H with context [on_frame_begin D cd cf ?s3 ?f] =>
      pose proof (on_frame_begin_keeps s3 f) as K; destruct (on_frame_begin D cd cf s3 f) as [s4 e4] end.
    cbn [fst data cur] in K. destruct K as [K1 K2]. inversion H; subst s1.
    unfold mu. rewrite K1, K2, Hcur. unfold drop. rewrite skipn_length.
    (* i + mask_len >= 2 and <= the buffered length *)
    apply negb_false_iff in H2. unfold pd_have2 in H2. apply N.leb_le in H2. unfold lenN in H2.
    assert (2 <= i).
    { revert Ex. unfold ext_len. destruct (pd_len1_is16_x _); [intros E; inversion E; lia|].
      destruct (pd_len1_is64_x _); intros E; inversion E; lia. }
    lia.
Qed.

(* every run ends, under any failure policy *)
Lemma run_terminates_any n : forall (s : rstate), PInv D s -> (mu D s < n)%nat -> exists s1 e1, run D cd n cf s = Done D s1 e1.
Proof.
  induction n as [|n IH]; intros s HP Hmu; [lia|]. cbn [run].
  pose proof (step_echo D cd cf s HP) as P. pose proof (step_mu s) as M.
  destruct (step D cd cf s) as [[s1 e1] c]. destruct P as [_ [P2 P3]].
  destruct c; try (eexists; eexists; reflexivity).
  specialize (M s1 e1 HP eq_refl).
  destruct (st (cn D s1)); try (eexists; eexists; reflexivity);
    (destruct (IH s1 P2 ltac:(lia)) as [s2 [e2 R]]; rewrite R; eexists; eexists; reflexivity).
Qed.

Lemma feed_terminates_any (s : rstate) d : PInv D s -> exists s1 e1, feed D cd cf s d = Done D s1 e1.
Proof.
  intros HP. unfold feed. cbn [cn r_data]. destruct (st (cn D s)).
  - apply run_terminates_any; [exact HP|apply fuel_enough].
  - apply run_terminates_any; [exact HP|apply fuel_enough].
  - eexists; eexists; reflexivity.
Qed.

End Term.

(* ================================================================================================= *)
(* up to its first failure, a run under the close-handshake policy is the run under the drop policy *)
Definition fbd (cf : cfg) : cfg :=
  mkCfg (isServer cf) (requireMasked cf) (acceptMasked cf) (applyMask cf) true (utf8validate cf) (maxFrame cf) (maxMsg cf)
        (pmc cf) (echoClose cf).

Definition agreeE {R} (ev : R -> list event) (r r' : R) : Prop :=
  (has_fail (ev r) = false /\ r = r') \/
  (exists pre k t t', has_fail pre = false /\ ev r = pre ++ EFail k :: t /\ ev r' = pre ++ EFail k :: t').

Ltac agree_tac :=
  first [ left; split; reflexivity
        | right; exists [], code_protocol_error; eexists; eexists; split; [reflexivity|split; reflexivity]
        | right; exists [], code_invalid_payload; eexists; eexists; split; [reflexivity|split; reflexivity]
        | right; exists [], code_message_too_big; eexists; eexists; split; [reflexivity|split; reflexivity] ].

Lemma fail_agree cf c code : st c <> CLOSED ->
  exists t t', snd (fail_connection cf c code) = EFail code :: t /\ snd (fail_connection (fbd cf) c code) = EFail code :: t'.
Proof.
  intros H. unfold fail_connection, drop_connection, send_close_frame. destruct c as [s f cl rc rr]. cbn [st] in H.
  destruct s, (failByDrop cf); try congruence; cbn; eexists; eexists; split; reflexivity.
Qed.

Lemma pv_all_agree cf c vs : st c <> CLOSED ->
  agreeE (fun r : conn * list event * bool => snd (fst r)) (pv_all cf c vs) (pv_all (fbd cf) c vs).
Proof.
  intros H. destruct vs as [|v vs]; [left; split; reflexivity|].
  cbn [pv_all]. unfold protocol_violation.
  destruct (fail_agree cf c code_protocol_error H) as [t [t' [E1 E2]]].
  destruct (fail_connection cf c code_protocol_error) as [c1 e1]. destruct (fail_connection (fbd cf) c code_protocol_error) as [c1' e1'].
  cbn [snd] in E1, E2. subst e1 e1'. cbn [failByDrop fbd].
  right. exists [], code_protocol_error.
  destruct (failByDrop cf).
  - eexists; eexists. split; [reflexivity|]. split; reflexivity.
  - destruct (pv_all cf c1 vs) as [[c2 e2] s2]. eexists; eexists. split; [reflexivity|]. split; reflexivity.
Qed.

Lemma on_close_frame_agree cf c code reason : st c <> CLOSED ->
  agreeE (fun r : conn * list event => snd r) (on_close_frame cf c code reason) (on_close_frame (fbd cf) c code reason).
Proof.
  intros H. unfold on_close_frame, protocol_violation, invalid_payload, fail_connection, drop_connection, send_close_frame.
  cbn [failByDrop fbd isServer echoClose].
  destruct c as [s f cl rc rr]. cbn [st] in H.
  destruct code as [k|]; [destruct (close_code_invalid k)|];
  (destruct reason as [r|]; [destruct (u_validate 0 r) as [[v e] u]; destruct v, e|]);
  destruct s, (failByDrop cf), (isServer cf), (echoClose cf); try congruence; cbn; agree_tac.
Qed.

Section Agree.
Variable D : Type.
Variable cd : codec D.
Variable cf : cfg.
Notation rstate := (rstate D).
Notation mstate := (mstate D).

Lemma omfb_agree c (m : mstate) len : st c <> CLOSED ->
  agreeE (fun r : conn * mstate * list event => snd r) (on_message_frame_begin D cf c m len) (on_message_frame_begin D (fbd cf) c m len).
Proof.
  intros H. unfold on_message_frame_begin, max_size_exceeded. cbn [maxMsg maxFrame fbd].
  destruct (failed c); [left; split; reflexivity|].
  destruct (fail_agree cf c code_message_too_big H) as [t [t' [E1 E2]]].
  destruct (mf_msg_limit _ _).
  - destruct (fail_connection cf c code_message_too_big) as [c1 e1]. destruct (fail_connection (fbd cf) c code_message_too_big) as [c1' e1'].
    cbn [snd] in *. subst. right. exists [], code_message_too_big. eexists; eexists. split; [reflexivity|split; reflexivity].
  - destruct (mf_frame_limit _ _); [|left; split; reflexivity].
    destruct (fail_connection cf c code_message_too_big) as [c1 e1]. destruct (fail_connection (fbd cf) c code_message_too_big) as [c1' e1'].
    cbn [snd] in *. subst. right. exists [], code_message_too_big. eexists; eexists. split; [reflexivity|split; reflexivity].
Qed.

Lemma on_frame_begin_agree (s : rstate) f : st (cn D s) <> CLOSED ->
  agreeE (fun r : rstate * list event => snd r) (on_frame_begin D cd cf s f) (on_frame_begin D cd (fbd cf) s f).
Proof.
  intros H. unfold on_frame_begin. cbn [pmc utf8validate fbd]. destruct (fb_is_ctl _); [left; split; reflexivity|].
  destruct (failed (cn D s)); [left; split; reflexivity|].
  match goal with |- context [on_message_frame_begin D cf ?c ?m ?l] => pose proof (omfb_agree c m l H) as A end.
  destruct A as [[A1 A2]|[pre [k [t [t' [P [A1 A2]]]]]]].
  - rewrite <- A2. destruct (on_message_frame_begin D cf _ _ _) as [[c1 m2] e]. left. split; [exact A1|reflexivity].
  - destruct (on_message_frame_begin D cf _ _ _) as [[c1 m2] e]. destruct (on_message_frame_begin D (fbd cf) _ _ _) as [[c1' m2'] e'].
    cbn [snd] in *. subst. right. exists pre, k, t, t'. split; [exact P|split; reflexivity].
Qed.

Lemma ip_agree c : st c <> CLOSED ->
  exists t t', snd (fst (invalid_payload cf c)) = EFail code_invalid_payload :: t /\
               snd (fst (invalid_payload (fbd cf) c)) = EFail code_invalid_payload :: t'.
Proof.
  intros H. unfold invalid_payload. destruct (fail_agree cf c code_invalid_payload H) as [t [t' [E1 E2]]].
  destruct (fail_connection cf c code_invalid_payload). destruct (fail_connection (fbd cf) c code_invalid_payload).
  cbn [fst snd] in *. eauto.
Qed.

Lemma on_frame_data_agree (s : rstate) f p : st (cn D s) <> CLOSED ->
  agreeE (fun r : rstate * list event * bool => snd (fst r)) (on_frame_data D cd cf s f p) (on_frame_data D cd (fbd cf) s f p).
Proof.
  intros H. unfold on_frame_data. destruct (fd_is_ctl _); [left; split; reflexivity|].
  destruct (if zon D (ms D s) then _ else _) as [d1 pl]. destruct (uon D _); [|left; split; reflexivity].
  destruct (u_validate _ pl) as [[v e] u1]. destruct v; cbn [negb]; [left; split; reflexivity|].
  destruct (ip_agree (cn D s) H) as [t [t' [E1 E2]]].
  destruct (invalid_payload cf (cn D s)) as [[c1 ev] stop]. destruct (invalid_payload (fbd cf) (cn D s)) as [[c1' ev'] stop'].
  cbn [fst snd] in *. subst. right. exists [], code_invalid_payload.
  destruct stop, stop'; eexists; eexists; (split; [reflexivity|split; reflexivity]).
Qed.

Lemma process_control_frame_agree (s : rstate) f : st (cn D s) <> CLOSED ->
  agreeE (fun r : rstate * list event * bool => snd (fst r)) (process_control_frame D cf s f) (process_control_frame D (fbd cf) s f).
Proof.
  intros H. unfold process_control_frame. destruct (pc_is_close _).
  2:{ destruct (pc_is_ping _); [cbn [cn r_cdata]; destruct (st (cn D s)); [destruct (_ && _)|..]|destruct (pc_is_pong _)];
      left; split; reflexivity. }
  cbn [cn r_cdata].
  match goal with |- context [on_close_frame cf ?c ?k ?r] => pose proof (on_close_frame_agree cf c k r H) as A end.
  destruct A as [[A1 A2]|[pre [k [t [t' [P [A1 A2]]]]]]].
  - rewrite <- A2. destruct (on_close_frame cf _ _ _) as [c1 e1]. left. split; [exact A1|reflexivity].
  - destruct (on_close_frame cf _ _ _) as [c1 e1]. destruct (on_close_frame (fbd cf) _ _ _) as [c1' e1'].
    cbn [snd] in *. subst. right. exists pre, k, t, t'. split; [exact P|split; reflexivity].
Qed.

Lemma on_frame_end_agree (s : rstate) f : st (cn D s) <> CLOSED ->
  agreeE (fun r : rstate * list event * ctl => snd (fst r)) (on_frame_end D cd cf s f) (on_frame_end D cd (fbd cf) s f).
Proof.
  intros H. unfold on_frame_end. destruct (fe_is_ctl _).
  - pose proof (process_control_frame_agree s f H) as A.
    destruct A as [[A1 A2]|[pre [k [t [t' [P [A1 A2]]]]]]].
    + rewrite <- A2. destruct (process_control_frame D cf s f) as [[s1 e1] raised]. left. cbn [fst snd] in *. split; [|reflexivity].
      destruct raised; exact A1.
    + destruct (process_control_frame D cf s f) as [[s1 e1] raised]. destruct (process_control_frame D (fbd cf) s f) as [[s1' e1'] raised'].
      cbn [fst snd] in *. subst. right. exists pre, k, t, t'. split; [exact P|]. destruct raised, raised'; split; reflexivity.
  - destruct (f_fin f); [|left; split; reflexivity].
    match goal with |- context [if ?b then invalid_payload cf ?c else _] => destruct b end.
    + destruct (ip_agree (cn D s) H) as [t [t' [E1 E2]]].
      destruct (invalid_payload cf (cn D s)) as [[c1 e1] stop]. destruct (invalid_payload (fbd cf) (cn D s)) as [[c1' e1'] stop'].
      cbn [fst snd] in *. subst. right. exists [], code_invalid_payload.
      destruct stop, stop'; eexists; eexists; (split; [reflexivity|split; reflexivity]).
    + left. split; [|reflexivity]. cbn [fst snd]. destruct (failed (cn D s)); reflexivity.
Qed.

End Agree.

Section AgreeStep.
Variable D : Type.
Variable cd : codec D.
Variable cf : cfg.
Notation rstate := (rstate D).

Lemma agree_fail_app {R} (ev : R -> list event) (r r' : R) pre k t t' :
  has_fail pre = false -> ev r = pre ++ EFail k :: t -> ev r' = pre ++ EFail k :: t' -> agreeE ev r r'.
Proof. intros. right. exists pre, k, t, t'. auto. Qed.

Lemma pv_all_quiet c vs : st c <> CLOSED -> has_fail (snd (fst (pv_all cf c vs))) = false -> pv_all cf c vs = (c, [], false).
Proof.
  intros H Hq. destruct vs as [|v vs]; [reflexivity|]. exfalso. revert Hq. cbn [pv_all]. unfold protocol_violation.
  destruct (fail_agree cf c code_protocol_error H) as [t [_ [E1 _]]].
  destruct (fail_connection cf c code_protocol_error) as [c1 e1]. cbn [snd] in E1. subst e1.
  destruct (failByDrop cf); [cbn; discriminate|]. destruct (pv_all cf c1 vs) as [[c2 e2] s2]. cbn. discriminate.
Qed.

(* the header step in three stages: events of a stage come after those of the earlier ones *)
Definition hdr_stage3 (cfx : cfg) (s : rstate) (c2 : conn) (plen i : N) : rstate * list event * ctl :=
  let d := data D s in
  let b0 := nth 0 d 0 in let b1 := nth 1 d 0 in
  let masked := hb_masked b1 in let mask_len := if masked then 4 else 0 in
  let mask := if masked then take 4 (drop i d) else [] in
  let i' := i + mask_len in
  let mk := if masked && pd_len_pos plen && applyMask cfx then Some mask else None in
  let f := mkF (hb_opcode b0) (hb_fin b0) (hb_rsv b0) plen masked mask in
  let s3 := mkR D c2 (ms D s) (drop i' d) (Some f) mk 0 (cdata D s) in
  let '(s4, e4) := on_frame_begin D cd cfx s3 f in
  (s4, e4, if pd_len_zero plen || nonempty (data D s4) then Cont else Stop).
Definition hdr_stage2 (cfx : cfg) (s : rstate) (c1 : conn) : rstate * list event * ctl :=
  let d := data D s in
  let b1 := nth 1 d 0 in
  let masked := hb_masked b1 in let len1 := hb_len1 b1 in let mask_len := if masked then 4 else 0 in
  match header_len len1 mask_len with
  | None => (r_cn D s c1, [ERaise], Raised)
  | Some hl =>
    if negb (pd_have_header (lenN d) hl) then (r_cn D s c1, [], Stop) else
    let '(plen, lv, i) := ext_len len1 d in
    let '(c2, e2, stop2) := pv_all cfx c1 lv in
    if stop2 then (r_cn D s c2, e2, Stop) else
    let '(s4, e4, c4) := hdr_stage3 cfx s c2 plen i in (s4, e2 ++ e4, c4)
  end.

Lemma step_header_stages cfx (s : rstate) :
  step_header D cd cfx s =
    if negb (pd_have2 (lenN (data D s))) then (s, [], Stop) else
    let '(c1, e1, stop1) := pv_all cfx (cn D s) (hdr_viols cfx (inside D (ms D s)) (nth 0 (data D s) 0) (nth 1 (data D s) 0)) in
    if stop1 then (r_cn D s c1, e1, Stop) else
    let '(s2, e2, c2) := hdr_stage2 cfx s c1 in (s2, e1 ++ e2, c2).
Proof.
  unfold step_header, hdr_stage2, hdr_stage3. destruct (negb (pd_have2 _)); [reflexivity|].
  destruct (pv_all cfx (cn D s) _) as [[c1 e1] stop1]. destruct stop1; [reflexivity|].
  destruct (header_len _ _); [|reflexivity].
  destruct (negb (pd_have_header _ _)); [now rewrite app_nil_r|].
  destruct (ext_len _ _) as [[plen lv] i]. cbn [cn r_cn ms cdata].
  destruct (pv_all cfx c1 lv) as [[c2 e2] stop2]. destruct stop2; [reflexivity|].
  cbn [cn r_cn ms cdata]. destruct (on_frame_begin D cd cfx _ _) as [s4 e4]. now rewrite app_assoc.
Qed.

Lemma agree_prepend {R} (ev : R -> list event) (mk : R -> list event -> R) (e1 : list event) (r r' : R) :
  (forall x e, ev (mk x e) = e ++ ev x) -> has_fail e1 = false ->
  agreeE ev r r' -> agreeE ev (mk r e1) (mk r' e1).
Proof.
  intros Hev Hq [[Q E]|[pre [k [t [t' [P [E1 E2]]]]]]].
  - left. rewrite Hev, has_fail_app, Hq, Q. split; [reflexivity|now rewrite E].
  - right. exists (e1 ++ pre), k, t, t'. rewrite has_fail_app, Hq, P. split; [reflexivity|].
    rewrite !Hev, E1, E2, !app_assoc. split; reflexivity.
Qed.

Lemma hdr_stage3_agree (s : rstate) c2 plen i : st c2 <> CLOSED ->
  agreeE (fun r : rstate * list event * ctl => snd (fst r)) (hdr_stage3 cf s c2 plen i) (hdr_stage3 (fbd cf) s c2 plen i).
Proof.
  intros H. unfold hdr_stage3. cbn [applyMask fbd].
  match goal with |- context [on_frame_begin D cd cf ?s3 ?f] => pose proof (on_frame_begin_agree D cd cf s3 f H) as A end.
  destruct A as [[Q E]|[pre [k [t [t' [P [E1 E2]]]]]]].
  - rewrite <- E. destruct (on_frame_begin D cd cf _ _) as [s4 e4]. left. split; [exact Q|reflexivity].
  - destruct (on_frame_begin D cd cf _ _) as [s4 e4]. destruct (on_frame_begin D cd (fbd cf) _ _) as [s4' e4'].
    cbn [snd] in *. subst. right. exists pre, k, t, t'. split; [exact P|split; reflexivity].
Qed.

Lemma hdr_stage2_agree (s : rstate) c1 : st c1 <> CLOSED ->
  agreeE (fun r : rstate * list event * ctl => snd (fst r)) (hdr_stage2 cf s c1) (hdr_stage2 (fbd cf) s c1).
Proof.
  intros H. unfold hdr_stage2. destruct (header_len _ _); [|left; split; reflexivity].
  destruct (negb (pd_have_header _ _)); [left; split; reflexivity|].
  destruct (ext_len _ _) as [[plen lv] i].
  pose proof (pv_all_agree cf c1 lv H) as A. pose proof (pv_all_quiet c1 lv H) as Q.
  destruct A as [[Q1 E]|[pre [k [t [t' [P [E1 E2]]]]]]].
  - rewrite <- E. rewrite (Q Q1). cbn [app].
    pose proof (hdr_stage3_agree s c1 plen i H) as A3.
    destruct A3 as [[Q3 E3]|[pre [k [t [t' [P [E1 E2]]]]]]].
    + rewrite <- E3. destruct (hdr_stage3 cf s c1 plen i) as [[s4 e4] c4]. left. split; [exact Q3|reflexivity].
    + destruct (hdr_stage3 cf s c1 plen i) as [[s4 e4] c4]. destruct (hdr_stage3 (fbd cf) s c1 plen i) as [[s4' e4'] c4'].
      cbn [fst snd] in *. subst. right. exists pre, k, t, t'. split; [exact P|split; reflexivity].
  - destruct (pv_all cf c1 lv) as [[c2 e2] stop2]. destruct (pv_all (fbd cf) c1 lv) as [[c2' e2'] stop2'].
    cbn [fst snd] in *. subst. right.
    destruct stop2, stop2'; cbn [fst snd].
    + exists pre, k, t, t'. split; [exact P|split; reflexivity].
    + destruct (hdr_stage3 (fbd cf) s c2' plen i) as [[s4' e4'] c4']. cbn [fst snd].
      exists pre, k, t, (t' ++ e4'). split; [exact P|]. split; [reflexivity|]. now rewrite <- app_assoc.
    + destruct (hdr_stage3 cf s c2 plen i) as [[s4 e4] c4]. cbn [fst snd].
      exists pre, k, (t ++ e4), t'. split; [exact P|]. split; [|reflexivity]. now rewrite <- app_assoc.
    + destruct (hdr_stage3 cf s c2 plen i) as [[s4 e4] c4]. destruct (hdr_stage3 (fbd cf) s c2' plen i) as [[s4' e4'] c4']. cbn [fst snd].
      exists pre, k, (t ++ e4), (t' ++ e4'). split; [exact P|]. split; now rewrite <- app_assoc.
Qed.

Lemma step_header_agree (s : rstate) : st (cn D s) <> CLOSED ->
  agreeE (fun r : rstate * list event * ctl => snd (fst r)) (step_header D cd cf s) (step_header D cd (fbd cf) s).
Proof.
  intros H. rewrite !step_header_stages. change (hdr_viols (fbd cf)) with (hdr_viols cf).
  destruct (negb (pd_have2 _)); [left; split; reflexivity|].
  set (vs := hdr_viols cf (inside D (ms D s)) (nth 0 (data D s) 0) (nth 1 (data D s) 0)).
  pose proof (pv_all_agree cf (cn D s) vs H) as A. pose proof (pv_all_quiet (cn D s) vs H) as Q.
  destruct A as [[Q1 E]|[pre [k [t [t' [P [E1 E2]]]]]]].
  - rewrite <- E. rewrite (Q Q1). cbn [app].
    pose proof (hdr_stage2_agree s (cn D s) H) as A2.
    destruct A2 as [[Q2 E2]|[pre [k [t [t' [P [E1 E2]]]]]]].
    + rewrite <- E2. destruct (hdr_stage2 cf s (cn D s)) as [[s2 e2] c2]. left. split; [exact Q2|reflexivity].
    + destruct (hdr_stage2 cf s (cn D s)) as [[s2 e2] c2]. destruct (hdr_stage2 (fbd cf) s (cn D s)) as [[s2' e2'] c2'].
      cbn [fst snd] in *. subst. right. exists pre, k, t, t'. split; [exact P|split; reflexivity].
  - destruct (pv_all cf (cn D s) vs) as [[c1 e1] stop1]. destruct (pv_all (fbd cf) (cn D s) vs) as [[c1' e1'] stop1'].
    cbn [fst snd] in *. subst. right.
    destruct stop1, stop1'; cbn [fst snd].
    + exists pre, k, t, t'. split; [exact P|split; reflexivity].
    + destruct (hdr_stage2 (fbd cf) s c1') as [[s2' e2'] c2']. cbn [fst snd].
      exists pre, k, t, (t' ++ e2'). split; [exact P|]. split; [reflexivity|]. now rewrite <- app_assoc.
    + destruct (hdr_stage2 cf s c1) as [[s2 e2] c2]. cbn [fst snd].
      exists pre, k, (t ++ e2), t'. split; [exact P|]. split; [|reflexivity]. now rewrite <- app_assoc.
    + destruct (hdr_stage2 cf s c1) as [[s2 e2] c2]. destruct (hdr_stage2 (fbd cf) s c1') as [[s2' e2'] c2']. cbn [fst snd].
      exists pre, k, (t ++ e2), (t' ++ e2'). split; [exact P|]. split; now rewrite <- app_assoc.
Qed.

Lemma on_frame_data_quiet_cn (s : rstate) f p : st (cn D s) <> CLOSED ->
  has_fail (snd (fst (on_frame_data D cd cf s f p))) = false -> cn D (fst (fst (on_frame_data D cd cf s f p))) = cn D s.
Proof.
  intros H. unfold on_frame_data. destruct (fd_is_ctl _); [reflexivity|].
  destruct (if zon D (ms D s) then _ else _) as [d1 pl]. destruct (uon D _); [|reflexivity].
  destruct (u_validate _ pl) as [[v e] u1]. destruct v; cbn [negb]; [reflexivity|].
  destruct (ip_agree cf (cn D s) H) as [t [_ [E1 _]]].
  destruct (invalid_payload cf (cn D s)) as [[c1 ev] stop]. cbn [fst snd] in E1. subst ev.
  destruct stop; cbn; discriminate.
Qed.

Lemma pay_apply_agree (s : rstate) f chunk : st (cn D s) <> CLOSED ->
  agreeE (fun r : rstate * list event * ctl => snd (fst r)) (pay_apply D cd cf s f chunk) (pay_apply D cd (fbd cf) s f chunk).
Proof.
  intros H. unfold pay_apply. destruct (mask_process _ _ chunk) as [payload p1].
  set (s1 := mkR D (cn D s) (ms D s) (data D s) (cur D s) (mkey D s) p1 (cdata D s)).
  pose proof (on_frame_data_agree D cd cf s1 f payload H) as A.
  pose proof (on_frame_data_quiet_cn s1 f payload H) as QC.
  destruct A as [[Q E]|[pre [k [t [t' [P [E1 E2]]]]]]].
  - rewrite <- E. specialize (QC Q).
    destruct (on_frame_data D cd cf s1 f payload) as [[s2 e2] stop2]. cbn [fst snd] in *.
    destruct stop2; [left; split; [exact Q|reflexivity]|].
    destruct (mptr D s2 =? f_len f); [|left; split; [exact Q|reflexivity]].
    assert (H2 : st (cn D s2) <> CLOSED) by (rewrite QC; exact H).
    pose proof (on_frame_end_agree D cd cf s2 f H2) as A3.
    destruct A3 as [[Q3 E3]|[pre [k [t [t' [P [E1 E2]]]]]]].
    + rewrite <- E3. destruct (on_frame_end D cd cf s2 f) as [[s3 e3] c3]. cbn [fst snd] in *.
      left. split; [|reflexivity]. cbn [fst snd]. now rewrite has_fail_app, Q, Q3.
    + destruct (on_frame_end D cd cf s2 f) as [[s3 e3] c3]. destruct (on_frame_end D cd (fbd cf) s2 f) as [[s3' e3'] c3'].
      cbn [fst snd] in *. subst. right. exists (e2 ++ pre), k, t, t'.
      rewrite has_fail_app, Q, P. split; [reflexivity|]. rewrite !app_assoc. split; reflexivity.
  - destruct (on_frame_data D cd cf s1 f payload) as [[s2 e2] stop2].
    destruct (on_frame_data D cd (fbd cf) s1 f payload) as [[s2' e2'] stop2']. cbn [fst snd] in *. subst. right.
    assert (G : forall (cfx : cfg) (sx : rstate) (stopx : bool) tx, exists ty,
              snd (fst (if stopx then (sx, pre ++ EFail k :: tx, Stop)
                        else if mptr D sx =? f_len f
                             then let '(s3, e3, c3) := on_frame_end D cd cfx sx f in (s3, (pre ++ EFail k :: tx) ++ e3, c3)
                             else (sx, pre ++ EFail k :: tx, Cont))) = pre ++ EFail k :: ty).
    { intros cfx sx stopx tx. destruct stopx; [eexists; reflexivity|].
      destruct (mptr D sx =? f_len f); [|eexists; reflexivity].
      destruct (on_frame_end D cd cfx sx f) as [[s3 e3] c3]. cbn [fst snd]. exists (tx ++ e3). now rewrite <- app_assoc. }
    destruct (G cf s2 stop2 t) as [ty Ey]. destruct (G (fbd cf) s2' stop2' t') as [ty' Ey'].
    exists pre, k, ty, ty'. split; [exact P|]. split; assumption.
Qed.

Lemma step_agree (s : rstate) : st (cn D s) <> CLOSED ->
  agreeE (fun r : rstate * list event * ctl => snd (fst r)) (step D cd cf s) (step D cd (fbd cf) s).
Proof.
  intros H. unfold step. destruct (cur D s) as [f|]; [|now apply step_header_agree].
  rewrite !step_payload_nf. cbv zeta.
  destruct (if pd_have_rest _ _ then _ else _) as [chunk rem].
  pose proof (pay_apply_agree (r_data D s rem) f chunk H) as A.
  destruct A as [[Q E]|[pre [k [t [t' [P [E1 E2]]]]]]].
  - rewrite <- E. destruct (pay_apply D cd cf (r_data D s rem) f chunk) as [[s' e] c]. left. split; [exact Q|reflexivity].
  - destruct (pay_apply D cd cf (r_data D s rem) f chunk) as [[s' e] c].
    destruct (pay_apply D cd (fbd cf) (r_data D s rem) f chunk) as [[s'' e''] c'']. cbn [fst snd] in *. subst.
    right. exists pre, k, t, t'. split; [exact P|split; reflexivity].
Qed.

(* the judged events of a run do not depend on the policy *)
Lemma judged_fail_prefix pre k t t' : has_fail pre = false -> judged (pre ++ EFail k :: t) = judged (pre ++ EFail k :: t').
Proof. intros _. rewrite !judged_app. cbn [judged]. reflexivity. Qed.

Lemma run_agree n : forall m (s s1 s1' : rstate) e1 e1', st (cn D s) <> CLOSED ->
  run D cd n cf s = Done D s1 e1 -> run D cd m (fbd cf) s = Done D s1' e1' -> judged e1 = judged e1'.
Proof.
  induction n as [|n IH]; intros m s s1 s1' e1 e1' H R R'; [discriminate|]. destruct m as [|m]; [discriminate|].
  cbn [run] in R, R'. pose proof (step_agree s H) as A.
  destruct A as [[Q E]|[pre [k [t [t' [P [E1 E2]]]]]]].
  - rewrite <- E in R'. destruct (step D cd cf s) as [[sa ea] c]. cbn [fst snd] in Q.
    destruct c.
    + destruct (st (cn D sa)) eqn:Hs.
      * destruct (run D cd n cf sa) as [s2 e2|] eqn:Ra; [|discriminate]. destruct (run D cd m (fbd cf) sa) as [s2' e2'|] eqn:Rb; [|discriminate].
        injection R as <- <-. injection R' as <- <-.
        rewrite !judged_app. rewrite (IH m sa s2 s2' e2 e2' ltac:(congruence) Ra Rb). reflexivity.
      * destruct (run D cd n cf sa) as [s2 e2|] eqn:Ra; [|discriminate]. destruct (run D cd m (fbd cf) sa) as [s2' e2'|] eqn:Rb; [|discriminate].
        injection R as <- <-. injection R' as <- <-.
        rewrite !judged_app. rewrite (IH m sa s2 s2' e2 e2' ltac:(congruence) Ra Rb). reflexivity.
      * injection R as <- <-. injection R' as <- <-. reflexivity.
    + injection R as <- <-. injection R' as <- <-. reflexivity.
    + injection R as <- <-. injection R' as <- <-. reflexivity.
  - destruct (step D cd cf s) as [[sa ea] c]. destruct (step D cd (fbd cf) s) as [[sa' ea'] c']. cbn [fst snd] in E1, E2. subst ea ea'.
    assert (G : forall fuel cfx (sx : rstate) cx tx sy ey,
              match cx with
              | Cont => match st (cn D sx) with
                        | CLOSED => Done D sx (pre ++ EFail k :: tx)
                        | _ => match run D cd fuel cfx sx with Done _ s2 e2 => Done D s2 ((pre ++ EFail k :: tx) ++ e2) | OutOfFuel _ => OutOfFuel D end
                        end
              | _ => Done D sx (pre ++ EFail k :: tx)
              end = Done D sy ey -> exists ty, ey = pre ++ EFail k :: ty).
    { intros fuel cfx sx cx tx sy ey HH. destruct cx; try (inversion HH; eexists; reflexivity).
      destruct (st (cn D sx)); try (inversion HH; eexists; reflexivity);
        (destruct (run D cd fuel cfx sx) as [s2 e2|]; [|discriminate]; inversion HH; exists (tx ++ e2); now rewrite <- app_assoc). }
    destruct (G _ _ _ _ _ _ _ R) as [ty ->]. destruct (G _ _ _ _ _ _ _ R') as [ty' ->].
    now apply judged_fail_prefix.
Qed.

End AgreeStep.

(* the judge does not read the failure policy *)
Lemma judge_frame_fbd D (cd : codec D) cf js bs : judge_frame D cd (fbd cf) js bs = judge_frame D cd cf js bs.
Proof. reflexivity. Qed.
Lemma judge_fbd D (cd : codec D) cf n : forall js bs, judge D cd n (fbd cf) js bs = judge D cd n cf js bs.
Proof.
  induction n as [|n IH]; intros js bs; [reflexivity|]. cbn [judge]. rewrite judge_frame_fbd.
  destruct (judge_frame D cd cf js bs); try reflexivity. now rewrite IH.
Qed.

(* C02_sequence, both failure policies: from the state after the handshake, one read of any octet stream terminates
   and its events -- up to and including the first failure / the accepted Close frame -- are the judge's verdict *)
Theorem sequence_any_policy D (cd : codec D) cf : (forall d, d_data cd d [] = (d, [])) ->
  forall p d0 bs, p <> CLOSED -> bytes_ok bs ->
  exists s' evs res,
    feed D cd cf (init_state D p d0) bs = Done D s' evs /\
    rfc_judge D cd cf d0 bs = Some res /\ judged evs = res.
Proof.
  intros d_nil p d0 bs Hp Hb.
  destruct (feed_terminates_any D cd cf (init_state D p d0) bs (PInv_init D p d0)) as [s' [evs F]].
  assert (FB : failByDrop (fbd cf) = true) by reflexivity.
  destruct (sequence_failbydrop D cd (fbd cf) FB d_nil p d0 bs Hp Hb) as [s'' [evs' [res [F' [J HJ]]]]].
  exists s', evs, res. split; [exact F|]. split; [unfold rfc_judge in *; rewrite <- judge_fbd; exact J|].
  rewrite <- HJ. unfold feed in F, F'. cbn [cn r_data init_state init_conn st] in F, F'.
  destruct p; try congruence.
  - eapply (run_agree D cd cf); [|exact F|exact F']. cbn. discriminate.
  - eapply (run_agree D cd cf); [|exact F|exact F']. cbn. discriminate.
Qed.

(* C16_early through the judge: a first data frame whose declared length is over a configured limit is judged TooBig as
   soon as its header is complete -- whatever follows the header, in particular nothing -- and so does the model *)
Lemma judge_too_big D (cd : codec D) cf d0 b0 b1 r n r1 :
  rfc_header_bad cf false b0 b1 = false -> 8 <=? b0 mod 16 = false ->
  (if b1 mod 128 <=? 125 then 0 else if b1 mod 128 =? 126 then 2 else 8) + (if bit b1 7 then 4 else 0) <= lenN r ->
  rfc_length (b1 mod 128) r = LOk n r1 -> rfc_too_big cf (0 + n) n = true ->
  rfc_judge D cd cf d0 (b0 :: b1 :: r) = Some ([], VFail VTooBig).
Proof.
  intros Hok Hop Hlen ER Hbig. unfold rfc_judge. cbn [judge length]. unfold judge_frame. cbn [j_open j_init].
  rewrite Hok. cbv zeta.
  replace (lenN r <? _) with false by (symmetry; apply N.ltb_ge; exact Hlen).
  rewrite ER, Hop. cbn [negb j_total j_init]. rewrite Hbig. reflexivity.
Qed.

Theorem early_too_big D (cd : codec D) cf : (forall d, d_data cd d [] = (d, [])) ->
  forall p d0 b0 b1 r n r1, p <> CLOSED -> bytes_ok (b0 :: b1 :: r) ->
  rfc_header_bad cf false b0 b1 = false -> 8 <=? b0 mod 16 = false ->
  (if b1 mod 128 <=? 125 then 0 else if b1 mod 128 =? 126 then 2 else 8) + (if bit b1 7 then 4 else 0) <= lenN r ->
  rfc_length (b1 mod 128) r = LOk n r1 -> rfc_too_big cf (0 + n) n = true ->
  exists s' evs, feed D cd cf (init_state D p d0) (b0 :: b1 :: r) = Done D s' evs /\ judged evs = ([], VFail VTooBig).
Proof.
  intros d_nil p d0 b0 b1 r n r1 Hp Hb Hok Hop Hlen ER Hbig.
  destruct (sequence_any_policy D cd cf d_nil p d0 _ Hp Hb) as [s' [evs [res [F [J HJ]]]]].
  rewrite (judge_too_big D cd cf d0 b0 b1 r n r1 Hok Hop Hlen ER Hbig) in J. injection J as <-.
  exists s', evs. split; [exact F|exact HJ].
Qed.
