(* An accepted message has the shape needed for extract (marshal m) = norm m; fields_preserved. *)
From Coq Require Import NArith ZArith List Bool String Lia.
From AV Require Import Model.WampValue Model.WampSchema Model.WampMsg
  Proofs.WampDictProofs Proofs.WampLayoutProofs Proofs.WampWfProofs Proofs.WampExtractProofs Proofs.WampCheckProofs Proofs.WampRoundtripProofs Proofs.WampOutcomeProofs.
Import ListNotations.
Open Scope list_scope.

Lemma extract_pos_length : forall sl body, List.length (extract_pos sl body) = nfields sl.
Proof. induction sl as [|[a k|] sl IH]; intros; simpl; auto. rewrite nfields_cons_field. f_equal. apply IH. Qed.

(* marshal's three-way branch can be told apart again by parse *)
Definition pl_unambiguous (pc : pcfg) (p : payload) : bool :=
  if truthy (p_payload p) then is_payload_type pc (p_payload p)
  else if truthy (p_kwargs p) then true
  else if truthy (p_args p) then negb (is_payload_type pc (p_args p))
  else true.

Section Main.
  Variable uri_ok : uri_fl -> str -> bool.
  Variable custom_ok : str -> bool.

  Lemma pl_unambiguous_extract : forall pc od tail,
    check_pl custom_ok pc od tail = None -> pc_publish pc = false ->
    pl_unambiguous pc (extract_pl pc od tail) = true.
  Proof.
    intros pc od tail H Hp. unfold pl_unambiguous, extract_pl. unfold check_pl in H.
    destruct (payload_mode pc tail) eqn:Em.
    - cbn [p_payload p_kwargs p_args]. destruct tail as [|x [|y r]]; try discriminate. simpl in Em. simpl hd.
      rewrite Em. destruct (truthy x); reflexivity.
    - cbn [p_payload p_kwargs p_args]. simpl truthy at 1. cbv iota.
      destruct (truthy (nth 1 tail VNull)); [reflexivity|].
      destruct tail as [|a r]; [reflexivity|]. simpl nth.
      apply andthen_none_inv in H. destruct H as [Ha _]. unfold check_args in Ha. rewrite Hp in Ha.
      apply require_none in Ha. unfold is_payload_type.
      destruct a as [| | | | | |la|]; simpl in Ha; try discriminate; simpl; rewrite ?andb_false_r.
      * reflexivity.
      * destruct la; reflexivity.
  Qed.

  Lemma check_role_shape : forall cfg kv, check_role uri_ok cfg kv = None ->
    role_shape_ok cfg (extract_role cfg kv) = true.
  Proof.
    intros cfg [k v] H. unfold check_role in H. unfold role_shape_ok, extract_role. cbn [fst snd] in *.
    destruct k as [name|]; [|discriminate].
    destruct (find_role cfg name) as [feats|]; [|discriminate].
    apply Nat.eqb_eq.
    destruct v; try (rewrite map_length; reflexivity).
    destruct (dget (s2l "features") d) as [[| | | | | | |fd]|]; try (rewrite map_length; reflexivity).
    unfold ovals, role_specs. rewrite !map_length. reflexivity.
  Qed.

  Lemma check_roles_shape : forall cfg od, check_roles uri_ok cfg od = None ->
    forallb (role_shape_ok cfg) (extract_roles cfg od) = true.
  Proof.
    intros cfg od H. unfold check_roles in H. unfold extract_roles.
    destruct (dget (s2l "roles") od) as [r|]; [|discriminate].
    apply andthen_none_inv in H. destruct H as [_ H].
    destruct r; try reflexivity.
    apply andthen_none_inv in H. destruct H as [_ H].
    rewrite forallb_forall. intros x Hin. apply in_map_iff in Hin. destruct Hin as [kv [<- Hin]].
    apply check_role_shape. eapply chk_all_none_inv; eauto.
  Qed.

  Lemma forallb_filter : forall {A} (f : A -> bool) l, forallb f (filter f l) = true.
  Proof. induction l as [|x l IH]; simpl; auto. destruct (f x) eqn:E; simpl; [rewrite E|]; auto. Qed.

  Theorem parse_shape_ok : forall s w m,
    parse uri_ok custom_ok s w = Ok m ->
    (forall pc, s_payload s = Some pc -> pl_unambiguous pc (m_pl m) = true) ->
    shape_ok custom_ok s m = true.
  Proof.
    intros s w m H Hpl.
    destruct (parse_ok_inv uri_ok custom_ok s w m H) as (body & -> & Hlen & Hm & Hsl & Hop & Hp & Hr & Hc).
    unfold shape_ok. rewrite !andb_true_iff. repeat split.
    - subst m. simpl. rewrite extract_pos_length. apply Nat.eqb_refl.
    - subst m. simpl. unfold ovals. rewrite map_length. apply Nat.eqb_refl.
    - destruct (s_payload s) as [pc|] eqn:Ep; [|reflexivity]. apply (Hpl pc eq_refl).
    - subst m. simpl. destruct (s_special s) eqn:Esp; [reflexivity| |].
      + apply check_roles_shape. apply Hr. discriminate.
      + apply check_roles_shape. apply Hr. discriminate.
    - subst m. simpl. destruct (s_special s); try reflexivity. apply forallb_filter.
  Qed.

  Theorem parse_shape_ok_nonpublish : forall s w m,
    parse uri_ok custom_ok s w = Ok m ->
    (forall pc, s_payload s = Some pc -> pc_publish pc = false) ->
    shape_ok custom_ok s m = true.
  Proof.
    intros s w m H Hnp. eapply parse_shape_ok; eauto.
    intros pc Ep.
    destruct (parse_ok_inv uri_ok custom_ok s w m H) as (body & -> & Hlen & Hm & Hsl & Hop & Hp & Hr & Hc).
    destruct (Hp pc Ep) as [Hcp _]. subst m. simpl. rewrite Ep.
    apply pl_unambiguous_extract; auto.
  Qed.

  (* the re-marshalled form of an accepted message carries the same fields (absent == default: norm) *)
  Theorem parse_remarshal_equiv : forall s w m,
    wf_schema custom_ok s = true ->
    parse uri_ok custom_ok s w = Ok m ->
    (forall pc, s_payload s = Some pc -> pl_unambiguous pc (m_pl m) = true) ->
    extract custom_ok s (marshal s m) = norm s (extract custom_ok s w).
  Proof.
    intros s w m Hwf H Hpl.
    pose proof (parse_shape_ok s w m H Hpl) as Hs.
    destruct (parse_ok_inv uri_ok custom_ok s w m H) as (body & -> & _ & Hm & _).
    rewrite <- Hm. apply extract_marshal; auto.
  Qed.

  (* ---- C03: every option that is set is marshalled ---- *)
  Lemma dget_emit_nth : forall all specs vals pre post i o v,
    NoDup (okeys specs) ->
    (forall k, In k (okeys specs) -> dget k pre = None) ->
    nth_error specs i = Some o -> nth_error vals i = Some v ->
    holds all o v = true ->
    dget (s2l (o_key o)) (pre ++ emit_aux all specs vals ++ post) = Some v.
  Proof.
    induction specs as [|o0 specs IH]; intros vals pre post i o v Hnd Hpre Hs Hv Hh; [destruct i; discriminate|].
    destruct vals as [|v0 vals]; [destruct i; discriminate|].
    inversion Hnd as [|? ? Hnotin Hnd']; subst.
    destruct i as [|i]; simpl in Hs, Hv.
    - injection Hs as ->. injection Hv as ->.
      rewrite dget_app. rewrite Hpre by (simpl; auto). simpl emit_aux. rewrite Hh. simpl.
      rewrite str_eqb_refl. reflexivity.
    - simpl emit_aux.
      replace (pre ++ ((if holds all o0 v0 then [(KS (s2l (o_key o0)), v0)] else []) ++ emit_aux all specs vals) ++ post)
        with ((pre ++ (if holds all o0 v0 then [(KS (s2l (o_key o0)), v0)] else [])) ++ emit_aux all specs vals ++ post)
        by (rewrite <- !app_assoc; reflexivity).
      eapply IH; eauto.
      intros k Hk. rewrite dget_app. rewrite Hpre by (simpl; auto).
      destruct (holds all o0 v0); simpl; auto. rewrite str_eqb_neq; auto. intros ->. contradiction.
  Qed.

  Theorem option_marshalled : forall s m i o v,
    wf_schema custom_ok s = true -> shape_ok custom_ok s m = true ->
    nth_error (s_opts s) i = Some o -> nth_error (m_opts m) i = Some v ->
    holds (m_opts m) o v = true ->
    dget (s2l (o_key o)) (marshal_dict s m) = Some v.
  Proof.
    intros s m i o v Hwf Hs Ho Hv Hh.
    destruct (wf_schema_inv _ _ Hwf) as (Hnd & _ & _ & Hcust & _).
    destruct (shape_ok_inv _ _ _ Hs) as (_ & _ & _ & _ & Hck).
    assert (Hndo : NoDup (okeys (s_opts s))) by (apply nodupb_NoDup; eapply nodupb_app_l; exact Hnd).
    assert (Hk : In (s2l (o_key o)) (okeys (s_opts s))).
    { unfold okeys. apply in_map_iff. exists o. split; auto. eapply nth_error_In; eauto. }
    unfold marshal_dict, emit. destruct (s_special s) eqn:Esp.
    - pose proof (dget_emit_nth (m_opts m) (s_opts s) (m_opts m) [] 
                    (match s_payload s with Some _ => emit_enc (m_pl m) | None => [] end) i o v Hndo) as L.
      simpl in L. apply L; auto.
    - pose proof (dget_emit_nth (m_opts m) (s_opts s) (m_opts m)
                    [(KS (s2l "roles"), marshal_roles hello_roles (m_roles m))] [] i o v Hndo) as L.
      rewrite app_nil_r in L. simpl app in L. apply L; auto.
      intros k Hk'. apply dget_none_iff. simpl. intros [Hin|[]]. subst k.
      apply (nodupb_app_disjoint _ _ _ Hnd Hk'). apply in_or_app. right. rewrite Esp. simpl. auto.
    - pose proof (dget_emit_nth (m_opts m) (s_opts s) (m_opts m) (m_custom m)
                    [(KS (s2l "roles"), marshal_roles welcome_roles (m_roles m))] i o v Hndo) as L.
      apply L; auto.
      intros k Hk'. apply dget_none_iff. intros Hin.
      pose proof (custom_keys custom_ok _ _ Hck Hin) as Hc'.
      rewrite forallb_forall in Hcust. specialize (Hcust k (in_all_keys_opts s k Hk')).
      rewrite Hc' in Hcust. discriminate.
  Qed.
End Main.
