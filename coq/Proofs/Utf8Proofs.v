(* Proofs about Model/Utf8.v with the tables generated from the current source tree.
   Part 1: finite sweeps over the generated tables (vm_compute, lifted with forallb_forall).
   Part 2: the reference machine rfc_step accepts exactly the RFC 3629 grammar wf_utf8 (unbounded).
   Part 3: first rejecting offset, viability, the Python and C loops against the reference machine.
   Part 4: validate() wrappers, chunk feeding, the reference results.
   Part 5: instances for the generated tables (what Props/C09.v cites).
   Part 6: the grammar wf_utf8 is exactly "concatenation of encodings of Unicode scalar values". *)
From Coq Require Import NArith ZArith List Bool Lia Setoid.
From AV Require Import Model.Utf8 Gen.Utf8TablePy Gen.Utf8TableC Gen.Utf8Unrolled.
Import ListNotations.
Open Scope N_scope.

(* ---------- finite sweeps ---------- *)
Definition rangeN (n : nat) : list N := map N.of_nat (seq 0 n).

Lemma rangeN_in n x : x < N.of_nat n -> In x (rangeN n).
Proof.
  intros H. unfold rangeN. apply in_map_iff. exists (N.to_nat x). split; [lia|].
  apply in_seq. lia.
Qed.

Definition sweep (f : N -> N -> bool) : bool :=
  forallb (fun s => forallb (fun b => f s b) (rangeN 256)) (rangeN 9).

Lemma sweep_spec f : sweep f = true -> forall s b, s < 9 -> b < 256 -> f s b = true.
Proof.
  unfold sweep. intros H s b Hs Hb.
  rewrite forallb_forall in H. specialize (H s (rangeN_in 9 s Hs)).
  rewrite forallb_forall in H. exact (H b (rangeN_in 256 b Hb)).
Qed.

(* compared through a boolean so that a mismatch fails with a one-line message *)
Fixpoint nlist_eqb (a b : list N) : bool :=
  match a, b with
  | [], [] => true
  | x :: a', y :: b' => (x =? y) && nlist_eqb a' b'
  | _, _ => false
  end.
Lemma nlist_eqb_eq a : forall b, nlist_eqb a b = true -> a = b.
Proof.
  induction a as [|x a IH]; intros [|y b] H; try discriminate; [reflexivity|].
  cbn in H. apply andb_true_iff in H. destruct H as [H1 H2]. apply N.eqb_eq in H1. subst y.
  f_equal. apply IH. exact H2.
Qed.
Lemma tables_agree_b : nlist_eqb dfa_py dfa_c = true.
Proof. vm_compute. reflexivity. Qed.
Lemma tables_agree : dfa_py = dfa_c.
Proof. apply nlist_eqb_eq. exact tables_agree_b. Qed.

Lemma table_py_length : length dfa_py = 400%nat.
Proof. vm_compute. reflexivity. Qed.
Lemma table_c_length : length dfa_c = 400%nat.
Proof. vm_compute. reflexivity. Qed.

Definition in_bounds (tbl : list N) (s b : N) : bool :=
  (b <? 256) && (nthN tbl b <? 16) && (256 + s * 16 + nthN tbl b <? 400).

Lemma sweep_bounds_py : sweep (in_bounds dfa_py) = true.
Proof. vm_compute. reflexivity. Qed.
Lemma sweep_bounds_c : sweep (in_bounds dfa_c) = true.
Proof. vm_compute. reflexivity. Qed.

Lemma sweep_py : sweep (fun s b => dfa_step dfa_py s b =? rfc_step s b) = true.
Proof. vm_compute. reflexivity. Qed.
Lemma sweep_c : sweep (fun s b => dfa_step dfa_c s b =? rfc_step s b) = true.
Proof. vm_compute. reflexivity. Qed.
Lemma sweep_unrolled : sweep (fun s b => unrolled_step unrolled_tbl s b =? rfc_step s b) = true.
Proof. vm_compute. reflexivity. Qed.

Lemma transitions_py s b : s < 9 -> b < 256 -> dfa_step dfa_py s b = rfc_step s b.
Proof. intros Hs Hb. apply N.eqb_eq. exact (sweep_spec _ sweep_py s b Hs Hb). Qed.
Lemma transitions_c s b : s < 9 -> b < 256 -> dfa_step dfa_c s b = rfc_step s b.
Proof. intros Hs Hb. apply N.eqb_eq. exact (sweep_spec _ sweep_c s b Hs Hb). Qed.
Lemma transitions_unrolled s b : s < 9 -> b < 256 -> unrolled_step unrolled_tbl s b = rfc_step s b.
Proof. intros Hs Hb. apply N.eqb_eq. exact (sweep_spec _ sweep_unrolled s b Hs Hb). Qed.

Lemma table_in_bounds_py s b : s < 9 -> b < 256 ->
  (N.to_nat b < length dfa_py)%nat /\ (N.to_nat (256 + s * 16 + nthN dfa_py b) < length dfa_py)%nat.
Proof.
  intros Hs Hb. pose proof (sweep_spec _ sweep_bounds_py s b Hs Hb) as H.
  unfold in_bounds in H. rewrite !andb_true_iff, !N.ltb_lt in H. rewrite table_py_length. lia.
Qed.
Lemma table_in_bounds_c s b : s < 9 -> b < 256 ->
  (N.to_nat b < length dfa_c)%nat /\ (N.to_nat (256 + s * 16 + nthN dfa_c b) < length dfa_c)%nat.
Proof.
  intros Hs Hb. pose proof (sweep_spec _ sweep_bounds_c s b Hs Hb) as H.
  unfold in_bounds in H. rewrite !andb_true_iff, !N.ltb_lt in H. rewrite table_c_length. lia.
Qed.

(* the compiled loop functions, observed on one octet from every state (with prior current_index = 77 and
   total_index = 1000, as set by the dumper), against the hand-written C model *)
Definition obs_ok (step : N -> N -> N) (obs : list (N * N * N * N)) (s b : N) : bool :=
  match nth_error obs (N.to_nat (s * 256 + b)) with
  | Some (st, rc, cur, tot) =>
      let '(v', res) := c_validate_with step {| c_state := s; c_cur := 77; c_tot := 1000; c_impl := 0 |} [b] in
      (c_state v' =? st) && ((res + 1)%Z =? Z.of_N rc)%Z && (c_cur v' =? cur) && (c_tot v' =? tot)
  | None => false
  end.
Lemma sweep_obs_table : sweep (obs_ok (dfa_step dfa_c) c_table_fn_obs) = true.
Proof. vm_compute. reflexivity. Qed.
Lemma sweep_obs_unrolled : sweep (obs_ok (unrolled_step unrolled_tbl) c_unrolled_fn_obs) = true.
Proof. vm_compute. reflexivity. Qed.

Lemma c_table_fn_observed s b : s < 9 -> b < 256 -> obs_ok (dfa_step dfa_c) c_table_fn_obs s b = true.
Proof. exact (sweep_spec _ sweep_obs_table s b). Qed.
Lemma c_unrolled_fn_observed s b : s < 9 -> b < 256 -> obs_ok (unrolled_step unrolled_tbl) c_unrolled_fn_obs s b = true.
Proof. exact (sweep_spec _ sweep_obs_unrolled s b). Qed.


(* ---------- the reference machine ---------- *)

Lemma run_app step s a b : dfa_run step s (a ++ b) = dfa_run step (dfa_run step s a) b.
Proof. unfold dfa_run. apply fold_left_app. Qed.

Ltac cases_s s H :=
  let E := fresh "E" in
  assert (E : s = 0 \/ s = 1 \/ s = 2 \/ s = 3 \/ s = 4 \/ s = 5 \/ s = 6 \/ s = 7 \/ s = 8) by lia;
  clear H; destruct E as [E|[E|[E|[E|[E|[E|[E|[E|E]]]]]]]]; subst s.

(* decide every comparison whose truth follows from the hypotheses by lia *)
Ltac decide_cmps :=
  repeat match goal with
  | |- context [?a <=? ?b] =>
      first [ rewrite (proj2 (N.leb_le a b)) by lia | rewrite (proj2 (N.leb_gt a b)) by lia ]
  | |- context [?a =? ?b] =>
      first [ rewrite (proj2 (N.eqb_eq a b)) by lia | rewrite (proj2 (N.eqb_neq a b)) by lia ]
  end.

Ltac split_cmps :=
  repeat match goal with
  | |- context [?a <=? ?b] => let E := fresh "E" in destruct (a <=? b) eqn:E; [apply N.leb_le in E | apply N.leb_gt in E]
  | |- context [?a =? ?b] => let E := fresh "E" in destruct (a =? b) eqn:E; [apply N.eqb_eq in E | apply N.eqb_neq in E]
  end.

Lemma rfc_step_closed s b : rfc_step s b < 9.
Proof.
  unfold rfc_step.
  destruct s as [|p]; [|do 4 (try destruct p as [p|p|])];
    repeat (match goal with |- (if ?c then _ else _) < _ => destruct c end); reflexivity.
Qed.

Lemma rfc_step_reject b : rfc_step 1 b = 1.
Proof. reflexivity. Qed.

Lemma run_reject bs : dfa_run rfc_step 1 bs = 1.
Proof. induction bs as [|b r IH]; [reflexivity|]. exact IH. Qed.

Lemma run_closed bs : forall s, s < 9 -> dfa_run rfc_step s bs < 9.
Proof.
  induction bs as [|b r IH]; intros s Hs; [exact Hs|]. cbn. apply IH. apply rfc_step_closed.
Qed.

(* what state s still expects before the next code point boundary *)
Definition wf_from (s : N) (bs : list N) : bool :=
  match s with
  | 0 => wf_utf8 bs
  | 2 => match bs with b1 :: r => is_tail b1 && wf_utf8 r | _ => false end
  | 3 => match bs with b1 :: b2 :: r => is_tail b1 && is_tail b2 && wf_utf8 r | _ => false end
  | 4 => match bs with b1 :: b2 :: r => inr 0xA0 0xBF b1 && is_tail b2 && wf_utf8 r | _ => false end
  | 5 => match bs with b1 :: b2 :: r => inr 0x80 0x9F b1 && is_tail b2 && wf_utf8 r | _ => false end
  | 6 => match bs with b1 :: b2 :: b3 :: r => inr 0x90 0xBF b1 && is_tail b2 && is_tail b3 && wf_utf8 r | _ => false end
  | 7 => match bs with b1 :: b2 :: b3 :: r => is_tail b1 && is_tail b2 && is_tail b3 && wf_utf8 r | _ => false end
  | 8 => match bs with b1 :: b2 :: b3 :: r => inr 0x80 0x8F b1 && is_tail b2 && is_tail b3 && wf_utf8 r | _ => false end
  | _ => false
  end.

Lemma wf_from_nil s : s < 9 -> wf_from s [] = (s =? 0).
Proof. intros Hs. cases_s s Hs; reflexivity. Qed.

Lemma wf_from_reject bs : wf_from 1 bs = false.
Proof. reflexivity. Qed.

Lemma wf_utf8_cons b0 r0 :
  wf_utf8 (b0 :: r0) =
    ((b0 <=? 0x7F) && wf_utf8 r0
    || match r0 with
       | [] => false
       | b1 :: r1 =>
         inr 0xC2 0xDF b0 && is_tail b1 && wf_utf8 r1
         || match r1 with
            | [] => false
            | b2 :: r2 =>
              ((b0 =? 0xE0) && inr 0xA0 0xBF b1 || inr 0xE1 0xEC b0 && is_tail b1
               || (b0 =? 0xED) && inr 0x80 0x9F b1 || inr 0xEE 0xEF b0 && is_tail b1)
              && is_tail b2 && wf_utf8 r2
              || match r2 with
                 | [] => false
                 | b3 :: r3 =>
                   ((b0 =? 0xF0) && inr 0x90 0xBF b1 || inr 0xF1 0xF3 b0 && is_tail b1
                    || (b0 =? 0xF4) && inr 0x80 0x8F b1)
                   && is_tail b2 && is_tail b3 && wf_utf8 r3
                 end
            end
       end).
Proof. reflexivity. Qed.

(* one octet of the reference machine consumes one octet of the grammar *)
Lemma wf_from_step s b r : s < 9 -> wf_from s (b :: r) = wf_from (rfc_step s b) r.
Proof.
  intros Hs. cases_s s Hs.
  - (* on a boundary: classify the lead octet *)
    unfold wf_from at 1. rewrite wf_utf8_cons. unfold rfc_step, inr.
    assert (C : b <= 0x7F \/ (0x80 <= b <= 0xC1) \/ (0xC2 <= b <= 0xDF) \/ b = 0xE0 \/ (0xE1 <= b <= 0xEC)
                \/ b = 0xED \/ (0xEE <= b <= 0xEF) \/ b = 0xF0 \/ (0xF1 <= b <= 0xF3) \/ b = 0xF4 \/ 0xF5 <= b) by lia.
    destruct C as [C|[C|[C|[C|[C|[C|[C|[C|[C|[C|C]]]]]]]]]]; try subst b;
      decide_cmps; cbn [andb orb wf_from];
      destruct r as [|b1 [|b2 [|b3 r3]]]; cbn [andb orb];
      rewrite ?andb_false_r, ?orb_false_r; try reflexivity.
  - reflexivity.
  - unfold wf_from at 1, rfc_step, is_tail. destruct (inr 128 191 b); reflexivity.
  - unfold wf_from at 1, rfc_step, is_tail. destruct (inr 128 191 b); destruct r as [|? [|? ?]]; reflexivity.
  - unfold wf_from at 1, rfc_step. destruct (inr 160 191 b); destruct r as [|? [|? ?]]; reflexivity.
  - unfold wf_from at 1, rfc_step. destruct (inr 128 159 b); destruct r as [|? [|? ?]]; reflexivity.
  - unfold wf_from at 1, rfc_step. destruct (inr 144 191 b); destruct r as [|? [|? ?]]; reflexivity.
  - unfold wf_from at 1, rfc_step, is_tail. destruct (inr 128 191 b); destruct r as [|? [|? ?]]; reflexivity.
  - unfold wf_from at 1, rfc_step. destruct (inr 128 143 b); destruct r as [|? [|? ?]]; reflexivity.
Qed.

Lemma wf_from_run bs : forall s ext, s < 9 -> wf_from s (bs ++ ext) = wf_from (dfa_run rfc_step s bs) ext.
Proof.
  induction bs as [|b r IH]; intros s ext Hs; [reflexivity|].
  cbn [app]. rewrite wf_from_step by exact Hs. cbn. apply IH. apply rfc_step_closed.
Qed.

Lemma accepts_iff_wf_from bs s : s < 9 -> (dfa_run rfc_step s bs =? 0) = wf_from s bs.
Proof.
  intros Hs. rewrite <- (app_nil_r bs) at 2. rewrite wf_from_run by exact Hs.
  rewrite wf_from_nil by (apply run_closed; exact Hs). reflexivity.
Qed.

Lemma accepts_iff_wf bs : (dfa_run rfc_step 0 bs =? 0) = wf_utf8 bs.
Proof. apply (accepts_iff_wf_from bs 0). lia. Qed.


Lemma nlen_nil : nlen [] = 0. Proof. reflexivity. Qed.
Lemma nlen_cons b r : nlen (b :: r) = 1 + nlen r.
Proof. unfold nlen. cbn [length]. lia. Qed.
Lemma nlen_app a b : nlen (a ++ b) = nlen a + nlen b.
Proof. unfold nlen. rewrite app_length. lia. Qed.

Lemma bytes_ok_cons b r : bytes_ok (b :: r) <-> b < 256 /\ bytes_ok r.
Proof. unfold bytes_ok. split; [intros H; inversion H; auto | intros [H1 H2]; constructor; auto]. Qed.
Lemma bytes_ok_app a b : bytes_ok (a ++ b) <-> bytes_ok a /\ bytes_ok b.
Proof. unfold bytes_ok. apply Forall_app. Qed.
Lemma bytes_ok_nil : bytes_ok []. Proof. constructor. Qed.

(* ---------- first_bad: the reference machine's first rejecting offset ---------- *)
Lemma first_bad_shift bs : forall s i, first_bad s i bs = option_map (N.add i) (first_bad s 0 bs).
Proof.
  induction bs as [|b r IH]; intros s i; [reflexivity|]. cbn [first_bad].
  destruct (rfc_step s b =? 1); [unfold option_map; f_equal; lia|].
  rewrite (IH _ (i + 1)), (IH _ (0 + 1)). destruct (first_bad (rfc_step s b) 0 r); unfold option_map; [f_equal; lia|reflexivity].
Qed.

Lemma first_bad_app a : forall s i b,
  first_bad s i (a ++ b) =
    match first_bad s i a with Some j => Some j | None => first_bad (dfa_run rfc_step s a) (i + nlen a) b end.
Proof.
  induction a as [|x a IH]; intros s i b.
  - cbn [app first_bad dfa_run fold_left]. rewrite nlen_nil, N.add_0_r. reflexivity.
  - cbn [app first_bad]. destruct (rfc_step s x =? 1); [reflexivity|].
    rewrite IH, nlen_cons. cbn [dfa_run fold_left]. replace (i + 1 + nlen a) with (i + (1 + nlen a)) by lia. reflexivity.
Qed.

(* no rejecting offset <-> the machine is not in the reject state at the end *)
Lemma first_bad_none bs : forall s i, s <> 1 -> (first_bad s i bs = None <-> dfa_run rfc_step s bs <> 1).
Proof.
  induction bs as [|b r IH]; intros s i Hs.
  - cbn. tauto.
  - cbn [first_bad dfa_run fold_left]. destruct (rfc_step s b =? 1) eqn:E.
    + apply N.eqb_eq in E. rewrite E. change (fold_left rfc_step r 1) with (dfa_run rfc_step 1 r).
      rewrite run_reject. split; [discriminate | congruence].
    + apply N.eqb_neq in E. apply IH. exact E.
Qed.

Lemma first_bad_some_run bs : forall s i j, first_bad s i bs = Some j -> dfa_run rfc_step s bs = 1.
Proof.
  induction bs as [|b r IH]; intros s i j H; [discriminate|].
  cbn [first_bad] in H. cbn [dfa_run fold_left]. destruct (rfc_step s b =? 1) eqn:E.
  - apply N.eqb_eq in E. rewrite E. apply run_reject.
  - eapply IH. exact H.
Qed.

(* position facts: i <= j < i + length, the prefix before j has no rejecting offset, the prefix including j rejects *)
Lemma first_bad_some bs : forall s i j, first_bad s i bs = Some j ->
  exists k : nat, j = i + N.of_nat k /\ (k < length bs)%nat /\
                  first_bad s i (firstn k bs) = None /\ dfa_run rfc_step s (firstn (S k) bs) = 1.
Proof.
  induction bs as [|b r IH]; intros s i j H; [discriminate|].
  cbn [first_bad] in H. destruct (rfc_step s b =? 1) eqn:E.
  - inversion H; subst j. exists 0%nat. cbn. apply N.eqb_eq in E. repeat split; [lia|lia|exact E].
  - destruct (IH _ _ _ H) as (k & Hj & Hk & Hn & Hr).
    exists (S k). repeat split.
    + lia.
    + cbn [length]. lia.
    + cbn [firstn first_bad]. rewrite E. exact Hn.
    + cbn [firstn dfa_run fold_left]. exact Hr.
Qed.

(* ---------- viability ---------- *)
Definition completion (s : N) : list N :=
  match s with
  | 2 => [0x80] | 3 => [0x80; 0x80] | 4 => [0xA0; 0x80] | 5 => [0x80; 0x80]
  | 6 => [0x90; 0x80; 0x80] | 7 => [0x80; 0x80; 0x80] | 8 => [0x80; 0x80; 0x80]
  | _ => []
  end.

Lemma completion_ok s : s < 9 -> s <> 1 -> bytes_ok (completion s) /\ dfa_run rfc_step s (completion s) = 0.
Proof.
  intros Hs H1. cases_s s Hs; try congruence; (split; [repeat constructor | reflexivity]).
Qed.

Lemma wf_app_run a b : wf_utf8 (a ++ b) = wf_from (dfa_run rfc_step 0 a) b.
Proof. change (wf_utf8 (a ++ b)) with (wf_from 0 (a ++ b)). apply wf_from_run. lia. Qed.

Lemma viable_iff_run bs : viable bs <-> dfa_run rfc_step 0 bs <> 1.
Proof.
  unfold viable. split.
  - intros (ext & _ & H) E. rewrite wf_app_run, E in H. discriminate.
  - intros H. assert (Hs : dfa_run rfc_step 0 bs < 9) by (apply run_closed; lia).
    destruct (completion_ok _ Hs H) as [Hb Hc].
    exists (completion (dfa_run rfc_step 0 bs)). split; [exact Hb|].
    rewrite <- accepts_iff_wf, run_app, Hc. reflexivity.
Qed.

(* strong negative: once the machine rejects, NO continuation (octets or not) is well-formed *)
Lemma rejected_never_wf bs : dfa_run rfc_step 0 bs = 1 -> forall ext, wf_utf8 (bs ++ ext) = false.
Proof. intros H ext. rewrite wf_app_run, H. reflexivity. Qed.

Lemma viable_iff_first_bad bs : viable bs <-> first_bad 0 0 bs = None.
Proof. rewrite viable_iff_run. symmetry. apply first_bad_none. lia. Qed.

Lemma wf_viable bs : wf_utf8 bs = true -> viable bs.
Proof. intros H. exists []. split; [constructor|]. rewrite app_nil_r. exact H. Qed.

(* the reference result, characterised declaratively *)
Lemma first_bad_offender bs i : first_bad 0 0 bs = Some i ->
  i < nlen bs /\ viable (firstn (N.to_nat i) bs) /\
  (forall ext, wf_utf8 (firstn (N.to_nat i + 1) bs ++ ext) = false).
Proof.
  intros H. destruct (first_bad_some _ _ _ _ H) as (k & Hj & Hk & Hn & Hr).
  assert (N.to_nat i = k) as -> by lia. repeat split.
  - unfold nlen. lia.
  - apply viable_iff_first_bad. exact Hn.
  - replace (k + 1)%nat with (S k) by lia. apply rejected_never_wf. exact Hr.
Qed.

(* ---------- the loops, given any step function that agrees with the reference on states < 9, octets < 256 ---------- *)
Section Loops.
  Variable step : N -> N -> N.
  Hypothesis Hstep : forall s b, s < 9 -> b < 256 -> step s b = rfc_step s b.

  Lemma c_loop_spec ba : forall s i, s < 9 -> s <> 1 -> bytes_ok ba ->
    c_loop step s i ba =
      match first_bad s i ba with Some j => (1, Some j) | None => (dfa_run rfc_step s ba, None) end.
  Proof.
    induction ba as [|b r IH]; intros s i Hs H1 Hb; [reflexivity|].
    apply bytes_ok_cons in Hb. destruct Hb as [Hb Hr].
    cbn [c_loop first_bad dfa_run fold_left]. rewrite (proj2 (N.eqb_neq s 1)) by exact H1.
    rewrite Hstep by assumption. destruct (rfc_step s b =? 1) eqn:E.
    - apply N.eqb_eq in E. rewrite E. reflexivity.
    - apply N.eqb_neq in E. apply IH; [apply rfc_step_closed|exact E|exact Hr].
  Qed.

  (* entered in the reject state, the C loop does not look at the data at all *)
  Lemma c_loop_rejected ba i : c_loop step 1 i ba = (1, None).
  Proof. destruct ba; reflexivity. Qed.
End Loops.

Section PyLoop.
  Variable tbl : list N.
  Hypothesis Htbl : forall s b, s < 9 -> b < 256 -> dfa_step tbl s b = rfc_step s b.

  Lemma py_loop_spec ba : forall s i, s < 9 -> bytes_ok ba ->
    py_loop tbl s i ba =
      match first_bad s i ba with Some j => (1, Some j) | None => (dfa_run rfc_step s ba, None) end.
  Proof.
    induction ba as [|b r IH]; intros s i Hs Hb; [reflexivity|].
    apply bytes_ok_cons in Hb. destruct Hb as [Hb Hr].
    cbn [py_loop first_bad dfa_run fold_left]. rewrite Htbl by assumption.
    destruct (rfc_step s b =? 1) eqn:E.
    - apply N.eqb_eq in E. rewrite E. reflexivity.
    - apply IH; [apply rfc_step_closed|exact Hr].
  Qed.

  (* entered in the reject state with a non-empty chunk, Python bails out at offset 0 *)
  Lemma py_loop_rejected b r i : b < 256 -> py_loop tbl 1 i (b :: r) = (1, Some i).
  Proof. intros Hb. cbn [py_loop]. rewrite Htbl by (lia || exact Hb). reflexivity. Qed.
End PyLoop.


(* ---------- the reference result, characterised declaratively (no state machine in the statements) ---------- *)
Lemma ref_result_valid prev c :
  r_valid (ref_result prev c) = true <-> viable (prev ++ c).
Proof.
  unfold ref_result. rewrite viable_iff_first_bad.
  destruct (first_bad 0 0 (prev ++ c)); cbn; split; congruence.
Qed.

Lemma not_viable_not_wf bs : first_bad 0 0 bs <> None -> wf_utf8 bs = false.
Proof.
  intros H. destruct (wf_utf8 bs) eqn:E; [|reflexivity].
  exfalso. apply H. apply viable_iff_first_bad. apply wf_viable. exact E.
Qed.

Lemma ref_result_ends prev c : r_ends (ref_result prev c) = wf_utf8 (prev ++ c).
Proof.
  unfold ref_result. destruct (first_bad 0 0 (prev ++ c)) eqn:E; cbn; [|reflexivity].
  symmetry. apply not_viable_not_wf. congruence.
Qed.

Lemma ref_result_when_valid prev c e i t : ref_result prev c = (true, e, i, t) ->
  e = wf_utf8 (prev ++ c) /\ i = nlen c /\ t = nlen (prev ++ c).
Proof.
  unfold ref_result. destruct (first_bad 0 0 (prev ++ c)); intros H; inversion H; subst.
  rewrite nlen_app. auto.
Qed.

Lemma ref_result_when_invalid prev c e i t : ref_result prev c = (false, e, i, t) ->
  e = false /\ i = t - nlen prev /\ t < nlen (prev ++ c) /\
  viable (firstn (N.to_nat t) (prev ++ c)) /\
  (forall ext, wf_utf8 (firstn (N.to_nat t + 1) (prev ++ c) ++ ext) = false).
Proof.
  unfold ref_result. destruct (first_bad 0 0 (prev ++ c)) eqn:E; intros H; inversion H; subst.
  destruct (first_bad_offender _ _ E) as (H1 & H2 & H3). auto.
Qed.

(* the offender lies in the current chunk exactly when everything fed before was still viable *)
Lemma ref_result_offender_in_chunk prev c e i t :
  viable prev -> ref_result prev c = (false, e, i, t) -> nlen prev <= t /\ t = nlen prev + i /\ i < nlen c.
Proof.
  intros Hv. apply viable_iff_first_bad in Hv. unfold ref_result.
  rewrite first_bad_app, Hv. rewrite first_bad_shift.
  destruct (first_bad (dfa_run rfc_step 0 prev) 0 c) eqn:E; cbn; intros H; inversion H; subst.
  destruct (first_bad_some _ _ _ _ E) as (k & Hj & Hk & _). unfold nlen. lia.
Qed.

(* ---------- pure Python ---------- *)
Section Py.
  Variable tbl : list N.
  Hypothesis Htbl : forall s b, s < 9 -> b < 256 -> dfa_step tbl s b = rfc_step s b.

  Lemma py_validate_spec v ba : py_state v < 9 -> bytes_ok ba ->
    py_validate tbl v ba =
      match first_bad (py_state v) 0 ba with
      | Some j => ({| py_state := 1; py_index := py_index v + j |}, (false, false, j, py_index v + j))
      | None => ({| py_state := dfa_run rfc_step (py_state v) ba; py_index := py_index v + nlen ba |},
                 (negb (dfa_run rfc_step (py_state v) ba =? 1), dfa_run rfc_step (py_state v) ba =? 0, nlen ba,
                  py_index v + nlen ba))
      end.
  Proof.
    intros Hs Hb. unfold py_validate. rewrite (py_loop_spec tbl Htbl) by assumption.
    destruct (first_bad (py_state v) 0 ba); reflexivity.
  Qed.

  (* the validator object after the octets [prev] have been fed, in whatever chunks *)
  Definition py_after (prev : list N) : pyv :=
    {| py_state := dfa_run rfc_step 0 prev;
       py_index := match first_bad 0 0 prev with None => nlen prev | Some i => i end |}.

  (* one more call returns the reference result - whatever was fed before, whatever the chunk (empty included) *)
  Lemma py_step prev c : bytes_ok prev -> bytes_ok c ->
    py_validate tbl (py_after prev) c = (py_after (prev ++ c), ref_result prev c).
  Proof.
    intros Hp Hc. rewrite py_validate_spec by (first [exact Hc | cbn; apply run_closed; lia]).
    unfold py_after, ref_result. cbn [py_state py_index].
    rewrite first_bad_app, run_app. destruct (first_bad 0 0 prev) as [i|] eqn:E.
    - (* already rejected *)
      rewrite (first_bad_some_run _ _ _ _ E), run_reject.
      destruct (first_bad_some _ _ _ _ E) as (k & Hj & Hk & _).
      replace (i - nlen prev) with 0 by (unfold nlen; lia).
      destruct c as [|b r].
      + cbn [first_bad dfa_run fold_left nlen length N.eqb Pos.eqb negb]. rewrite N.add_0_r. reflexivity.
      + cbn [first_bad]. rewrite rfc_step_reject. cbn [N.eqb Pos.eqb]. rewrite N.add_0_r. reflexivity.
    - assert (H1 : dfa_run rfc_step 0 prev <> 1) by (apply (first_bad_none prev 0 0); [lia|exact E]).
      rewrite (first_bad_shift c _ (0 + nlen prev)).
      destruct (first_bad (dfa_run rfc_step 0 prev) 0 c) as [j|] eqn:Ec; cbn [option_map].
      + rewrite (first_bad_some_run _ _ _ _ Ec).
        replace (0 + nlen prev + j - nlen prev) with j by lia.
        replace (0 + nlen prev + j) with (nlen prev + j) by lia. reflexivity.
      + assert (H2 : dfa_run rfc_step (dfa_run rfc_step 0 prev) c <> 1)
          by (apply (first_bad_none c _ 0); [exact H1|exact Ec]).
        rewrite (proj2 (N.eqb_neq _ _) H2). cbn [negb].
        rewrite nlen_app. rewrite <- run_app, accepts_iff_wf. reflexivity.
  Qed.

  Lemma py_feed_spec chunks : forall prev, bytes_ok prev -> Forall bytes_ok chunks ->
    feed (py_validate tbl) (py_after prev) chunks = (py_after (prev ++ concat chunks), ref_feed prev chunks).
  Proof.
    induction chunks as [|c cs IH]; intros prev Hp Hc.
    - cbn. rewrite app_nil_r. reflexivity.
    - inversion Hc; subst. cbn [feed concat ref_feed].
      rewrite py_step by assumption. rewrite IH by (try apply bytes_ok_app; auto).
      rewrite app_assoc. reflexivity.
  Qed.

  Lemma py_reset_after : py_reset = py_after [].
  Proof. reflexivity. Qed.

  Lemma py_single bs : bytes_ok bs -> py_validate tbl py_reset bs = (py_after bs, ref_result [] bs).
  Proof. intros H. rewrite py_reset_after. rewrite py_step by (auto using bytes_ok_nil). reflexivity. Qed.

  (* every call of every chunking (empty chunks included) returns the reference 4-tuple, and the object ends in
     the state one call on the concatenation leaves *)
  Lemma py_chunking_full chunks : Forall bytes_ok chunks ->
    feed (py_validate tbl) py_reset chunks = (fst (py_validate tbl py_reset (concat chunks)), ref_feed [] chunks).
  Proof.
    intros H. rewrite py_reset_after at 1. rewrite py_feed_spec by (auto using bytes_ok_nil).
    rewrite py_single; [reflexivity|]. unfold bytes_ok. apply Forall_concat. exact H.
  Qed.

  (* after a reject every further call, whatever the chunk, rejects at offset 0 and keeps the total index *)
  Lemma py_after_reject v ba : py_state v = 1 -> bytes_ok ba ->
    py_validate tbl v ba = (v, (false, false, 0, py_index v)).
  Proof.
    intros Hs Hb. destruct v as [s i]. cbn in Hs. subst s. unfold py_validate. cbn [py_state py_index].
    destruct ba as [|b r].
    - cbn [py_loop nlen length N.eqb Pos.eqb negb]. rewrite N.add_0_r. reflexivity.
    - apply bytes_ok_cons in Hb. rewrite (py_loop_rejected tbl Htbl) by apply Hb. rewrite N.add_0_r. reflexivity.
  Qed.
End Py.

(* ---------- NVX ---------- *)
Section Nvx.
  Variables tbl utbl : list N.
  Hypothesis Htbl : forall s b, s < 9 -> b < 256 -> dfa_step tbl s b = rfc_step s b.
  Hypothesis Hutbl : forall s b, s < 9 -> b < 256 -> unrolled_step utbl s b = rfc_step s b.

  Lemma c_validate_with_spec step v ba :
    (forall s b, s < 9 -> b < 256 -> step s b = rfc_step s b) ->
    c_state v < 9 -> c_state v <> 1 -> bytes_ok ba ->
    c_validate_with step v ba =
      match first_bad (c_state v) 0 ba with
      | Some j => ({| c_state := 1; c_cur := j; c_tot := c_tot v + j; c_impl := c_impl v |}, (-1)%Z)
      | None => ({| c_state := dfa_run rfc_step (c_state v) ba; c_cur := nlen ba; c_tot := c_tot v + nlen ba;
                    c_impl := c_impl v |},
                 if dfa_run rfc_step (c_state v) ba =? 0 then 0%Z else 1%Z)
      end.
  Proof.
    intros Hstep Hs H1 Hb. unfold c_validate_with. rewrite (proj2 (N.eqb_neq _ _) H1).
    rewrite (c_loop_spec step Hstep) by assumption.
    destruct (first_bad (c_state v) 0 ba); reflexivity.
  Qed.

  Lemma nvx_validate_spec v ba : c_state v < 9 -> c_state v <> 1 -> bytes_ok ba ->
    nvx_validate tbl utbl v ba =
      match first_bad (c_state v) 0 ba with
      | Some j => ({| c_state := 1; c_cur := j; c_tot := c_tot v + j; c_impl := c_impl v |},
                   (false, false, j, c_tot v + j))
      | None => ({| c_state := dfa_run rfc_step (c_state v) ba; c_cur := nlen ba; c_tot := c_tot v + nlen ba;
                    c_impl := c_impl v |},
                 (true, dfa_run rfc_step (c_state v) ba =? 0, nlen ba, c_tot v + nlen ba))
      end.
  Proof.
    intros Hs H1 Hb. unfold nvx_validate, c_validate.
    destruct (c_impl v =? 2);
      (rewrite c_validate_with_spec by assumption;
       destruct (first_bad (c_state v) 0 ba); [reflexivity|];
       destruct (dfa_run rfc_step (c_state v) ba =? 0); reflexivity).
  Qed.

  (* entered in the reject state: the data is not looked at, the call reports invalid at offset 0 and leaves the
     state and the total index as they are *)
  Lemma nvx_after_reject v ba : c_state v = 1 ->
    nvx_validate tbl utbl v ba =
      ({| c_state := 1; c_cur := 0; c_tot := c_tot v; c_impl := c_impl v |}, (false, false, 0, c_tot v)).
  Proof.
    intros Hs. unfold nvx_validate, c_validate, c_validate_with. rewrite Hs.
    destruct (c_impl v =? 2); reflexivity.
  Qed.

  (* the object after the octets [prev], in whatever chunks (current_index is overwritten by every call) *)
  Definition c_after (prev : list N) (v : cv) : Prop :=
    c_state v = dfa_run rfc_step 0 prev /\
    c_tot v = match first_bad 0 0 prev with None => nlen prev | Some i => i end.

  Lemma nvx_step prev v c : c_after prev v -> bytes_ok c ->
    snd (nvx_validate tbl utbl v c) = ref_result prev c /\
    c_after (prev ++ c) (fst (nvx_validate tbl utbl v c)) /\
    c_impl (fst (nvx_validate tbl utbl v c)) = c_impl v.
  Proof.
    intros [Hs Ht] Hc. unfold ref_result, c_after. rewrite first_bad_app, run_app.
    destruct (first_bad 0 0 prev) as [i|] eqn:E.
    - (* already rejected *)
      assert (H1 : c_state v = 1) by (rewrite Hs; apply (first_bad_some_run _ _ _ _ E)).
      rewrite (nvx_after_reject v c H1). cbn [fst snd c_state c_tot c_impl].
      destruct (first_bad_some _ _ _ _ E) as (k & Hj & Hk & _).
      rewrite (first_bad_some_run _ _ _ _ E), run_reject, Ht.
      replace (i - nlen prev) with 0 by (unfold nlen; lia). auto.
    - assert (H1 : c_state v <> 1) by (rewrite Hs; apply (first_bad_none prev 0 0); [lia|exact E]).
      assert (H9 : c_state v < 9) by (rewrite Hs; apply run_closed; lia).
      rewrite nvx_validate_spec by assumption.
      rewrite (first_bad_shift c _ (0 + nlen prev)), Hs, Ht.
      destruct (first_bad (dfa_run rfc_step 0 prev) 0 c) as [j|] eqn:Ec; cbn [option_map fst snd c_state c_tot c_impl].
      + rewrite (first_bad_some_run _ _ _ _ Ec).
        replace (0 + nlen prev + j - nlen prev) with j by lia.
        replace (0 + nlen prev + j) with (nlen prev + j) by lia. auto.
      + rewrite nlen_app. rewrite <- run_app, accepts_iff_wf. auto.
  Qed.

  Lemma nvx_feed_spec chunks : forall prev v, c_after prev v -> Forall bytes_ok chunks ->
    snd (feed (nvx_validate tbl utbl) v chunks) = ref_feed prev chunks /\
    c_after (prev ++ concat chunks) (fst (feed (nvx_validate tbl utbl) v chunks)) /\
    c_impl (fst (feed (nvx_validate tbl utbl) v chunks)) = c_impl v.
  Proof.
    induction chunks as [|c cs IH]; intros prev v Ha Hb.
    - cbn. rewrite app_nil_r. auto.
    - inversion Hb; subst. destruct (nvx_step prev v c Ha) as (Hr & Hn & Hi); [assumption|].
      cbn [feed ref_feed concat]. destruct (nvx_validate tbl utbl v c) as [v1 r] eqn:Ev. cbn [fst snd] in Hr, Hn, Hi.
      destruct (IH (prev ++ c) v1 Hn) as (Hr2 & Hn2 & Hi2); [assumption|].
      destruct (feed (nvx_validate tbl utbl) v1 cs) as [v2 rs] eqn:Ef. cbn [fst snd] in *.
      subst r rs. rewrite app_assoc. split; [reflexivity|split; [exact Hn2|congruence]].
  Qed.

  Lemma c_after_fresh v : c_state v = 0 -> c_tot v = 0 -> c_after [] v.
  Proof. intros H1 H2. split; assumption. Qed.

  Lemma nvx_chunking_full v chunks : c_state v = 0 -> c_tot v = 0 -> Forall bytes_ok chunks ->
    snd (feed (nvx_validate tbl utbl) v chunks) = ref_feed [] chunks.
  Proof. intros H1 H2 Hb. apply (nvx_feed_spec chunks [] v); [apply c_after_fresh; assumption|exact Hb]. Qed.

  Lemma nvx_single v bs : c_state v = 0 -> c_tot v = 0 -> bytes_ok bs ->
    snd (nvx_validate tbl utbl v bs) = ref_result [] bs.
  Proof.
    intros H1 H2 Hb. destruct (nvx_step [] v bs) as (Hr & _); [apply c_after_fresh; assumption|exact Hb|].
    exact Hr.
  Qed.
End Nvx.

(* ---------- Part 5: instances for the generated tables ---------- *)
Lemma res3_ref_result prev c : res3 (ref_result prev c) = res3 (ref_result [] (prev ++ c)).
Proof.
  unfold ref_result. cbn [app]. destruct (first_bad 0 0 (prev ++ c)); cbn [res3 nlen length]; [reflexivity|].
  rewrite nlen_app. reflexivity.
Qed.

Lemma ref_feed_snoc cs : forall prev c,
  ref_feed prev (cs ++ [c]) = ref_feed prev cs ++ [ref_result (prev ++ concat cs) c].
Proof.
  induction cs as [|x cs IH]; intros prev c.
  - cbn. rewrite app_nil_r. reflexivity.
  - cbn [app ref_feed concat]. rewrite IH, app_assoc. reflexivity.
Qed.

Lemma concat_snoc (cs : list (list N)) c : concat (cs ++ [c]) = concat cs ++ c.
Proof. rewrite concat_app. cbn. rewrite app_nil_r. reflexivity. Qed.

Lemma last_snoc {A} (l : list A) x d : last (l ++ [x]) d = x.
Proof. induction l as [|y l IH]; [reflexivity|]. cbn [app]. destruct (l ++ [x]) eqn:E; [destruct l; discriminate|exact IH]. Qed.

Lemma bytes_ok_concat chunks : Forall bytes_ok chunks -> bytes_ok (concat chunks).
Proof. intros H. unfold bytes_ok. apply Forall_concat. exact H. Qed.

(* the last reference result of a chunked feed is, up to the chunk-relative index, the one of the concatenation *)
Lemma ref_feed_last chunks d : chunks <> [] ->
  res3 (last (ref_feed [] chunks) d) = res3 (ref_result [] (concat chunks)).
Proof.
  intros Hn. destruct (exists_last Hn) as (cs & c & ->).
  rewrite ref_feed_snoc, last_snoc, concat_snoc. cbn [app]. apply res3_ref_result.
Qed.

(* --- pure Python, table read from utf8validator.py --- *)
Lemma py_meets_reference bs : bytes_ok bs -> snd (py_validate dfa_py py_reset bs) = ref_result [] bs.
Proof. intros H. rewrite (py_single dfa_py transitions_py) by exact H. reflexivity. Qed.

Lemma ref_accepts_exactly_wf bs : r_valid (ref_result [] bs) && r_ends (ref_result [] bs) = wf_utf8 bs.
Proof.
  pose proof (ref_result_ends [] bs) as He. cbn [app] in He. rewrite He.
  destruct (r_valid (ref_result [] bs)) eqn:E; [reflexivity|].
  cbn [andb]. symmetry. apply not_viable_not_wf. intros Hn.
  apply viable_iff_first_bad in Hn. apply (ref_result_valid [] bs) in Hn. congruence.
Qed.

Lemma py_accepts_exactly_wf bs : bytes_ok bs ->
  r_valid (snd (py_validate dfa_py py_reset bs)) && r_ends (snd (py_validate dfa_py py_reset bs)) = wf_utf8 bs.
Proof. intros H. rewrite py_meets_reference by exact H. apply ref_accepts_exactly_wf. Qed.

Lemma py_valid_iff_viable bs : bytes_ok bs ->
  (r_valid (snd (py_validate dfa_py py_reset bs)) = true <-> viable bs).
Proof. intros H. rewrite py_meets_reference by exact H. apply (ref_result_valid [] bs). Qed.

Lemma py_ends_on_boundary bs : bytes_ok bs ->
  r_ends (snd (py_validate dfa_py py_reset bs)) = wf_utf8 bs /\
  (r_valid (snd (py_validate dfa_py py_reset bs)) = true ->
   r_cur (snd (py_validate dfa_py py_reset bs)) = nlen bs /\ r_tot (snd (py_validate dfa_py py_reset bs)) = nlen bs).
Proof.
  intros H. rewrite py_meets_reference by exact H. split; [apply (ref_result_ends [] bs)|].
  intros Hv. destruct (ref_result [] bs) as [[[v e] i] t] eqn:E. cbn in Hv. subst v.
  destruct (ref_result_when_valid _ _ _ _ _ E) as (_ & -> & ->). cbn. auto.
Qed.

Lemma ref_first_offender bs : r_valid (ref_result [] bs) = false ->
  r_ends (ref_result [] bs) = false /\ r_cur (ref_result [] bs) = r_tot (ref_result [] bs) /\
  r_tot (ref_result [] bs) < nlen bs /\
  viable (firstn (N.to_nat (r_tot (ref_result [] bs))) bs) /\
  (forall ext, wf_utf8 (firstn (N.to_nat (r_tot (ref_result [] bs)) + 1) bs ++ ext) = false).
Proof.
  intros Hv. destruct (ref_result [] bs) as [[[v e] i] t] eqn:E. cbn in Hv. subst v.
  destruct (ref_result_when_invalid _ _ _ _ _ E) as (-> & -> & H3 & H4 & H5). cbn [app] in *.
  cbn [r_ends r_cur r_tot fst snd]. rewrite nlen_nil, N.sub_0_r. auto.
Qed.

Lemma py_first_offender bs : bytes_ok bs ->
  let r := snd (py_validate dfa_py py_reset bs) in
  r_valid r = false ->
  r_ends r = false /\ r_cur r = r_tot r /\ r_tot r < nlen bs /\
  viable (firstn (N.to_nat (r_tot r)) bs) /\
  (forall ext, wf_utf8 (firstn (N.to_nat (r_tot r) + 1) bs ++ ext) = false).
Proof. intros H. cbv zeta. rewrite py_meets_reference by exact H. apply ref_first_offender. Qed.

Lemma py_chunking_every_call chunks : Forall bytes_ok chunks ->
  snd (feed (py_validate dfa_py) py_reset chunks) = ref_feed [] chunks.
Proof. intros H. rewrite (py_chunking_full dfa_py transitions_py) by exact H. reflexivity. Qed.

Lemma py_chunking_state_inst chunks : Forall bytes_ok chunks ->
  fst (feed (py_validate dfa_py) py_reset chunks) = fst (py_validate dfa_py py_reset (concat chunks)).
Proof. intros H. rewrite (py_chunking_full dfa_py transitions_py) by exact H. reflexivity. Qed.

Lemma py_chunking_independent : chunking_independent (py_validate dfa_py) py_reset.
Proof.
  intros chunks d Hn Hb. rewrite py_chunking_every_call by exact Hb.
  rewrite py_meets_reference by (apply bytes_ok_concat; exact Hb). apply ref_feed_last. exact Hn.
Qed.

Lemma py_after_reject_inst v ba : py_state v = 1 -> bytes_ok ba ->
  py_validate dfa_py v ba = (v, (false, false, 0, py_index v)).
Proof. apply (py_after_reject dfa_py transitions_py). Qed.

(* --- NVX: table and macro as compiled from _utf8validator.c; any implementation selector --- *)
Lemma nvx_meets_reference v bs : c_state v = 0 -> c_tot v = 0 -> bytes_ok bs ->
  snd (nvx_validate dfa_c unrolled_tbl v bs) = ref_result [] bs.
Proof. apply (nvx_single dfa_c unrolled_tbl transitions_c transitions_unrolled). Qed.

Lemma nvx_equals_py_single v bs : c_state v = 0 -> c_tot v = 0 -> bytes_ok bs ->
  snd (nvx_validate dfa_c unrolled_tbl v bs) = snd (py_validate dfa_py py_reset bs).
Proof. intros. rewrite nvx_meets_reference, py_meets_reference by assumption. reflexivity. Qed.

Lemma nvx_accepts_exactly_wf v bs : c_state v = 0 -> c_tot v = 0 -> bytes_ok bs ->
  r_valid (snd (nvx_validate dfa_c unrolled_tbl v bs)) && r_ends (snd (nvx_validate dfa_c unrolled_tbl v bs)) = wf_utf8 bs.
Proof. intros. rewrite nvx_meets_reference by assumption. apply ref_accepts_exactly_wf. Qed.

Lemma nvx_chunking_every_call v chunks : c_state v = 0 -> c_tot v = 0 -> Forall bytes_ok chunks ->
  snd (feed (nvx_validate dfa_c unrolled_tbl) v chunks) = ref_feed [] chunks.
Proof. apply (nvx_chunking_full dfa_c unrolled_tbl transitions_c transitions_unrolled). Qed.

Lemma nvx_py_agree_every_call v chunks : c_state v = 0 -> c_tot v = 0 -> Forall bytes_ok chunks ->
  snd (feed (nvx_validate dfa_c unrolled_tbl) v chunks) = snd (feed (py_validate dfa_py) py_reset chunks).
Proof. intros. rewrite nvx_chunking_every_call, py_chunking_every_call by assumption. reflexivity. Qed.

Lemma nvx_chunking_independent v : c_state v = 0 -> c_tot v = 0 ->
  chunking_independent (nvx_validate dfa_c unrolled_tbl) v.
Proof.
  intros H1 H2 chunks d Hn Hb. rewrite nvx_chunking_every_call by assumption.
  rewrite nvx_meets_reference by (try assumption; apply bytes_ok_concat; exact Hb). apply ref_feed_last. exact Hn.
Qed.

Lemma nvx_after_reject_inst v ba : c_state v = 1 ->
  snd (nvx_validate dfa_c unrolled_tbl v ba) = (false, false, 0, c_tot v).
Proof. intros H. rewrite (nvx_after_reject dfa_c unrolled_tbl) by exact H. reflexivity. Qed.

(* the model of nvx_utf8vld_set_impl against what the compiled function answered for impl = 1..4 *)
Lemma c_set_impl_observed :
  map (fun k => c_impl (c_set_impl c_impl_default (c_new c_impl_default) k)) [1; 2; 3; 4] = c_set_impl_result.
Proof. vm_compute. reflexivity. Qed.

Lemma ref_result_characterised prev c :
  (r_valid (ref_result prev c) = true <-> viable (prev ++ c)) /\
  r_ends (ref_result prev c) = wf_utf8 (prev ++ c) /\
  (forall e i t, ref_result prev c = (true, e, i, t) -> i = nlen c /\ t = nlen (prev ++ c)) /\
  (forall e i t, ref_result prev c = (false, e, i, t) ->
     e = false /\ i = t - nlen prev /\ t < nlen (prev ++ c) /\
     viable (firstn (N.to_nat t) (prev ++ c)) /\
     (forall ext, wf_utf8 (firstn (N.to_nat t + 1) (prev ++ c) ++ ext) = false)) /\
  (forall e i t, viable prev -> ref_result prev c = (false, e, i, t) -> t = nlen prev + i /\ i < nlen c).
Proof.
  split; [apply ref_result_valid|]. split; [apply ref_result_ends|]. split; [|split].
  - intros e i t H. destruct (ref_result_when_valid _ _ _ _ _ H) as (_ & H1 & H2). auto.
  - intros e i t H. apply (ref_result_when_invalid _ _ _ _ _ H).
  - intros e i t Hv H. destruct (ref_result_offender_in_chunk _ _ _ _ _ Hv H) as (_ & H1 & H2). auto.
Qed.

(* reset(): whatever the history, the object is fresh again (NVX keeps its implementation selector) *)
Lemma c_reset_fresh v : c_state (c_reset v) = 0 /\ c_tot (c_reset v) = 0 /\ c_impl (c_reset v) = c_impl v.
Proof. repeat split. Qed.

Lemma nvx_reset_spec v chunks : Forall bytes_ok chunks ->
  c_impl (c_reset v) = c_impl v /\
  snd (feed (nvx_validate dfa_c unrolled_tbl) (c_reset v) chunks) = ref_feed [] chunks.
Proof. intros H. split; [reflexivity | apply nvx_chunking_every_call; [reflexivity|reflexivity|exact H]]. Qed.

(* ---------- Part 6: wf_utf8 = encodings of scalar values ---------- *)

Ltac Zify.zify_post_hook ::= Z.to_euclidean_division_equations.

(* the machine, run over the encoding of a scalar value, returns to a boundary *)
Lemma encode_run cp : scalar_value cp = true -> dfa_run rfc_step 0 (utf8_encode cp) = 0.
Proof.
  unfold scalar_value, inr. rewrite !andb_true_iff, negb_true_iff, andb_false_iff, N.leb_le, !N.leb_gt.
  intros [Hmax Hsur]. unfold utf8_encode.
  destruct (cp <=? 0x7F) eqn:E1; [apply N.leb_le in E1|apply N.leb_gt in E1].
  { cbn [dfa_run fold_left]. unfold rfc_step. decide_cmps. reflexivity. }
  destruct (cp <=? 0x7FF) eqn:E2; [apply N.leb_le in E2|apply N.leb_gt in E2].
  { cbn [dfa_run fold_left].
    assert (H0 : rfc_step 0 (0xC0 + cp / 64) = 2) by (unfold rfc_step, inr; decide_cmps; reflexivity).
    rewrite H0. unfold rfc_step, inr. decide_cmps. reflexivity. }
  destruct (cp <=? 0xFFFF) eqn:E3; [apply N.leb_le in E3|apply N.leb_gt in E3].
  { cbn [dfa_run fold_left].
    assert (C : cp / 4096 = 0 \/ 1 <= cp / 4096 <= 12 \/ cp / 4096 = 13 \/ 14 <= cp / 4096 <= 15) by lia.
    destruct C as [C|[C|[C|C]]].
    - assert (H0 : rfc_step 0 (0xE0 + cp / 4096) = 4) by (rewrite C; reflexivity). rewrite H0.
      assert (H1 : rfc_step 4 (0x80 + (cp / 64) mod 64) = 2) by (unfold rfc_step, inr; decide_cmps; reflexivity).
      rewrite H1. unfold rfc_step, inr. decide_cmps. reflexivity.
    - assert (H0 : rfc_step 0 (0xE0 + cp / 4096) = 3) by (unfold rfc_step, inr; decide_cmps; reflexivity). rewrite H0.
      assert (H1 : rfc_step 3 (0x80 + (cp / 64) mod 64) = 2) by (unfold rfc_step, inr; decide_cmps; reflexivity).
      rewrite H1. unfold rfc_step, inr. decide_cmps. reflexivity.
    - assert (H0 : rfc_step 0 (0xE0 + cp / 4096) = 5) by (rewrite C; reflexivity). rewrite H0.
      assert (H1 : rfc_step 5 (0x80 + (cp / 64) mod 64) = 2) by (unfold rfc_step, inr; decide_cmps; reflexivity).
      rewrite H1. unfold rfc_step, inr. decide_cmps. reflexivity.
    - assert (H0 : rfc_step 0 (0xE0 + cp / 4096) = 3) by (unfold rfc_step, inr; decide_cmps; reflexivity). rewrite H0.
      assert (H1 : rfc_step 3 (0x80 + (cp / 64) mod 64) = 2) by (unfold rfc_step, inr; decide_cmps; reflexivity).
      rewrite H1. unfold rfc_step, inr. decide_cmps. reflexivity. }
  cbn [dfa_run fold_left].
  assert (C : cp / 262144 = 0 \/ 1 <= cp / 262144 <= 3 \/ cp / 262144 = 4) by lia.
  destruct C as [C|[C|C]].
  - assert (H0 : rfc_step 0 (0xF0 + cp / 262144) = 6) by (rewrite C; reflexivity). rewrite H0.
    assert (H1 : rfc_step 6 (0x80 + (cp / 4096) mod 64) = 3) by (unfold rfc_step, inr; decide_cmps; reflexivity).
    rewrite H1.
    assert (H2 : rfc_step 3 (0x80 + (cp / 64) mod 64) = 2) by (unfold rfc_step, inr; decide_cmps; reflexivity).
    rewrite H2. unfold rfc_step, inr. decide_cmps. reflexivity.
  - assert (H0 : rfc_step 0 (0xF0 + cp / 262144) = 7) by (unfold rfc_step, inr; decide_cmps; reflexivity). rewrite H0.
    assert (H1 : rfc_step 7 (0x80 + (cp / 4096) mod 64) = 3) by (unfold rfc_step, inr; decide_cmps; reflexivity).
    rewrite H1.
    assert (H2 : rfc_step 3 (0x80 + (cp / 64) mod 64) = 2) by (unfold rfc_step, inr; decide_cmps; reflexivity).
    rewrite H2. unfold rfc_step, inr. decide_cmps. reflexivity.
  - assert (H0 : rfc_step 0 (0xF0 + cp / 262144) = 8) by (rewrite C; reflexivity). rewrite H0.
    assert (H1 : rfc_step 8 (0x80 + (cp / 4096) mod 64) = 3) by (unfold rfc_step, inr; decide_cmps; reflexivity).
    rewrite H1.
    assert (H2 : rfc_step 3 (0x80 + (cp / 64) mod 64) = 2) by (unfold rfc_step, inr; decide_cmps; reflexivity).
    rewrite H2. unfold rfc_step, inr. decide_cmps. reflexivity.
Qed.

Lemma encode_wf cp r : scalar_value cp = true -> wf_utf8 (utf8_encode cp ++ r) = wf_utf8 r.
Proof. intros H. rewrite wf_app_run, (encode_run cp H). reflexivity. Qed.

Lemma encoding_wf cps : forallb scalar_value cps = true -> wf_utf8 (flat_map utf8_encode cps) = true.
Proof.
  induction cps as [|cp r IH]; intros H; [reflexivity|].
  cbn [forallb] in H. apply andb_true_iff in H. destruct H as [H1 H2].
  cbn [flat_map]. rewrite encode_wf by exact H1. apply IH. exact H2.
Qed.



Ltac boolp H :=
  unfold is_tail, inr in H;
  repeat first [rewrite orb_true_iff in H | rewrite andb_true_iff in H | rewrite N.leb_le in H | rewrite N.eqb_eq in H].

(* decoding the four shapes of the grammar *)
Lemma enc1 b0 : b0 <= 0x7F -> scalar_value b0 = true /\ utf8_encode b0 = [b0].
Proof.
  intros H. unfold scalar_value, utf8_encode, inr. decide_cmps. cbn. auto.
Qed.

Lemma enc2 b0 b1 : 0xC2 <= b0 <= 0xDF -> 0x80 <= b1 <= 0xBF ->
  let cp := (b0 - 0xC0) * 64 + (b1 - 0x80) in scalar_value cp = true /\ utf8_encode cp = [b0; b1].
Proof.
  intros H0 H1 cp. assert (Hc : 0x80 <= cp <= 0x7FF) by (unfold cp; lia).
  split.
  - unfold scalar_value, inr. decide_cmps. reflexivity.
  - unfold utf8_encode. decide_cmps. unfold cp. repeat f_equal; lia.
Qed.

Lemma enc3 b0 b1 b2 :
  (b0 = 0xE0 /\ 0xA0 <= b1 <= 0xBF) \/ (0xE1 <= b0 <= 0xEC /\ 0x80 <= b1 <= 0xBF) \/
  (b0 = 0xED /\ 0x80 <= b1 <= 0x9F) \/ (0xEE <= b0 <= 0xEF /\ 0x80 <= b1 <= 0xBF) ->
  0x80 <= b2 <= 0xBF ->
  let cp := (b0 - 0xE0) * 4096 + (b1 - 0x80) * 64 + (b2 - 0x80) in
  scalar_value cp = true /\ utf8_encode cp = [b0; b1; b2].
Proof.
  intros H0 H2 cp.
  assert (Hc : 0x800 <= cp <= 0xFFFF /\ (cp < 0xD800 \/ 0xDFFF < cp)) by (unfold cp; lia).
  split.
  - unfold scalar_value, inr. destruct Hc as [Hc [Hs|Hs]]; decide_cmps; reflexivity.
  - unfold utf8_encode. decide_cmps. unfold cp. repeat f_equal; lia.
Qed.

Lemma enc4 b0 b1 b2 b3 :
  (b0 = 0xF0 /\ 0x90 <= b1 <= 0xBF) \/ (0xF1 <= b0 <= 0xF3 /\ 0x80 <= b1 <= 0xBF) \/
  (b0 = 0xF4 /\ 0x80 <= b1 <= 0x8F) ->
  0x80 <= b2 <= 0xBF -> 0x80 <= b3 <= 0xBF ->
  let cp := (b0 - 0xF0) * 262144 + (b1 - 0x80) * 4096 + (b2 - 0x80) * 64 + (b3 - 0x80) in
  scalar_value cp = true /\ utf8_encode cp = [b0; b1; b2; b3].
Proof.
  intros H0 H2 H3 cp.
  assert (Hc : 0x10000 <= cp <= 0x10FFFF) by (unfold cp; lia).
  split.
  - unfold scalar_value, inr. decide_cmps. reflexivity.
  - unfold utf8_encode. decide_cmps. unfold cp. repeat f_equal; lia.
Qed.

Lemma wf_decode_fuel n : forall bs, (length bs <= n)%nat -> wf_utf8 bs = true ->
  exists cps, forallb scalar_value cps = true /\ bs = flat_map utf8_encode cps.
Proof.
  induction n as [|n IH]; intros bs Hl H.
  - destruct bs; [|cbn in Hl; lia]. exists []. split; reflexivity.
  - destruct bs as [|b0 r0]; [exists []; split; reflexivity|].
    rewrite wf_utf8_cons in H. cbn [length] in Hl.
    apply orb_true_iff in H. destruct H as [H|H].
    { boolp H. destruct H as [H0 Hr]. destruct (IH r0 ltac:(lia) Hr) as (cps & Hs & He).
      destruct (enc1 b0 H0) as [S E]. exists (b0 :: cps). split.
      - cbn [forallb]. rewrite S, Hs. reflexivity.
      - cbn [flat_map]. rewrite E, <- He. reflexivity. }
    destruct r0 as [|b1 r1]; [discriminate|]. cbn [length] in Hl.
    apply orb_true_iff in H. destruct H as [H|H].
    { boolp H. destruct H as [[H0 H1] Hr]. destruct (IH r1 ltac:(lia) Hr) as (cps & Hs & He).
      destruct (enc2 b0 b1 H0 H1) as [S E]. eexists (_ :: cps). split.
      - cbn [forallb]. rewrite S, Hs. reflexivity.
      - cbn [flat_map]. rewrite E, <- He. reflexivity. }
    destruct r1 as [|b2 r2]; [discriminate|]. cbn [length] in Hl.
    apply orb_true_iff in H. destruct H as [H|H].
    { boolp H. destruct H as [[H0 H2] Hr]. destruct (IH r2 ltac:(lia) Hr) as (cps & Hs & He).
      assert (H0' : (b0 = 0xE0 /\ 0xA0 <= b1 <= 0xBF) \/ (0xE1 <= b0 <= 0xEC /\ 0x80 <= b1 <= 0xBF) \/
                    (b0 = 0xED /\ 0x80 <= b1 <= 0x9F) \/ (0xEE <= b0 <= 0xEF /\ 0x80 <= b1 <= 0xBF)) by lia.
      destruct (enc3 b0 b1 b2 H0' H2) as [S E]. eexists (_ :: cps). split.
      - cbn [forallb]. rewrite S, Hs. reflexivity.
      - cbn [flat_map]. rewrite E, <- He. reflexivity. }
    destruct r2 as [|b3 r3]; [discriminate|]. cbn [length] in Hl.
    boolp H. destruct H as [[[H0 H2] H3] Hr]. destruct (IH r3 ltac:(lia) Hr) as (cps & Hs & He).
    assert (H0' : (b0 = 0xF0 /\ 0x90 <= b1 <= 0xBF) \/ (0xF1 <= b0 <= 0xF3 /\ 0x80 <= b1 <= 0xBF) \/
                  (b0 = 0xF4 /\ 0x80 <= b1 <= 0x8F)) by lia.
    destruct (enc4 b0 b1 b2 b3 H0' H2 H3) as [S E]. eexists (_ :: cps). split.
    + cbn [forallb]. rewrite S, Hs. reflexivity.
    + cbn [flat_map]. rewrite E, <- He. reflexivity.
Qed.

Lemma wf_iff_encoding bs :
  wf_utf8 bs = true <-> exists cps, forallb scalar_value cps = true /\ bs = flat_map utf8_encode cps.
Proof.
  split.
  - apply (wf_decode_fuel (length bs)). lia.
  - intros (cps & Hs & ->). apply encoding_wf. exact Hs.
Qed.
