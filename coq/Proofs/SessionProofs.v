(* Lemmas about Model/Session.v: the ledger invariant (tables / futures / ghost ledgers), preserved by every step in
   both continuation flavours. *)
From Coq Require Import NArith ZArith List Bool Lia.
From AV Require Import Gen.WampTypeCodes Model.Session.
Import ListNotations.
Open Scope N_scope.

(* ---------------------------------------------------------------------------------------------------------- *)
(* kinds, keys                                                                                                *)
(* ---------------------------------------------------------------------------------------------------------- *)
Lemma kind_eqb_eq : forall a b, kind_eqb a b = true <-> a = b.
Proof. destruct a, b; simpl; split; intro H; try reflexivity; try discriminate. Qed.

Lemma kind_eqb_refl : forall a, kind_eqb a a = true.
Proof. destruct a; reflexivity. Qed.

Definition req_key (r : req) : kind * N := (r_kind r, r_id r).

Lemma req_is_key : forall k i r, req_is k i r = true <-> req_key r = (k, i).
Proof.
  intros k i r. unfold req_is, req_key. rewrite andb_true_iff, kind_eqb_eq, N.eqb_eq.
  split; [intros [H1 H2]; now subst | intro H; inversion H; auto].
Qed.

Lemma req_is_false : forall k i r, req_is k i r = false <-> req_key r <> (k, i).
Proof.
  intros. split; intro H.
  - intro E. apply req_is_key in E. congruence.
  - destruct (req_is k i r) eqn:E; [apply req_is_key in E; contradiction | reflexivity].
Qed.

(* the request-type codes of the six kinds are pairwise distinct (re-checked against the generated constants) *)
Lemma kind_code_inj : forall a b, kind_code a = kind_code b -> a = b.
Proof. destruct a, b; vm_compute; intro H; try reflexivity; discriminate. Qed.

Lemma kind_of_code_code : forall k, kind_of_code (kind_code k) = Some k.
Proof. destruct k; vm_compute; reflexivity. Qed.

Lemma kind_of_code_some : forall c k, kind_of_code c = Some k -> c = kind_code k.
Proof.
  intros c k. unfold kind_of_code.
  destruct (c =? T_CALL) eqn:E1; [apply N.eqb_eq in E1; intro H; inversion H; subst; reflexivity|].
  destruct (c =? T_PUBLISH) eqn:E2; [apply N.eqb_eq in E2; intro H; inversion H; subst; reflexivity|].
  destruct (c =? T_SUBSCRIBE) eqn:E3; [apply N.eqb_eq in E3; intro H; inversion H; subst; reflexivity|].
  destruct (c =? T_UNSUBSCRIBE) eqn:E4; [apply N.eqb_eq in E4; intro H; inversion H; subst; reflexivity|].
  destruct (c =? T_REGISTER) eqn:E5; [apply N.eqb_eq in E5; intro H; inversion H; subst; reflexivity|].
  destruct (c =? T_UNREGISTER) eqn:E6; [apply N.eqb_eq in E6; intro H; inversion H; subst; reflexivity|].
  discriminate.
Qed.

(* ---------------------------------------------------------------------------------------------------------- *)
(* the request tables                                                                                         *)
(* ---------------------------------------------------------------------------------------------------------- *)
Lemma find_req_some : forall k i l r, find_req k i l = Some r -> In r l /\ req_key r = (k, i).
Proof.
  induction l as [|x t IH]; simpl; intros r H; [discriminate|].
  destruct (req_is k i x) eqn:E.
  - inversion H; subst. split; [now left | now apply req_is_key].
  - destruct (IH _ H). split; [now right | assumption].
Qed.

Lemma find_req_none : forall k i l, find_req k i l = None -> forall r, In r l -> req_key r <> (k, i).
Proof.
  induction l as [|x t IH]; simpl; intros H r Hin; [contradiction|].
  destruct (req_is k i x) eqn:E; [discriminate|].
  destruct Hin as [->|Hin]; [now apply req_is_false | now apply IH].
Qed.

Lemma find_req_in : forall k i l r, NoDup (map req_key l) -> In r l -> req_key r = (k, i) -> find_req k i l = Some r.
Proof.
  induction l as [|x t IH]; simpl; intros r Hnd Hin Hk; [contradiction|].
  inversion Hnd as [|? ? Hx Ht]; subst.
  destruct (req_is k i x) eqn:E.
  - destruct Hin as [->|Hin]; [reflexivity|].
    apply req_is_key in E. exfalso. apply Hx. rewrite E, <- Hk. now apply in_map.
  - destruct Hin as [->|Hin]; [apply req_is_false in E; contradiction | now apply IH].
Qed.

Lemma remove_req_in : forall k i l r, In r (remove_req k i l) -> In r l.
Proof.
  induction l as [|x t IH]; simpl; intros r H; [assumption|].
  destruct (req_is k i x); [now right|]. destruct H; [now left | right; now apply IH].
Qed.

Lemma remove_req_keeps : forall k i l r, In r l -> req_key r <> (k, i) -> In r (remove_req k i l).
Proof.
  induction l as [|x t IH]; simpl; intros r H Hk; [assumption|].
  destruct (req_is k i x) eqn:E.
  - destruct H as [->|H]; [apply req_is_key in E; contradiction | assumption].
  - destruct H as [->|H]; [now left | right; now apply IH].
Qed.

Lemma remove_req_key_gone : forall k i l, NoDup (map req_key l) -> forall r, In r (remove_req k i l) -> req_key r <> (k, i).
Proof.
  induction l as [|x t IH]; simpl; intros Hnd r H; [contradiction|].
  inversion Hnd as [|? ? Hx Ht]; subst.
  destruct (req_is k i x) eqn:E.
  - apply req_is_key in E. intro Hk. apply Hx. rewrite E, <- Hk. now apply in_map.
  - destruct H as [->|H]; [now apply req_is_false | now apply IH].
Qed.

Lemma remove_req_nodup_map : forall {A} (g : req -> A) k i l, NoDup (map g l) -> NoDup (map g (remove_req k i l)).
Proof.
  induction l as [|x t IH]; simpl; intro H; [constructor|].
  inversion H as [|? ? Hx Ht]; subst.
  destruct (req_is k i x); [assumption|]. simpl. constructor; [|now apply IH].
  intro Hin. apply Hx. apply in_map_iff in Hin. destruct Hin as [y [Hy Hin]]. apply in_map_iff. exists y.
  split; [assumption | eapply remove_req_in; eassumption].
Qed.

Lemma remove_req_found_split : forall k i l r, find_req k i l = Some r ->
  forall x, In x l -> x = r \/ In x (remove_req k i l).
Proof.
  induction l as [|y t IH]; simpl; intros r H x Hin; [contradiction|].
  destruct (req_is k i y) eqn:E.
  - inversion H; subst. destruct Hin; [now left | now right].
  - destruct Hin as [->|Hin]; [right; now left|]. destruct (IH _ H _ Hin); [now left | right; now right].
Qed.

Lemma put_req_in_new : forall r l, In r (put_req r l).
Proof.
  induction l as [|y t IH]; simpl; [now left|].
  destruct (req_is (r_kind r) (r_id r) y); [now left | right; assumption].
Qed.

Lemma put_req_in_old : forall r l x, In x l -> req_key x <> req_key r -> In x (put_req r l).
Proof.
  induction l as [|y t IH]; simpl; intros x H Hk; [contradiction|].
  destruct (req_is (r_kind r) (r_id r) y) eqn:E.
  - destruct H as [->|H]; [apply req_is_key in E; contradiction | now right].
  - destruct H as [->|H]; [now left | right; now apply IH].
Qed.

Lemma put_req_inv : forall r l x, NoDup (map req_key l) -> In x (put_req r l) ->
  x = r \/ (In x l /\ req_key x <> req_key r).
Proof.
  induction l as [|y t IH]; simpl; intros x Hnd H.
  - destruct H as [<-|[]]. now left.
  - inversion Hnd as [|? ? Hy Ht]; subst.
    destruct (req_is (r_kind r) (r_id r) y) eqn:E.
    + destruct H as [<-|H]; [now left|]. right. split; [now right|].
      apply req_is_key in E. intro Hk. apply Hy. rewrite E. unfold req_key in Hk at 2. rewrite <- Hk. now apply in_map.
    + destruct H as [<-|H].
      * right. split; [now left | now apply req_is_false in E].
      * destruct (IH _ Ht H) as [->|[Hin Hk]]; [now left | right; split; [now right | assumption]].
Qed.

Lemma put_req_nodup : forall r l, NoDup (map req_key l) -> NoDup (map req_key (put_req r l)).
Proof.
  induction l as [|y t IH]; simpl; intro Hnd.
  - constructor; [intros [] | constructor].
  - inversion Hnd as [|? ? Hy Ht]; subst.
    destruct (req_is (r_kind r) (r_id r) y) eqn:E.
    + simpl. apply req_is_key in E. constructor; [|assumption]. unfold req_key at 1. rewrite <- E. assumption.
    + simpl. constructor; [|now apply IH].
      intro Hin. apply in_map_iff in Hin. destruct Hin as [x [Hx Hin]].
      destruct (put_req_inv r t x Ht Hin) as [->|[Hin' _]].
      * apply req_is_false in E. apply E. rewrite <- Hx. reflexivity.
      * apply Hy. rewrite <- Hx. now apply in_map.
Qed.

(* what put_req drops: exactly the entry found under the same key *)
Lemma put_req_dropped : forall r l x, In x l -> ~ In x (put_req r l) -> find_req (r_kind r) (r_id r) l = Some x \/ x = r.
Proof.
  induction l as [|y t IH]; simpl; intros x H Hn; [contradiction|].
  destruct (req_is (r_kind r) (r_id r) y) eqn:E.
  - destruct H as [->|H]; [now left|]. exfalso. apply Hn. now right.
  - destruct H as [->|H]; [exfalso; apply Hn; now left|]. apply IH; [assumption|]. intro; apply Hn; now right.
Qed.

Lemma table_in : forall k l r, In r (table k l) <-> In r l /\ r_kind r = k.
Proof. intros. unfold table. rewrite filter_In, kind_eqb_eq. tauto. Qed.

Lemma outstanding_in : forall l r, In r (outstanding l) <-> In r l.
Proof.
  intros l r. unfold outstanding. rewrite in_flat_map. split.
  - intros [k [_ H]]. now apply table_in in H.
  - intro H. exists (r_kind r). split; [destruct (r_kind r); simpl; tauto | now apply table_in].
Qed.

Lemma table_nodup_map : forall {A} (g : req -> A) k l, NoDup (map g l) -> NoDup (map g (table k l)).
Proof.
  intros A g k. unfold table. induction l as [|x t IH]; simpl; intro H; [constructor|].
  inversion H as [|? ? Hx Ht]; subst. destruct (kind_eqb (r_kind x) k); [|now apply IH].
  simpl. constructor; [|now apply IH]. intro Hin. apply Hx. apply in_map_iff in Hin. destruct Hin as [y [Hy Hin]].
  apply in_map_iff. exists y. split; [assumption|]. now apply filter_In in Hin.
Qed.

(* ---------------------------------------------------------------------------------------------------------- *)
(* the ledger invariant                                                                                       *)
(* ---------------------------------------------------------------------------------------------------------- *)
Lemma NoDup_map_inj : forall {A B} (g : A -> B) l a b, NoDup (map g l) -> In a l -> In b l -> g a = g b -> a = b.
Proof.
  induction l as [|x t IH]; simpl; intros a b Hnd Ha Hb Hg; [contradiction|].
  inversion Hnd as [|? ? Hx Ht]; subst.
  destruct Ha as [->|Ha], Hb as [->|Hb]; try reflexivity.
  - exfalso. apply Hx. rewrite Hg. now apply in_map.
  - exfalso. apply Hx. rewrite <- Hg. now apply in_map.
  - now apply IH.
Qed.

Lemma NoDup_snoc : forall {A} (l : list A) a, NoDup l -> ~ In a l -> NoDup (l ++ [a]).
Proof.
  induction l as [|x t IH]; simpl; intros a Hnd Hn.
  - constructor; [intros [] | constructor].
  - inversion Hnd as [|? ? Hx Ht]; subst. constructor.
    + intro Hin. apply in_app_or in Hin. destruct Hin as [Hin|[Hin|[]]]; [contradiction | subst; apply Hn; now left].
    + apply IH; [assumption | intro; apply Hn; now right].
Qed.

Definition ledger (s : sess) := (pend s, done s, issued s, next_fut s, lost s).

Lemma is_done_in : forall s f, is_done s f = true <-> In f (map fst (done s)).
Proof.
  intros s f. unfold is_done. rewrite existsb_exists, in_map_iff. split.
  - intros [d [Hin He]]. apply N.eqb_eq in He. now exists d.
  - intros [d [He Hin]]. exists d. split; [assumption | now apply N.eqb_eq].
Qed.

Lemma is_done_false : forall s f, is_done s f = false <-> ~ In f (map fst (done s)).
Proof.
  intros. rewrite <- is_done_in. destruct (is_done s f); split; intro H.
  - discriminate.
  - exfalso. now apply H.
  - intro; discriminate.
  - reflexivity.
Qed.

Lemma assoc_in : forall {A} i (l : list (N * A)) v, assoc i l = Some v -> In (i, v) l.
Proof.
  induction l as [|[j w] t IH]; simpl; intros v H; [discriminate|].
  destruct (j =? i) eqn:E; [apply N.eqb_eq in E; inversion H; subst; now left | right; now apply IH].
Qed.

Lemma assoc_nodup_in : forall {A} i (l : list (N * A)) v, NoDup (map fst l) -> In (i, v) l -> assoc i l = Some v.
Proof.
  induction l as [|[j w] t IH]; simpl; intros v Hnd H; [contradiction|].
  inversion Hnd as [|? ? Hx Ht]; subst.
  destruct (j =? i) eqn:E.
  - apply N.eqb_eq in E. subst. destruct H as [H|H]; [now inversion H|].
    exfalso. apply Hx. change i with (fst (i, v)). now apply in_map.
  - destruct H as [H|H]; [inversion H; subst; rewrite N.eqb_refl in E; discriminate | now apply IH].
Qed.

Lemma assoc_app_left : forall {A} i (l m : list (N * A)), In i (map fst l) -> assoc i (l ++ m) = assoc i l.
Proof.
  induction l as [|[j w] t IH]; simpl; intros m H; [contradiction|].
  destruct (j =? i) eqn:E; [reflexivity|]. apply IH. destruct H as [H|H]; [subst; rewrite N.eqb_refl in E; discriminate | assumption].
Qed.

Lemma assoc_app_right : forall {A} i (l m : list (N * A)), ~ In i (map fst l) -> assoc i (l ++ m) = assoc i m.
Proof.
  induction l as [|[j w] t IH]; simpl; intros m H; [reflexivity|].
  destruct (j =? i) eqn:E; [apply N.eqb_eq in E; subst; exfalso; apply H; now left | apply IH; intro; apply H; now right].
Qed.

Record Inv (X : N -> Prop) (s : sess) : Prop := {
  i_done_nodup : NoDup (map fst (done s));
  i_issued_nodup : NoDup (map fst (issued s));
  i_issued_lt : forall f x, In (f, x) (issued s) -> f < next_fut s;
  i_done_lt : forall f r, In (f, r) (done s) -> f < next_fut s;
  i_keys : NoDup (map req_key (pend s));
  i_futs : NoDup (map r_fut (pend s));
  i_pend_issued : forall r, In r (pend s) -> In (r_fut r, req_key r) (issued s);
  i_pend_done : forall r, In r (pend s) -> is_done s (r_fut r) = true -> result_of s (r_fut r) = Some (RErr ECancelled);
  i_cover : forall f x, In (f, x) (issued s) ->
            (exists r, In r (pend s) /\ r_fut r = f) \/ is_done s f = true \/ In f (lost s) \/ X f;
  i_x_lt : forall f, X f -> f < next_fut s;
  i_x_notpend : forall f, X f -> forall r, In r (pend s) -> r_fut r <> f
}.

Definition none : N -> Prop := fun _ => False.

Lemma Inv_ext : forall X s s', ledger s = ledger s' -> Inv X s -> Inv X s'.
Proof.
  intros X s s' E H. unfold ledger in E. inversion E as [[E1 E2 E3 E4 E5]].
  destruct H. constructor; unfold is_done, result_of in *; rewrite <- ?E1, <- ?E2, <- ?E3, <- ?E4, <- ?E5; assumption.
Qed.

Lemma Inv_iff : forall X Y s, (forall g, X g <-> Y g) -> Inv X s -> Inv Y s.
Proof.
  intros X Y s E H. destruct H. constructor; try assumption.
  - intros f x Hi. destruct (i_cover0 f x Hi) as [?|[?|[?|?]]]; auto. right; right; right. now apply E.
  - intros f Hf. apply i_x_lt0. now apply E.
  - intros f Hf. apply i_x_notpend0. now apply E.
Qed.

Lemma Inv_pend_lt : forall X s, Inv X s -> forall r, In r (pend s) -> r_fut r < next_fut s.
Proof. intros X s H r Hr. eapply i_issued_lt; [eassumption|]. eapply i_pend_issued; eassumption. Qed.

Lemma Inv_init : Inv none init.
Proof.
  constructor; simpl; try (constructor; fail); try (intros; contradiction).
Qed.

(* ---- adding a result to the done ledger ---- *)
Lemma Inv_add_done : forall (X Y : N -> Prop) s f r,
  Inv X s -> is_done s f = false -> f < next_fut s ->
  (r = RErr ECancelled \/ forall r0, In r0 (pend s) -> r_fut r0 <> f) ->
  (forall g, Y g -> X g) -> (forall g, X g -> Y g \/ g = f) ->
  Inv Y (set_done s (done s ++ [(f, r)])).
Proof.
  intros X Y s f r H Hnd Hlt Hr HYX HXY. destruct H.
  assert (Hnot : ~ In f (map fst (done s))) by (now apply is_done_false).
  constructor; simpl; try assumption.
  - rewrite map_app. simpl. apply NoDup_snoc; auto.
  - intros g r' Hin. apply in_app_or in Hin. destruct Hin as [Hin|[Hin|[]]]; [eauto | inversion Hin; subst; assumption].
  - intros r0 Hr0. unfold is_done, result_of. simpl. intro Hd.
    rewrite existsb_app in Hd. apply orb_true_iff in Hd. destruct Hd as [Hd|Hd].
    + assert (Hin : In (r_fut r0) (map fst (done s))) by (apply is_done_in; exact Hd).
      rewrite assoc_app_left by assumption. now apply i_pend_done0.
    + simpl in Hd. rewrite orb_false_r in Hd. apply N.eqb_eq in Hd.
      destruct Hr as [->|Hr]; [|exfalso; eapply Hr; eauto].
      rewrite assoc_app_right; [simpl; rewrite Hd, N.eqb_refl; reflexivity|]. rewrite <- Hd. assumption.
  - intros g x Hin. unfold is_done. simpl. rewrite existsb_app. simpl.
    destruct (i_cover0 g x Hin) as [?|[Hd|[?|Hx]]]; auto.
    + right; left. unfold is_done in Hd. rewrite Hd. reflexivity.
    + destruct (HXY g Hx) as [?|E]; auto. subst g. right; left. rewrite N.eqb_refl. apply orb_true_iff. right. reflexivity.
  - intros g Hg. apply i_x_lt0. now apply HYX.
  - intros g Hg. apply i_x_notpend0. now apply HYX.
Qed.

(* popping a request record excuses its future until it is completed (or recorded as lost) *)
Lemma Inv_pop : forall (X : N -> Prop) s k i r,
  Inv X s -> find_req k i (pend s) = Some r ->
  Inv (fun g => X g \/ g = r_fut r) (set_pend s (remove_req k i (pend s))).
Proof.
  intros X s k i r H Hf. destruct (find_req_some _ _ _ _ Hf) as [Hin Hk]. destruct H.
  assert (Hother : forall r0, In r0 (remove_req k i (pend s)) -> r_fut r0 <> r_fut r).
  { intros r0 Hr0 E. assert (r0 = r).
    { eapply NoDup_map_inj; [exact i_futs0 | eapply remove_req_in; eassumption | assumption | assumption]. }
    subst r0. eapply remove_req_key_gone; eassumption. }
  constructor; simpl; try assumption.
  - now apply remove_req_nodup_map.
  - now apply remove_req_nodup_map.
  - intros r0 Hr0. apply i_pend_issued0. eapply remove_req_in; eassumption.
  - intros r0 Hr0. apply i_pend_done0. eapply remove_req_in; eassumption.
  - intros g x Hg. destruct (i_cover0 g x Hg) as [[r0 [Hr0 E]]|[?|[?|?]]]; auto.
    destruct (remove_req_found_split _ _ _ _ Hf _ Hr0) as [->|Hr1].
    + right; right; right; right. now symmetry.
    + left. exists r0. split; assumption.
  - intros g [Hg| ->]; [auto|]. eapply i_issued_lt0. apply i_pend_issued0. assumption.
  - intros g [Hg| ->] r0 Hr0; [apply i_x_notpend0; [assumption | eapply remove_req_in; eassumption] | now apply Hother].
Qed.

Lemma Inv_clear : forall (X : N -> Prop) s,
  Inv X s -> Inv (fun g => X g \/ In g (map r_fut (pend s))) (set_pend s []).
Proof.
  intros X s H. destruct H. constructor; simpl; try assumption.
  - constructor.
  - constructor.
  - intros r [].
  - intros r [].
  - intros g x Hg. destruct (i_cover0 g x Hg) as [[r0 [Hr0 E]]|[?|[?|?]]]; auto.
    right; right; right; right. subst g. now apply in_map.
  - intros g [Hg|Hg]; [auto|]. apply in_map_iff in Hg. destruct Hg as [r0 [<- Hr0]].
    eapply i_issued_lt0. now apply i_pend_issued0.
  - intros g _ r [].
Qed.

Lemma Inv_lost : forall (X : N -> Prop) s f,
  Inv X s -> X f -> Inv (fun g => X g /\ g <> f) (set_lost s (lost s ++ [f])).
Proof.
  intros X s f H Hf. destruct H. constructor; simpl; try assumption.
  - intros g x Hg. destruct (i_cover0 g x Hg) as [?|[?|[?|Hx]]]; auto.
    + right; right; left. apply in_or_app. now left.
    + destruct (N.eq_dec g f) as [->|Hne]; [right; right; left; apply in_or_app; right; now left | right; right; right; split; assumption].
  - intros g [Hg _]. auto.
  - intros g [Hg _]. auto.
Qed.

(* ---- new requests ---- *)
Lemma put_req_nodup_map : forall {A} (g : req -> A) r l,
  NoDup (map g l) -> (forall x, In x l -> g x <> g r) -> NoDup (map g (put_req r l)).
Proof.
  induction l as [|y t IH]; simpl; intros Hnd Hne.
  - constructor; [intros [] | constructor].
  - inversion Hnd as [|? ? Hy Ht]; subst.
    destruct (req_is (r_kind r) (r_id r) y).
    + simpl. constructor; [|assumption]. intro Hin. apply in_map_iff in Hin. destruct Hin as [x [Hx Hin]].
      apply (Hne x); [now right | assumption].
    + simpl. constructor.
      * intro Hin. apply in_map_iff in Hin. destruct Hin as [x [Hx Hin]].
        assert (Hsub : forall z, In z (put_req r t) -> z = r \/ In z t).
        { clear. induction t as [|w u IHu]; simpl; intros z Hz.
          - destruct Hz as [<-|[]]. now left.
          - destruct (req_is (r_kind r) (r_id r) w); destruct Hz as [<-|Hz]; auto.
            destruct (IHu _ Hz); auto. }
        destruct (Hsub _ Hin) as [->|Hin'].
        -- apply (Hne y); [now left | now symmetry].
        -- apply Hy. rewrite <- Hx. now apply in_map.
      * apply IH; [assumption | intros x Hx; apply Hne; now right].
Qed.

Lemma put_req_sub : forall r l z, In z (put_req r l) -> z = r \/ In z l.
Proof.
  induction l as [|w u IHu]; simpl; intros z Hz.
  - destruct Hz as [<-|[]]. now left.
  - destruct (req_is (r_kind r) (r_id r) w); destruct Hz as [<-|Hz]; auto.
    destruct (IHu _ Hz); auto.
Qed.

Lemma Inv_new_request : forall (X : N -> Prop) s k o t,
  Inv X s -> Inv X (fst (fst (new_request s k o t))).
Proof.
  intros X s k o t H. unfold new_request. simpl.
  set (id := idgen_next (next_id s)). set (f := next_fut s).
  set (r := {| r_kind := k; r_id := id; r_fut := f; r_opts := o; r_target := t |}).
  pose proof (Inv_pend_lt _ _ H) as Hplt. destruct H.
  assert (Hfresh : forall x, In x (pend s) -> r_fut x <> r_fut r).
  { intros x Hx E. apply Hplt in Hx. simpl in E. unfold f in E. lia. }
  assert (Hfd : is_done s f = false).
  { apply is_done_false. intro Hin. apply in_map_iff in Hin. destruct Hin as [[g rr] [Hg Hin]]. simpl in Hg. subst g.
    apply i_done_lt0 in Hin. unfold f in Hin. lia. }
  constructor; simpl.
  - assumption.
  - rewrite map_app. simpl. apply NoDup_snoc; [assumption|]. intro Hin. apply in_map_iff in Hin.
    destruct Hin as [[g x] [Hg Hin]]. simpl in Hg. subst g. apply i_issued_lt0 in Hin. unfold f in Hin. lia.
  - intros g x Hin. apply in_app_or in Hin. destruct Hin as [Hin|[Hin|[]]].
    + apply i_issued_lt0 in Hin. lia.
    + inversion Hin; subst. unfold f. lia.
  - intros g x Hin. apply i_done_lt0 in Hin. lia.
  - now apply put_req_nodup.
  - apply put_req_nodup_map; assumption.
  - intros x Hx. apply in_or_app. destruct (put_req_sub _ _ _ Hx) as [->|Hx']; [right; now left | left; now apply i_pend_issued0].
  - intros x Hx. destruct (put_req_sub _ _ _ Hx) as [->|Hx'].
    + simpl. unfold is_done in *. simpl. rewrite Hfd. discriminate.
    + apply i_pend_done0. assumption.
  - intros g x Hin. apply in_app_or in Hin. destruct Hin as [Hin|[Hin|[]]].
    + destruct (i_cover0 g x Hin) as [[r0 [Hr0 E]]|[?|[Hl|?]]]; auto.
      * destruct (req_is k id r0) eqn:Ek.
        -- apply req_is_key in Ek. right; right; left.
           rewrite (find_req_in k id (pend s) r0 i_keys0 Hr0 Ek). apply in_or_app. right. left. assumption.
        -- left. exists r0. split; [|assumption]. apply put_req_in_old; [assumption|]. now apply req_is_false in Ek.
      * right; right; left. destruct (find_req k id (pend s)); [apply in_or_app; now left | assumption].
    + inversion Hin; subst. left. exists r. split; [apply put_req_in_new | reflexivity].
  - intros g Hg. apply i_x_lt0 in Hg. lia.
  - intros g Hg x Hx. destruct (put_req_sub _ _ _ Hx) as [->|Hx'].
    + simpl. apply i_x_lt0 in Hg. unfold f. lia.
    + now apply i_x_notpend0.
Qed.

Lemma new_request_find : forall (X : N -> Prop) s k o t,
  Inv X s ->
  let '(s1, id, f) := new_request s k o t in
  find_req k id (pend s1) = Some {| r_kind := k; r_id := id; r_fut := f; r_opts := o; r_target := t |}.
Proof.
  intros X s k o t H. unfold new_request. simpl.
  apply find_req_in; [apply put_req_nodup; eapply i_keys; eassumption | apply put_req_in_new | reflexivity].
Qed.

(* call()/publish(): the record of a request whose send failed is deleted again *)
Lemma Inv_drop_request : forall (X : N -> Prop) s k i r,
  Inv X s -> find_req k i (pend s) = Some r -> Inv X (drop_request s k i (r_fut r)).
Proof.
  intros X s k i r H Hf. destruct (find_req_some _ _ _ _ Hf) as [Hin Hk].
  pose proof (Inv_pop _ _ _ _ _ H Hf) as HP. destruct H. destruct HP as [_ _ _ _ Pk Pf _ _ _ _ Pn]. simpl in *.
  assert (Hfilter : forall g x, In (g, x) (filter (fun e => negb (fst e =? r_fut r)) (issued s)) <-> In (g, x) (issued s) /\ g <> r_fut r).
  { intros g x. rewrite filter_In. simpl. rewrite negb_true_iff, N.eqb_neq. tauto. }
  constructor; simpl; try assumption.
  - clear - i_issued_nodup0. induction (issued s) as [|[g x] t IH]; simpl; [constructor|].
    inversion i_issued_nodup0 as [|? ? Hx Ht]; subst. destruct (negb (g =? r_fut r)); [|now apply IH].
    simpl. constructor; [|now apply IH]. intro Hin. apply Hx. apply in_map_iff in Hin. destruct Hin as [y [Hy Hin]].
    apply in_map_iff. exists y. split; [assumption|]. now apply filter_In in Hin.
  - intros g x Hg. apply Hfilter in Hg. destruct Hg. eauto.
  - intros r0 Hr0. apply Hfilter. split; [apply i_pend_issued0; eapply remove_req_in; eassumption|].
    apply (Pn (r_fut r)); [now right | assumption].
  - intros r0 Hr0. apply i_pend_done0. eapply remove_req_in; eassumption.
  - intros g x Hg. apply Hfilter in Hg. destruct Hg as [Hg Hne].
    destruct (i_cover0 g x Hg) as [[r0 [Hr0 E]]|[?|[?|?]]]; auto.
    destruct (remove_req_found_split _ _ _ _ Hf _ Hr0) as [->|Hr1]; [congruence|].
    left. exists r0. split; assumption.
  - intros g Hg r0 Hr0. apply i_x_notpend0; [assumption | eapply remove_req_in; eassumption].
Qed.

Lemma Inv_request_sent : forall (X : N -> Prop) cfg s k o t (mk : N -> wmsg) (keep : bool),
  Inv X s ->
  Inv X (fst (let '(s1, id, f) := new_request s k o t in
              let '(o1, ok) := send_req cfg s1 (mk id) in
              if ok then (s1, o1 ++ [ApiReturned (Some f)])
              else if keep then (s1, o1 ++ [ApiRaised (send_exn s1)])
              else (drop_request s1 k id f, o1 ++ [ApiRaised (send_exn s1)]))).
Proof.
  intros X cfg s k o t mk keep H.
  pose proof (Inv_new_request X s k o t H) as H1. pose proof (new_request_find X s k o t H) as Hf.
  destruct (new_request s k o t) as [[s1 id] f]. simpl in H1.
  destruct (send_req cfg s1 (mk id)) as [o1 ok]. destruct ok; [assumption|]. destruct keep; [assumption|].
  simpl. exact (Inv_drop_request X s1 k id _ H1 Hf).
Qed.

Ltac keep_request X H k o t :=
  let H1 := fresh "H1" in
  pose proof (Inv_new_request X _ k o t H) as H1;
  destruct (new_request _ k o t) as [[?s1 ?id] ?f]; simpl in H1;
  destruct (send_req _ _ _) as [?o1 ?ok]; exact H1.

Lemma Inv_api_step : forall (X : N -> Prop) cfg s o, Inv X s -> Inv X (fst (api_step cfg s o)).
Proof.
  intros X cfg s o H. destruct o; try exact H; unfold api_step.
  - destruct (negb (transport s)); [assumption|].
    exact (Inv_request_sent X cfg s KCall o uri
             (fun id => MCall id uri a kw match o with Some c => co_timeout c | None => None end
                              match o with Some c => co_progress c | None => false end) false H).
  - destruct (negb (transport s)); [assumption|]. destruct (po_wants_ack o).
    + exact (Inv_request_sent X cfg s KPublish None uri
               (fun id => MPublish id uri a kw match o with Some p => po_ack p | None => None end
                                   match o with Some p => po_exclude_me p | None => None end) false H).
    + unfold new_id_only. destruct (send_req cfg _ _). simpl. eapply Inv_ext; [|exact H]. reflexivity.
  - destruct (negb (transport s)); [assumption|].
    exact (Inv_request_sent X cfg s KSubscribe None uri
             (fun id => MSubscribe id uri match o with Some c => opt_default (so_match c) | None => 0 end
                                   match o with Some c => so_get_retained c | None => None end) false H).
  - destruct (negb (transport s)); [assumption|].
    exact (Inv_request_sent X cfg s KRegister None uri
             (fun id => MRegister id uri match o with Some c => opt_default (ro_match c) | None => 0 end
                                  match o with Some c => opt_default (ro_invoke c) | None => 0 end) false H).
  - destruct (reg_id_of s h) as [regid|]; [|assumption].
    destruct (assoc regid (regs s)) as [h'|]; [|assumption].
    destruct (negb (h' =? h)); [assumption|]. destruct (negb (transport s)); [assumption|].
    exact (Inv_request_sent X cfg s KUnregister None regid (fun id => MUnregister id regid) false H).
Qed.

Lemma api_step_done : forall cfg s o, done (fst (api_step cfg s o)) = done s.
Proof.
  intros cfg s o. destruct o; try reflexivity; unfold api_step.
  - destruct (negb (transport s)); [reflexivity|]. unfold new_request. cbv zeta beta iota.
    destruct (send_req cfg _ _) as [o1 ok]. destruct ok; reflexivity.
  - destruct (negb (transport s)); [reflexivity|]. destruct (po_wants_ack o); unfold new_request, new_id_only; cbv zeta beta iota;
      destruct (send_req cfg _ _) as [o1 ok]; destruct ok; reflexivity.
  - destruct (negb (transport s)); [reflexivity|]. unfold new_request. cbv zeta beta iota. destruct (send_req cfg _ _) as [? []]; reflexivity.
  - destruct (negb (transport s)); [reflexivity|]. unfold new_request. cbv zeta beta iota. destruct (send_req cfg _ _) as [? []]; reflexivity.
  - destruct (reg_id_of s h); [|reflexivity]. destruct (assoc n (regs s)); [|reflexivity].
    destruct (negb (n0 =? h)); [reflexivity|]. destruct (negb (transport s)); [reflexivity|].
    unfold new_request. cbv zeta beta iota. destruct (send_req cfg _ _) as [? []]; reflexivity.
Qed.

Lemma Inv_react : forall (X : N -> Prop) cfg s f, Inv X s -> Inv X (fst (react cfg s f)).
Proof. intros. unfold react. destruct (assoc f (reacts s)); [now apply Inv_api_step | assumption]. Qed.

Lemma react_done : forall cfg s f, done (fst (react cfg s f)) = done s.
Proof. intros. unfold react. destruct (assoc f (reacts s)); [apply api_step_done | reflexivity]. Qed.

Lemma Inv_complete : forall fl cfg (X : N -> Prop) s f r,
  Inv X s -> (X f \/ is_done s f = true) -> Inv (fun g => X g /\ g <> f) (fst (complete fl cfg s f r)).
Proof.
  intros fl cfg X s f r H Hf. unfold complete. destruct (is_done s f) eqn:E.
  - simpl. destruct H. constructor; try assumption.
    + intros g x Hin. destruct (i_cover0 g x Hin) as [?|[?|[?|Hx]]]; auto.
      destruct (N.eq_dec g f) as [->|Hne]; [right; left; assumption | right; right; right; split; assumption].
    + intros g [Hg _]. auto.
    + intros g [Hg _]. auto.
  - destruct Hf as [Hf|Hf]; [|discriminate].
    assert (HI : Inv (fun g => X g /\ g <> f) (set_done s (done s ++ [(f, r)]))).
    { eapply Inv_add_done; try eassumption.
      - eapply i_x_lt; eassumption.
      - right. intros r0 Hr0. eapply i_x_notpend; eassumption.
      - intros g [Hg _]. exact Hg.
      - intros g Hg. destruct (N.eq_dec g f); [now right | left; split; assumption]. }
    destruct fl.
    + pose proof (Inv_react _ cfg _ f HI) as HR. destruct (react cfg (set_done s (done s ++ [(f, r)])) f). exact HR.
    + simpl. eapply Inv_ext; [|exact HI]. reflexivity.
Qed.

Lemma Inv_complete_of_add : forall fl cfg (Y : N -> Prop) s f r,
  is_done s f = false -> Inv Y (set_done s (done s ++ [(f, r)])) -> Inv Y (fst (complete fl cfg s f r)).
Proof.
  intros fl cfg Y s f r Hd HI. unfold complete. rewrite Hd. destruct fl.
  - pose proof (Inv_react Y cfg _ f HI) as HR. destruct (react cfg (set_done s (done s ++ [(f, r)])) f). exact HR.
  - simpl. eapply Inv_ext; [|exact HI]. reflexivity.
Qed.

Lemma complete_is_done : forall fl cfg s f r g,
  is_done (fst (complete fl cfg s f r)) g = is_done s g || (g =? f).
Proof.
  intros. unfold complete. destruct (is_done s f) eqn:E.
  - simpl. destruct (g =? f) eqn:Eg; [apply N.eqb_eq in Eg; subst; rewrite E; reflexivity | now rewrite orb_false_r].
  - assert (Hd : is_done (set_done s (done s ++ [(f, r)])) g = is_done s g || (g =? f)).
    { unfold is_done. simpl. rewrite existsb_app. simpl. rewrite orb_false_r, (N.eqb_sym f g). reflexivity. }
    destruct fl.
    + pose proof (react_done cfg (set_done s (done s ++ [(f, r)])) f) as HR.
      destruct (react cfg (set_done s (done s ++ [(f, r)])) f) as [s2 o2]. simpl in *.
      unfold is_done in *. rewrite HR. exact Hd.
    + simpl. exact Hd.
Qed.

(* errback of a list of requests whose futures are excused or already done *)
Lemma Inv_errback_list : forall fl cfg e l (X : N -> Prop) s,
  Inv X s -> (forall r, In r l -> X (r_fut r) \/ is_done s (r_fut r) = true) ->
  Inv (fun g => X g /\ ~ In g (map r_fut l)) (fst (errback_list fl cfg s e l)).
Proof.
  induction l as [|r t IH]; simpl; intros X s H Hl.
  - eapply Inv_iff; [|exact H]. intro g. tauto.
  - destruct (complete fl cfg s (r_fut r) (RErr e)) as [s1 o1] eqn:E1.
    destruct (errback_list fl cfg s1 e t) as [s2 o2] eqn:E2. simpl.
    assert (Es1 : s1 = fst (complete fl cfg s (r_fut r) (RErr e))) by (rewrite E1; reflexivity).
    assert (H1 : Inv (fun g => X g /\ g <> r_fut r) s1).
    { rewrite Es1. apply Inv_complete; [assumption | apply Hl; now left]. }
    specialize (IH (fun g => X g /\ g <> r_fut r) s1 H1).
    rewrite E2 in IH. simpl in IH. eapply Inv_iff; [|apply IH].
    + intro g. simpl. split.
      * intros [[Hx Hne] Hn]. split; [assumption|]. intros [Heq|Hin]; [now symmetry in Heq | contradiction].
      * intros [Hx Hn]. split; [split; [assumption|]|]; intro; apply Hn; [left; now symmetry | now right].
    + intros r0 Hr0. rewrite Es1, complete_is_done.
      destruct (N.eq_dec (r_fut r0) (r_fut r)) as [Heq|Hne].
      * right. rewrite Heq, N.eqb_refl. apply orb_true_r.
      * destruct (Hl r0 (or_intror Hr0)) as [Hx|Hd]; [left; split; assumption | right; rewrite Hd; reflexivity].
Qed.

Lemma Inv_errback_all : forall fl cfg e s, Inv none s -> Inv none (fst (errback_all fl cfg s e)).
Proof.
  intros fl cfg e s H. unfold errback_all.
  eapply Inv_iff; [|apply Inv_errback_list; [apply Inv_clear; exact H|]].
  - intro g. simpl. unfold none. split; [|tauto]. intros [[[]|Hin] Hn]. apply Hn.
    apply in_map_iff in Hin. destruct Hin as [r [<- Hr]]. apply in_map. exact (proj2 (outstanding_in _ _) Hr).
  - intros r Hr. left. right. apply in_map. exact (proj1 (outstanding_in _ _) Hr).
Qed.

(* ---- composite functions ---- *)
Lemma Inv_weaken_done : forall (X Y : N -> Prop) s,
  Inv X s -> (forall g, X g -> is_done s g = true \/ Y g) -> (forall g, Y g -> X g) -> Inv Y s.
Proof.
  intros X Y s H HXY HYX. destruct H. constructor; try assumption.
  - intros g x Hg. destruct (i_cover0 g x Hg) as [?|[?|[?|Hx]]]; auto. destruct (HXY g Hx); auto.
  - intros g Hg. auto.
  - intros g Hg. auto.
Qed.

Lemma Inv_complete_popped : forall fl cfg s f r, Inv (fun g => none g \/ g = f) s -> Inv none (fst (complete fl cfg s f r)).
Proof.
  intros fl cfg s f r H. eapply Inv_iff; [|apply Inv_complete; [exact H | left; now right]].
  intro g. unfold none. simpl. tauto.
Qed.

Lemma Inv_lost_popped : forall s f, Inv (fun g => none g \/ g = f) s -> Inv none (set_lost s (lost s ++ [f])).
Proof.
  intros s f H. eapply Inv_iff; [|apply Inv_lost; [exact H | now right]].
  intro g. unfold none. simpl. tauto.
Qed.

Lemma Inv_popped_done : forall s f, Inv (fun g => none g \/ g = f) s -> is_done s f = true -> Inv none s.
Proof.
  intros s f H Hd. eapply Inv_weaken_done; [exact H | |].
  - intros g [[]| ->]. now left.
  - intros g [].
Qed.

Definition not_userdone (l : leaf) : Prop := match l with LUserDone _ _ => False | _ => True end.

Lemma run_leaf_ledger : forall fl cfg s l, not_userdone l -> ledger (fst (run_leaf fl cfg s l)) = ledger s.
Proof.
  intros fl cfg s l Hl. destruct l; simpl; try reflexivity; try contradiction.
  - destruct (sdetails s); reflexivity.
  - destruct (transport s); reflexivity.
  - destruct (transport s); [destruct (send cfg s (MCancel id))|]; reflexivity.
  - destruct (transport s); [destruct (send cfg (set_invs s (remove1 rq (invs s))) (MYield rq))|]; reflexivity.
Qed.

Lemma defer_leaf_ledger : forall fl cfg s l, not_userdone l -> ledger (fst (defer_leaf fl cfg s l)) = ledger s.
Proof. intros. destruct fl; simpl; [now apply run_leaf_ledger | reflexivity]. Qed.

Lemma Inv_run_leaf : forall fl cfg X s l, Inv X s -> Inv X (fst (run_leaf fl cfg s l)).
Proof.
  intros fl cfg X s l H. destruct l; try (eapply Inv_ext; [symmetry; apply run_leaf_ledger; exact I | assumption]).
  simpl. pose proof (Inv_react X cfg s f H) as HR. destruct (react cfg s f). exact HR.
Qed.

Lemma Inv_defer_leaf : forall fl cfg X s l, Inv X s -> Inv X (fst (defer_leaf fl cfg s l)).
Proof. intros. destruct fl; simpl; [now apply Inv_run_leaf | eapply Inv_ext; [|eassumption]; reflexivity]. Qed.

Lemma Inv_do_onLeave : forall fl cfg s rs, Inv none s -> Inv none (fst (fst (do_onLeave fl cfg s rs))).
Proof.
  intros fl cfg s rs H. unfold do_onLeave. destruct (u_leave_super cfg); [|assumption].
  destruct (errback_all fl cfg s (ELeave rs)) as [s1 o1] eqn:E1.
  destruct (defer_leaf fl cfg s1 LLeaveDisconnect) as [s2 o2] eqn:E2. simpl.
  replace s2 with (fst (defer_leaf fl cfg s1 LLeaveDisconnect)) by (rewrite E2; reflexivity).
  apply Inv_defer_leaf. replace s1 with (fst (errback_all fl cfg s (ELeave rs))) by (rewrite E1; reflexivity).
  now apply Inv_errback_all.
Qed.

Lemma Inv_do_onDisconnect : forall fl cfg s, Inv none s -> Inv none (fst (fst (do_onDisconnect fl cfg s))).
Proof.
  intros fl cfg s H. unfold do_onDisconnect. destruct (u_disc_super cfg); [|assumption].
  destruct (errback_all fl cfg s ETransportLost) as [s1 o1] eqn:E1. simpl.
  replace s1 with (fst (errback_all fl cfg s ETransportLost)) by (rewrite E1; reflexivity).
  now apply Inv_errback_all.
Qed.

Lemma Inv_leave_then : forall fl cfg s rs,
  Inv none s ->
  Inv none (fst (let '(s2, o2, raised) := do_onLeave fl cfg s rs in
                 let '(s3, o3) := defer_leaf fl cfg s2 (LLeaveK raised) in (s3, o2 ++ o3))).
Proof.
  intros fl cfg s rs H. pose proof (Inv_do_onLeave fl cfg s rs H) as H1.
  destruct (do_onLeave fl cfg s rs) as [[s2 o2] raised]. simpl in H1.
  pose proof (Inv_defer_leaf fl cfg none s2 (LLeaveK raised) H1) as H2.
  destruct (defer_leaf fl cfg s2 (LLeaveK raised)) as [s3 o3]. exact H2.
Qed.

Lemma Inv_challenge_failed : forall fl cfg s, Inv none s -> Inv none (fst (challenge_failed fl cfg s)).
Proof.
  intros fl cfg s H. unfold challenge_failed. destruct (transport s); [|assumption].
  destruct (send cfg s (MAbort RsCannotAuth)) as [o1 ok]. destruct ok; [|assumption].
  pose proof (Inv_leave_then fl cfg s RsCannotAuth H) as H1.
  destruct (do_onLeave fl cfg s RsCannotAuth) as [[s2 o2] raised].
  destruct (defer_leaf fl cfg s2 (LLeaveK raised)) as [s3 o3]. exact H1.
Qed.

Lemma Inv_run_thunk : forall fl cfg s t, Inv none s -> Inv none (fst (run_thunk fl cfg s t)).
Proof.
  intros fl cfg s t H. destruct t as [l| |o sidv|o|raised]; simpl.
  - now apply Inv_run_leaf.
  - destruct (u_connect cfg); [|assumption]. destruct (sid_truthy s); [assumption|].
    destruct (negb (transport s)); [assumption|].
    destruct (send cfg (set_join s) MHello). simpl. eapply Inv_ext; [|exact H]. reflexivity.
  - destruct o.
    + destruct (transport s).
      * pose proof (Inv_defer_leaf fl cfg none (set_sdetails (set_sid s (Some sidv)) (Some sidv)) LJoin) as HJ.
        apply HJ. eapply Inv_ext; [|exact H]. reflexivity.
      * simpl. eapply Inv_ext; [|exact H]. reflexivity.
    + destruct (transport s); [destruct (send cfg s (MAbort RsCannotAuth))|]; assumption.
    + destruct (transport s); [destruct (send cfg s (MAbort RsCannotAuth))|]; assumption.
  - destruct o.
    + destruct (transport s).
      * destruct (send cfg s MAuthenticate) as [o1 ok]. destruct ok; [assumption|].
        destruct fl; [assumption|]. pose proof (Inv_challenge_failed Aio cfg s H) as HC.
        destruct (challenge_failed Aio cfg s). exact HC.
      * destruct fl; [assumption | now apply Inv_challenge_failed].
    + destruct fl; [assumption | now apply Inv_challenge_failed].
    + now apply Inv_challenge_failed.
  - pose proof (Inv_errback_all fl cfg ETransportLost s H) as H1. destruct (errback_all fl cfg s ETransportLost) as [s1 o1]. exact H1.
Qed.

Lemma Inv_defer : forall fl cfg s t, Inv none s -> Inv none (fst (defer fl cfg s t)).
Proof.
  intros. destruct fl; simpl; [now apply Inv_run_thunk | eapply Inv_ext; [|eassumption]; reflexivity].
Qed.

Lemma Inv_run_queue : forall fl cfg q s, Inv none s -> Inv none (fst (run_queue fl cfg s q)).
Proof.
  induction q as [|t r IH]; simpl; intros s H; [assumption|].
  pose proof (Inv_run_thunk fl cfg s t H) as H1. destruct (run_thunk fl cfg s t) as [s1 o1].
  specialize (IH s1 H1). destruct (run_queue fl cfg s1 r) as [s2 o2]. exact IH.
Qed.

Lemma Inv_pop_reply : forall s k rq found,
  Inv none s ->
  (forall r s1, Inv (fun g => none g \/ g = r_fut r) s1 -> is_done s1 (r_fut r) = false -> Inv none (fst (found r s1))) ->
  Inv none (fst (pop_reply s k rq found)).
Proof.
  intros s k rq found H Hfound. unfold pop_reply. destruct (find_req k rq (pend s)) as [r|] eqn:Ef; [|assumption].
  pose proof (Inv_pop _ _ _ _ _ H Ef) as HP.
  destruct (is_done (set_pend s (remove_req k rq (pend s))) (r_fut r)) eqn:Ed.
  - simpl. eapply Inv_popped_done; eassumption.
  - now apply Hfound.
Qed.

Lemma Inv_established : forall fl cfg s o, Inv none s -> Inv none (fst (on_message_established fl cfg s o)).
Proof.
  intros fl cfg s o H. destruct o; simpl; try assumption.
  - (* GOODBYE *)
    destruct (if goodbye_sent s then ([], true) else send cfg s (MGoodbye RsNormal)) as [o1 ok]. destruct ok; [|assumption].
    assert (H0 : Inv none (set_sid s None)) by (eapply Inv_ext; [|exact H]; reflexivity).
    pose proof (Inv_leave_then fl cfg (set_sid s None) r H0) as H1.
    destruct (do_onLeave fl cfg (set_sid s None) r) as [[s2 o2] raised].
    destruct (defer_leaf fl cfg s2 (LLeaveK raised)) as [s3 o3]. exact H1.
  - (* PUBLISHED *)
    apply Inv_pop_reply; [assumption|]. intros r s1 H1 _. now apply Inv_complete_popped.
  - (* SUBSCRIBED *)
    apply Inv_pop_reply; [assumption|]. intros r s1 H1 _. apply Inv_complete_popped.
    eapply Inv_ext; [|exact H1]. reflexivity.
  - (* UNSUBSCRIBED *)
    apply Inv_pop_reply; [assumption|]. intros r s1 H1 _. apply Inv_complete_popped.
    eapply Inv_ext; [|exact H1]. reflexivity.
  - (* RESULT *)
    destruct (find_req KCall rq (pend s)) as [r|] eqn:Ef; [|assumption].
    destruct progress.
    + destruct (r_opts r) as [c|]; [|assumption]. destruct (co_progress c); assumption.
    + pose proof (Inv_pop _ _ _ _ _ H Ef) as HP.
      destruct (is_done (set_pend s (remove_req KCall rq (pend s))) (r_fut r)) eqn:Ed.
      * simpl. eapply Inv_popped_done; eassumption.
      * now apply Inv_complete_popped.
  - (* REGISTERED *)
    apply Inv_pop_reply; [assumption|]. intros r s1 H1 _. destruct (assoc regid (regs s1)).
    + simpl. now apply Inv_lost_popped.
    + apply Inv_complete_popped. eapply Inv_ext; [|exact H1]. reflexivity.
  - (* UNREGISTERED *)
    destruct (rq =? 0).
    + destruct regid as [g|]; [destruct (assoc g (regs s))|]; assumption.
    + apply Inv_pop_reply; [assumption|]. intros r s1 H1 _. apply Inv_complete_popped.
      eapply Inv_ext; [|exact H1]. reflexivity.
  - (* ERROR *)
    destruct (kind_of_code rtype) as [k|]; [|assumption].
    destruct (find_req k rq (pend s)) as [r|] eqn:Ef; [|assumption].
    apply Inv_complete_popped. now apply Inv_pop.
  - (* EVENT *)
    destruct (assoc subid (subs s)); assumption.
  - (* INVOCATION *)
    destruct (memN rq (invs s)); [assumption|]. destruct (assoc regid (regs s)); [|assumption].
    apply Inv_defer_leaf. eapply Inv_ext; [|exact H]. reflexivity.
Qed.

Lemma Inv_unjoined : forall fl cfg s o, Inv none s -> Inv none (fst (on_message_unjoined fl cfg s o)).
Proof.
  intros fl cfg s o H. destruct o; simpl; try assumption.
  - pose proof (Inv_defer fl cfg s (TWelcomeK (u_welcome cfg) sidv) H) as H1.
    destruct (defer fl cfg s (TWelcomeK (u_welcome cfg) sidv)). exact H1.
  - pose proof (Inv_leave_then fl cfg s r H) as H1.
    destruct (do_onLeave fl cfg s r) as [[s2 o2] raised].
    destruct (defer_leaf fl cfg s2 (LLeaveK raised)) as [s3 o3]. exact H1.
  - pose proof (Inv_defer fl cfg s (TChallengeK (u_challenge cfg)) H) as H1.
    destruct (defer fl cfg s (TChallengeK (u_challenge cfg))). exact H1.
Qed.

Lemma Inv_router : forall fl cfg s o, Inv none s ->
  Inv none (fst (if negb (transport s) then (s, [])
                 else match sid s with
                      | None => on_message_unjoined fl cfg s o
                      | Some _ => on_message_established fl cfg s o
                      end)).
Proof.
  intros. destruct (negb (transport s)); [assumption|].
  destruct (sid s); [now apply Inv_established | now apply Inv_unjoined].
Qed.

Lemma Inv_unsub_step : forall fl cfg s h, Inv none s -> Inv none (fst (unsub_step fl cfg s h)).
Proof.
  intros fl cfg s h H. unfold unsub_step.
    destruct (sub_id_of s h) as [subid|]; [|assumption].
    destruct (negb (memN h match assoc subid (subs s) with Some l => l | None => [] end)); [assumption|].
    destruct (negb (transport s)); [assumption|].
    set (rest := remove1 h match assoc subid (subs s) with Some l => l | None => [] end).
    set (s0 := set_subs s (assoc_set subid rest (subs s))).
    assert (H0 : Inv none s0) by (eapply Inv_ext; [|exact H]; reflexivity).
    destruct rest as [|x rest'].
    + exact (Inv_request_sent none cfg s0 KUnsubscribe None subid (fun id => MUnsubscribe id subid) false H0).
    + (* a fresh, already completed future *)
      set (f := next_fut s0).
      set (s1 := set_newreq s0 (next_id s0) (pend s0) (f + 1) (issued s0) (lost s0)).
      assert (H1 : Inv none s1).
      { pose proof (Inv_pend_lt _ _ H0) as Hp. destruct H0. constructor; simpl; try assumption.
        - intros g y Hg. apply i_issued_lt0 in Hg. unfold f. lia.
        - intros g y Hg. apply i_done_lt0 in Hg. unfold f. lia.
        - intros g []. }
      assert (Hnd : is_done s1 f = false).
      { apply is_done_false. intro Hin. apply in_map_iff in Hin. destruct Hin as [[g rr] [Hg Hin]]. simpl in Hg. subst g.
        destruct H0. apply i_done_lt0 in Hin. unfold f in Hin. lia. }
      assert (H2 : Inv none (fst (complete fl cfg s1 f (ROk (VCount (N.of_nat (length (x :: rest')))))))).
      { apply Inv_complete_of_add; [exact Hnd|].
        eapply Inv_add_done; try eassumption.
        - simpl. lia.
        - right. intros r0 Hr0. pose proof (Inv_pend_lt _ _ H0 r0 Hr0) as Hlt. unfold f. simpl in Hr0. lia.
        - auto.
        - intros g []. }
      destruct (complete fl cfg s1 f (ROk (VCount (N.of_nat (length (x :: rest')))))) as [s2 o2]. exact H2.
Qed.

Lemma Inv_failnext : forall X s v, Inv X s -> Inv X (set_failnext s v).
Proof. intros. eapply Inv_ext; [|eassumption]. reflexivity. Qed.

Theorem step_Inv : forall fl cfg s o, Inv none s -> Inv none (fst (step fl cfg s o)).
Proof.
  intros fl cfg s o H. destruct o; try (apply Inv_router; assumption); unfold step; cbv beta iota.
  - (* OOpen *)
    destruct (transport s); [assumption|]. apply Inv_defer. eapply Inv_ext; [|exact H]. reflexivity.
  - (* OLost *)
    destruct (negb (transport s)); [assumption|].
    set (s0 := set_conn s (opened s) false false).
    assert (H0 : Inv none s0) by (eapply Inv_ext; [|exact H]; reflexivity).
    assert (H3 : Inv none (fst (if sid_truthy s0
                                then let '(s1, o1, raised) := do_onLeave fl cfg s0 RsTransportLost in
                                     let '(s2, o2) := defer_leaf fl cfg s1 (LLeaveK raised) in (set_sid s2 None, o1 ++ o2)
                                else (s0, [])))).
    { destruct (sid_truthy s0); [|assumption].
      pose proof (Inv_leave_then fl cfg s0 RsTransportLost H0) as H1.
      destruct (do_onLeave fl cfg s0 RsTransportLost) as [[s1 o1] raised].
      destruct (defer_leaf fl cfg s1 (LLeaveK raised)) as [s2 o2]. simpl in *.
      eapply Inv_ext; [|exact H1]. reflexivity. }
    destruct (if sid_truthy s0
              then let '(s1, o1, raised) := do_onLeave fl cfg s0 RsTransportLost in
                   let '(s2, o2) := defer_leaf fl cfg s1 (LLeaveK raised) in (set_sid s2 None, o1 ++ o2)
              else (s0, [])) as [s3 o3]. simpl in H3.
    pose proof (Inv_do_onDisconnect fl cfg s3 H3) as H4.
    destruct (do_onDisconnect fl cfg s3) as [[s4 o4] raised]. simpl in H4.
    pose proof (Inv_defer fl cfg s4 (TDiscK raised) H4) as H5.
    destruct (defer fl cfg s4 (TDiscK raised)) as [s5 o5]. exact H5.
  - (* OTurn *)
    destruct fl; [assumption|]. apply Inv_run_queue. eapply Inv_ext; [|exact H]. reflexivity.
  - (* ACall *) now apply Inv_api_step.
  - (* APublish *) now apply Inv_api_step.
  - (* ASubscribe *) now apply Inv_api_step.
  - (* ARegister *) now apply Inv_api_step.
  - (* AUnsubscribe *) now apply Inv_unsub_step.
  - (* AUnregister *) now apply Inv_api_step.
  - (* ACancel *)
    destruct (is_done s f) eqn:Ed; [assumption|].
    destruct (assoc f (issued s)) as [[k id]|] eqn:Ea; [|assumption].
    assert (Hlt : f < next_fut s) by (eapply i_issued_lt; [exact H | eapply assoc_in; exact Ea]).
    assert (HC : Inv none (set_done s (done s ++ [(f, RErr ECancelled)]))).
    { eapply Inv_add_done; try eassumption; auto. }
    assert (HC' : Inv none (fst (complete fl cfg s f (RErr ECancelled)))).
    { now apply Inv_complete_of_add. }
    destruct fl.
    + destruct k; try (destruct (complete Tx cfg s f (RErr ECancelled)); exact HC').
      destruct (transport s); [|assumption]. destruct (send cfg s (MCancel id)) as [o1 ok]. destruct ok; [|assumption].
      destruct (complete Tx cfg s f (RErr ECancelled)); exact HC'.
    + simpl. destruct k; simpl; (eapply Inv_ext; [|exact HC]; reflexivity).
  - (* ALeave *)
    destruct (negb (sid_truthy s)); [assumption|]. destruct (goodbye_sent s); [assumption|].
    destruct (negb (transport s)); [assumption|]. destruct (send cfg s _) as [o1 ok]. destruct ok; [|assumption].
    simpl. eapply Inv_ext; [|exact H]. reflexivity.
  - (* ADisconnect *)
    destruct (transport s); [|assumption]. simpl. eapply Inv_ext; [|exact H]. reflexivity.
  - (* AFail *)
    destruct (is_fail_op o); [|assumption].
    assert (H0 : Inv none (set_failnext s (Some e))) by now apply Inv_failnext.
    assert (H1 : Inv none (fst (match o with AUnsubscribe h => unsub_step fl cfg (set_failnext s (Some e)) h
                                 | _ => api_step cfg (set_failnext s (Some e)) o end))).
    { destruct o; try (now apply Inv_api_step). now apply Inv_unsub_step. }
    destruct (match o with AUnsubscribe h => unsub_step fl cfg (set_failnext s (Some e)) h
              | _ => api_step cfg (set_failnext s (Some e)) o end) as [s1 o1]. simpl in *. now apply Inv_failnext.
  - (* AReact *)
    destruct (is_react_op o && negb (is_done s f) && isNoneB (assoc f (reacts s))); [|assumption].
    simpl. eapply Inv_ext; [|exact H]. reflexivity.
Qed.

Theorem run_Inv : forall fl cfg ops s, Inv none s -> Inv none (fst (run fl cfg s ops)).
Proof.
  induction ops as [|o r IH]; simpl; intros s H; [assumption|].
  pose proof (step_Inv fl cfg s o H) as H1. destruct (step fl cfg s o) as [s1 o1].
  specialize (IH s1 H1). destruct (run fl cfg s1 r) as [s2 tr]. exact IH.
Qed.

Theorem reachable_Inv : forall fl cfg ops, Inv none (final fl cfg ops).
Proof. intros. apply run_Inv. apply Inv_init. Qed.

(* ---------------------------------------------------------------------------------------------------------- *)
(* consequences of the invariant for reachable states                                                         *)
(* ---------------------------------------------------------------------------------------------------------- *)
Theorem done_once : forall fl cfg ops, NoDup (map fst (done (final fl cfg ops))).
Proof. intros. eapply i_done_nodup. apply reachable_Inv. Qed.

Theorem pending_own_key : forall fl cfg ops k i r,
  find_req k i (pend (final fl cfg ops)) = Some r ->
  In (r_fut r, (k, i)) (issued (final fl cfg ops)) /\ NoDup (map fst (issued (final fl cfg ops))).
Proof.
  intros fl cfg ops k i r Hf. pose proof (reachable_Inv fl cfg ops) as H.
  destruct (find_req_some _ _ _ _ Hf) as [Hin Hk]. split; [|eapply i_issued_nodup; eassumption].
  rewrite <- Hk. eapply i_pend_issued; eassumption.
Qed.

Theorem pending_one_entry : forall fl cfg ops,
  NoDup (map req_key (pend (final fl cfg ops))) /\ NoDup (map r_fut (pend (final fl cfg ops))).
Proof. intros. pose proof (reachable_Inv fl cfg ops) as H. split; [eapply i_keys | eapply i_futs]; eassumption. Qed.

Theorem pending_not_done : forall fl cfg ops r,
  In r (pend (final fl cfg ops)) -> is_done (final fl cfg ops) (r_fut r) = true ->
  result_of (final fl cfg ops) (r_fut r) = Some (RErr ECancelled).
Proof. intros fl cfg ops r Hin Hd. eapply i_pend_done; [apply reachable_Inv | assumption | assumption]. Qed.

Theorem issued_accounted : forall fl cfg ops f x,
  In (f, x) (issued (final fl cfg ops)) ->
  (exists r, In r (pend (final fl cfg ops)) /\ r_fut r = f) \/ is_done (final fl cfg ops) f = true
  \/ In f (lost (final fl cfg ops)).
Proof.
  intros fl cfg ops f x Hin. pose proof (reachable_Inv fl cfg ops) as H.
  destruct (i_cover _ _ H f x Hin) as [?|[?|[?|[]]]]; auto.
Qed.

(* ---------------------------------------------------------------------------------------------------------- *)
(* replies                                                                                                    *)
(* ---------------------------------------------------------------------------------------------------------- *)
(* the request a router message answers, and the result the property prescribes for it *)
Definition reply_spec (o : op) : option (kind * N * (req -> result)) :=
  match o with
  | RPublished rq pubid => Some (KPublish, rq, fun _ => ROk (VPublication pubid))
  | RSubscribed rq subid => Some (KSubscribe, rq, fun _ => ROk (VSubscription subid))
  | RUnsubscribed rq => Some (KUnsubscribe, rq, fun _ => ROk VZero)
  | RResult rq false p => Some (KCall, rq, fun r => ROk (result_value (call_details (r_opts r)) p))
  | RRegistered rq regid => Some (KRegister, rq, fun _ => ROk (VRegistration regid))
  | RUnregistered rq regid => if rq =? 0 then None else Some (KUnregister, rq, fun _ => ROk VNone)
  | RError rtype rq uri p => match kind_of_code rtype with
                             | Some k => Some (k, rq, fun _ => RErr (EApp uri p))
                             | None => None
                             end
  | _ => None
  end.

(* REGISTERED naming a registration id that is already in use is itself a protocol violation *)
Definition reply_wellformed (s : sess) (o : op) : Prop :=
  match o with RRegistered _ regid => assoc regid (regs s) = None | _ => True end.

Definition user_sees (fl : flavour) (s s' : sess) (outs : list out) (f : N) (r : result) : Prop :=
  match fl with
  | Tx => outs = [Completed f r] /\ queue s' = queue s
  | Aio => outs = [] /\ queue s' = queue s ++ [TLeaf (LUserDone f r)]
  end.

Lemma is_done_set_pend : forall s p f, is_done (set_pend s p) f = is_done s f.
Proof. reflexivity. Qed.

Theorem reply_completes : forall fl cfg s o v k i c r,
  transport s = true -> sid s = Some v ->
  reply_spec o = Some (k, i, c) -> find_req k i (pend s) = Some r -> is_done s (r_fut r) = false ->
  reply_wellformed s o -> assoc (r_fut r) (reacts s) = None ->
  let '(s', outs) := step fl cfg s o in
  pend s' = remove_req k i (pend s) /\ done s' = done s ++ [(r_fut r, c r)] /\ user_sees fl s s' outs (r_fut r) (c r)
  /\ issued s' = issued s /\ lost s' = lost s /\ next_id s' = next_id s /\ sid s' = sid s.
Proof.
  intros fl cfg s o v k i c r Ht Hs Hspec Hf Hd Hwf Hno.
  destruct o; simpl in Hspec; try discriminate.
  - inversion Hspec; subst. unfold step. rewrite Ht, Hs. simpl. unfold pop_reply. rewrite Hf, is_done_set_pend, Hd.
    unfold complete. rewrite is_done_set_pend, Hd. unfold react; simpl; rewrite ?Hno; destruct fl; simpl; repeat split; try reflexivity; simpl; congruence.
  - inversion Hspec; subst. unfold step. rewrite Ht, Hs. simpl. unfold pop_reply. rewrite Hf, is_done_set_pend, Hd.
    unfold complete. unfold is_done in *. simpl. rewrite Hd. unfold react; simpl; rewrite ?Hno; destruct fl; simpl; repeat split; try reflexivity; simpl; congruence.
  - inversion Hspec; subst. unfold step. rewrite Ht, Hs. simpl. unfold pop_reply. rewrite Hf, is_done_set_pend, Hd.
    unfold complete. unfold is_done in *. simpl. rewrite Hd. unfold react; simpl; rewrite ?Hno; destruct fl; simpl; repeat split; try reflexivity; simpl; congruence.
  - destruct progress; [discriminate|]. inversion Hspec; subst. unfold step. rewrite Ht, Hs. simpl. rewrite Hf.
    rewrite is_done_set_pend, Hd. unfold complete. rewrite is_done_set_pend, Hd.
    unfold react; simpl; rewrite ?Hno; destruct fl; simpl; repeat split; try reflexivity; simpl; congruence.
  - inversion Hspec; subst. simpl in Hwf. unfold step. rewrite Ht, Hs. simpl. unfold pop_reply.
    rewrite Hf, is_done_set_pend, Hd. simpl. rewrite Hwf.
    unfold complete. unfold is_done in *. simpl. rewrite Hd. unfold react; simpl; rewrite ?Hno; destruct fl; simpl; repeat split; try reflexivity; simpl; congruence.
  - destruct (rq =? 0) eqn:E0; [discriminate|]. inversion Hspec; subst. unfold step. rewrite Ht, Hs. simpl. rewrite E0.
    unfold pop_reply. rewrite Hf, is_done_set_pend, Hd.
    unfold complete. unfold is_done in *. simpl. rewrite Hd. unfold react; simpl; rewrite ?Hno; destruct fl; simpl; repeat split; try reflexivity; simpl; congruence.
  - destruct (kind_of_code rtype) as [k'|] eqn:Ek; [|discriminate]. inversion Hspec; subst.
    unfold step. rewrite Ht, Hs. simpl. rewrite Ek, Hf.
    unfold complete. rewrite is_done_set_pend, Hd. unfold react; simpl; rewrite ?Hno; destruct fl; simpl; repeat split; try reflexivity; simpl; congruence.
Qed.

(* a reply that matches no pending request: ProtocolError, nothing changes *)
Theorem reply_unknown : forall fl cfg s o v k i c,
  transport s = true -> sid s = Some v ->
  reply_spec o = Some (k, i, c) -> find_req k i (pend s) = None ->
  step fl cfg s o = (s, [Raised XProtocolError]).
Proof.
  intros fl cfg s o v k i c Ht Hs Hspec Hf.
  destruct o; simpl in Hspec; try discriminate.
  - inversion Hspec; subst. unfold step. rewrite Ht, Hs. simpl. unfold pop_reply. rewrite Hf. reflexivity.
  - inversion Hspec; subst. unfold step. rewrite Ht, Hs. simpl. unfold pop_reply. rewrite Hf. reflexivity.
  - inversion Hspec; subst. unfold step. rewrite Ht, Hs. simpl. unfold pop_reply. rewrite Hf. reflexivity.
  - destruct progress; [discriminate|]. inversion Hspec; subst. unfold step. rewrite Ht, Hs. simpl. rewrite Hf. reflexivity.
  - inversion Hspec; subst. unfold step. rewrite Ht, Hs. simpl. unfold pop_reply. rewrite Hf. reflexivity.
  - destruct (rq =? 0) eqn:E0; [discriminate|]. inversion Hspec; subst. unfold step. rewrite Ht, Hs. simpl. rewrite E0.
    unfold pop_reply. rewrite Hf. reflexivity.
  - destruct (kind_of_code rtype) as [k'|] eqn:Ek; [|discriminate]. inversion Hspec; subst.
    unfold step. rewrite Ht, Hs. simpl. rewrite Ek, Hf. reflexivity.
Qed.

(* ERROR with a request type that belongs to none of the six tables (e.g. INVOCATION) *)
Theorem error_foreign_type : forall fl cfg s v rtype rq uri p,
  transport s = true -> sid s = Some v -> kind_of_code rtype = None ->
  step fl cfg s (RError rtype rq uri p) = (s, [Raised XProtocolError]).
Proof. intros. unfold step. rewrite H, H0. simpl. rewrite H1. reflexivity. Qed.

(* whatever a reply does, it touches only the record stored under its own (kind, id) *)
Theorem reply_no_cross : forall fl cfg s o v k i c,
  transport s = true -> sid s = Some v -> reply_spec o = Some (k, i, c) ->
  (forall r, find_req k i (pend s) = Some r -> assoc (r_fut r) (reacts s) = None) ->
  let s' := fst (step fl cfg s o) in
  (forall f, is_done s' f = true -> is_done s f = true \/ exists r, find_req k i (pend s) = Some r /\ r_fut r = f)
  /\ (forall r', In r' (pend s) -> req_key r' <> (k, i) -> In r' (pend s'))
  /\ (forall r', In r' (pend s') -> In r' (pend s)).
Proof.
  intros fl cfg s o v k i c Ht Hs Hspec Hno.
  assert (Hgen : forall s1, (s1 = s \/ (exists r, find_req k i (pend s) = Some r /\
                    (pend s1 = remove_req k i (pend s)) /\
                    (done s1 = done s \/ exists res, done s1 = done s ++ [(r_fut r, res)]))) ->
      (forall f, is_done s1 f = true -> is_done s f = true \/ exists r, find_req k i (pend s) = Some r /\ r_fut r = f)
      /\ (forall r', In r' (pend s) -> req_key r' <> (k, i) -> In r' (pend s1))
      /\ (forall r', In r' (pend s1) -> In r' (pend s))).
  { intros s1 [->|[r [Hf [Hp Hdn]]]]; [repeat split; auto|].
    repeat split.
    - intros f Hd. destruct Hdn as [Hdn|[res Hdn]]; unfold is_done in *; rewrite Hdn in Hd; [now left|].
      rewrite existsb_app in Hd. apply orb_true_iff in Hd. destruct Hd as [Hd|Hd]; [now left|].
      simpl in Hd. rewrite orb_false_r in Hd. apply N.eqb_eq in Hd. right. exists r. split; [assumption | now symmetry].
    - intros r' Hin Hk. rewrite Hp. now apply remove_req_keeps.
    - intros r' Hin. rewrite Hp in Hin. eapply remove_req_in; eassumption. }
  apply Hgen. clear Hgen.
  assert (Hpop : forall found,
     (forall r s1, find_req k i (pend s) = Some r -> s1 = set_pend s (remove_req k i (pend s)) ->
        pend (fst (found r s1)) = remove_req k i (pend s) /\
        (done (fst (found r s1)) = done s \/ exists res, done (fst (found r s1)) = done s ++ [(r_fut r, res)])) ->
     fst (pop_reply s k i found) = s \/
     exists r, find_req k i (pend s) = Some r /\ pend (fst (pop_reply s k i found)) = remove_req k i (pend s) /\
       (done (fst (pop_reply s k i found)) = done s \/ exists res, done (fst (pop_reply s k i found)) = done s ++ [(r_fut r, res)])).
  { intros found Hfound. unfold pop_reply. destruct (find_req k i (pend s)) as [r|] eqn:Ef; [|now left].
    right. exists r. split; [reflexivity|].
    destruct (is_done (set_pend s (remove_req k i (pend s))) (r_fut r)).
    - simpl. split; [reflexivity | now left].
    - apply (Hfound r _ eq_refl eq_refl). }
  assert (Hcomp : forall fl0 s1 f res, assoc f (reacts s1) = None ->
             pend (fst (complete fl0 cfg s1 f res)) = pend s1 /\
             (done (fst (complete fl0 cfg s1 f res)) = done s1 \/ done (fst (complete fl0 cfg s1 f res)) = done s1 ++ [(f, res)])).
  { intros fl0 s1 f res Hn. unfold complete. destruct (is_done s1 f); [simpl; auto|].
    destruct fl0; simpl; [unfold react; simpl; rewrite Hn; simpl; auto | auto]. }
  destruct o; simpl in Hspec; try discriminate; unfold step; rewrite Ht, Hs; simpl.
  - inversion Hspec; subst. apply Hpop. intros r s1 Hfr ->.
    destruct (Hcomp fl (set_pend s (remove_req KPublish i (pend s))) (r_fut r) (ROk (VPublication pubid)) (Hno _ Hfr)) as [Hp [Hd|Hd]];
      rewrite Hp, Hd; simpl; eauto.
  - inversion Hspec; subst. apply Hpop. intros r s1 Hfr ->.
    match goal with |- context [complete fl cfg ?S ?F ?R] => destruct (Hcomp fl S F R (Hno _ Hfr)) as [Hp [Hd|Hd]]; rewrite Hp, Hd; simpl; eauto end.
  - inversion Hspec; subst. apply Hpop. intros r s1 Hfr ->.
    match goal with |- context [complete fl cfg ?S ?F ?R] => destruct (Hcomp fl S F R (Hno _ Hfr)) as [Hp [Hd|Hd]]; rewrite Hp, Hd; simpl; eauto end.
  - destruct progress; [discriminate|]. inversion Hspec; subst.
    destruct (find_req KCall i (pend s)) as [r|] eqn:Ef; [|now left]. right. exists r. split; [reflexivity|].
    destruct (is_done (set_pend s (remove_req KCall i (pend s))) (r_fut r)); [simpl; auto|].
    match goal with |- context [complete fl cfg ?S ?F ?R] => destruct (Hcomp fl S F R (Hno _ eq_refl)) as [Hp [Hd|Hd]]; rewrite Hp, Hd; simpl; eauto end.
  - inversion Hspec; subst. apply Hpop. intros r s1 Hfr ->.
    destruct (assoc regid (regs (set_pend s (remove_req KRegister i (pend s))))); [simpl; auto|].
    match goal with |- context [complete fl cfg ?S ?F ?R] => destruct (Hcomp fl S F R (Hno _ Hfr)) as [Hp [Hd|Hd]]; rewrite Hp, Hd; simpl; eauto end.
  - destruct (rq =? 0) eqn:E0; [discriminate|]. inversion Hspec; subst. apply Hpop. intros r s1 Hfr ->.
    match goal with |- context [complete fl cfg ?S ?F ?R] => destruct (Hcomp fl S F R (Hno _ Hfr)) as [Hp [Hd|Hd]]; rewrite Hp, Hd; simpl; eauto end.
  - destruct (kind_of_code rtype) as [k'|] eqn:Ek; [|discriminate]. inversion Hspec; subst.
    destruct (find_req k i (pend s)) as [r|] eqn:Ef; [|now left]. right. exists r. split; [reflexivity|].
    match goal with |- context [complete fl cfg ?S ?F ?R] => destruct (Hcomp fl S F R (Hno _ eq_refl)) as [Hp [Hd|Hd]]; rewrite Hp, Hd; simpl; eauto end.
Qed.

(* progressive results: the state does not change at all; only the on_progress handler of that very call can fire,
   with the payload of this message, and nothing is raised *)
Theorem progress_local : forall fl cfg s v rq p,
  transport s = true -> sid s = Some v ->
  exists outs, step fl cfg s (RResult rq true p) = (s, outs) /\
    (outs = [Raised XProtocolError] /\ find_req KCall rq (pend s) = None
     \/ exists r, find_req KCall rq (pend s) = Some r /\
          (outs = [] /\ (r_opts r = None \/ exists c, r_opts r = Some c /\ co_progress c = false)
           \/ exists c, r_opts r = Some c /\ co_progress c = true /\
                outs = [Progress (r_fut r) (co_details c) (args_or_empty (p_args p)) (kw_or_empty (p_kw p))])).
Proof.
  intros fl cfg s v rq p Ht Hs. unfold step. rewrite Ht, Hs. simpl.
  destruct (find_req KCall rq (pend s)) as [r|] eqn:Ef; [|eexists; split; [reflexivity | left; auto]].
  destruct (r_opts r) as [c|] eqn:Eo; [|eexists; split; [reflexivity | right; exists r; auto]].
  destruct (co_progress c) eqn:Ep; eexists; (split; [reflexivity | right; exists r; split; [reflexivity|]]).
  - right. exists c. auto.
  - left. split; [reflexivity|]. right. exists c. auto.
Qed.

(* ---------------------------------------------------------------------------------------------------------- *)
(* one request message per API call                                                                           *)
(* ---------------------------------------------------------------------------------------------------------- *)
Definition mkreq (k : kind) (id f : N) (o : option call_opts) (t : N) : req :=
  {| r_kind := k; r_id := id; r_fut := f; r_opts := o; r_target := t |}.

Definition sends_one (fl : flavour) (cfg : ucfg) (s : sess) (o : op) (k : kind) (co : option call_opts) (t : N)
           (m : N -> wmsg) : Prop :=
  let id := idgen_next (next_id s) in
  let f := next_fut s in
  exists s', step fl cfg s o = (s', [Sent (m id); ApiReturned (Some f)])
    /\ pend s' = put_req (mkreq k id f co t) (pend s) /\ next_id s' = id /\ next_fut s' = f + 1
    /\ done s' = done s /\ issued s' = issued s ++ [(f, (k, id))].

Lemma send_open : forall cfg s m, topen s = true -> send cfg s m = ([Sent m], true).
Proof. intros. unfold send. rewrite H. reflexivity. Qed.

Theorem call_one_message : forall fl cfg s uri a kw o, transport s = true -> topen s = true -> failnext s = None ->
  sends_one fl cfg s (ACall uri a kw o) KCall o uri
    (fun id => MCall id uri a kw (match o with Some c => co_timeout c | None => None end)
                     (match o with Some c => co_progress c | None => false end)).
Proof.
  intros until 2. intro Hfn. intros. unfold sends_one, step, api_step. rewrite H. simpl. unfold send_req, send. simpl. rewrite Hfn, H0. simpl.
  eexists. split; [reflexivity|]. simpl. repeat split; reflexivity.
Qed.

Theorem publish_ack_one_message : forall fl cfg s uri a kw o, transport s = true -> topen s = true -> failnext s = None ->
  po_wants_ack o = true ->
  sends_one fl cfg s (APublish uri a kw o) KPublish None uri
    (fun id => MPublish id uri a kw (match o with Some p => po_ack p | None => None end)
                        (match o with Some p => po_exclude_me p | None => None end)).
Proof.
  intros until 2. intro Hfn. intros. unfold sends_one, step, api_step. rewrite H. simpl. rewrite H1. unfold send_req, send. simpl. rewrite Hfn, H0. simpl.
  eexists. split; [reflexivity|]. simpl. repeat split; reflexivity.
Qed.

(* publish without acknowledge: one PUBLISH with a fresh id, no future, no record *)
Theorem publish_noack_one_message : forall fl cfg s uri a kw o, transport s = true -> topen s = true -> failnext s = None ->
  po_wants_ack o = false ->
  exists s', step fl cfg s (APublish uri a kw o) =
      (s', [Sent (MPublish (idgen_next (next_id s)) uri a kw (match o with Some p => po_ack p | None => None end)
                           (match o with Some p => po_exclude_me p | None => None end)); ApiReturned None])
    /\ pend s' = pend s /\ next_id s' = idgen_next (next_id s) /\ done s' = done s /\ issued s' = issued s.
Proof.
  intros until 2. intro Hfn. intros. unfold step, api_step. rewrite H. simpl. rewrite H1. unfold send_req, send. simpl. rewrite Hfn, H0. simpl.
  eexists. split; [reflexivity|]. simpl. repeat split; reflexivity.
Qed.

Theorem subscribe_one_message : forall fl cfg s uri o, transport s = true -> topen s = true -> failnext s = None ->
  sends_one fl cfg s (ASubscribe uri o) KSubscribe None uri
    (fun id => MSubscribe id uri (match o with Some c => opt_default (so_match c) | None => 0 end)
                          (match o with Some c => so_get_retained c | None => None end)).
Proof.
  intros until 2. intro Hfn. intros. unfold sends_one, step, api_step. rewrite H. simpl. unfold send_req, send. simpl. rewrite Hfn, H0. simpl.
  eexists. split; [reflexivity|]. simpl. repeat split; reflexivity.
Qed.

Theorem register_one_message : forall fl cfg s uri o, transport s = true -> topen s = true -> failnext s = None ->
  sends_one fl cfg s (ARegister uri o) KRegister None uri
    (fun id => MRegister id uri (match o with Some c => opt_default (ro_match c) | None => 0 end)
                         (match o with Some c => opt_default (ro_invoke c) | None => 0 end)).
Proof.
  intros until 2. intro Hfn. intros. unfold sends_one, step, api_step. rewrite H. simpl. unfold send_req, send. simpl. rewrite Hfn, H0. simpl.
  eexists. split; [reflexivity|]. simpl. repeat split; reflexivity.
Qed.

(* unsubscribing the last handler of a subscription sends UNSUBSCRIBE for that subscription id *)
Theorem unsubscribe_one_message : forall fl cfg s h subid, transport s = true -> topen s = true -> failnext s = None ->
  sub_id_of s h = Some subid -> assoc subid (subs s) = Some [h] ->
  sends_one fl cfg s (AUnsubscribe h) KUnsubscribe None subid (fun id => MUnsubscribe id subid).
Proof.
  intros until 2. intro Hfn. intros. unfold sends_one, step, unsub_step. rewrite H1, H2. simpl. rewrite N.eqb_refl. simpl. rewrite H. simpl.
  unfold send_req, send. simpl. rewrite Hfn, H0. simpl.
  eexists. split; [reflexivity|]. simpl. repeat split; reflexivity.
Qed.

Theorem unregister_one_message : forall fl cfg s h regid, transport s = true -> topen s = true -> failnext s = None ->
  reg_id_of s h = Some regid -> assoc regid (regs s) = Some h ->
  sends_one fl cfg s (AUnregister h) KUnregister None regid (fun id => MUnregister id regid).
Proof.
  intros until 2. intro Hfn. intros. unfold sends_one, step, api_step. rewrite H1, H2. rewrite N.eqb_refl. simpl. rewrite H. simpl.
  unfold send_req, send. simpl. rewrite Hfn, H0. simpl.
  eexists. split; [reflexivity|]. simpl. repeat split; reflexivity.
Qed.

(* ---------------------------------------------------------------------------------------------------------- *)
(* the id generator                                                                                           *)
(* ---------------------------------------------------------------------------------------------------------- *)
Lemma idgen_next_range : forall n, 1 <= idgen_next n <= IDGEN_BOUND.
Proof.
  intro n. unfold idgen_next. cbv zeta. unfold IDGEN_BOUND, IDGEN_WRAP.
  destruct (9007199254740992 <? n + 1) eqn:E; [lia|]. apply N.ltb_ge in E. lia.
Qed.

(* k applications of next() to the initial generator state *)
Fixpoint idgen_iter (k : nat) : N := match k with O => IDGEN_START | S k' => idgen_next (idgen_iter k') end.

Ltac Zify.zify_post_hook ::= Z.to_euclidean_division_equations.

Lemma idgen_iter_closed : forall k, idgen_iter (S k) = (N.of_nat k) mod 9007199254740992 + 1.
Proof.
  induction k as [|k IH].
  - reflexivity.
  - change (idgen_iter (S (S k))) with (idgen_next (idgen_iter (S k))). rewrite IH.
    unfold idgen_next. cbv zeta. unfold IDGEN_BOUND, IDGEN_WRAP.
    rewrite Nat2N.inj_succ.
    destruct (9007199254740992 <? N.of_nat k mod 9007199254740992 + 1 + 1) eqn:E.
    + apply N.ltb_lt in E. lia.
    + apply N.ltb_ge in E. lia.
Qed.

(* ---------------------------------------------------------------------------------------------------------- *)
(* life-cycle: state-level facts                                                                              *)
(* ---------------------------------------------------------------------------------------------------------- *)
Definition is_handshake (o : op) : bool :=
  match o with RWelcome _ | RAbort _ | RChallenge => true | _ => false end.

(* before a session is established only WELCOME / ABORT / CHALLENGE are accepted *)
Theorem phase_gate_pre : forall fl cfg s o,
  transport s = true -> sid s = None -> is_router_msg o = true -> is_handshake o = false ->
  step fl cfg s o = (s, [Raised XProtocolError]).
Proof.
  intros fl cfg s o Ht Hs Hr Hh. destruct o; simpl in Hr, Hh; try discriminate;
    unfold step; rewrite Ht, Hs; reflexivity.
Qed.

(* afterwards handshake messages (and any non-session message) are protocol violations *)
Theorem phase_gate_post : forall fl cfg s o v,
  transport s = true -> sid s = Some v -> (is_handshake o = true \/ o = ROther) ->
  step fl cfg s o = (s, [Raised XProtocolError]).
Proof.
  intros fl cfg s o v Ht Hs [Hh| ->]; [destruct o; simpl in Hh; try discriminate|]; unfold step; rewrite Ht, Hs; reflexivity.
Qed.

(* API calls once the transport is gone: they raise at once, nothing is recorded *)
Definition is_request_api (o : op) : bool :=
  match o with ACall _ _ _ _ | APublish _ _ _ _ | ASubscribe _ _ | ARegister _ _ => true | _ => false end.

Theorem api_after_lost : forall fl cfg s o,
  transport s = false -> is_request_api o = true -> step fl cfg s o = (s, [ApiRaised XTransportLost]).
Proof. intros fl cfg s o Ht Ha. destruct o; try discriminate; unfold step, api_step; rewrite Ht; reflexivity. Qed.

Theorem api_after_lost_objects : forall fl cfg s h,
  transport s = false ->
  (exists e, step fl cfg s (AUnsubscribe h) = (s, [ApiRaised e])) /\
  (exists e, step fl cfg s (AUnregister h) = (s, [ApiRaised e])).
Proof.
  intros fl cfg s h Ht. split; unfold step.
  - unfold unsub_step. destruct (sub_id_of s h); [|eexists; reflexivity].
    destruct (negb (memN h _)); [eexists; reflexivity|]. rewrite Ht. eexists; reflexivity.
  - unfold api_step. destruct (reg_id_of s h); [|eexists; reflexivity]. destruct (assoc n (regs s)); [|eexists; reflexivity].
    destruct (negb (n0 =? h)); [eexists; reflexivity|]. rewrite Ht. eexists; reflexivity.
Qed.

(* ... and once the transport was closed (default onLeave -> disconnect) while the transport object is still
   attached, provided its send() refuses (the harness transport; rawsocket / websocket transports differ) *)
Theorem api_after_close : forall fl cfg s uri a kw o,
  transport s = true -> topen s = false -> t_lenient cfg = false -> failnext s = None ->
  exists s' m, step fl cfg s (ACall uri a kw o) = (s', [SendFailed m; ApiRaised XTransportLost])
               /\ (forall r, In r (pend s') -> In r (pend s)) /\ done s' = done s.
Proof.
  intros fl cfg s uri a kw o Ht Ho Hw Hfn. unfold step, api_step. rewrite Ht. simpl. unfold send_req, send, send_exn. simpl. rewrite Hfn, Ho, Hw. simpl.
  eexists. eexists. split; [reflexivity|]. simpl. split; [|reflexivity].
  intros r Hr.
  assert (Hsub : forall x l z, In z (remove_req (r_kind x) (r_id x) (put_req x l)) -> In z l).
  { intros x. induction l as [|w u IH]; simpl; intros z Hz.
    - unfold req_is in Hz. rewrite kind_eqb_refl, N.eqb_refl in Hz. simpl in Hz. contradiction.
    - destruct (req_is (r_kind x) (r_id x) w) eqn:E; simpl in Hz.
      + unfold req_is in Hz at 1. rewrite kind_eqb_refl, N.eqb_refl in Hz. simpl in Hz. now right.
      + rewrite E in Hz. destruct Hz as [<-|Hz]; [now left | right; now apply IH]. }
  exact (Hsub _ _ _ Hr).
Qed.

(* ---------------------------------------------------------------------------------------------------------- *)
(* request ids over whole histories                                                                           *)
(* ---------------------------------------------------------------------------------------------------------- *)
(* what matters for request ids in a history: a request message bearing id i, and HELLO (join() starts the ids of
   the new session at 1 again) *)
Inductive idev := IdReq (i : N) | IdJoin.
Definition req_id_of_msg (m : wmsg) : option idev :=
  match m with
  | MPublish id _ _ _ _ _ | MSubscribe id _ _ _ | MUnsubscribe id _ | MCall id _ _ _ _ _ | MRegister id _ _ _
  | MUnregister id _ => Some (IdReq id)
  | MHello => Some IdJoin
  | _ => None
  end.
(* a message handed to ITransport.send(), whether send() returned, raised or silently dropped it *)
Definition req_id_of (e : out) : option idev :=
  match e with Sent m | SendFailed m | Dropped m => req_id_of_msg m | _ => None end.
Definition request_ids (t : list out) : list idev :=
  flat_map (fun e => match req_id_of e with Some i => [i] | None => [] end) t.

Lemma request_ids_app : forall a b, request_ids (a ++ b) = request_ids a ++ request_ids b.
Proof. intros. unfold request_ids. apply flat_map_app. Qed.

(* the ids of the request messages of [o] are the successive values of the generator, from the state of [s] to the
   state of [s'] *)
Fixpoint id_chain (n : N) (l : list idev) : option N :=
  match l with
  | [] => Some n
  | IdReq i :: t => if i =? idgen_next n then id_chain i t else None
  | IdJoin :: t => id_chain 0 t
  end.
Definition NR (s s' : sess) (o : list out) : Prop := id_chain (next_id s) (request_ids o) = Some (next_id s').

Lemma id_chain_app : forall a b n, id_chain n (a ++ b) = match id_chain n a with Some m => id_chain m b | None => None end.
Proof. induction a as [|[i|] t IH]; simpl; intros b n; [reflexivity| |apply IH]. destruct (i =? idgen_next n); [apply IH | reflexivity]. Qed.

Lemma NR_refl : forall s, NR s s [].
Proof. reflexivity. Qed.

Lemma NR_quiet : forall s s' o, request_ids o = [] -> next_id s' = next_id s -> NR s s' o.
Proof. intros s s' o A B. unfold NR. rewrite A, B. reflexivity. Qed.

Lemma NR_trans : forall s s1 s2 o1 o2, NR s s1 o1 -> NR s1 s2 o2 -> NR s s2 (o1 ++ o2).
Proof. unfold NR. intros s s1 s2 o1 o2 A B. rewrite request_ids_app, id_chain_app, A. exact B. Qed.

Lemma NR_out : forall s s1 o1 o2, NR s s1 o1 -> request_ids o2 = [] -> NR s s1 (o2 ++ o1).
Proof. unfold NR. intros s s1 o1 o2 A C. rewrite request_ids_app, C. exact A. Qed.

Lemma NR_out_r : forall s s1 o1 o2, NR s s1 o1 -> request_ids o2 = [] -> NR s s1 (o1 ++ o2).
Proof. unfold NR. intros s s1 o1 o2 A C. rewrite request_ids_app, C, app_nil_r. exact A. Qed.

Lemma NR_from : forall s s0 s' o, next_id s0 = next_id s -> NR s0 s' o -> NR s s' o.
Proof. unfold NR. intros s s0 s' o E H. rewrite <- E. exact H. Qed.

Lemma send_nr : forall cfg s m, req_id_of_msg m = None -> request_ids (fst (send cfg s m)) = [].
Proof.
  intros cfg s m H. unfold send. destruct (topen s); [|destruct (t_lenient cfg && transport s)]; simpl; rewrite H; reflexivity.
Qed.

Lemma send_req_nr : forall cfg s m, req_id_of_msg m = None -> request_ids (fst (send_req cfg s m)) = [].
Proof. intros cfg s m H. unfold send_req. destruct (failnext s); [simpl; rewrite H; reflexivity | now apply send_nr]. Qed.

Lemma new_request_sent_ids : forall cfg s k co t (mk : N -> wmsg) (keep : bool) tail_ok tail_bad,
  (forall id, req_id_of_msg (mk id) = Some (IdReq id)) -> request_ids tail_ok = [] -> request_ids tail_bad = [] ->
  let r := (let '(s1, id, f) := new_request s k co t in
            let '(o1, ok) := send_req cfg s1 (mk id) in
            if ok then (s1, o1 ++ tail_ok)
            else ((if keep then s1 else drop_request s1 k id f), o1 ++ tail_bad)) in
  request_ids (snd r) = [IdReq (idgen_next (next_id s))] /\ next_id (fst r) = idgen_next (next_id s).
Proof.
  intros cfg s k co t mk keep tail_ok tail_bad Hmk Hok Hbad. unfold new_request. cbv zeta beta iota.
  unfold send_req, send. cbn [topen transport set_newreq failnext].
  destruct (failnext s); [|destruct (topen s); [|destruct (t_lenient cfg && transport s)]]; cbn [fst snd];
    rewrite ?request_ids_app, ?Hok, ?Hbad; simpl; rewrite Hmk; simpl;
    try (split; reflexivity); destruct keep; split; reflexivity.
Qed.

Lemma NR_one : forall s s' o, request_ids o = [IdReq (idgen_next (next_id s))] -> next_id s' = idgen_next (next_id s) -> NR s s' o.
Proof. intros s s' o A B. unfold NR. rewrite A, B. simpl. rewrite N.eqb_refl. reflexivity. Qed.

Lemma NR_api_step : forall cfg s o, NR s (fst (api_step cfg s o)) (snd (api_step cfg s o)).
Proof.
  intros cfg s o. destruct o; try apply NR_refl; unfold api_step.
  - destruct (negb (transport s)); [apply NR_quiet; reflexivity|].
    destruct (new_request_sent_ids cfg s KCall o uri
             (fun id => MCall id uri a kw match o with Some c => co_timeout c | None => None end
                              match o with Some c => co_progress c | None => false end)
             false [ApiReturned (Some (next_fut s))] [ApiRaised (send_exn s)] (fun _ => eq_refl) eq_refl eq_refl) as [A B].
    now apply NR_one.
  - destruct (negb (transport s)); [apply NR_quiet; reflexivity|]. destruct (po_wants_ack o).
    + destruct (new_request_sent_ids cfg s KPublish None uri
               (fun id => MPublish id uri a kw match o with Some p => po_ack p | None => None end
                                   match o with Some p => po_exclude_me p | None => None end)
               false [ApiReturned (Some (next_fut s))] [ApiRaised (send_exn s)] (fun _ => eq_refl) eq_refl eq_refl) as [A B].
      now apply NR_one.
    + unfold new_id_only, send_req, send. cbn [topen transport set_newreq failnext].
      destruct (failnext s); [|destruct (topen s); [|destruct (t_lenient cfg && transport s)]]; apply NR_one; reflexivity.
  - destruct (negb (transport s)); [apply NR_quiet; reflexivity|].
    pose proof (new_request_sent_ids cfg s KSubscribe None uri
             (fun id => MSubscribe id uri match o with Some c => opt_default (so_match c) | None => 0 end
                                   match o with Some c => so_get_retained c | None => None end)
             true [ApiReturned (Some (next_fut s))] [ApiRaised (send_exn s)] (fun _ => eq_refl) eq_refl eq_refl) as HR.
    unfold new_request in *. cbv zeta beta iota in *. destruct (send_req cfg _ _) as [o1 ok].
    destruct ok; destruct HR as [A B]; now apply NR_one.
  - destruct (negb (transport s)); [apply NR_quiet; reflexivity|].
    pose proof (new_request_sent_ids cfg s KRegister None uri
             (fun id => MRegister id uri match o with Some c => opt_default (ro_match c) | None => 0 end
                                  match o with Some c => opt_default (ro_invoke c) | None => 0 end)
             true [ApiReturned (Some (next_fut s))] [ApiRaised (send_exn s)] (fun _ => eq_refl) eq_refl eq_refl) as HR.
    unfold new_request in *. cbv zeta beta iota in *. destruct (send_req cfg _ _) as [o1 ok].
    destruct ok; destruct HR as [A B]; now apply NR_one.
  - destruct (reg_id_of s h) as [regid|]; [|apply NR_quiet; reflexivity].
    destruct (assoc regid (regs s)) as [h'|]; [|apply NR_quiet; reflexivity].
    destruct (negb (h' =? h)); [apply NR_quiet; reflexivity|]. destruct (negb (transport s)); [apply NR_quiet; reflexivity|].
    pose proof (new_request_sent_ids cfg s KUnregister None regid (fun id => MUnregister id regid)
             true [ApiReturned (Some (next_fut s))] [ApiRaised (send_exn s)] (fun _ => eq_refl) eq_refl eq_refl) as HR.
    unfold new_request in *. cbv zeta beta iota in *. destruct (send_req cfg _ _) as [o1 ok].
    destruct ok; destruct HR as [A B]; now apply NR_one.
Qed.

Lemma NR_react : forall cfg s f, NR s (fst (react cfg s f)) (snd (react cfg s f)).
Proof. intros. unfold react. destruct (assoc f (reacts s)); [apply NR_api_step | apply NR_refl]. Qed.

Lemma NR_complete : forall fl cfg s f r, NR s (fst (complete fl cfg s f r)) (snd (complete fl cfg s f r)).
Proof.
  intros. unfold complete. destruct (is_done s f); [apply NR_refl|]. destruct fl.
  - pose proof (NR_react cfg (set_done s (done s ++ [(f, r)])) f) as H.
    destruct (react cfg (set_done s (done s ++ [(f, r)])) f) as [s2 o2]. simpl in *.
    apply (NR_out s s2 o2 [Completed f r]); [eapply NR_from; [|exact H]; reflexivity | reflexivity].
  - apply NR_quiet; reflexivity.
Qed.

Lemma NR_errback_list : forall fl cfg e l s, NR s (fst (errback_list fl cfg s e l)) (snd (errback_list fl cfg s e l)).
Proof.
  induction l as [|r t IH]; simpl; intro s; [apply NR_refl|].
  pose proof (NR_complete fl cfg s (r_fut r) (RErr e)) as H1. destruct (complete fl cfg s (r_fut r) (RErr e)) as [s1 o1].
  specialize (IH s1). destruct (errback_list fl cfg s1 e t) as [s2 o2]. simpl in *. eapply NR_trans; eassumption.
Qed.

Lemma NR_errback_all : forall fl cfg s e, NR s (fst (errback_all fl cfg s e)) (snd (errback_all fl cfg s e)).
Proof. intros. unfold errback_all. eapply NR_from; [|apply NR_errback_list]. reflexivity. Qed.

Lemma NR_run_leaf : forall fl cfg s l, NR s (fst (run_leaf fl cfg s l)) (snd (run_leaf fl cfg s l)).
Proof.
  intros fl cfg s l. destruct l; simpl.
  - pose proof (NR_react cfg s f) as H. destruct (react cfg s f) as [s2 o2]. simpl in *.
    apply (NR_out s s2 o2 [Completed f r]); [exact H | reflexivity].
  - destruct (sdetails s); [|apply NR_refl]. destruct (u_join_raises cfg); [destruct fl|]; apply NR_quiet; reflexivity.
  - destruct raised; apply NR_quiet; reflexivity.
  - destruct (transport s); apply NR_quiet; reflexivity.
  - destruct (transport s); [|apply NR_quiet; reflexivity].
    pose proof (send_nr cfg s (MCancel id) eq_refl) as Hs. destruct (send cfg s (MCancel id)) as [o ok]. simpl in *.
    apply NR_quiet; [rewrite request_ids_app, Hs; destruct ok; reflexivity | reflexivity].
  - destruct (transport s); [|apply NR_quiet; reflexivity].
    pose proof (send_nr cfg (set_invs s (remove1 rq (invs s))) (MYield rq) eq_refl) as Hs.
    destruct (send cfg (set_invs s (remove1 rq (invs s))) (MYield rq)) as [o ok]. simpl in *.
    apply NR_quiet; [rewrite request_ids_app, Hs; destruct ok; [|destruct fl]; reflexivity | reflexivity].
Qed.

Lemma NR_defer_leaf : forall fl cfg s l, NR s (fst (defer_leaf fl cfg s l)) (snd (defer_leaf fl cfg s l)).
Proof. intros. destruct fl; simpl; [apply NR_run_leaf | apply NR_quiet; reflexivity]. Qed.

Lemma NR_do_onLeave : forall fl cfg s rs,
  NR s (fst (fst (do_onLeave fl cfg s rs))) (snd (fst (do_onLeave fl cfg s rs))).
Proof.
  intros. unfold do_onLeave. destruct (u_leave_super cfg); [|apply NR_quiet; reflexivity].
  pose proof (NR_errback_all fl cfg s (ELeave rs)) as H1. destruct (errback_all fl cfg s (ELeave rs)) as [s1 o1].
  pose proof (NR_defer_leaf fl cfg s1 LLeaveDisconnect) as H2. destruct (defer_leaf fl cfg s1 LLeaveDisconnect) as [s2 o2].
  simpl in *. apply (NR_out s s2 (o1 ++ o2) [Called (CbLeave rs (sid s))]); [eapply NR_trans; eassumption | reflexivity].
Qed.

Lemma NR_do_onDisconnect : forall fl cfg s,
  NR s (fst (fst (do_onDisconnect fl cfg s))) (snd (fst (do_onDisconnect fl cfg s))).
Proof.
  intros. unfold do_onDisconnect. destruct (u_disc_super cfg); [|apply NR_quiet; reflexivity].
  pose proof (NR_errback_all fl cfg s ETransportLost) as H1. destruct (errback_all fl cfg s ETransportLost) as [s1 o1].
  simpl in *. apply (NR_out s s1 o1 [Called CbDisconnect]); [assumption | reflexivity].
Qed.

Lemma NR_leave_then : forall fl cfg s rs,
  let r := (let '(s2, o2, raised) := do_onLeave fl cfg s rs in
            let '(s3, o3) := defer_leaf fl cfg s2 (LLeaveK raised) in (s3, o2 ++ o3)) in
  NR s (fst r) (snd r).
Proof.
  intros fl cfg s rs. pose proof (NR_do_onLeave fl cfg s rs) as H1.
  destruct (do_onLeave fl cfg s rs) as [[s2 o2] raised]. simpl in H1.
  pose proof (NR_defer_leaf fl cfg s2 (LLeaveK raised)) as H2. destruct (defer_leaf fl cfg s2 (LLeaveK raised)) as [s3 o3].
  simpl in *. eapply NR_trans; eassumption.
Qed.

Lemma NR_challenge_failed : forall fl cfg s, NR s (fst (challenge_failed fl cfg s)) (snd (challenge_failed fl cfg s)).
Proof.
  intros. unfold challenge_failed. destruct (transport s); [|destruct fl; apply NR_quiet; reflexivity].
  pose proof (send_nr cfg s (MAbort RsCannotAuth) eq_refl) as Hs. destruct (send cfg s (MAbort RsCannotAuth)) as [o1 ok].
  simpl in Hs. destruct ok.
  - pose proof (NR_leave_then fl cfg s RsCannotAuth) as H1.
    destruct (do_onLeave fl cfg s RsCannotAuth) as [[s2 o2] raised].
    destruct (defer_leaf fl cfg s2 (LLeaveK raised)) as [s3 o3]. simpl in *.
    change (UserError :: o1 ++ o2 ++ o3) with (([UserError] ++ o1) ++ (o2 ++ o3)).
    apply NR_out; [exact H1 | rewrite request_ids_app, Hs; reflexivity].
  - simpl. apply NR_quiet; [|reflexivity]. change (UserError :: o1 ++ ?x) with ([UserError] ++ o1 ++ x).
    destruct fl; simpl; rewrite request_ids_app, Hs; reflexivity.
Qed.

Lemma NR_run_thunk : forall fl cfg s t, NR s (fst (run_thunk fl cfg s t)) (snd (run_thunk fl cfg s t)).
Proof.
  intros fl cfg s t. destruct t as [l| |o sidv|o|raised]; simpl.
  - apply NR_run_leaf.
  - destruct (u_connect cfg); [|apply NR_quiet; reflexivity]. destruct (sid_truthy s); [apply NR_quiet; reflexivity|].
    destruct (negb (transport s)); [apply NR_quiet; reflexivity|].
    (* join(): HELLO, and the ids start again *)
    unfold NR, send. destruct (topen (set_join s)); [|destruct (t_lenient cfg && transport (set_join s))]; reflexivity.
  - destruct o.
    + destruct (transport s).
      * eapply NR_from; [|apply NR_defer_leaf]. reflexivity.
      * destruct fl; apply NR_quiet; reflexivity.
    + destruct (transport s); [|destruct fl; apply NR_quiet; reflexivity].
      pose proof (send_nr cfg s (MAbort RsCannotAuth) eq_refl) as Hs. destruct (send cfg s (MAbort RsCannotAuth)) as [o1 ok].
      simpl in *. apply NR_quiet; [|reflexivity]. rewrite request_ids_app, Hs. destruct ok; [|destruct fl]; reflexivity.
    + destruct (transport s); [|destruct fl; apply NR_quiet; reflexivity].
      pose proof (send_nr cfg s (MAbort RsCannotAuth) eq_refl) as Hs. destruct (send cfg s (MAbort RsCannotAuth)) as [o1 ok].
      simpl in *. apply NR_quiet; [|reflexivity]. rewrite request_ids_app, Hs. destruct ok; [|destruct fl]; reflexivity.
  - destruct o.
    + destruct (transport s).
      * pose proof (send_nr cfg s MAuthenticate eq_refl) as Hs. destruct (send cfg s MAuthenticate) as [o1 ok]. simpl in Hs.
        destruct ok; [apply NR_quiet; [assumption | reflexivity]|].
        destruct fl; [apply NR_quiet; [assumption | reflexivity]|].
        pose proof (NR_challenge_failed Aio cfg s) as H1. destruct (challenge_failed Aio cfg s) as [s2 o2]. simpl in *.
        apply NR_out; assumption.
      * destruct fl; [apply NR_refl | apply NR_challenge_failed].
    + destruct fl; [apply NR_refl | apply NR_challenge_failed].
    + apply NR_challenge_failed.
  - pose proof (NR_errback_all fl cfg s ETransportLost) as H1. destruct (errback_all fl cfg s ETransportLost) as [s1 o1].
    simpl in *. apply NR_out_r; [exact H1 | destruct raised; reflexivity].
Qed.

Lemma NR_defer : forall fl cfg s t, NR s (fst (defer fl cfg s t)) (snd (defer fl cfg s t)).
Proof. intros. destruct fl; simpl; [apply NR_run_thunk | apply NR_quiet; reflexivity]. Qed.

Lemma NR_run_queue : forall fl cfg q s, NR s (fst (run_queue fl cfg s q)) (snd (run_queue fl cfg s q)).
Proof.
  induction q as [|t r IH]; simpl; intro s; [apply NR_refl|].
  pose proof (NR_run_thunk fl cfg s t) as H1. destruct (run_thunk fl cfg s t) as [s1 o1].
  specialize (IH s1). destruct (run_queue fl cfg s1 r) as [s2 o2]. simpl in *. eapply NR_trans; eassumption.
Qed.

Lemma NR_pop_reply : forall s k rq found,
  (forall r s1, next_id s1 = next_id s -> NR s (fst (found r s1)) (snd (found r s1))) ->
  NR s (fst (pop_reply s k rq found)) (snd (pop_reply s k rq found)).
Proof.
  intros s k rq found H. unfold pop_reply. destruct (find_req k rq (pend s)); [|apply NR_quiet; reflexivity].
  destruct (is_done _ _); [apply NR_quiet; reflexivity|]. apply H. reflexivity.
Qed.

Lemma NR_complete_from : forall fl cfg s s1 f r, next_id s1 = next_id s ->
  NR s (fst (complete fl cfg s1 f r)) (snd (complete fl cfg s1 f r)).
Proof. intros fl cfg s s1 f r H. eapply NR_from; [exact H | apply NR_complete]. Qed.

Lemma NR_established : forall fl cfg s o,
  NR s (fst (on_message_established fl cfg s o)) (snd (on_message_established fl cfg s o)).
Proof.
  intros fl cfg s o. destruct o; simpl; try (apply NR_quiet; reflexivity).
  - assert (Hs : request_ids (fst (if goodbye_sent s then ([], true) else send cfg s (MGoodbye RsNormal))) = []).
    { destruct (goodbye_sent s); [reflexivity | now apply send_nr]. }
    destruct (if goodbye_sent s then ([], true) else send cfg s (MGoodbye RsNormal)) as [o1 ok]. simpl in Hs.
    destruct ok.
    + pose proof (NR_leave_then fl cfg (set_sid s None) r) as H1.
      destruct (do_onLeave fl cfg (set_sid s None) r) as [[s2 o2] raised].
      destruct (defer_leaf fl cfg s2 (LLeaveK raised)) as [s3 o3]. simpl in *.
      apply NR_out; [eapply NR_from; [|exact H1]; reflexivity | exact Hs].
    + simpl. apply NR_quiet; [rewrite request_ids_app, Hs; reflexivity | reflexivity].
  - apply NR_pop_reply. intros. now apply NR_complete_from.
  - apply NR_pop_reply. intros. now apply NR_complete_from.
  - apply NR_pop_reply. intros. now apply NR_complete_from.
  - destruct (find_req KCall rq (pend s)) as [r|]; [|apply NR_quiet; reflexivity]. destruct progress.
    + destruct (r_opts r) as [c|]; [|apply NR_quiet; reflexivity]. destruct (co_progress c); apply NR_quiet; reflexivity.
    + destruct (is_done _ _); [apply NR_quiet; reflexivity|]. now apply NR_complete_from.
  - apply NR_pop_reply. intros r s1 Hn. destruct (assoc regid (regs s1)); [apply NR_quiet; [reflexivity | exact Hn]|].
    now apply NR_complete_from.
  - destruct (rq =? 0).
    + destruct regid as [g|]; [destruct (assoc g (regs s))|]; apply NR_quiet; reflexivity.
    + apply NR_pop_reply. intros. now apply NR_complete_from.
  - destruct (kind_of_code rtype) as [k|]; [|apply NR_quiet; reflexivity].
    destruct (find_req k rq (pend s)); [|apply NR_quiet; reflexivity]. now apply NR_complete_from.
  - destruct (assoc subid (subs s)); apply NR_quiet; reflexivity.
  - destruct (memN rq (invs s)); [apply NR_quiet; reflexivity|]. destruct (assoc regid (regs s)); [|apply NR_quiet; reflexivity].
    eapply NR_from; [|apply NR_defer_leaf]. reflexivity.
Qed.

Lemma NR_unjoined : forall fl cfg s o,
  NR s (fst (on_message_unjoined fl cfg s o)) (snd (on_message_unjoined fl cfg s o)).
Proof.
  intros fl cfg s o. destruct o; simpl; try (apply NR_quiet; reflexivity).
  - pose proof (NR_defer fl cfg s (TWelcomeK (u_welcome cfg) sidv)) as H1.
    destruct (defer fl cfg s (TWelcomeK (u_welcome cfg) sidv)) as [s1 o1]. simpl in *.
    apply (NR_out s s1 o1 [Called CbWelcome]); [assumption | reflexivity].
  - apply NR_leave_then.
  - pose proof (NR_defer fl cfg s (TChallengeK (u_challenge cfg))) as H1.
    destruct (defer fl cfg s (TChallengeK (u_challenge cfg))) as [s1 o1]. simpl in *.
    apply (NR_out s s1 o1 [Called CbChallenge]); [assumption | reflexivity].
Qed.

Lemma NR_unsub_step : forall fl cfg s h, NR s (fst (unsub_step fl cfg s h)) (snd (unsub_step fl cfg s h)).
Proof.
  intros fl cfg s h. unfold unsub_step.
    destruct (sub_id_of s h) as [subid|]; [|apply NR_quiet; reflexivity].
    destruct (negb (memN h _)); [apply NR_quiet; reflexivity|]. destruct (negb (transport s)); [apply NR_quiet; reflexivity|].
    set (rest := remove1 h match assoc subid (subs s) with Some l => l | None => [] end).
    set (s0 := set_subs s (assoc_set subid rest (subs s))).
    destruct rest as [|x rest'].
    + pose proof (new_request_sent_ids cfg s0 KUnsubscribe None subid (fun id => MUnsubscribe id subid)
               true [ApiReturned (Some (next_fut s0))] [ApiRaised (send_exn s0)] (fun _ => eq_refl) eq_refl eq_refl) as HR.
      unfold new_request in *. cbv zeta beta iota in *. destruct (send_req cfg _ _) as [o1 ok].
      destruct ok; destruct HR as [A B]; now apply NR_one.
    + match goal with |- context [complete fl cfg ?S ?F ?R] =>
        pose proof (NR_complete fl cfg S F R) as Hc; destruct (complete fl cfg S F R) as [s2 o2] end.
      simpl in *. apply (NR_out s s2 o2 [ApiReturned (Some (next_fut s0))]); [|reflexivity].
      eapply NR_from; [|exact Hc]. reflexivity.
Qed.

(* every step: the request messages it hands to the transport carry the successive generator values *)
Theorem step_NR : forall fl cfg s o, NR s (fst (step fl cfg s o)) (snd (step fl cfg s o)).
Proof.
  intros fl cfg s o.
  assert (Hrouter : NR s
            (fst (if negb (transport s) then (s, [])
                  else match sid s with None => on_message_unjoined fl cfg s o | Some _ => on_message_established fl cfg s o end))
            (snd (if negb (transport s) then (s, [])
                  else match sid s with None => on_message_unjoined fl cfg s o | Some _ => on_message_established fl cfg s o end))).
  { destruct (negb (transport s)); [apply NR_refl|]. destruct (sid s); [apply NR_established | apply NR_unjoined]. }
  destruct o; try exact Hrouter; clear Hrouter; try apply NR_api_step; unfold step; cbv beta iota.
  - destruct (transport s); [apply NR_refl|]. eapply NR_from; [|apply NR_defer]. reflexivity.
  - destruct (negb (transport s)); [apply NR_refl|].
    set (s0 := set_conn s (opened s) false false).
    assert (H3 : let r := (if sid_truthy s0
                           then let '(s1, o1, raised) := do_onLeave fl cfg s0 RsTransportLost in
                                let '(s2, o2) := defer_leaf fl cfg s1 (LLeaveK raised) in (set_sid s2 None, o1 ++ o2)
                           else (s0, [])) in NR s (fst r) (snd r)).
    { destruct (sid_truthy s0); [|apply NR_quiet; reflexivity].
      pose proof (NR_leave_then fl cfg s0 RsTransportLost) as H1.
      destruct (do_onLeave fl cfg s0 RsTransportLost) as [[s1 o1] raised].
      destruct (defer_leaf fl cfg s1 (LLeaveK raised)) as [s2 o2]. simpl in *. exact H1. }
    destruct (if sid_truthy s0
              then let '(s1, o1, raised) := do_onLeave fl cfg s0 RsTransportLost in
                   let '(s2, o2) := defer_leaf fl cfg s1 (LLeaveK raised) in (set_sid s2 None, o1 ++ o2)
              else (s0, [])) as [s3 o3]. simpl in H3.
    pose proof (NR_do_onDisconnect fl cfg s3) as H4. destruct (do_onDisconnect fl cfg s3) as [[s4 o4] raised]. simpl in H4.
    pose proof (NR_defer fl cfg s4 (TDiscK raised)) as H5. destruct (defer fl cfg s4 (TDiscK raised)) as [s5 o5].
    simpl in *. eapply NR_trans; [exact H3|]. eapply NR_trans; eassumption.
  - destruct fl; [apply NR_refl|]. eapply NR_from; [|apply NR_run_queue]. reflexivity.
  - (* AUnsubscribe *) apply NR_unsub_step.
  - (* ACancel *)
    destruct (is_done s f); [apply NR_quiet; reflexivity|]. destruct (assoc f (issued s)) as [[k id]|]; [|apply NR_quiet; reflexivity].
    destruct fl.
    + assert (Hc : forall tail, request_ids tail = [] ->
                 let r := (let '(s1, o2) := complete Tx cfg s f (RErr ECancelled) in (s1, o2 ++ tail)) in NR s (fst r) (snd r)).
      { intros tail Ht. pose proof (NR_complete Tx cfg s f (RErr ECancelled)) as H.
        destruct (complete Tx cfg s f (RErr ECancelled)) as [s1 o2]. simpl in *. now apply NR_out_r. }
      destruct k; try exact (Hc [ApiReturned None] eq_refl).
      destruct (transport s); [|apply NR_quiet; reflexivity].
      pose proof (send_nr cfg s (MCancel id) eq_refl) as Hs. destruct (send cfg s (MCancel id)) as [o1 ok]. simpl in Hs.
      destruct ok; [|simpl; apply NR_quiet; [rewrite request_ids_app, Hs; reflexivity | reflexivity]].
      pose proof (NR_complete Tx cfg s f (RErr ECancelled)) as H.
      destruct (complete Tx cfg s f (RErr ECancelled)) as [s1 o2]. simpl in *.
      apply NR_out; [now apply NR_out_r | exact Hs].
    + destruct k; apply NR_quiet; reflexivity.
  - (* ALeave *)
    destruct (negb (sid_truthy s)); [apply NR_quiet; reflexivity|]. destruct (goodbye_sent s); [apply NR_quiet; reflexivity|].
    destruct (negb (transport s)); [apply NR_quiet; reflexivity|].
    match goal with |- context [send cfg s ?M] => pose proof (send_nr cfg s M eq_refl) as Hs; destruct (send cfg s M) as [o1 ok] end.
    simpl in Hs. destruct ok; simpl; apply NR_quiet; try reflexivity; rewrite request_ids_app, Hs; reflexivity.
  - (* ADisconnect *) destruct (transport s); apply NR_quiet; reflexivity.
  - (* AFail *)
    destruct (is_fail_op o); [|apply NR_quiet; reflexivity].
    assert (H1 : let r := (match o with AUnsubscribe h => unsub_step fl cfg (set_failnext s (Some e)) h
                           | _ => api_step cfg (set_failnext s (Some e)) o end) in NR s (fst r) (snd r)).
    { destruct o; try (eapply NR_from; [|apply NR_api_step]; reflexivity). eapply NR_from; [|apply NR_unsub_step]. reflexivity. }
    destruct (match o with AUnsubscribe h => unsub_step fl cfg (set_failnext s (Some e)) h
              | _ => api_step cfg (set_failnext s (Some e)) o end) as [s1 o1]. simpl in *.
    unfold NR in *. simpl. exact H1.
  - (* AReact *) destruct (is_react_op o && negb (is_done s f) && isNoneB (assoc f (reacts s))); apply NR_quiet; reflexivity.
Qed.

Definition is_req (e : idev) : bool := match e with IdReq _ => true | IdJoin => false end.

Lemma id_chain_iter : forall l k x, forallb is_req l = true -> id_chain (idgen_iter k) l = Some x ->
  l = map (fun j => IdReq (idgen_iter j)) (seq (S k) (length l)) /\ x = idgen_iter (k + length l).
Proof.
  induction l as [|[i|] t IH]; simpl; intros k x Hr H; [| |discriminate].
  - inversion H. rewrite Nat.add_0_r. split; reflexivity.
  - destruct (i =? idgen_next (idgen_iter k)) eqn:E; [|discriminate]. apply N.eqb_eq in E.
    assert (Ei : i = idgen_iter (S k)) by (simpl; exact E). rewrite Ei in H.
    destruct (IH (S k) x Hr H) as [A B]. split.
    + rewrite Ei. f_equal. exact A.
    + rewrite B. f_equal. lia.
Qed.

Lemma run_NR : forall fl cfg ops s, NR s (fst (run fl cfg s ops)) (concat (snd (run fl cfg s ops))).
Proof.
  induction ops as [|o t IH]; intro s; [apply NR_refl|]. simpl.
  pose proof (step_NR fl cfg s o) as H1. destruct (step fl cfg s o) as [s1 o1].
  specialize (IH s1). destruct (run fl cfg s1 t) as [s2 tr]. simpl in *. eapply NR_trans; eassumption.
Qed.

(* request ids are in session scope: the request messages between a HELLO and the next HELLO (or any prefix of them)
   carry 1, 2, 3, ... *)
Theorem request_ids_sequential : forall fl cfg ops a b c,
  request_ids (trace fl cfg ops) = a ++ IdJoin :: b ++ c -> forallb is_req b = true ->
  b = map (fun j => IdReq (idgen_iter j)) (seq 1 (length b)).
Proof.
  intros fl cfg ops a b c Heq Hb. pose proof (run_NR fl cfg ops init) as H. unfold NR in H.
  change (concat (snd (run fl cfg init ops))) with (trace fl cfg ops) in H. rewrite Heq, id_chain_app in H.
  destruct (id_chain (next_id init) a); [|discriminate]. simpl in H. rewrite id_chain_app in H.
  destruct (id_chain 0 b) as [x|] eqn:E; [|discriminate].
  exact (proj1 (id_chain_iter b 0%nat x Hb E)).
Qed.

(* ... and so do the requests of an object that has not said HELLO yet *)
Theorem request_ids_sequential_unjoined : forall fl cfg ops b c,
  request_ids (trace fl cfg ops) = b ++ c -> forallb is_req b = true ->
  b = map (fun j => IdReq (idgen_iter j)) (seq 1 (length b)).
Proof.
  intros fl cfg ops b c Heq Hb. pose proof (run_NR fl cfg ops init) as H. unfold NR in H.
  change (concat (snd (run fl cfg init ops))) with (trace fl cfg ops) in H. rewrite Heq, id_chain_app in H.
  destruct (id_chain (next_id init) b) as [x|] eqn:E; [|discriminate].
  exact (proj1 (id_chain_iter b 0%nat x Hb E)).
Qed.

(* ---------------------------------------------------------------------------------------------------------- *)
(* life-cycle events over whole histories                                                                     *)
(* ---------------------------------------------------------------------------------------------------------- *)
Inductive levent := LvConnect | LvJoin | LvLeave | LvDisconnect | LvGoodbye.

Definition lev (e : out) : list levent :=
  match e with
  | Called CbConnect => [LvConnect]
  | Called (CbJoin _) => [LvJoin]
  | Called (CbLeave _ _) => [LvLeave]
  | Called CbDisconnect => [LvDisconnect]
  | Sent (MGoodbye _) => [LvGoodbye]
  | _ => []
  end.
Definition levs (o : list out) : list levent := flat_map lev o.

Lemma levs_app : forall a b, levs (a ++ b) = levs a ++ levs b.
Proof. intros. unfold levs. apply flat_map_app. Qed.

(* the part of the state the life-cycle depends on *)
Definition lcore (s : sess) := (opened s, transport s, sid s, goodbye_sent s).

Definition LQ (s s' : sess) (o : list out) : Prop := levs o = [] /\ lcore s' = lcore s.

Lemma LQ_refl : forall s, LQ s s [].
Proof. split; reflexivity. Qed.

Lemma LQ_trans : forall s s1 s2 o1 o2, LQ s s1 o1 -> LQ s1 s2 o2 -> LQ s s2 (o1 ++ o2).
Proof. intros s s1 s2 o1 o2 [A1 B1] [A2 B2]. split; [rewrite levs_app, A1, A2; reflexivity | congruence]. Qed.

Lemma send_lq : forall cfg s m, (forall r, m <> MGoodbye r) -> levs (fst (send cfg s m)) = [].
Proof.
  intros cfg s m H. unfold send. destruct (topen s); [|destruct (t_lenient cfg && transport s)]; simpl; try reflexivity.
  destruct m; try reflexivity. exfalso. eapply H. reflexivity.
Qed.

Lemma send_req_lq : forall cfg s m, (forall r, m <> MGoodbye r) -> levs (fst (send_req cfg s m)) = [].
Proof.
  intros cfg s m H. unfold send_req. destruct (failnext s); [|now apply send_lq]. simpl.
  destruct m; try reflexivity.
Qed.

Lemma new_request_lq : forall cfg s k co t (mk : N -> wmsg) (keep : bool) tail_ok tail_bad,
  (forall id r, mk id <> MGoodbye r) -> levs tail_ok = [] -> levs tail_bad = [] ->
  let r := (let '(s1, id, f) := new_request s k co t in
            let '(o1, ok) := send_req cfg s1 (mk id) in
            if ok then (s1, o1 ++ tail_ok)
            else ((if keep then s1 else drop_request s1 k id f), o1 ++ tail_bad)) in
  LQ s (fst r) (snd r).
Proof.
  intros cfg s k co t mk keep tail_ok tail_bad Hmk Hok Hbad. unfold new_request. cbv zeta beta iota.
  match goal with |- context [send_req cfg ?S ?M] => pose proof (send_req_lq cfg S M (Hmk _)) as Hs; destruct (send_req cfg S M) as [o1 ok] end.
  simpl in Hs. destruct ok; [|destruct keep]; unfold LQ; simpl; rewrite levs_app, Hs, ?Hok, ?Hbad; split; reflexivity.
Qed.

Lemma LQ_api_step : forall cfg s o, LQ s (fst (api_step cfg s o)) (snd (api_step cfg s o)).
Proof.
  intros cfg s o. destruct o; try apply LQ_refl; unfold api_step.
  - destruct (negb (transport s)); [split; reflexivity|].
    exact (new_request_lq cfg s KCall o uri
             (fun id => MCall id uri a kw match o with Some c => co_timeout c | None => None end
                              match o with Some c => co_progress c | None => false end)
             false [ApiReturned (Some (next_fut s))] [ApiRaised (send_exn s)]
             (fun _ _ E => ltac:(discriminate E)) eq_refl eq_refl).
  - destruct (negb (transport s)); [split; reflexivity|]. destruct (po_wants_ack o).
    + exact (new_request_lq cfg s KPublish None uri
               (fun id => MPublish id uri a kw match o with Some p => po_ack p | None => None end
                                   match o with Some p => po_exclude_me p | None => None end)
               false [ApiReturned (Some (next_fut s))] [ApiRaised (send_exn s)]
               (fun _ _ E => ltac:(discriminate E)) eq_refl eq_refl).
    + unfold new_id_only.
      match goal with |- context [send_req cfg ?S ?M] =>
        assert (Hm : forall r, M <> MGoodbye r) by (intros r E; discriminate);
        pose proof (send_req_lq cfg S M Hm) as Hs; destruct (send_req cfg S M) as [o1 ok] end.
      simpl in Hs. unfold LQ. simpl. rewrite levs_app, Hs. destruct ok; split; reflexivity.
  - destruct (negb (transport s)); [split; reflexivity|].
    pose proof (new_request_lq cfg s KSubscribe None uri
             (fun id => MSubscribe id uri match o with Some c => opt_default (so_match c) | None => 0 end
                                   match o with Some c => so_get_retained c | None => None end)
             true [ApiReturned (Some (next_fut s))] [ApiRaised (send_exn s)]
             (fun _ _ E => ltac:(discriminate E)) eq_refl eq_refl) as HR.
    unfold new_request in *. cbv zeta beta iota in *. destruct (send_req cfg _ _) as [o1 ok]. destruct ok; exact HR.
  - destruct (negb (transport s)); [split; reflexivity|].
    pose proof (new_request_lq cfg s KRegister None uri
             (fun id => MRegister id uri match o with Some c => opt_default (ro_match c) | None => 0 end
                                  match o with Some c => opt_default (ro_invoke c) | None => 0 end)
             true [ApiReturned (Some (next_fut s))] [ApiRaised (send_exn s)]
             (fun _ _ E => ltac:(discriminate E)) eq_refl eq_refl) as HR.
    unfold new_request in *. cbv zeta beta iota in *. destruct (send_req cfg _ _) as [o1 ok]. destruct ok; exact HR.
  - destruct (reg_id_of s h) as [regid|]; [|split; reflexivity].
    destruct (assoc regid (regs s)) as [h'|]; [|split; reflexivity].
    destruct (negb (h' =? h)); [split; reflexivity|]. destruct (negb (transport s)); [split; reflexivity|].
    pose proof (new_request_lq cfg s KUnregister None regid (fun id => MUnregister id regid)
             true [ApiReturned (Some (next_fut s))] [ApiRaised (send_exn s)]
             (fun _ _ E => ltac:(discriminate E)) eq_refl eq_refl) as HR.
    unfold new_request in *. cbv zeta beta iota in *. destruct (send_req cfg _ _) as [o1 ok]. destruct ok; exact HR.
Qed.

Lemma LQ_react : forall cfg s f, LQ s (fst (react cfg s f)) (snd (react cfg s f)).
Proof. intros. unfold react. destruct (assoc f (reacts s)); [apply LQ_api_step | apply LQ_refl]. Qed.

Lemma LQ_complete : forall fl cfg s f r, LQ s (fst (complete fl cfg s f r)) (snd (complete fl cfg s f r)).
Proof.
  intros. unfold complete. destruct (is_done s f); [apply LQ_refl|]. destruct fl; [|split; reflexivity].
  pose proof (LQ_react cfg (set_done s (done s ++ [(f, r)])) f) as [A B].
  destruct (react cfg (set_done s (done s ++ [(f, r)])) f) as [s2 o2]. simpl in *. split; [exact A | exact B].
Qed.

Lemma LQ_complete_from : forall fl cfg s s1 f r, lcore s1 = lcore s ->
  LQ s (fst (complete fl cfg s1 f r)) (snd (complete fl cfg s1 f r)).
Proof. intros fl cfg s s1 f r H. destruct (LQ_complete fl cfg s1 f r) as [A B]. split; [assumption | congruence]. Qed.

Lemma LQ_errback_list : forall fl cfg e l s, LQ s (fst (errback_list fl cfg s e l)) (snd (errback_list fl cfg s e l)).
Proof.
  induction l as [|r t IH]; simpl; intro s; [apply LQ_refl|].
  pose proof (LQ_complete fl cfg s (r_fut r) (RErr e)) as H1. destruct (complete fl cfg s (r_fut r) (RErr e)) as [s1 o1].
  specialize (IH s1). destruct (errback_list fl cfg s1 e t) as [s2 o2]. simpl in *. eapply LQ_trans; eassumption.
Qed.

Lemma LQ_errback_all : forall fl cfg s e, LQ s (fst (errback_all fl cfg s e)) (snd (errback_all fl cfg s e)).
Proof.
  intros. unfold errback_all. destruct (LQ_errback_list fl cfg e (outstanding (pend s)) (set_pend s [])) as [A B].
  split; [assumption | rewrite B; reflexivity].
Qed.

Lemma LQ_pop_reply : forall s k rq found,
  (forall r s1, lcore s1 = lcore s -> LQ s (fst (found r s1)) (snd (found r s1))) ->
  LQ s (fst (pop_reply s k rq found)) (snd (pop_reply s k rq found)).
Proof.
  intros s k rq found H. unfold pop_reply. destruct (find_req k rq (pend s)); [|split; reflexivity].
  destruct (is_done _ _); [split; reflexivity|]. apply H. reflexivity.
Qed.

Lemma LQ_yield : forall fl cfg s rq, LQ s (fst (defer_leaf fl cfg s (LYield rq))) (snd (defer_leaf fl cfg s (LYield rq))).
Proof.
  intros. destruct fl; simpl; [|split; reflexivity]. destruct (transport s); [|split; reflexivity].
  assert (Hm : forall r, MYield rq <> MGoodbye r) by (intros r E; discriminate).
  pose proof (send_lq cfg (set_invs s (remove1 rq (invs s))) (MYield rq) Hm) as Hs.
  destruct (send cfg (set_invs s (remove1 rq (invs s))) (MYield rq)) as [o ok]. simpl in *.
  split; [rewrite levs_app, Hs; destruct ok; reflexivity | reflexivity].
Qed.

(* every router message of an established session except GOODBYE is invisible to the life-cycle *)
Lemma LQ_established : forall fl cfg s o, (forall r, o <> RGoodbye r) ->
  LQ s (fst (on_message_established fl cfg s o)) (snd (on_message_established fl cfg s o)).
Proof.
  intros fl cfg s o Hng. destruct o; simpl; try (split; reflexivity).
  - exfalso. eapply Hng. reflexivity.
  - apply LQ_pop_reply. intros. now apply LQ_complete_from.
  - apply LQ_pop_reply. intros. now apply LQ_complete_from.
  - apply LQ_pop_reply. intros. now apply LQ_complete_from.
  - destruct (find_req KCall rq (pend s)) as [r|]; [|split; reflexivity]. destruct progress.
    + destruct (r_opts r) as [c|]; [|split; reflexivity]. destruct (co_progress c); split; reflexivity.
    + destruct (is_done _ _); [split; reflexivity|]. now apply LQ_complete_from.
  - apply LQ_pop_reply. intros r s1 Hn. destruct (assoc regid (regs s1)); [split; [reflexivity | exact Hn]|].
    now apply LQ_complete_from.
  - destruct (rq =? 0).
    + destruct regid as [g|]; [destruct (assoc g (regs s))|]; split; reflexivity.
    + apply LQ_pop_reply. intros. now apply LQ_complete_from.
  - destruct (kind_of_code rtype) as [k|]; [|split; reflexivity].
    destruct (find_req k rq (pend s)); [|split; reflexivity]. now apply LQ_complete_from.
  - destruct (assoc subid (subs s)); split; reflexivity.
  - destruct (memN rq (invs s)); [split; reflexivity|]. destruct (assoc regid (regs s)); [|split; reflexivity].
    destruct (LQ_yield fl cfg (set_invs s (invs s ++ [rq])) rq) as [A B]. split; [assumption | rewrite B; reflexivity].
Qed.

Definition is_quiet_api (o : op) : bool :=
  match o with
  | ACall _ _ _ _ | APublish _ _ _ _ | ASubscribe _ _ | ARegister _ _ | AUnsubscribe _ | AUnregister _ | ACancel _
  | AFail _ _ | AReact _ _ => true
  | _ => false
  end.

Lemma LQ_unsub_step : forall fl cfg s h, LQ s (fst (unsub_step fl cfg s h)) (snd (unsub_step fl cfg s h)).
Proof.
  intros fl cfg s h. unfold unsub_step.
  destruct (sub_id_of s h) as [subid|]; [|split; reflexivity].
    destruct (negb (memN h _)); [split; reflexivity|]. destruct (negb (transport s)); [split; reflexivity|].
    set (rest := remove1 h match assoc subid (subs s) with Some l => l | None => [] end).
    set (s0 := set_subs s (assoc_set subid rest (subs s))).
    destruct rest as [|x rest'].
    + pose proof (new_request_lq cfg s0 KUnsubscribe None subid (fun id => MUnsubscribe id subid)
               true [ApiReturned (Some (next_fut s0))] [ApiRaised (send_exn s0)]
               (fun _ _ E => ltac:(discriminate E)) eq_refl eq_refl) as HR.
      unfold new_request in *. cbv zeta beta iota in *. destruct (send_req cfg _ _) as [o1 ok]. destruct ok; exact HR.
    + match goal with |- context [complete fl cfg ?S ?F ?R] =>
        pose proof (LQ_complete fl cfg S F R) as [A B]; destruct (complete fl cfg S F R) as [s2 o2] end.
      simpl in *. split; [exact A | exact B].
Qed.

(* request API calls and cancel are invisible to the life-cycle *)
Lemma LQ_api : forall fl cfg s o, is_quiet_api o = true -> LQ s (fst (step fl cfg s o)) (snd (step fl cfg s o)).
Proof.
  intros fl cfg s o Hq. destruct o; try discriminate; clear Hq; try apply LQ_api_step; unfold step; cbv beta iota.
  - apply LQ_unsub_step.
  - destruct (is_done s f); [split; reflexivity|]. destruct (assoc f (issued s)) as [[k id]|]; [|split; reflexivity].
    destruct fl.
    + assert (Hc : forall tail, levs tail = [] ->
                 let r := (let '(s1, o2) := complete Tx cfg s f (RErr ECancelled) in (s1, o2 ++ tail)) in LQ s (fst r) (snd r)).
      { intros tail Ht. pose proof (LQ_complete Tx cfg s f (RErr ECancelled)) as [A B].
        destruct (complete Tx cfg s f (RErr ECancelled)) as [s1 o2]. simpl in *. split; [rewrite levs_app, A, Ht; reflexivity | exact B]. }
      destruct k; try exact (Hc [ApiReturned None] eq_refl).
      destruct (transport s); [|split; reflexivity].
      assert (Hm : forall r, MCancel id <> MGoodbye r) by (intros r E; discriminate).
      pose proof (send_lq cfg s (MCancel id) Hm) as Hs. destruct (send cfg s (MCancel id)) as [o1 ok]. simpl in Hs.
      destruct ok; [|unfold LQ; simpl; split; [rewrite levs_app, Hs; reflexivity | reflexivity]].
      pose proof (LQ_complete Tx cfg s f (RErr ECancelled)) as [A B].
      destruct (complete Tx cfg s f (RErr ECancelled)) as [s1 o2]. simpl in *.
      split; [rewrite levs_app, Hs, levs_app, A; reflexivity | exact B].
    + destruct k; split; reflexivity.
  - destruct (is_fail_op o); [|split; reflexivity].
    assert (H1 : let r := (match o with AUnsubscribe h => unsub_step fl cfg (set_failnext s (Some e)) h
                           | _ => api_step cfg (set_failnext s (Some e)) o end) in LQ s (fst r) (snd r)).
    { destruct o; try (destruct (LQ_api_step cfg (set_failnext s (Some e)) o) as [A B]; split; [exact A | exact B]);
        try (match goal with |- context [api_step cfg ?S ?O] => destruct (LQ_api_step cfg S O) as [A B]; split; [exact A | exact B] end).
      destruct (LQ_unsub_step fl cfg (set_failnext s (Some e)) h) as [A B]. split; [exact A | exact B]. }
    destruct (match o with AUnsubscribe h => unsub_step fl cfg (set_failnext s (Some e)) h
              | _ => api_step cfg (set_failnext s (Some e)) o end) as [s1 o1]. simpl in *.
    destruct H1 as [A B]. split; [exact A | exact B].
  - destruct (is_react_op o && negb (is_done s f) && isNoneB (assoc f (reacts s))); split; reflexivity.
Qed.

(* ---- Twisted: what each step does to the life-cycle, exactly ---- *)
Definition send_ok (cfg : ucfg) (s : sess) : bool := topen s || (t_lenient cfg && transport s).
Definition isNone {A} (o : option A) : bool := match o with None => true | Some _ => false end.

Lemma send_fst_snd : forall cfg s m,
  snd (send cfg s m) = send_ok cfg s /\
  fst (send cfg s m) = if topen s then [Sent m] else if t_lenient cfg && transport s then [Dropped m] else [SendFailed m].
Proof. intros. unfold send, send_ok. destruct (topen s); [|destruct (t_lenient cfg && transport s)]; split; reflexivity. Qed.

Definition spec_levs (cfg : ucfg) (s : sess) (o : op) : list levent :=
  match o with
  | OOpen => if transport s then [] else [LvConnect]
  | OLost _ => if transport s then (if sid_truthy s then [LvLeave] else []) ++ [LvDisconnect] else []
  | ALeave _ => if sid_truthy s && negb (goodbye_sent s) && transport s && topen s then [LvGoodbye] else []
  | RWelcome _ => if transport s && isNone (sid s) && match u_welcome cfg with WlNone => true | _ => false end
                  then [LvJoin] else []
  | RAbort _ => if transport s && isNone (sid s) then [LvLeave] else []
  | RChallenge => if transport s && isNone (sid s) && match u_challenge cfg with ChRaise => true | _ => false end
                     && send_ok cfg s then [LvLeave] else []
  | RGoodbye _ => if transport s && negb (isNone (sid s)) then
                    if goodbye_sent s then [LvLeave]
                    else if topen s then [LvGoodbye; LvLeave]
                    else if send_ok cfg s then [LvLeave] else []
                  else []
  | _ => []
  end.

Definition spec_lcore (cfg : ucfg) (s : sess) (o : op) : bool * bool * option N * bool :=
  match o with
  | OOpen => if transport s then lcore s
             else (true, true, sid s,
                   match u_connect cfg with CnJoin => if sid_truthy s then goodbye_sent s else false | CnRaise => goodbye_sent s end)
  | OLost _ => if transport s then (opened s, false, (if sid_truthy s then None else sid s), goodbye_sent s) else lcore s
  | ALeave _ => if sid_truthy s && negb (goodbye_sent s) && transport s && send_ok cfg s
                then (opened s, transport s, sid s, true) else lcore s
  | RWelcome v => if transport s && isNone (sid s) && match u_welcome cfg with WlNone => true | _ => false end
                  then (opened s, transport s, Some v, goodbye_sent s) else lcore s
  | RGoodbye _ => if transport s && negb (isNone (sid s)) && (goodbye_sent s || send_ok cfg s)
                  then (opened s, transport s, None, goodbye_sent s) else lcore s
  | _ => lcore s
  end.

Lemma tx_run_leaf_quiet : forall cfg s l,
  match l with Session.LJoin | LUserDone _ _ => False | _ => True end ->
  LQ s (fst (run_leaf Tx cfg s l)) (snd (run_leaf Tx cfg s l)).
Proof.
  intros cfg s l Hl. destruct l; try contradiction; simpl.
  - destruct raised; split; reflexivity.
  - destruct (transport s) eqn:Et; split; try reflexivity. unfold lcore. simpl. rewrite Et. reflexivity.
  - destruct (transport s); [|split; reflexivity].
    assert (Hm : forall r, MCancel id <> MGoodbye r) by (intros r E; discriminate).
    pose proof (send_lq cfg s (MCancel id) Hm) as Hs. destruct (send cfg s (MCancel id)) as [o ok]. simpl in *.
    split; [rewrite levs_app, Hs; destruct ok; reflexivity | reflexivity].
  - exact (LQ_yield Tx cfg s rq).
Qed.

Lemma tx_onLeave : forall cfg s rs,
  levs (snd (fst (do_onLeave Tx cfg s rs))) = [LvLeave] /\ lcore (fst (fst (do_onLeave Tx cfg s rs))) = lcore s.
Proof.
  intros. unfold do_onLeave. destruct (u_leave_super cfg); [|split; reflexivity].
  pose proof (LQ_errback_all Tx cfg s (ELeave rs)) as [A1 B1]. destruct (errback_all Tx cfg s (ELeave rs)) as [s1 o1].
  pose proof (tx_run_leaf_quiet cfg s1 LLeaveDisconnect I) as [A2 B2].
  unfold defer_leaf. destruct (run_leaf Tx cfg s1 LLeaveDisconnect) as [s2 o2]. simpl in *.
  split; [rewrite levs_app, A1, A2; reflexivity | congruence].
Qed.

Lemma tx_leave_then : forall cfg s rs,
  let r := (let '(s2, o2, raised) := do_onLeave Tx cfg s rs in
            let '(s3, o3) := defer_leaf Tx cfg s2 (LLeaveK raised) in (s3, o2 ++ o3)) in
  levs (snd r) = [LvLeave] /\ lcore (fst r) = lcore s.
Proof.
  intros cfg s rs. pose proof (tx_onLeave cfg s rs) as [A B].
  destruct (do_onLeave Tx cfg s rs) as [[s2 o2] raised]. simpl in *.
  destruct raised; simpl; rewrite levs_app, A; split; try reflexivity; assumption.
Qed.

Lemma tx_onDisconnect : forall cfg s,
  levs (snd (fst (do_onDisconnect Tx cfg s))) = [LvDisconnect] /\ lcore (fst (fst (do_onDisconnect Tx cfg s))) = lcore s.
Proof.
  intros. unfold do_onDisconnect. destruct (u_disc_super cfg); [|split; reflexivity].
  pose proof (LQ_errback_all Tx cfg s ETransportLost) as [A1 B1]. destruct (errback_all Tx cfg s ETransportLost) as [s1 o1].
  simpl in *. split; [rewrite A1; reflexivity | assumption].
Qed.

Lemma tx_disc_then : forall cfg s,
  let r := (let '(s4, o4, raised) := do_onDisconnect Tx cfg s in
            let '(s5, o5) := defer Tx cfg s4 (TDiscK raised) in (s5, o4 ++ o5)) in
  levs (snd r) = [LvDisconnect] /\ lcore (fst r) = lcore s.
Proof.
  intros cfg s. pose proof (tx_onDisconnect cfg s) as [A B]. destruct (do_onDisconnect Tx cfg s) as [[s4 o4] raised].
  simpl in A, B. simpl.
  pose proof (LQ_errback_all Tx cfg s4 ETransportLost) as [A1 B1]. destruct (errback_all Tx cfg s4 ETransportLost) as [s5 o5].
  simpl in *. rewrite !levs_app, A, A1. split; [destruct raised; reflexivity | congruence].
Qed.

Theorem tx_step_spec : forall cfg s o,
  levs (snd (step Tx cfg s o)) = spec_levs cfg s o /\ lcore (fst (step Tx cfg s o)) = spec_lcore cfg s o.
Proof.
  intros cfg s o.
  destruct (is_quiet_api o) eqn:Eq.
  { destruct (LQ_api Tx cfg s o Eq) as [A B]. rewrite A, B. destruct o; try discriminate; split; reflexivity. }
  destruct o; try discriminate; clear Eq;
    try solve [ unfold step; cbv beta iota; destruct (transport s); [|split; reflexivity]; simpl negb; cbv iota;
                destruct (sid s) eqn:Es; [|split; reflexivity];
                match goal with |- context [on_message_established Tx cfg s ?O] =>
                  let Hng := fresh in
                  assert (Hng : forall r, O <> RGoodbye r) by (intros r E; discriminate);
                  destruct (LQ_established Tx cfg s O Hng) as [A B]; rewrite A, B; split; reflexivity end ].
  - (* OOpen *)
    unfold step. simpl. destruct (transport s) eqn:Et; [split; reflexivity|]. simpl.
    destruct (u_connect cfg); [|split; reflexivity].
    unfold sid_truthy. simpl. fold (sid_truthy s). destruct (sid_truthy s); [split; reflexivity|]. simpl.
    unfold send. simpl. split; reflexivity.
  - (* OLost *)
    unfold step. cbv beta iota. unfold spec_levs, spec_lcore. destruct (transport s) eqn:Et; [|split; reflexivity]. simpl negb. cbv iota.
    set (s0 := set_conn s (opened s) false false).
    assert (Htr : sid_truthy s0 = sid_truthy s) by reflexivity. rewrite Htr.
    destruct (sid_truthy s) eqn:Est.
    + pose proof (tx_leave_then cfg s0 RsTransportLost) as [A B].
      destruct (do_onLeave Tx cfg s0 RsTransportLost) as [[s1 o1] raised].
      destruct (defer_leaf Tx cfg s1 (LLeaveK raised)) as [s2 o2]. simpl in A, B.
      pose proof (tx_disc_then cfg (set_sid s2 None)) as [A4 B4].
      destruct (do_onDisconnect Tx cfg (set_sid s2 None)) as [[s4 o4] raised4].
      destruct (defer Tx cfg s4 (TDiscK raised4)) as [s5 o5]. cbn [fst snd] in *.
      rewrite levs_app, A, A4; (split; [reflexivity|]); rewrite B4;
        unfold lcore in *; simpl in *; inversion B; reflexivity.
    + pose proof (tx_disc_then cfg s0) as [A4 B4].
      destruct (do_onDisconnect Tx cfg s0) as [[s4 o4] raised4].
      destruct (defer Tx cfg s4 (TDiscK raised4)) as [s5 o5]. cbn [fst snd] in *.
      rewrite app_nil_l, A4; (split; [reflexivity|]); rewrite B4; reflexivity.
  - (* OTurn *) split; reflexivity.
  - (* ALeave *)
    unfold step. cbv beta iota. unfold spec_levs, spec_lcore, send_ok, lcore.
    destruct (sid_truthy s); [|simpl; split; reflexivity]. destruct (goodbye_sent s) eqn:Eg; [simpl; rewrite ?Eg; split; reflexivity|].
    destruct (transport s) eqn:Et; [|simpl; rewrite ?Eg, ?Et; split; reflexivity]. simpl.
    unfold send. rewrite Et. destruct (topen s); simpl; [rewrite ?Et; split; reflexivity|].
    destruct (t_lenient cfg); simpl; rewrite ?Et, ?Eg; split; reflexivity.
  - (* ADisconnect *)
    unfold step. cbv beta iota. destruct (transport s) eqn:Et; [|split; reflexivity]. split; [reflexivity|].
    unfold spec_lcore, lcore. simpl. rewrite ?Et. reflexivity.
  - (* RWelcome *)
    unfold step. cbv beta iota. unfold spec_levs, spec_lcore. destruct (transport s) eqn:Et; [|split; reflexivity]. simpl negb. cbv iota.
    destruct (sid s) eqn:Es; simpl; [split; reflexivity|].
    destruct (u_welcome cfg); simpl; rewrite Et.
    + simpl. destruct (u_join_raises cfg); simpl; (split; [reflexivity|]); unfold lcore; simpl; rewrite ?Et; reflexivity.
    + destruct (send cfg s (MAbort RsCannotAuth)) as [o1 ok] eqn:E1.
      assert (Hm : forall r, MAbort RsCannotAuth <> MGoodbye r) by (intros r E; discriminate).
      pose proof (send_lq cfg s _ Hm) as Hs. rewrite E1 in Hs. simpl in Hs.
      destruct ok; simpl; rewrite ?levs_app, Hs; split; try reflexivity; unfold lcore; simpl; rewrite Es; reflexivity.
    + destruct (send cfg s (MAbort RsCannotAuth)) as [o1 ok] eqn:E1.
      assert (Hm : forall r, MAbort RsCannotAuth <> MGoodbye r) by (intros r E; discriminate).
      pose proof (send_lq cfg s _ Hm) as Hs. rewrite E1 in Hs. simpl in Hs.
      destruct ok; simpl; rewrite ?levs_app, Hs; split; try reflexivity; unfold lcore; simpl; rewrite Es; reflexivity.
  - (* RAbort *)
    unfold step. cbv beta iota. unfold spec_levs, spec_lcore. destruct (transport s) eqn:Et; [|split; reflexivity]. simpl negb. cbv iota.
    destruct (sid s) eqn:Es; [simpl; split; reflexivity|]. unfold on_message_unjoined. cbn [andb isNone].
    pose proof (tx_leave_then cfg s r) as [A B].
    destruct (do_onLeave Tx cfg s r) as [[s2 o2] raised]. destruct (defer_leaf Tx cfg s2 (LLeaveK raised)) as [s3 o3].
    cbn [fst snd] in *. split; [exact A | rewrite B; unfold lcore; rewrite Es; reflexivity].
  - (* RChallenge *)
    unfold step. cbv beta iota. unfold spec_levs, spec_lcore. destruct (transport s) eqn:Et; [|split; reflexivity]. simpl negb. cbv iota.
    destruct (sid s) eqn:Es; simpl; [split; reflexivity|].
    destruct (u_challenge cfg); simpl.
    + rewrite Et. assert (Hm : forall r, MAuthenticate <> MGoodbye r) by (intros r E; discriminate).
      pose proof (send_lq cfg s _ Hm) as Hs. destruct (send cfg s MAuthenticate) as [o1 ok]. simpl in Hs.
      destruct ok; simpl; rewrite Hs; split; try reflexivity; unfold lcore; rewrite Es; reflexivity.
    + split; [reflexivity | unfold lcore; rewrite Es; reflexivity].
    + unfold challenge_failed. rewrite Et.
      assert (Hm : forall r, MAbort RsCannotAuth <> MGoodbye r) by (intros r E; discriminate).
      pose proof (send_lq cfg s _ Hm) as Hs. destruct (send_fst_snd cfg s (MAbort RsCannotAuth)) as [Hok _].
      destruct (send cfg s (MAbort RsCannotAuth)) as [o1 ok]. simpl in Hs, Hok. rewrite <- Hok.
      destruct ok.
      * pose proof (tx_leave_then cfg s RsCannotAuth) as [A B].
        destruct (do_onLeave Tx cfg s RsCannotAuth) as [[s2 o2] raised]. destruct (defer_leaf Tx cfg s2 (LLeaveK raised)) as [s3 o3].
        simpl in *. rewrite levs_app, Hs, A. split; [reflexivity | rewrite B; unfold lcore; rewrite Es; reflexivity].
      * simpl. rewrite levs_app, Hs. split; [reflexivity | unfold lcore; rewrite Es; reflexivity].
  - (* RGoodbye *)
    unfold step. cbv beta iota. unfold spec_levs, spec_lcore. destruct (transport s) eqn:Et; [|split; reflexivity]. simpl negb. cbv iota.
    destruct (sid s) eqn:Es; [|simpl; split; [reflexivity | unfold lcore; rewrite Es; reflexivity]].
    unfold on_message_established. cbn [andb isNone negb].
    destruct (goodbye_sent s) eqn:Eg.
    + pose proof (tx_leave_then cfg (set_sid s None) r) as [A B].
      destruct (do_onLeave Tx cfg (set_sid s None) r) as [[s2 o2] raised].
      destruct (defer_leaf Tx cfg s2 (LLeaveK raised)) as [s3 o3]. cbn [fst snd app orb] in *.
      split; [exact A | rewrite B; unfold lcore; simpl; rewrite Et, Eg; reflexivity].
    + destruct (send_fst_snd cfg s (MGoodbye RsNormal)) as [Hok Hout].
      destruct (send cfg s (MGoodbye RsNormal)) as [o1 ok]. cbn [fst snd] in Hok, Hout. rewrite <- Hok. subst o1.
      destruct ok.
      * pose proof (tx_leave_then cfg (set_sid s None) r) as [A B].
        destruct (do_onLeave Tx cfg (set_sid s None) r) as [[s2 o2] raised].
        destruct (defer_leaf Tx cfg s2 (LLeaveK raised)) as [s3 o3]. cbn [fst snd orb] in *.
        rewrite levs_app, A. split; [|rewrite B; unfold lcore; simpl; rewrite Et, Eg; reflexivity].
        unfold send_ok in Hok. destruct (topen s); [reflexivity|]. cbn [orb] in Hok.
        destruct (t_lenient cfg && transport s); [reflexivity | discriminate].
      * cbn [fst snd orb]. rewrite levs_app. unfold send_ok in Hok. destruct (topen s); [discriminate|]. cbn [orb] in Hok.
        destruct (t_lenient cfg && transport s); [discriminate|].
        split; [reflexivity | unfold lcore; rewrite Es, Eg; reflexivity].
Qed.

(* ---- the order automaton (Twisted) ---- *)
Inductive mstate := MFresh | MUnjoined | MJoined | MClosed.

(* One object lives through a sequence of connections (lives).  In every life: connect first and once; join only
   while not joined; leave ends a joined session or reports an abort while not joined; GOODBYE goes out only on a
   joined session; disconnect once; after a disconnect nothing but the connect of the next life *)
Definition mstep (m : mstate) (e : levent) : option mstate :=
  match m, e with
  | MFresh, LvConnect => Some MUnjoined
  | MUnjoined, LvJoin => Some MJoined
  | MUnjoined, LvLeave => Some MUnjoined
  | MJoined, LvLeave => Some MUnjoined
  | MJoined, LvGoodbye => Some MJoined
  | MUnjoined, LvDisconnect => Some MClosed
  | MJoined, LvDisconnect => Some MClosed
  | MClosed, LvConnect => Some MUnjoined
  | _, _ => None
  end.

Fixpoint mrun (m : mstate) (es : list levent) : option mstate :=
  match es with
  | [] => Some m
  | e :: t => match mstep m e with Some m' => mrun m' t | None => None end
  end.

Lemma mrun_app : forall a b m, mrun m (a ++ b) = match mrun m a with Some m' => mrun m' b | None => None end.
Proof. induction a as [|e t IH]; simpl; intros b m; [reflexivity|]. destruct (mstep m e); [apply IH | reflexivity]. Qed.

Definition mon_of (c : bool * bool * option N * bool) : mstate :=
  let '(op, tr, sd, _) := c in
  if negb op then MFresh else if negb tr then MClosed else match sd with None => MUnjoined | Some _ => MJoined end.
Definition mon (s : sess) : mstate := mon_of (lcore s).

Definition wf_of (c : bool * bool * option N * bool) : Prop :=
  let '(op, tr, sd, gs) := c in
  (op = false -> tr = false /\ sd = None /\ gs = false) /\ (tr = false -> sd = None \/ sd = Some 0).
Definition wf (s : sess) : Prop := wf_of (lcore s).

Lemma tx_step_mon : forall cfg s o, wf s ->
  wf (fst (step Tx cfg s o)) /\
  ((o = OOpen -> sid s <> Some 0) -> mrun (mon s) (levs (snd (step Tx cfg s o))) = Some (mon (fst (step Tx cfg s o)))).
Proof.
  intros cfg s o Hwf. destruct (tx_step_spec cfg s o) as [A B]. unfold wf, mon in *. rewrite A, B. clear A B.
  destruct o; cbn [spec_levs spec_lcore]; try (split; [exact Hwf | intros _; reflexivity]).
  1: { (* OOpen: the next life *)
    destruct (transport s) eqn:Et; [split; [exact Hwf | intros _; reflexivity]|].
    unfold lcore in *. unfold wf_of in Hwf. destruct Hwf as [W1 W2]. rewrite Et in *.
    split; [unfold wf_of; split; intros; discriminate|]. intro Hre. specialize (Hre eq_refl).
    destruct (W2 eq_refl) as [E|E]; rewrite E in *; [|exfalso; apply Hre; reflexivity].
    unfold mon_of. destruct (opened s); reflexivity. }
  all: unfold lcore in *; unfold wf_of in Hwf; destruct Hwf as [W1 W2];
  unfold lcore, sid_truthy, send_ok, isNone, wf_of, mon_of;
    destruct (opened s); destruct (transport s); destruct (sid s) as [n|]; destruct (goodbye_sent s);
    try (destruct (W1 eq_refl) as [? [? ?]]; discriminate);
    try (destruct (W2 eq_refl) as [?|?]; try discriminate);
    try (destruct (n =? 0) eqn:En);
    simpl;
    try (destruct (u_connect cfg)); try (destruct (u_welcome cfg)); try (destruct (u_challenge cfg));
    try (destruct (topen s)); try (destruct (t_lenient cfg)); simpl;
    repeat split; try reflexivity; try discriminate; try tauto; intros; try discriminate; auto.
  all: try (match goal with H : Some ?x = Some 0 |- _ => inversion H; subst; rewrite N.eqb_refl in *; discriminate end).
  all: try (right; match goal with En : (?n =? 0) = true |- _ => apply N.eqb_eq in En; subst; reflexivity end).
Qed.

Lemma wf_init : wf init.
Proof. unfold wf, wf_of, lcore. simpl. split; intros; auto. Qed.

(* session id 0 is never forgotten (the code tests the id for truth): it can only come from a WELCOME carrying it *)
Lemma tx_step_sid0 : forall cfg s o, sid (fst (step Tx cfg s o)) = Some 0 -> sid s = Some 0 \/ o = RWelcome 0.
Proof.
  intros cfg s o He. destruct (tx_step_spec cfg s o) as [_ B].
  assert (Hsid : sid (fst (step Tx cfg s o)) = snd (fst (spec_lcore cfg s o))) by (rewrite <- B; reflexivity).
  rewrite Hsid in He. clear B Hsid.
  destruct o; unfold spec_lcore, lcore, isNone in *; simpl in *; try (left; exact He).
  - destruct (transport s); simpl in He; left; exact He.
  - destruct (transport s); simpl in He; [|left; exact He]. destruct (sid_truthy s); simpl in He; [discriminate | left; exact He].
  - destruct (sid_truthy s && negb (goodbye_sent s) && transport s && send_ok cfg s); simpl in He; left; exact He.
  - destruct (transport s && match sid s with None => true | Some _ => false end
              && match u_welcome cfg with WlNone => true | _ => false end); simpl in He; [|left; exact He].
    right. inversion He. reflexivity.
  - destruct (transport s && negb match sid s with None => true | Some _ => false end && (goodbye_sent s || send_ok cfg s));
      simpl in He; [discriminate | left; exact He].
Qed.

(* the hypothesis of the order theorems: the router does not hand out session id 0 to an object that is connected
   again later.  (Such an object keeps id 0 for ever, see [tx_order_refuted_session_id_zero_next_life].)  Histories
   with a single connection satisfy it whatever the router sends *)
Definition is_open (o : op) : bool := match o with OOpen => true | _ => false end.
Definition is_welcome0 (o : op) : bool := match o with RWelcome 0 => true | _ => false end.
Fixpoint lives_ok (ops : list op) : bool :=
  match ops with
  | [] => true
  | o :: t => (negb (is_welcome0 o) || negb (existsb is_open t)) && lives_ok t
  end.

Lemma lives_ok_single : forall ops, existsb is_open ops = false -> lives_ok ops = true.
Proof.
  induction ops as [|o t IH]; simpl; intro H; [reflexivity|]. apply orb_false_iff in H as [_ H].
  rewrite H, IH by assumption. rewrite orb_true_r. reflexivity.
Qed.

Lemma tx_run_wf : forall cfg ops s, wf s -> wf (fst (run Tx cfg s ops)).
Proof.
  induction ops as [|o t IH]; simpl; intros s Hwf; [assumption|].
  destruct (tx_step_mon cfg s o Hwf) as [W1 _]. destruct (step Tx cfg s o) as [s1 o1]. simpl in *.
  specialize (IH s1 W1). destruct (run Tx cfg s1 t) as [s2 tr]. exact IH.
Qed.

Lemma tx_run_mon : forall cfg ops s, wf s -> lives_ok ops = true -> (sid s = Some 0 -> existsb is_open ops = false) ->
  mrun (mon s) (levs (concat (snd (run Tx cfg s ops)))) = Some (mon (fst (run Tx cfg s ops))).
Proof.
  induction ops as [|o t IH]; simpl; intros s Hwf Hl H0; [reflexivity|].
  apply andb_prop in Hl as [Hl1 Hl2].
  assert (Hre : o = OOpen -> sid s <> Some 0).
  { intros Eo E. subst o. specialize (H0 E). simpl in H0. discriminate. }
  destruct (tx_step_mon cfg s o Hwf) as [W1 M1]. specialize (M1 Hre).
  pose proof (tx_step_sid0 cfg s o) as Hs0.
  destruct (step Tx cfg s o) as [s1 o1]. simpl in *.
  assert (H1 : sid s1 = Some 0 -> existsb is_open t = false).
  { intro E. destruct (Hs0 E) as [E0|E0].
    - specialize (H0 E0). apply orb_false_iff in H0. tauto.
    - subst o. simpl in Hl1. destruct (existsb is_open t); [discriminate | reflexivity]. }
  specialize (IH s1 W1 Hl2 H1). destruct (run Tx cfg s1 t) as [s2 tr]. simpl in *.
  rewrite levs_app, mrun_app, M1. exact IH.
Qed.

(* every history of life-cycle callbacks is a word of the automaton *)
Theorem tx_order : forall cfg ops, lives_ok ops = true ->
  mrun MFresh (levs (trace Tx cfg ops)) = Some (mon (final Tx cfg ops)).
Proof. intros cfg ops H. apply (tx_run_mon cfg ops init wf_init H). intro E. discriminate E. Qed.

(* without the hypothesis: an object that was given session id 0 keeps it through the loss of its transport (the id is
   tested for truth), refuses to join in its next life ("already joined") and takes router messages for a session it
   never joined there *)
Theorem tx_order_refuted_session_id_zero_next_life :
  exists cfg ops, mrun MFresh (levs (trace Tx cfg ops)) = None.
Proof. exists default_cfg, [OOpen; RWelcome 0; OLost false; OOpen; RGoodbye RsNormal]. vm_compute. reflexivity. Qed.

(* what the automaton's language implies, in plain terms *)
(* a connect is the very first event or follows a disconnect immediately: one connect per life *)
Theorem automaton_connect_starts_life : forall a b m m',
  mrun m (a ++ LvConnect :: b) = Some m' -> a = [] \/ exists a', a = a' ++ [LvDisconnect].
Proof.
  induction a as [|e t IH]; intros b m m' H; [now left|]. right. simpl in H.
  destruct (mstep m e) as [m1|] eqn:E; [|discriminate].
  destruct (IH _ _ _ H) as [Ht|[a' Ha]].
  - subst t. simpl in H. exists []. simpl. f_equal.
    destruct m1; simpl in H; try discriminate; destruct m, e; simpl in E; try discriminate; reflexivity.
  - exists (e :: a'). simpl. rewrite Ha. reflexivity.
Qed.

(* a disconnect is the last event or is followed immediately by the connect of the next life: one disconnect per
   life, and nothing happens on an object that has no transport *)
Theorem automaton_disconnect_ends_life : forall m a b m',
  mrun m (a ++ LvDisconnect :: b) = Some m' -> b = [] \/ exists b', b = LvConnect :: b'.
Proof.
  intros m a b m' H. rewrite mrun_app in H. destruct (mrun m a) as [m1|]; [|discriminate]. simpl in H.
  destruct (mstep m1 LvDisconnect) as [m2|] eqn:E; [|discriminate].
  assert (m2 = MClosed) by (destruct m1; simpl in E; inversion E; reflexivity). subst.
  destruct b as [|e t]; [now left|]. right. destruct e; simpl in H; try discriminate. eexists; reflexivity.
Qed.

(* two joins are separated by a leave, or by the end of the connection (a session with id 0 cannot be left) *)
Lemma mrun_joined_to_unjoined : forall l, mrun MJoined l = Some MUnjoined -> In LvLeave l \/ In LvDisconnect l.
Proof.
  induction l as [|e t IH]; simpl; intro H; [discriminate|].
  destruct e; simpl in H; try discriminate.
  - left. now left.
  - right. now left.
  - destruct (IH H) as [?|?]; [left | right]; now right.
Qed.

Theorem automaton_join_needs_leave : forall m m' a b c,
  mrun m (a ++ LvJoin :: b ++ LvJoin :: c) = Some m' -> In LvLeave b \/ In LvDisconnect b.
Proof.
  intros m m' a b c H. rewrite mrun_app in H. destruct (mrun m a) as [m1|]; [|discriminate].
  simpl in H. destruct (mstep m1 LvJoin) as [m2|] eqn:E; [|discriminate].
  assert (m2 = MJoined) by (destruct m1; simpl in E; inversion E; reflexivity). subst. clear E.
  rewrite mrun_app in H. destruct (mrun MJoined b) as [m3|] eqn:Eb; [|discriminate].
  simpl in H. destruct (mstep m3 LvJoin) as [m4|] eqn:E4; [|discriminate].
  assert (m3 = MUnjoined) by (destruct m3; simpl in E4; try discriminate; reflexivity). subst.
  now apply mrun_joined_to_unjoined.
Qed.

(* ---- GOODBYE at most once per session (Twisted) ---- *)
Fixpoint grun (gb : bool) (es : list levent) : option bool :=
  match es with
  | [] => Some gb
  | LvJoin :: t => grun false t
  | LvGoodbye :: t => if gb then None else grun true t
  | _ :: t => grun gb t
  end.

Lemma grun_app : forall a b g, grun g (a ++ b) = match grun g a with Some g' => grun g' b | None => None end.
Proof. induction a as [|e t IH]; simpl; intros b g; [reflexivity|]. destruct e; try apply IH. destruct g; [reflexivity | apply IH]. Qed.

Definition GR_of (c : bool * bool * option N * bool) (gb : bool) : Prop :=
  let '(_, _, sd, gs) := c in gb = true -> (gs = true /\ sd <> Some 0) \/ sd = None.

Lemma tx_step_goodbye : forall cfg s o gb, wf s -> GR_of (lcore s) gb ->
  exists gb', grun gb (levs (snd (step Tx cfg s o))) = Some gb' /\ GR_of (lcore (fst (step Tx cfg s o))) gb'.
Proof.
  intros cfg s o gb Hwf HG. destruct (tx_step_spec cfg s o) as [A B]. rewrite A, B. clear A B.
  destruct o; cbn [spec_levs spec_lcore]; try (exists gb; split; [reflexivity | exact HG]);
  unfold wf, wf_of, lcore in *; destruct Hwf as [W1 W2]; unfold GR_of in *;
  unfold lcore, sid_truthy, send_ok, isNone;
    destruct (opened s); destruct (transport s); destruct (sid s) as [n|]; destruct (goodbye_sent s);
    try (destruct (W1 eq_refl) as [? [? ?]]; discriminate);
    try (destruct (n =? 0) eqn:En);
    simpl;
    try (destruct (u_connect cfg)); try (destruct (u_welcome cfg)); try (destruct (u_challenge cfg));
    try (destruct (topen s)); try (destruct (t_lenient cfg)); simpl;
    try (eexists; split; [reflexivity|]; intros; auto; fail);
    destruct gb; simpl; try (eexists; split; [reflexivity|]; intros; auto; fail);
    try (destruct (HG eq_refl) as [[? ?]|?]; discriminate).
  all: try (eexists; split; [reflexivity|]; intro Hx; discriminate Hx).
  all: try (destruct (HG eq_refl) as [[Hg Hn]|Hn]; try discriminate; exfalso; apply Hn; apply N.eqb_eq in En; subst; reflexivity).
  all: try (eexists; split; [reflexivity|]; intros _; left; split; [reflexivity|];
            first [ destruct (HG eq_refl) as [[_ Hn]|Hn]; [exact Hn | discriminate Hn]
                  | intro Hx; inversion Hx; subst; cbv in En; discriminate En ]).
Qed.

Lemma tx_run_goodbye : forall cfg ops s gb, wf s -> GR_of (lcore s) gb ->
  exists gb', grun gb (levs (concat (snd (run Tx cfg s ops)))) = Some gb'.
Proof.
  induction ops as [|o t IH]; simpl; intros s gb Hwf HG; [eexists; reflexivity|].
  destruct (tx_step_goodbye cfg s o gb Hwf HG) as [g1 [G1 R1]]. destruct (tx_step_mon cfg s o Hwf) as [W1 _].
  destruct (step Tx cfg s o) as [s1 o1]. simpl in *.
  destruct (IH s1 g1 W1 R1) as [g2 G2]. destruct (run Tx cfg s1 t) as [s2 tr]. simpl in *.
  exists g2. rewrite levs_app, grun_app, G1. exact G2.
Qed.

Theorem tx_goodbye_once : forall cfg ops, grun false (levs (trace Tx cfg ops)) <> None.
Proof.
  intros cfg ops. destruct (tx_run_goodbye cfg ops init false wf_init) as [g H].
  - unfold GR_of, lcore. simpl. discriminate.
  - unfold trace. rewrite H. discriminate.
Qed.

(* ---- onLeave fires exactly when ... (Twisted) ---- *)
Definition leave_cond (cfg : ucfg) (s : sess) (o : op) : Prop :=
  transport s = true /\
  (   (exists r, o = RGoodbye r /\ sid s <> None /\ (goodbye_sent s = true \/ send_ok cfg s = true))
                                                                   (* a joined session is ended by the router *)
   \/ (exists c, o = OLost c /\ sid_truthy s = true)               (* a joined session loses its transport *)
   \/ (exists r, o = RAbort r /\ sid s = None)                     (* the router aborts the opening handshake *)
   \/ (o = RChallenge /\ sid s = None /\ u_challenge cfg = ChRaise /\ send_ok cfg s = true)).
                                                                   (* authentication fails locally: ABORT sent *)

Theorem tx_leave_iff : forall cfg s o,
  In LvLeave (levs (snd (step Tx cfg s o))) <-> leave_cond cfg s o.
Proof.
  intros cfg s o. destruct (tx_step_spec cfg s o) as [A _]. rewrite A. clear A. unfold leave_cond.
  destruct o; unfold spec_levs, isNone; simpl;
    try (split; [intros [] | intros [_ [[? [E _]]|[[? [E _]]|[[? [E _]]|[E _]]]]]; discriminate E]).
  - (* OOpen *)
    destruct (transport s); simpl;
      (split; [intros H; repeat (destruct H as [H|H]; try discriminate H); try contradiction
              | intros [_ [[? [E _]]|[[? [E _]]|[[? [E _]]|[E _]]]]]; discriminate E]).
  - (* OLost *)
    destruct (transport s); [|split; [intros [] | intros [E _]; discriminate E]].
    destruct (sid_truthy s); simpl; split.
    + intros _. split; [reflexivity|]. right; left. eexists; split; reflexivity.
    + intros _. now left.
    + intros [E|[]]. discriminate E.
    + intros [_ [[? [E _]]|[[? [_ E]]|[[? [E _]]|[E _]]]]]; discriminate E.
  - (* ALeave *)
    destruct (sid_truthy s && negb (goodbye_sent s) && transport s && topen s); simpl;
      (split; [intros H; repeat (destruct H as [H|H]; try discriminate H); try contradiction
              | intros [_ [[? [E _]]|[[? [E _]]|[[? [E _]]|[E _]]]]]; discriminate E]).
  - (* RWelcome *)
    destruct (transport s && match sid s with None => true | Some _ => false end
              && match u_welcome cfg with WlNone => true | _ => false end); simpl;
      (split; [intros H; repeat (destruct H as [H|H]; try discriminate H); try contradiction
              | intros [_ [[? [E _]]|[[? [E _]]|[[? [E _]]|[E _]]]]]; discriminate E]).
  - (* RAbort *)
    destruct (transport s); simpl; [|split; [intros [] | intros [E _]; discriminate E]].
    destruct (sid s); simpl; split.
    + intros [].
    + intros [_ [[? [E _]]|[[? [E _]]|[[? [_ E]]|[E _]]]]]; discriminate E.
    + intros _. split; [reflexivity|]. right; right; left. eexists; split; reflexivity.
    + intros _. now left.
  - (* RChallenge *)
    destruct (transport s); simpl; [|split; [intros [] | intros [E _]; discriminate E]].
    destruct (sid s); simpl; [split; [intros [] | intros [_ [[? [E _]]|[[? [E _]]|[[? [E _]]|[_ [E _]]]]]]; discriminate E]|].
    destruct (u_challenge cfg); simpl;
      try (split; [intros [] | intros [_ [[? [E _]]|[[? [E _]]|[[? [E _]]|[_ [_ [E _]]]]]]]; discriminate E]).
    destruct (send_ok cfg s); simpl; split.
    + intros _. split; [reflexivity|]. right; right; right. auto.
    + intros _. now left.
    + intros [].
    + intros [_ [[? [E _]]|[[? [E _]]|[[? [E _]]|[_ [_ [_ E]]]]]]]; discriminate E.
  - (* RGoodbye *)
    destruct (transport s); simpl; [|split; [intros [] | intros [E _]; discriminate E]].
    destruct (sid s) as [n|]; simpl.
    + destruct (goodbye_sent s); simpl.
      * split; [|intros _; now left]. intros _. split; [reflexivity|]. left. eexists. split; [reflexivity|]. split; [discriminate | now left].
      * destruct (topen s) eqn:Eo; simpl.
        -- split; [|intros _; right; now left]. intros _. split; [reflexivity|]. left. eexists. split; [reflexivity|].
           split; [discriminate|]. right. unfold send_ok. rewrite Eo. reflexivity.
        -- destruct (send_ok cfg s) eqn:Es; simpl.
           ++ split; [|intros _; now left]. intros _. split; [reflexivity|]. left. eexists. split; [reflexivity|].
              split; [discriminate | now right].
           ++ split; [intros []|]. intros [_ [[? [_ [_ [E|E]]]]|[[? [E _]]|[[? [E _]]|[E _]]]]]; discriminate E.
    + split; [intros []|]. intros [_ [[? [_ [E _]]]|[[? [E _]]|[[? [E _]]|[E _]]]]]; try discriminate E. now apply E.
Qed.

(* a session that is established ends (the id is forgotten) only together with onLeave *)
Theorem tx_session_end_leaves : forall cfg s o,
  sid s <> None -> sid (fst (step Tx cfg s o)) = None -> In LvLeave (levs (snd (step Tx cfg s o))).
Proof.
  intros cfg s o Hs He. destruct (tx_step_spec cfg s o) as [A B]. rewrite A.
  assert (Hsid : sid (fst (step Tx cfg s o)) = snd (fst (spec_lcore cfg s o))) by (rewrite <- B; reflexivity).
  rewrite Hsid in He. clear A B Hsid.
  destruct o; unfold spec_levs, spec_lcore, lcore, isNone in *; simpl in *; try contradiction.
  - destruct (transport s); simpl in He; contradiction.
  - destruct (transport s); simpl in *; [|contradiction]. destruct (sid_truthy s); simpl in *; [now left | contradiction].
  - destruct (sid_truthy s && negb (goodbye_sent s) && transport s && send_ok cfg s); simpl in He; contradiction.
  - destruct (transport s && match sid s with None => true | Some _ => false end
              && match u_welcome cfg with WlNone => true | _ => false end); simpl in He; [discriminate | contradiction].
  - destruct (transport s); simpl in *; [|contradiction]. destruct (sid s); simpl in *; [|contradiction].
    destruct (goodbye_sent s); simpl in *; [now left|].
    unfold send_ok in *. destruct (topen s); simpl in *; [right; now left|].
    destruct (t_lenient cfg); simpl in *; [|discriminate]. destruct (transport s); simpl in *; [now left | discriminate].
Qed.

(* the closing-handshake flag is raised by leave() and by nothing else; it is lowered by join() -- at the start of
   every life whose onConnect joins -- and by nothing else *)
Theorem tx_goodbye_flag : forall cfg s o,
  goodbye_sent (fst (step Tx cfg s o)) =
  match o with
  | OOpen => if transport s then goodbye_sent s
             else match u_connect cfg with CnJoin => if sid_truthy s then goodbye_sent s else false | CnRaise => goodbye_sent s end
  | ALeave _ => goodbye_sent s || (sid_truthy s && transport s && send_ok cfg s)
  | _ => goodbye_sent s
  end.
Proof.
  intros cfg s o. destruct (tx_step_spec cfg s o) as [_ B].
  assert (Hg : goodbye_sent (fst (step Tx cfg s o)) = snd (spec_lcore cfg s o)) by (rewrite <- B; reflexivity).
  rewrite Hg. clear B Hg.
  destruct o; unfold spec_lcore, lcore; simpl; rewrite ?orb_false_r; try reflexivity.
  - destruct (transport s); reflexivity.
  - destruct (transport s); reflexivity.
  - destruct (sid_truthy s); simpl; [|rewrite orb_false_r; reflexivity].
    destruct (goodbye_sent s); simpl; [reflexivity|]. destruct (transport s); simpl; [|reflexivity].
    destruct (send_ok cfg s); reflexivity.
  - destruct (transport s && isNone (sid s) && match u_welcome cfg with WlNone => true | _ => false end); reflexivity.
  - destruct (transport s && negb (isNone (sid s)) && (goodbye_sent s || send_ok cfg s)); reflexivity.
Qed.


(* ---------------------------------------------------------------------------------------------------------- *)
(* what can leave an entry point                                                                              *)
(* ---------------------------------------------------------------------------------------------------------- *)
Definition okb (e : out) : bool := match e with Raised XProtocolError => true | Raised _ => false | _ => true end.
Definition pe_only (l : list out) : Prop := forallb okb l = true.

Lemma pe_app : forall a b, pe_only a -> pe_only b -> pe_only (a ++ b).
Proof. unfold pe_only. intros. rewrite forallb_app, H, H0. reflexivity. Qed.

Lemma pe_send : forall cfg s m, pe_only (fst (send cfg s m)).
Proof. intros. unfold send. destruct (topen s); [|destruct (t_lenient cfg && transport s)]; reflexivity. Qed.

Lemma pe_send_req : forall cfg s m, pe_only (fst (send_req cfg s m)).
Proof. intros. unfold send_req. destruct (failnext s); [reflexivity | apply pe_send]. Qed.

Lemma pe_api_step : forall cfg s o, pe_only (snd (api_step cfg s o)).
Proof.
  intros cfg s o. destruct o; try reflexivity; unfold api_step.
  - destruct (negb (transport s)); [reflexivity|]. unfold new_request. cbv zeta beta iota.
    match goal with |- context [send_req cfg ?S ?M] => pose proof (pe_send_req cfg S M) as Hs; destruct (send_req cfg S M) as [o1 ok] end.
    simpl in Hs. destruct ok; simpl; (apply pe_app; [assumption | reflexivity]).
  - destruct (negb (transport s)); [reflexivity|]. destruct (po_wants_ack o); unfold new_request, new_id_only; cbv zeta beta iota;
    match goal with |- context [send_req cfg ?S ?M] => pose proof (pe_send_req cfg S M) as Hs; destruct (send_req cfg S M) as [o1 ok] end;
    simpl in Hs; destruct ok; simpl; (apply pe_app; [assumption | reflexivity]).
  - destruct (negb (transport s)); [reflexivity|]. unfold new_request. cbv zeta beta iota.
    match goal with |- context [send_req cfg ?S ?M] => pose proof (pe_send_req cfg S M) as Hs; destruct (send_req cfg S M) as [o1 ok] end.
    simpl in Hs. destruct ok; simpl; (apply pe_app; [assumption | reflexivity]).
  - destruct (negb (transport s)); [reflexivity|]. unfold new_request. cbv zeta beta iota.
    match goal with |- context [send_req cfg ?S ?M] => pose proof (pe_send_req cfg S M) as Hs; destruct (send_req cfg S M) as [o1 ok] end.
    simpl in Hs. destruct ok; simpl; (apply pe_app; [assumption | reflexivity]).
  - destruct (reg_id_of s h) as [regid|]; [|reflexivity]. destruct (assoc regid (regs s)) as [h'|]; [|reflexivity].
    destruct (negb (h' =? h)); [reflexivity|]. destruct (negb (transport s)); [reflexivity|]. unfold new_request. cbv zeta beta iota.
    match goal with |- context [send_req cfg ?S ?M] => pose proof (pe_send_req cfg S M) as Hs; destruct (send_req cfg S M) as [o1 ok] end.
    simpl in Hs. destruct ok; simpl; (apply pe_app; [assumption | reflexivity]).
Qed.

Lemma pe_react : forall cfg s f, pe_only (snd (react cfg s f)).
Proof. intros. unfold react. destruct (assoc f (reacts s)); [apply pe_api_step | reflexivity]. Qed.

Lemma pe_complete : forall fl cfg s f r, pe_only (snd (complete fl cfg s f r)).
Proof.
  intros. unfold complete. destruct (is_done s f); [reflexivity|]. destruct fl; [|reflexivity].
  pose proof (pe_react cfg (set_done s (done s ++ [(f, r)])) f) as H.
  destruct (react cfg (set_done s (done s ++ [(f, r)])) f) as [s2 o2]. simpl in *. exact H.
Qed.

Lemma pe_errback_list : forall fl cfg e l s, pe_only (snd (errback_list fl cfg s e l)).
Proof.
  induction l as [|r t IH]; simpl; intro s; [reflexivity|].
  pose proof (pe_complete fl cfg s (r_fut r) (RErr e)) as H1. destruct (complete fl cfg s (r_fut r) (RErr e)) as [s1 o1].
  specialize (IH s1). destruct (errback_list fl cfg s1 e t) as [s2 o2]. simpl in *. now apply pe_app.
Qed.

Lemma pe_errback_all : forall fl cfg s e, pe_only (snd (errback_all fl cfg s e)).
Proof. intros. unfold errback_all. apply pe_errback_list. Qed.

Lemma pe_run_leaf : forall fl cfg s l, pe_only (snd (run_leaf fl cfg s l)).
Proof.
  intros fl cfg s l. destruct l; simpl; try reflexivity.
  - pose proof (pe_react cfg s f) as H. destruct (react cfg s f) as [s2 o2]. simpl in *. exact H.
  - destruct (sdetails s); [|reflexivity]. destruct (u_join_raises cfg); [destruct fl|]; reflexivity.
  - destruct raised; reflexivity.
  - destruct (transport s); reflexivity.
  - destruct (transport s); [|reflexivity]. pose proof (pe_send cfg s (MCancel id)) as Hs.
    destruct (send cfg s (MCancel id)) as [o ok]. simpl in *. apply pe_app; [assumption | destruct ok; reflexivity].
  - destruct (transport s); [|reflexivity]. pose proof (pe_send cfg (set_invs s (remove1 rq (invs s))) (MYield rq)) as Hs.
    destruct (send cfg (set_invs s (remove1 rq (invs s))) (MYield rq)) as [o ok]. simpl in *.
    apply pe_app; [assumption | destruct ok; [|destruct fl]; reflexivity].
Qed.

Lemma pe_defer_leaf : forall fl cfg s l, pe_only (snd (defer_leaf fl cfg s l)).
Proof. intros. destruct fl; simpl; [apply pe_run_leaf | reflexivity]. Qed.

Lemma pe_do_onLeave : forall fl cfg s rs, pe_only (snd (fst (do_onLeave fl cfg s rs))).
Proof.
  intros. unfold do_onLeave. destruct (u_leave_super cfg); [|reflexivity].
  pose proof (pe_errback_all fl cfg s (ELeave rs)) as H1. destruct (errback_all fl cfg s (ELeave rs)) as [s1 o1].
  pose proof (pe_defer_leaf fl cfg s1 LLeaveDisconnect) as H2. destruct (defer_leaf fl cfg s1 LLeaveDisconnect) as [s2 o2].
  simpl in *. apply (pe_app [Called (CbLeave rs (sid s))]); [reflexivity | now apply pe_app].
Qed.

Lemma pe_do_onDisconnect : forall fl cfg s, pe_only (snd (fst (do_onDisconnect fl cfg s))).
Proof.
  intros. unfold do_onDisconnect. destruct (u_disc_super cfg); [|reflexivity].
  pose proof (pe_errback_all fl cfg s ETransportLost) as H1. destruct (errback_all fl cfg s ETransportLost) as [s1 o1].
  simpl in *. apply (pe_app [Called CbDisconnect]); [reflexivity | assumption].
Qed.

Lemma pe_leave_then : forall fl cfg s rs,
  pe_only (snd (let '(s2, o2, raised) := do_onLeave fl cfg s rs in
                let '(s3, o3) := defer_leaf fl cfg s2 (LLeaveK raised) in (s3, o2 ++ o3))).
Proof.
  intros. pose proof (pe_do_onLeave fl cfg s rs) as H1. destruct (do_onLeave fl cfg s rs) as [[s2 o2] raised].
  pose proof (pe_defer_leaf fl cfg s2 (LLeaveK raised)) as H2. destruct (defer_leaf fl cfg s2 (LLeaveK raised)) as [s3 o3].
  simpl in *. now apply pe_app.
Qed.

Lemma pe_challenge_failed : forall fl cfg s, pe_only (snd (challenge_failed fl cfg s)).
Proof.
  intros. unfold challenge_failed. destruct (transport s); [|destruct fl; reflexivity].
  pose proof (pe_send cfg s (MAbort RsCannotAuth)) as Hs. destruct (send cfg s (MAbort RsCannotAuth)) as [o1 ok]. simpl in Hs.
  destruct ok.
  - pose proof (pe_leave_then fl cfg s RsCannotAuth) as H1.
    destruct (do_onLeave fl cfg s RsCannotAuth) as [[s2 o2] raised]. destruct (defer_leaf fl cfg s2 (LLeaveK raised)) as [s3 o3].
    simpl in *. apply (pe_app [UserError]); [reflexivity | now apply pe_app].
  - simpl. apply (pe_app [UserError]); [reflexivity | apply pe_app; [assumption | destruct fl; reflexivity]].
Qed.

Lemma pe_run_thunk : forall fl cfg s t, pe_only (snd (run_thunk fl cfg s t)).
Proof.
  intros fl cfg s t. destruct t as [l| |o sidv|o|raised]; simpl.
  - apply pe_run_leaf.
  - destruct (u_connect cfg); [|reflexivity]. destruct (sid_truthy s); [reflexivity|].
    destruct (negb (transport s)); [reflexivity|]. pose proof (pe_send cfg (set_join s) MHello) as Hs.
    destruct (send cfg (set_join s) MHello) as [o ok]. simpl in *. apply (pe_app [Called CbConnect]); [reflexivity | assumption].
  - destruct o.
    + destruct (transport s); [apply pe_defer_leaf | destruct fl; reflexivity].
    + destruct (transport s); [|destruct fl; reflexivity].
      pose proof (pe_send cfg s (MAbort RsCannotAuth)) as Hs. destruct (send cfg s (MAbort RsCannotAuth)) as [o1 ok].
      simpl in *. apply pe_app; [assumption | destruct ok; [|destruct fl]; reflexivity].
    + destruct (transport s); [|destruct fl; reflexivity].
      pose proof (pe_send cfg s (MAbort RsCannotAuth)) as Hs. destruct (send cfg s (MAbort RsCannotAuth)) as [o1 ok].
      simpl in *. apply pe_app; [assumption | destruct ok; [|destruct fl]; reflexivity].
  - destruct o.
    + destruct (transport s).
      * pose proof (pe_send cfg s MAuthenticate) as Hs. destruct (send cfg s MAuthenticate) as [o1 ok]. simpl in Hs.
        destruct ok; [assumption|]. destruct fl; [assumption|].
        pose proof (pe_challenge_failed Aio cfg s) as H1. destruct (challenge_failed Aio cfg s) as [s2 o2]. simpl in *.
        now apply pe_app.
      * destruct fl; [reflexivity | apply pe_challenge_failed].
    + destruct fl; [reflexivity | apply pe_challenge_failed].
    + apply pe_challenge_failed.
  - pose proof (pe_errback_all fl cfg s ETransportLost) as H1. destruct (errback_all fl cfg s ETransportLost) as [s1 o1].
    simpl in *. apply pe_app; [exact H1 | destruct raised; reflexivity].
Qed.

Lemma pe_defer : forall fl cfg s t, pe_only (snd (defer fl cfg s t)).
Proof. intros. destruct fl; simpl; [apply pe_run_thunk | reflexivity]. Qed.

Lemma pe_run_queue : forall fl cfg q s, pe_only (snd (run_queue fl cfg s q)).
Proof.
  induction q as [|t r IH]; simpl; intro s; [reflexivity|].
  pose proof (pe_run_thunk fl cfg s t) as H1. destruct (run_thunk fl cfg s t) as [s1 o1].
  specialize (IH s1). destruct (run_queue fl cfg s1 r) as [s2 o2]. simpl in *. now apply pe_app.
Qed.

Lemma pe_pop_reply : forall s k rq found,
  (forall r s1, pe_only (snd (found r s1))) -> pe_only (snd (pop_reply s k rq found)).
Proof.
  intros s k rq found H. unfold pop_reply. destruct (find_req k rq (pend s)); [|reflexivity].
  destruct (is_done _ _); [reflexivity | apply H].
Qed.

Lemma pe_established : forall fl cfg s o, (forall r, o <> RGoodbye r) -> pe_only (snd (on_message_established fl cfg s o)).
Proof.
  intros fl cfg s o Hng. destruct o; simpl; try reflexivity.
  - exfalso. eapply Hng. reflexivity.
  - apply pe_pop_reply. intros. apply pe_complete.
  - apply pe_pop_reply. intros. apply pe_complete.
  - apply pe_pop_reply. intros. apply pe_complete.
  - destruct (find_req KCall rq (pend s)) as [r|]; [|reflexivity]. destruct progress.
    + destruct (r_opts r) as [c|]; [|reflexivity]. destruct (co_progress c); reflexivity.
    + destruct (is_done _ _); [reflexivity | apply pe_complete].
  - apply pe_pop_reply. intros r s1. destruct (assoc regid (regs s1)); [reflexivity | apply pe_complete].
  - destruct (rq =? 0).
    + destruct regid as [g|]; [destruct (assoc g (regs s))|]; reflexivity.
    + apply pe_pop_reply. intros. apply pe_complete.
  - destruct (kind_of_code rtype) as [k|]; [|reflexivity].
    destruct (find_req k rq (pend s)); [apply pe_complete | reflexivity].
  - destruct (assoc subid (subs s)); reflexivity.
  - destruct (memN rq (invs s)); [reflexivity|]. destruct (assoc regid (regs s)); [apply pe_defer_leaf | reflexivity].
Qed.

Lemma pe_unjoined : forall fl cfg s o, pe_only (snd (on_message_unjoined fl cfg s o)).
Proof.
  intros fl cfg s o. destruct o; simpl; try reflexivity.
  - pose proof (pe_defer fl cfg s (TWelcomeK (u_welcome cfg) sidv)) as H1.
    destruct (defer fl cfg s (TWelcomeK (u_welcome cfg) sidv)) as [s1 o1]. simpl in *.
    apply (pe_app [Called CbWelcome]); [reflexivity | assumption].
  - apply pe_leave_then.
  - pose proof (pe_defer fl cfg s (TChallengeK (u_challenge cfg))) as H1.
    destruct (defer fl cfg s (TChallengeK (u_challenge cfg))) as [s1 o1]. simpl in *.
    apply (pe_app [Called CbChallenge]); [reflexivity | assumption].
Qed.

Lemma pe_unsub_step : forall fl cfg s h, pe_only (snd (unsub_step fl cfg s h)).
Proof.
  intros fl cfg s h. unfold unsub_step.
  destruct (sub_id_of s h) as [subid|]; [|reflexivity]. destruct (negb (memN h _)); [reflexivity|].
  destruct (negb (transport s)); [reflexivity|].
  destruct (remove1 h match assoc subid (subs s) with Some l => l | None => [] end) as [|x rest'].
  + unfold new_request. cbv zeta beta iota.
    match goal with |- context [send_req cfg ?S ?M] => pose proof (pe_send_req cfg S M) as Hs; destruct (send_req cfg S M) as [o1 ok] end.
    simpl in Hs. destruct ok; simpl; (apply pe_app; [assumption | reflexivity]).
  + match goal with |- context [complete fl cfg ?S ?F ?R] => pose proof (pe_complete fl cfg S F R) as Hc; destruct (complete fl cfg S F R) as [s2 o2] end.
    simpl in *. exact Hc.
Qed.

(* the one other exception an entry point can let through: the GOODBYE reply on a transport that refuses sends *)
Definition goodbye_reply_refused (cfg : ucfg) (s : sess) (o : op) : Prop :=
  exists r, o = RGoodbye r /\ transport s = true /\ sid s <> None /\ goodbye_sent s = false /\ send_ok cfg s = false.

Theorem step_raises : forall fl cfg s o,
  pe_only (snd (step fl cfg s o)) \/
  (goodbye_reply_refused cfg s o /\ snd (step fl cfg s o) = [SendFailed (MGoodbye RsNormal); Raised XTransportLost]).
Proof.
  intros fl cfg s o.
  assert (Hrouter : forall o', (forall r, o' <> RGoodbye r) ->
            pe_only (snd (if negb (transport s) then (s, [])
                          else match sid s with None => on_message_unjoined fl cfg s o' | Some _ => on_message_established fl cfg s o' end))).
  { intros o' Hng. destruct (negb (transport s)); [reflexivity|]. destruct (sid s); [now apply pe_established | apply pe_unjoined]. }
  destruct o; try (left; apply Hrouter; intros r0 E; discriminate); try (left; apply pe_api_step); unfold step; cbv beta iota.
  - left. destruct (transport s); [reflexivity | apply pe_defer].
  - left. destruct (negb (transport s)); [reflexivity|].
    set (s0 := set_conn s (opened s) false false).
    assert (H3 : pe_only (snd (if sid_truthy s0
                           then let '(s1, o1, raised) := do_onLeave fl cfg s0 RsTransportLost in
                                let '(s2, o2) := defer_leaf fl cfg s1 (LLeaveK raised) in (set_sid s2 None, o1 ++ o2)
                           else (s0, [])))).
    { destruct (sid_truthy s0); [|reflexivity]. pose proof (pe_leave_then fl cfg s0 RsTransportLost) as H1.
      destruct (do_onLeave fl cfg s0 RsTransportLost) as [[s1 o1] raised].
      destruct (defer_leaf fl cfg s1 (LLeaveK raised)) as [s2 o2]. exact H1. }
    destruct (if sid_truthy s0
              then let '(s1, o1, raised) := do_onLeave fl cfg s0 RsTransportLost in
                   let '(s2, o2) := defer_leaf fl cfg s1 (LLeaveK raised) in (set_sid s2 None, o1 ++ o2)
              else (s0, [])) as [s3 o3]. simpl in H3.
    pose proof (pe_do_onDisconnect fl cfg s3) as H4. destruct (do_onDisconnect fl cfg s3) as [[s4 o4] raised]. simpl in H4.
    pose proof (pe_defer fl cfg s4 (TDiscK raised)) as H5. destruct (defer fl cfg s4 (TDiscK raised)) as [s5 o5].
    simpl in *. apply pe_app; [assumption | now apply pe_app].
  - left. destruct fl; [reflexivity | apply pe_run_queue].
  - left. apply pe_unsub_step.
  - left. destruct (is_done s f); [reflexivity|]. destruct (assoc f (issued s)) as [[k id]|]; [|reflexivity].
    destruct fl; [|destruct k; reflexivity].
    assert (Hc : pe_only (snd (let '(s1, o2) := complete Tx cfg s f (RErr ECancelled) in (s1, o2 ++ [ApiReturned None])))).
    { pose proof (pe_complete Tx cfg s f (RErr ECancelled)) as Hc. destruct (complete Tx cfg s f (RErr ECancelled)). simpl in *.
      apply pe_app; [assumption | reflexivity]. }
    destruct k; try exact Hc. destruct (transport s); [|reflexivity].
    pose proof (pe_send cfg s (MCancel id)) as Hs. destruct (send cfg s (MCancel id)) as [o1 ok]. simpl in Hs.
    destruct ok; [|simpl; apply pe_app; [assumption | reflexivity]].
    pose proof (pe_complete Tx cfg s f (RErr ECancelled)) as Hc2. destruct (complete Tx cfg s f (RErr ECancelled)). simpl in *.
    apply pe_app; [assumption | apply pe_app; [assumption | reflexivity]].
  - left. destruct (negb (sid_truthy s)); [reflexivity|]. destruct (goodbye_sent s); [reflexivity|].
    destruct (negb (transport s)); [reflexivity|].
    match goal with |- context [send cfg s ?M] => pose proof (pe_send cfg s M) as Hs; destruct (send cfg s M) as [o1 ok] end.
    simpl in Hs. destruct ok; simpl; (apply pe_app; [assumption | reflexivity]).
  - left. destruct (transport s); reflexivity.
  - left. destruct (is_fail_op o); [|reflexivity].
    assert (H1 : pe_only (snd (match o with AUnsubscribe h => unsub_step fl cfg (set_failnext s (Some e)) h
                                | _ => api_step cfg (set_failnext s (Some e)) o end))).
    { destruct o; try apply pe_api_step. apply pe_unsub_step. }
    destruct (match o with AUnsubscribe h => unsub_step fl cfg (set_failnext s (Some e)) h
              | _ => api_step cfg (set_failnext s (Some e)) o end) as [s1 o1]. exact H1.
  - left. destruct (is_react_op o && negb (is_done s f) && isNoneB (assoc f (reacts s))); reflexivity.
  - (* RGoodbye *)
    destruct (transport s) eqn:Et; [|left; reflexivity]. simpl negb. cbv iota.
    destruct (sid s) as [v|] eqn:Es; [|left; reflexivity]. unfold on_message_established.
    destruct (goodbye_sent s) eqn:Eg.
    + left. pose proof (pe_leave_then fl cfg (set_sid s None) r) as H1.
      destruct (do_onLeave fl cfg (set_sid s None) r) as [[s2 o2] raised].
      destruct (defer_leaf fl cfg s2 (LLeaveK raised)) as [s3 o3]. exact H1.
    + destruct (send_fst_snd cfg s (MGoodbye RsNormal)) as [Hok Hout]. pose proof (pe_send cfg s (MGoodbye RsNormal)) as Hs.
      destruct (send cfg s (MGoodbye RsNormal)) as [o1 ok]. simpl in Hok, Hout, Hs. destruct ok.
      * left. pose proof (pe_leave_then fl cfg (set_sid s None) r) as H1.
        destruct (do_onLeave fl cfg (set_sid s None) r) as [[s2 o2] raised].
        destruct (defer_leaf fl cfg s2 (LLeaveK raised)) as [s3 o3]. simpl in *. now apply pe_app.
      * right. split.
        -- exists r. repeat split; auto. rewrite Es. discriminate.
        -- simpl. subst o1. unfold send_ok in Hok. destruct (topen s); [discriminate|]. simpl in Hok.
           rewrite Et in *. destruct (t_lenient cfg); [discriminate | reflexivity].
Qed.

Theorem trace_raises : forall fl cfg ops e,
  In (Raised e) (trace fl cfg ops) -> e = XProtocolError \/ e = XTransportLost.
Proof.
  intros fl cfg ops. unfold trace. generalize init. induction ops as [|o t IH]; simpl; intros s e Hin; [contradiction|].
  pose proof (step_raises fl cfg s o) as Hst. destruct (step fl cfg s o) as [s1 o1]. simpl in Hst.
  specialize (IH s1 e). destruct (run fl cfg s1 t) as [s2 tr]. simpl in *.
  apply in_app_or in Hin. destruct Hin as [Hin|Hin]; [|now apply IH].
  destruct Hst as [Hpe|[_ Heq]].
  - left. unfold pe_only in Hpe. rewrite forallb_forall in Hpe. specialize (Hpe _ Hin). simpl in Hpe.
    destruct e; try discriminate. reflexivity.
  - subst o1. destruct Hin as [H|[H|[]]]; inversion H. now right.
Qed.

(* ---------------------------------------------------------------------------------------------------------- *)
(* a reply that arrives while the API call is still inside transport.send()                                   *)
(* ---------------------------------------------------------------------------------------------------------- *)
Lemma find_req_put : forall r l, find_req (r_kind r) (r_id r) (put_req r l) = Some r.
Proof.
  induction l as [|x t IH]; simpl.
  - unfold req_is. rewrite kind_eqb_refl, N.eqb_refl. reflexivity.
  - destruct (req_is (r_kind r) (r_id r) x) eqn:E; simpl.
    + unfold req_is at 1. rewrite kind_eqb_refl, N.eqb_refl. reflexivity.
    + rewrite E. exact IH.
Qed.

(* the request an API call records (kind, CallRequest.options, target), when it is one that expects a reply *)
Definition api_request (s : sess) (a : op) : option (kind * option call_opts * N) :=
  match a with
  | ACall uri _ _ o => Some (KCall, o, uri)
  | APublish uri _ _ o => if po_wants_ack o then Some (KPublish, None, uri) else None
  | ASubscribe uri _ => Some (KSubscribe, None, uri)
  | ARegister uri _ => Some (KRegister, None, uri)
  | AUnsubscribe h =>
      match sub_id_of s h with
      | Some i => match assoc i (subs s) with Some [h'] => if h' =? h then Some (KUnsubscribe, None, i) else None | _ => None end
      | None => None
      end
  | AUnregister h =>
      match reg_id_of s h with
      | Some i => match assoc i (regs s) with Some h' => if h' =? h then Some (KUnregister, None, i) else None | None => None end
      | None => None
      end
  | _ => None
  end.

(* Every API path records its request BEFORE it hands the message to the transport; therefore a reply that the
   transport delivers re-entrantly from inside send() -- i.e. the history [a; r] with nothing in between, the API call
   returning only afterwards -- finds the record and completes the future the call is about to return, with the
   reply's content; the call itself returns that future and does not raise. *)
Theorem reply_during_send : forall fl cfg s a r v k co t c,
  transport s = true -> topen s = true -> failnext s = None -> sid s = Some v -> is_done s (next_fut s) = false ->
  assoc (next_fut s) (reacts s) = None ->
  api_request s a = Some (k, co, t) ->
  reply_spec r = Some (k, idgen_next (next_id s), c) ->
  match r with RRegistered _ g => assoc g (regs s) = None | _ => True end ->
  let f := next_fut s in
  let rq := mkreq k (idgen_next (next_id s)) f co t in
  let '(s1, o1) := step fl cfg s a in
  let '(s2, o2) := step fl cfg s1 r in
  (exists m, o1 = [Sent m; ApiReturned (Some f)])
  /\ pend s2 = remove_req k (idgen_next (next_id s)) (put_req rq (pend s))
  /\ done s2 = done s ++ [(f, c rq)] /\ user_sees fl s1 s2 o2 f (c rq).
Proof.
  intros fl cfg s a r v k co t c Ht Ho Hfn Hs Hd Hno Ha Hr Hwf. cbv zeta.
  assert (Hgen : forall s1 o1, step fl cfg s a = (s1, o1) ->
            transport s1 = true -> sid s1 = Some v -> regs s1 = regs s -> done s1 = done s -> reacts s1 = reacts s ->
            pend s1 = put_req (mkreq k (idgen_next (next_id s)) (next_fut s) co t) (pend s) ->
            next_id s1 = idgen_next (next_id s) ->
            (exists m, o1 = [Sent m; ApiReturned (Some (next_fut s))]) ->
            let '(s2, o2) := step fl cfg s1 r in
            (exists m, o1 = [Sent m; ApiReturned (Some (next_fut s))])
            /\ pend s2 = remove_req k (idgen_next (next_id s)) (put_req (mkreq k (idgen_next (next_id s)) (next_fut s) co t) (pend s))
            /\ done s2 = done s ++ [(next_fut s, c (mkreq k (idgen_next (next_id s)) (next_fut s) co t))]
            /\ user_sees fl s1 s2 o2 (next_fut s) (c (mkreq k (idgen_next (next_id s)) (next_fut s) co t))).
  { intros s1 o1 Hst Ht1 Hs1 Hrg Hdn Hrc Hp Hn Ho1.
    set (rq := mkreq k (idgen_next (next_id s)) (next_fut s) co t) in *.
    assert (Hf : find_req k (idgen_next (next_id s)) (pend s1) = Some rq).
    { rewrite Hp. exact (find_req_put rq (pend s)). }
    assert (Hd1 : is_done s1 (r_fut rq) = false) by (unfold is_done; rewrite Hdn; exact Hd).
    assert (Hwf1 : reply_wellformed s1 r).
    { destruct r; simpl; auto. rewrite Hrg. exact Hwf. }
    assert (Hno1 : assoc (r_fut rq) (reacts s1) = None) by (rewrite Hrc; exact Hno).
    pose proof (reply_completes fl cfg s1 r v k (idgen_next (next_id s)) c rq Ht1 Hs1 Hr Hf Hd1 Hwf1 Hno1) as H.
    destruct (step fl cfg s1 r) as [s2 o2]. destruct H as [P1 [P2 [P3 _]]].
    split; [assumption|]. split; [rewrite P1, Hp; reflexivity|]. split; [rewrite P2, Hdn; reflexivity | exact P3]. }
  destruct a; simpl in Ha; try discriminate.
  - (* ACall *) inversion Ha; subst.
    destruct (call_one_message fl cfg s t a kw co Ht Ho Hfn) as [s1 [Hst [Hp [Hn [_ [Hdn _]]]]]].
    pose proof (Hgen s1 _ Hst) as G. rewrite Hst.
    apply G; try assumption; try (eexists; reflexivity);
      unfold step, api_step in Hst; rewrite Ht in Hst; simpl in Hst; unfold send_req, send in Hst; simpl in Hst; rewrite Hfn, Ho in Hst; simpl in Hst;
      inversion Hst; subst; simpl; assumption || reflexivity.
  - (* APublish *) destruct (po_wants_ack o) eqn:Ew; [|discriminate]. inversion Ha; subst.
    destruct (publish_ack_one_message fl cfg s t a kw o Ht Ho Hfn Ew) as [s1 [Hst [Hp [Hn [_ [Hdn _]]]]]].
    pose proof (Hgen s1 _ Hst) as G. rewrite Hst.
    apply G; try assumption; try (eexists; reflexivity);
      unfold step, api_step in Hst; rewrite Ht in Hst; simpl in Hst; rewrite Ew in Hst; unfold send_req, send in Hst; simpl in Hst; rewrite Hfn, Ho in Hst; simpl in Hst;
      inversion Hst; subst; simpl; assumption || reflexivity.
  - (* ASubscribe *) inversion Ha; subst.
    destruct (subscribe_one_message fl cfg s t o Ht Ho Hfn) as [s1 [Hst [Hp [Hn [_ [Hdn _]]]]]].
    pose proof (Hgen s1 _ Hst) as G. rewrite Hst.
    apply G; try assumption; try (eexists; reflexivity);
      unfold step, api_step in Hst; rewrite Ht in Hst; simpl in Hst; unfold send_req, send in Hst; simpl in Hst; rewrite Hfn, Ho in Hst; simpl in Hst;
      inversion Hst; subst; simpl; assumption || reflexivity.
  - (* ARegister *) inversion Ha; subst.
    destruct (register_one_message fl cfg s t o Ht Ho Hfn) as [s1 [Hst [Hp [Hn [_ [Hdn _]]]]]].
    pose proof (Hgen s1 _ Hst) as G. rewrite Hst.
    apply G; try assumption; try (eexists; reflexivity);
      unfold step, api_step in Hst; rewrite Ht in Hst; simpl in Hst; unfold send_req, send in Hst; simpl in Hst; rewrite Hfn, Ho in Hst; simpl in Hst;
      inversion Hst; subst; simpl; assumption || reflexivity.
  - (* AUnsubscribe *)
    destruct (sub_id_of s h) as [i|] eqn:Ei; [|discriminate]. destruct (assoc i (subs s)) as [[|h' [|? ?]]|] eqn:Eas; try discriminate.
    destruct (h' =? h) eqn:Eh; [|discriminate]. apply N.eqb_eq in Eh. subst h'. inversion Ha; subst.
    destruct (unsubscribe_one_message fl cfg s h t Ht Ho Hfn Ei Eas) as [s1 [Hst [Hp [Hn [_ [Hdn _]]]]]].
    pose proof (Hgen s1 _ Hst) as G. rewrite Hst.
    apply G; try assumption; try (eexists; reflexivity);
      unfold step, unsub_step in Hst; rewrite Ei, Eas in Hst; simpl in Hst; rewrite N.eqb_refl in Hst; simpl in Hst; rewrite Ht in Hst; simpl in Hst;
      unfold send_req, send in Hst; simpl in Hst; rewrite Hfn, Ho in Hst; simpl in Hst; inversion Hst; subst; simpl; assumption || reflexivity.
  - (* AUnregister *)
    destruct (reg_id_of s h) as [i|] eqn:Ei; [|discriminate]. destruct (assoc i (regs s)) as [h'|] eqn:Eas; [|discriminate].
    destruct (h' =? h) eqn:Eh; [|discriminate]. apply N.eqb_eq in Eh. subst h'. inversion Ha; subst.
    destruct (unregister_one_message fl cfg s h t Ht Ho Hfn Ei Eas) as [s1 [Hst [Hp [Hn [_ [Hdn _]]]]]].
    pose proof (Hgen s1 _ Hst) as G. rewrite Hst.
    apply G; try assumption; try (eexists; reflexivity);
      unfold step, api_step in Hst; rewrite Ei, Eas in Hst; rewrite N.eqb_refl in Hst; simpl in Hst; rewrite Ht in Hst; simpl in Hst;
      unfold send_req, send in Hst; simpl in Hst; rewrite Hfn, Ho in Hst; simpl in Hst; inversion Hst; subst; simpl; assumption || reflexivity.
Qed.


(* ---------------------------------------------------------------------------------------------------------- *)
(* send() fails (SerializationError / PayloadExceededError / TransportLost), for each of the six request kinds *)
(* ---------------------------------------------------------------------------------------------------------- *)
Lemma remove_put : forall r l, remove_req (r_kind r) (r_id r) (put_req r l) = remove_req (r_kind r) (r_id r) l.
Proof.
  intros r l. induction l as [|x t IH]; simpl.
  - assert (H : req_is (r_kind r) (r_id r) r = true) by (apply req_is_key; reflexivity). rewrite H. reflexivity.
  - destruct (req_is (r_kind r) (r_id r) x) eqn:E; simpl.
    + assert (H : req_is (r_kind r) (r_id r) r = true) by (apply req_is_key; reflexivity). rewrite H. reflexivity.
    + rewrite E, IH. reflexivity.
Qed.

Lemma remove_req_absent : forall k i l, find_req k i l = None -> remove_req k i l = l.
Proof.
  induction l as [|x t IH]; simpl; intro H; [reflexivity|]. destruct (req_is k i x); [discriminate|]. rewrite IH by assumption. reflexivity.
Qed.

(* every API path takes its record back when send() raises (call/publish always did; subscribe / register /
   unsubscribe / unregister since 0e55772a) *)
Theorem failed_send : forall fl cfg s e a k co t,
  transport s = true -> failnext s = None -> api_request s a = Some (k, co, t) ->
  let '(s1, o1) := step fl cfg s (AFail e a) in
  (exists m, o1 = [SendFailed m; ApiRaised e])
  /\ next_id s1 = idgen_next (next_id s) /\ done s1 = done s /\ failnext s1 = None /\ lcore s1 = lcore s
  /\ (k <> KUnsubscribe -> subs s1 = subs s) /\ regs s1 = regs s
  /\ pend s1 = remove_req k (idgen_next (next_id s)) (pend s).
Proof.
  intros fl cfg s e a k co t Ht Hfn Ha.
  destruct a; simpl in Ha; try discriminate.
  - inversion Ha; subst. unfold step. simpl is_fail_op. cbv iota. unfold api_step. simpl. rewrite Ht. simpl.
    unfold send_req, send_exn. simpl. unfold lcore. simpl.
    repeat split; try reflexivity; try (eexists; reflexivity).
    exact (remove_put (mkreq KCall (idgen_next (next_id s)) (next_fut s) co t) (pend s)).
  - destruct (po_wants_ack o) eqn:Ew; [|discriminate]. inversion Ha; subst.
    unfold step. simpl is_fail_op. cbv iota. unfold api_step. simpl. rewrite Ht, Ew. simpl.
    unfold send_req, send_exn. simpl. unfold lcore. simpl.
    repeat split; try reflexivity; try (eexists; reflexivity).
    exact (remove_put (mkreq KPublish (idgen_next (next_id s)) (next_fut s) None t) (pend s)).
  - inversion Ha; subst. unfold step. simpl is_fail_op. cbv iota. unfold api_step. simpl. rewrite Ht. simpl.
    unfold send_req, send_exn. simpl. unfold lcore. simpl. repeat split; try reflexivity; try (eexists; reflexivity).
    exact (remove_put (mkreq KSubscribe (idgen_next (next_id s)) (next_fut s) None t) (pend s)).
  - inversion Ha; subst. unfold step. simpl is_fail_op. cbv iota. unfold api_step. simpl. rewrite Ht. simpl.
    unfold send_req, send_exn. simpl. unfold lcore. simpl. repeat split; try reflexivity; try (eexists; reflexivity).
    exact (remove_put (mkreq KRegister (idgen_next (next_id s)) (next_fut s) None t) (pend s)).
  - destruct (sub_id_of s h) as [i|] eqn:Ei; [|discriminate]. destruct (assoc i (subs s)) as [[|h' [|? ?]]|] eqn:Eas; try discriminate.
    destruct (h' =? h) eqn:Eh; [|discriminate]. apply N.eqb_eq in Eh. subst h'. inversion Ha; subst.
    unfold step. simpl is_fail_op. cbv iota. unfold unsub_step.
    assert (E1 : sub_id_of (set_failnext s (Some e)) h = Some t) by exact Ei. rewrite E1. simpl. rewrite Eas. simpl.
    rewrite N.eqb_refl. simpl. rewrite Ht. simpl.
    unfold send_req, send_exn. simpl. unfold lcore. simpl. repeat split; try reflexivity; try (eexists; reflexivity).
    + intro Hx; exfalso; apply Hx; reflexivity.
    + exact (remove_put (mkreq KUnsubscribe (idgen_next (next_id s)) (next_fut s) None t) (pend s)).
  - destruct (reg_id_of s h) as [i|] eqn:Ei; [|discriminate]. destruct (assoc i (regs s)) as [h'|] eqn:Eas; [|discriminate].
    destruct (h' =? h) eqn:Eh; [|discriminate]. apply N.eqb_eq in Eh. subst h'. inversion Ha; subst.
    unfold step. simpl is_fail_op. cbv iota. unfold api_step.
    assert (E1 : reg_id_of (set_failnext s (Some e)) h = Some t) by exact Ei. rewrite E1. simpl. rewrite Eas.
    rewrite N.eqb_refl. simpl. rewrite Ht. simpl.
    unfold send_req, send_exn. simpl. unfold lcore. simpl. repeat split; try reflexivity; try (eexists; reflexivity).
    exact (remove_put (mkreq KUnregister (idgen_next (next_id s)) (next_fut s) None t) (pend s)).
Qed.

(* publish() without acknowledge has no record and no future: the id is consumed, nothing else changes *)
Theorem failed_send_publish_noack : forall fl cfg s e uri a kw o,
  transport s = true -> failnext s = None -> po_wants_ack o = false ->
  let '(s1, o1) := step fl cfg s (AFail e (APublish uri a kw o)) in
  (exists m, o1 = [SendFailed m; ApiRaised e])
  /\ next_id s1 = idgen_next (next_id s) /\ pend s1 = pend s /\ done s1 = done s /\ failnext s1 = None /\ lcore s1 = lcore s.
Proof.
  intros fl cfg s e uri a kw o Ht Hfn Ew. unfold step. simpl is_fail_op. cbv iota. unfold api_step. simpl. rewrite Ht, Ew. simpl.
  unfold send_req, send_exn. simpl. unfold lcore. simpl. repeat split; try reflexivity. eexists; reflexivity.
Qed.

(* all six kinds: the failed call left no trace in the tables, so a router message bearing the id it consumed is a
   protocol violation like any other reply nobody waits for *)
Theorem failed_send_reply_is_violation : forall fl cfg s e a r v k co t c,
  transport s = true -> sid s = Some v -> failnext s = None ->
  api_request s a = Some (k, co, t) ->
  reply_spec r = Some (k, idgen_next (next_id s), c) -> find_req k (idgen_next (next_id s)) (pend s) = None ->
  let '(s1, o1) := step fl cfg s (AFail e a) in
  (exists m, o1 = [SendFailed m; ApiRaised e]) /\ pend s1 = pend s /\ step fl cfg s1 r = (s1, [Raised XProtocolError]).
Proof.
  intros fl cfg s e a r v k co t c Ht Hs Hfn Ha Hr Hf.
  pose proof (failed_send fl cfg s e a k co t Ht Hfn Ha) as H. destruct (step fl cfg s (AFail e a)) as [s1 o1].
  destruct H as [Ho [_ [_ [_ [Hc [_ [_ Hp]]]]]]]. rewrite (remove_req_absent _ _ _ Hf) in Hp.
  split; [exact Ho|]. split; [exact Hp|].
  unfold lcore in Hc. inversion Hc as [[C1 C2 C3 C4]].
  apply (reply_unknown fl cfg s1 r v k (idgen_next (next_id s)) c); [congruence | congruence | exact Hr | rewrite Hp; exact Hf].
Qed.

(* regression example (before 0e55772a the record of the failed register() stayed, REGISTERED 1 58 was accepted
   silently and created a Registration): *)
Theorem failed_send_register_example :
  let ops := [OOpen; RWelcome 1; AFail XPayloadExceeded (ARegister 1 None); RRegistered 1 58] in
  In (ApiRaised XPayloadExceeded) (trace Tx default_cfg ops) /\ In (Raised XProtocolError) (trace Tx default_cfg ops)
  /\ regs (final Tx default_cfg ops) = [] /\ pend (final Tx default_cfg ops) = [].
Proof. vm_compute. repeat split; auto 10. Qed.

(* the freshness hypothesis of [reply_during_send] holds in every reachable state *)
Theorem fresh_future_not_done : forall fl cfg ops, is_done (final fl cfg ops) (next_fut (final fl cfg ops)) = false.
Proof.
  intros. apply is_done_false. intro Hin. apply in_map_iff in Hin. destruct Hin as [[g r] [Hg Hin]]. simpl in Hg. subst g.
  pose proof (i_done_lt _ _ (reachable_Inv fl cfg ops) _ _ Hin) as Hlt. lia.
Qed.

(* ---------------------------------------------------------------------------------------------------------- *)
(* the error sweeps (_errback_outstanding_requests) with callbacks that re-enter the API                       *)
(* ---------------------------------------------------------------------------------------------------------- *)
(* what a piece of the session may do to the tables and ledgers while user callbacks run inside it:
   results are only added (with content in P), futures are only created, a table entry either was there before or
   belongs to a request issued meanwhile (fresh future); nothing is issued when there is no transport (the API
   raises); the life-cycle part of the state is untouched *)
Record sweep (P : result -> Prop) (s s' : sess) : Prop := {
  sw_done : forall x y, In (x, y) (done s') -> In (x, y) (done s) \/ P y;
  sw_mono : forall x y, In (x, y) (done s) -> In (x, y) (done s');
  sw_fut : next_fut s <= next_fut s';
  sw_pend : forall r', In r' (pend s') -> In r' (pend s) \/ next_fut s <= r_fut r';
  sw_quiet : transport s = false -> pend s' = pend s;
  sw_core : lcore s' = lcore s
}.

Lemma sweep_refl : forall P s, sweep P s s.
Proof. intros. constructor; auto. lia. Qed.

Lemma sweep_trans : forall P s s1 s2, sweep P s s1 -> sweep P s1 s2 -> sweep P s s2.
Proof.
  intros P s s1 s2 A B. destruct A, B.
  assert (Htr : transport s1 = transport s) by (unfold lcore in sw_core0; inversion sw_core0; reflexivity).
  constructor.
  - intros x y H. destruct (sw_done1 x y H) as [H1|H1]; auto.
  - auto.
  - lia.
  - intros r' H. destruct (sw_pend1 r' H) as [H1|H1]; [destruct (sw_pend0 r' H1) as [H2|H2]; auto | right; lia].
  - intro Hq. rewrite sw_quiet1; [apply sw_quiet0; exact Hq | congruence].
  - congruence.
Qed.

Lemma sweep_same : forall P s s', done s' = done s -> next_fut s' = next_fut s -> pend s' = pend s -> lcore s' = lcore s ->
  sweep P s s'.
Proof. intros P s s' A B C D. constructor; rewrite ?A, ?B, ?C; auto. lia. Qed.

Lemma sweep_api_step : forall P cfg s o, sweep P s (fst (api_step cfg s o)).
Proof.
  intros P cfg s o. pose proof (LQ_api_step cfg s o) as [_ Hcore]. pose proof (api_step_done cfg s o) as Hdone.
  constructor; try assumption.
  - intros x y H. left. rewrite Hdone in H. exact H.
  - intros x y H. rewrite Hdone. exact H.
  - destruct o; simpl; try lia; unfold api_step.
    + destruct (negb (transport s)); [simpl; lia|]. unfold new_request. cbv zeta beta iota.
      destruct (send_req cfg _ _) as [o1 ok]. destruct ok; simpl; lia.
    + destruct (negb (transport s)); [simpl; lia|]. destruct (po_wants_ack o); unfold new_request, new_id_only; cbv zeta beta iota;
        destruct (send_req cfg _ _) as [o1 ok]; destruct ok; simpl; lia.
    + destruct (negb (transport s)); [simpl; lia|]. unfold new_request. cbv zeta beta iota. destruct (send_req cfg _ _) as [o1 ok]. destruct ok; simpl; lia.
    + destruct (negb (transport s)); [simpl; lia|]. unfold new_request. cbv zeta beta iota. destruct (send_req cfg _ _) as [o1 ok]. destruct ok; simpl; lia.
    + destruct (reg_id_of s h); [|simpl; lia]. destruct (assoc n (regs s)); [|simpl; lia].
      destruct (negb (n0 =? h)); [simpl; lia|]. destruct (negb (transport s)); [simpl; lia|].
      unfold new_request. cbv zeta beta iota. destruct (send_req cfg _ _) as [o1 ok]. destruct ok; simpl; lia.
  - assert (Hput : forall k co t r', In r' (put_req (mkreq k (idgen_next (next_id s)) (next_fut s) co t) (pend s)) ->
                   In r' (pend s) \/ next_fut s <= r_fut r').
    { intros k co t r' Hr. destruct (put_req_sub _ _ _ Hr) as [->|Hr']; [right; simpl; lia | now left]. }
    intros r' Hr. destruct o; simpl in Hr; try (now left); unfold api_step in Hr.
    + destruct (negb (transport s)); [now left|]. unfold new_request in Hr. cbv zeta beta iota in Hr.
      destruct (send_req cfg _ _) as [o1 ok]. destruct ok; simpl in Hr; [|apply remove_req_in in Hr]; eapply Hput; exact Hr.
    + destruct (negb (transport s)); [now left|]. destruct (po_wants_ack o); unfold new_request, new_id_only in Hr; cbv zeta beta iota in Hr;
        destruct (send_req cfg _ _) as [o1 ok]; destruct ok; simpl in Hr; try (now left); [|apply remove_req_in in Hr]; eapply Hput; exact Hr.
    + destruct (negb (transport s)); [now left|]. unfold new_request in Hr. cbv zeta beta iota in Hr.
      destruct (send_req cfg _ _) as [o1 ok]. destruct ok; simpl in Hr; [|apply remove_req_in in Hr]; eapply Hput; exact Hr.
    + destruct (negb (transport s)); [now left|]. unfold new_request in Hr. cbv zeta beta iota in Hr.
      destruct (send_req cfg _ _) as [o1 ok]. destruct ok; simpl in Hr; [|apply remove_req_in in Hr]; eapply Hput; exact Hr.
    + destruct (reg_id_of s h); [|now left]. destruct (assoc n (regs s)); [|now left].
      destruct (negb (n0 =? h)); [now left|]. destruct (negb (transport s)); [now left|].
      unfold new_request in Hr. cbv zeta beta iota in Hr. destruct (send_req cfg _ _) as [o1 ok]. destruct ok; simpl in Hr; [|apply remove_req_in in Hr]; eapply Hput; exact Hr.
  - intro Ht. destruct o; try reflexivity; unfold api_step; rewrite ?Ht; try reflexivity.
    destruct (reg_id_of s h); [|reflexivity]. destruct (assoc n (regs s)); [|reflexivity].
    destruct (negb (n0 =? h)); reflexivity.
Qed.

Lemma sweep_react : forall P cfg s f, sweep P s (fst (react cfg s f)).
Proof. intros. unfold react. destruct (assoc f (reacts s)); [apply sweep_api_step | apply sweep_refl]. Qed.

Lemma sweep_complete : forall fl cfg (P : result -> Prop) s f r, P r -> sweep P s (fst (complete fl cfg s f r)).
Proof.
  intros fl cfg P s f r HP. unfold complete. destruct (is_done s f); [apply sweep_refl|].
  assert (H1 : sweep P s (set_done s (done s ++ [(f, r)]))).
  { constructor; simpl; auto; try lia.
    - intros x y H. apply in_app_or in H. destruct H as [H|[H|[]]]; [now left | inversion H; subst; now right].
    - intros x y H. apply in_or_app. now left. }
  destruct fl.
  - pose proof (sweep_react P cfg (set_done s (done s ++ [(f, r)])) f) as H2.
    destruct (react cfg (set_done s (done s ++ [(f, r)])) f) as [s2 o2]. simpl in *. eapply sweep_trans; eassumption.
  - simpl. eapply sweep_trans; [exact H1|]. apply sweep_same; reflexivity.
Qed.

Lemma complete_pend_aio : forall cfg s f r, pend (fst (complete Aio cfg s f r)) = pend s.
Proof. intros. unfold complete. destruct (is_done s f); reflexivity. Qed.

Lemma is_done_mono : forall s s' g, (forall x y, In (x, y) (done s) -> In (x, y) (done s')) -> is_done s g = true -> is_done s' g = true.
Proof.
  intros s s' g H Hd. apply is_done_in in Hd. apply is_done_in. apply in_map_iff in Hd. destruct Hd as [[x y] [E Hin]].
  apply in_map_iff. exists (x, y). split; [assumption | now apply H].
Qed.

Lemma sweep_errback_list : forall fl cfg e l s,
  let s' := fst (errback_list fl cfg s e l) in
  sweep (fun y => y = RErr e) s s' /\ (forall r, In r l -> is_done s' (r_fut r) = true)
  /\ (fl = Aio -> pend s' = pend s).
Proof.
  induction l as [|r t IH]; simpl; intro s.
  - split; [apply sweep_refl | split; [intros r [] | reflexivity]].
  - pose proof (sweep_complete fl cfg (fun y => y = RErr e) s (r_fut r) (RErr e) eq_refl) as H1.
    pose proof (complete_is_done fl cfg s (r_fut r) (RErr e) (r_fut r)) as Hd1.
    assert (Hp1 : fl = Aio -> pend (fst (complete fl cfg s (r_fut r) (RErr e))) = pend s) by (intros ->; apply complete_pend_aio).
    destruct (complete fl cfg s (r_fut r) (RErr e)) as [s1 o1]. simpl in *.
    destruct (IH s1) as [H2 [H3 H4]]. destruct (errback_list fl cfg s1 e t) as [s2 o2]. simpl in *.
    split; [eapply sweep_trans; eassumption|]. split.
    + intros r0 [<-|Hin]; [|now apply H3]. eapply is_done_mono; [apply (sw_mono _ _ _ H2)|].
      rewrite Hd1, N.eqb_refl. apply orb_true_r.
    + intro Ha. rewrite (H4 Ha). now apply Hp1.
Qed.

(* _errback_outstanding_requests(exc): every request that was in a table gets a result; what is in the tables
   afterwards was issued by callbacks during the sweep (fresh futures) -- nothing at all without a transport or on
   asyncio; only the error is handed out *)
Theorem errback_all_spec : forall fl cfg s e,
  let s' := fst (errback_all fl cfg s e) in
  (forall r, In r (pend s) -> is_done s' (r_fut r) = true)
  /\ (forall r', In r' (pend s') -> next_fut s <= r_fut r')
  /\ (transport s = false \/ fl = Aio -> pend s' = [])
  /\ (forall x y, In (x, y) (done s') -> In (x, y) (done s) \/ y = RErr e)
  /\ (forall x y, In (x, y) (done s) -> In (x, y) (done s'))
  /\ lcore s' = lcore s /\ next_fut s <= next_fut s'.
Proof.
  intros fl cfg s e. unfold errback_all.
  destruct (sweep_errback_list fl cfg e (outstanding (pend s)) (set_pend s [])) as [H [Hd Ha]].
  destruct H. simpl in *. repeat split; auto.
  - intros r Hr. apply Hd. now apply outstanding_in.
  - intros r' Hr'. destruct (sw_pend0 r' Hr') as [[]|H]. exact H.
  - intros [Ht|Hf]; [now apply sw_quiet0 | now apply Ha].
Qed.

Lemma do_onLeave_core : forall fl cfg s rs, lcore (fst (fst (do_onLeave fl cfg s rs))) = lcore s.
Proof.
  intros. unfold do_onLeave. destruct (u_leave_super cfg); [|reflexivity].
  pose proof (LQ_errback_all fl cfg s (ELeave rs)) as [_ B]. destruct (errback_all fl cfg s (ELeave rs)) as [s1 o1]. simpl in *.
  destruct fl; simpl; [|exact B]. destruct (transport s1) eqn:Et; simpl; [|exact B].
  rewrite <- B. unfold lcore. simpl. rewrite Et. reflexivity.
Qed.

(* the default onLeave *)
Theorem onLeave_clears : forall fl cfg s rs,
  u_leave_super cfg = true ->
  let s' := fst (fst (do_onLeave fl cfg s rs)) in
  (forall r, In r (pend s) -> is_done s' (r_fut r) = true)
  /\ (forall r', In r' (pend s') -> next_fut s <= r_fut r')
  /\ (transport s = false \/ fl = Aio -> pend s' = [])
  /\ (forall x y, In (x, y) (done s') -> In (x, y) (done s) \/ y = RErr (ELeave rs))
  /\ lcore s' = lcore s.
Proof.
  intros fl cfg s rs Hsup. pose proof (do_onLeave_core fl cfg s rs) as Hcore. unfold do_onLeave in *. rewrite Hsup in *.
  destruct (errback_all_spec fl cfg s (ELeave rs)) as [A [B [C [D [_ [E _]]]]]].
  destruct (errback_all fl cfg s (ELeave rs)) as [s1 o1].
  pose proof (defer_leaf_ledger fl cfg s1 LLeaveDisconnect I) as HL. unfold ledger in HL. inversion HL as [[L1 L2 L3 L4 L5]].
  destruct (defer_leaf fl cfg s1 LLeaveDisconnect) as [s2 o2]. simpl in *.
  unfold is_done in *. rewrite L1, L2. repeat split; auto.
Qed.

Theorem onDisconnect_clears : forall fl cfg s,
  u_disc_super cfg = true ->
  let s' := fst (fst (do_onDisconnect fl cfg s)) in
  (forall r, In r (pend s) -> is_done s' (r_fut r) = true)
  /\ (transport s = false \/ fl = Aio -> pend s' = [])
  /\ (forall x y, In (x, y) (done s') -> In (x, y) (done s) \/ y = RErr ETransportLost)
  /\ lcore s' = lcore s.
Proof.
  intros fl cfg s Hsup. unfold do_onDisconnect. rewrite Hsup.
  destruct (errback_all_spec fl cfg s ETransportLost) as [A [_ [C [D [_ [E _]]]]]].
  destruct (errback_all fl cfg s ETransportLost) as [s1 o1]. simpl in *. repeat split; auto.
Qed.

(* session ended by the router's GOODBYE *)
Theorem goodbye_ends : forall fl cfg s v rs,
  transport s = true -> sid s = Some v -> (goodbye_sent s = true \/ topen s = true) ->
  let '(s', outs) := step fl cfg s (RGoodbye rs) in
  sid s' = None
  /\ (goodbye_sent s = false -> exists t, outs = Sent (MGoodbye RsNormal) :: Called (CbLeave rs None) :: t)
  /\ (goodbye_sent s = true -> exists t, outs = Called (CbLeave rs None) :: t)
  /\ (u_leave_super cfg = true ->
        (forall r, In r (pend s) -> is_done s' (r_fut r) = true)
        /\ (forall r', In r' (pend s') -> next_fut s <= r_fut r')
        /\ (fl = Aio -> pend s' = [])
        /\ forall x y, In (x, y) (done s') -> In (x, y) (done s) \/ y = RErr (ELeave rs)).
Proof.
  intros fl cfg s v rs Ht Hs Hg. unfold step. rewrite Ht, Hs. simpl.
  assert (Hsend : (if goodbye_sent s then ([], true) else send cfg s (MGoodbye RsNormal)) =
                  (if goodbye_sent s then [] else [Sent (MGoodbye RsNormal)], true)).
  { destruct (goodbye_sent s); [reflexivity|]. destruct Hg as [Hg|Hg]; [discriminate|]. now apply send_open. }
  rewrite Hsend.
  pose proof (onLeave_clears fl cfg (set_sid s None) rs) as Hc.
  pose proof (do_onLeave_core fl cfg (set_sid s None) rs) as Hcore.
  assert (Hhead : exists t, snd (fst (do_onLeave fl cfg (set_sid s None) rs)) = Called (CbLeave rs None) :: t).
  { unfold do_onLeave. destruct (u_leave_super cfg); [|eexists; reflexivity].
    destruct (errback_all fl cfg (set_sid s None) (ELeave rs)) as [s1 o1].
    destruct (defer_leaf fl cfg s1 LLeaveDisconnect) as [s2 o2]. simpl. eexists; reflexivity. }
  destruct (do_onLeave fl cfg (set_sid s None) rs) as [[s2 o2] raised]. simpl in *.
  destruct Hhead as [t Ht2]. subst o2.
  pose proof (defer_leaf_ledger fl cfg s2 (LLeaveK raised) I) as HL. unfold ledger in HL. inversion HL as [[L1 L2 L3 L4 L5]].
  assert (Hs3 : sid (fst (defer_leaf fl cfg s2 (LLeaveK raised))) = sid s2) by (destruct fl; destruct raised; reflexivity).
  destruct (defer_leaf fl cfg s2 (LLeaveK raised)) as [s3 o3]. simpl in *.
  assert (Hsid2 : sid s2 = None) by (unfold lcore in Hcore; inversion Hcore; reflexivity).
  repeat split.
  - congruence.
  - intro Hgs. rewrite Hgs. simpl. eexists; reflexivity.
  - intro Hgs. rewrite Hgs. simpl. eexists; reflexivity.
  - destruct (Hc H) as [A _]. unfold is_done in *. rewrite L2. exact A.
  - destruct (Hc H) as [_ [B _]]. rewrite L1. exact B.
  - destruct (Hc H) as [_ [_ [C _]]]. intro Ha. rewrite L1. apply C. now right.
  - destruct (Hc H) as [_ [_ [_ [D _]]]]. rewrite L2. exact D.
Qed.

(* transport loss: with the default onDisconnect nothing stays pending, whatever the callbacks do: without a
   transport every request they try to issue is refused *)
(* the end of onClose: onDisconnect (the default sweeps), then -- in the continuation, i.e. at once on Twisted -- the
   final sweep that does not depend on the user's overrides *)
Lemma disc_then_clears : forall fl cfg s, transport s = false -> (fl = Tx \/ u_disc_super cfg = true) ->
  let s' := fst (let '(s4, o4, raised) := do_onDisconnect fl cfg s in
                 let '(s5, o5) := defer fl cfg s4 (TDiscK raised) in (s5, o4 ++ o5)) in
  transport s' = false /\ pend s' = []
  /\ (forall r, In r (pend s) -> is_done s' (r_fut r) = true)
  /\ (forall x y, In (x, y) (done s) -> In (x, y) (done s'))
  /\ (forall x y, In (x, y) (done s') -> In (x, y) (done s) \/ y = RErr ETransportLost).
Proof.
  intros fl cfg s Ht Hc. unfold do_onDisconnect.
  destruct (errback_all_spec fl cfg s ETransportLost) as [A [_ [C [D [M [L _]]]]]].
  destruct (u_disc_super cfg) eqn:Esup.
  - destruct (errback_all fl cfg s ETransportLost) as [s4 o4]. cbn [fst snd] in *.
    assert (Ht4 : transport s4 = false) by (unfold lcore in L; inversion L; congruence).
    destruct fl; cbn [defer run_thunk].
    + destruct (errback_all_spec Tx cfg s4 ETransportLost) as [A2 [_ [C2 [D2 [M2 [L2 _]]]]]].
      destruct (errback_all Tx cfg s4 ETransportLost) as [s5 o5]. cbn [fst snd] in *.
      split; [unfold lcore in L2; inversion L2; congruence|]. split; [apply C2; now left|].
      split; [|split].
      * intros r Hr. specialize (A r Hr). apply is_done_in. apply is_done_in in A. unfold is_done in *.
        apply in_map_iff in A. destruct A as [[x y] [E Hin]]. apply in_map_iff. exists (x, y). split; [assumption | now apply M2].
      * intros x y H. apply M2. now apply M.
      * intros x y H. destruct (D2 x y H) as [H1|H1]; [exact (D x y H1) | now right].
    + cbn [fst enqueue set_queue transport pend done]. unfold is_done in *. cbn [done set_queue].
      split; [exact Ht4|]. split; [apply C; now left|]. split; [exact A|]. split; [exact M | exact D].
  - destruct Hc as [->|Hc]; [|discriminate]. cbn [defer run_thunk].
    destruct (errback_all Tx cfg s ETransportLost) as [s5 o5]. cbn [fst snd] in *.
    split; [unfold lcore in L; inversion L; congruence|]. split; [apply C; now left|]. split; [exact A|]. split; [exact M | exact D].
Qed.

Theorem lost_clears : forall fl cfg s clean,
  transport s = true -> (fl = Tx \/ u_disc_super cfg = true) ->
  let s' := fst (step fl cfg s (OLost clean)) in
  transport s' = false /\ pend s' = []
  /\ (forall r, In r (pend s) -> is_done s' (r_fut r) = true)
  /\ forall x y, In (x, y) (done s') -> In (x, y) (done s) \/ y = RErr (ELeave RsTransportLost) \/ y = RErr ETransportLost.
Proof.
  intros fl cfg s clean Ht Hsup. unfold step. rewrite Ht. simpl.
  set (s0 := set_conn s (opened s) false false).
  assert (H3 : let s3 := fst (if sid_truthy s0
                 then let '(s1, o1, raised) := do_onLeave fl cfg s0 RsTransportLost in
                      let '(s2, o2) := defer_leaf fl cfg s1 (LLeaveK raised) in (set_sid s2 None, o1 ++ o2)
                 else (s0, [])) in
             transport s3 = false
             /\ (forall r, In r (pend s) -> In r (pend s3) \/ is_done s3 (r_fut r) = true)
             /\ (forall x y, In (x, y) (done s) -> In (x, y) (done s3))
             /\ forall x y, In (x, y) (done s3) -> In (x, y) (done s) \/ y = RErr (ELeave RsTransportLost)).
  { destruct (sid_truthy s0); [|simpl; repeat split; auto].
    pose proof (do_onLeave_core fl cfg s0 RsTransportLost) as Hcore.
    assert (Hl : let s1 := fst (fst (do_onLeave fl cfg s0 RsTransportLost)) in
                 (forall r, In r (pend s0) -> In r (pend s1) \/ is_done s1 (r_fut r) = true)
                 /\ (forall x y, In (x, y) (done s0) -> In (x, y) (done s1))
                 /\ forall x y, In (x, y) (done s1) -> In (x, y) (done s0) \/ y = RErr (ELeave RsTransportLost)).
    { destruct (u_leave_super cfg) eqn:El.
      - destruct (onLeave_clears fl cfg s0 RsTransportLost El) as [A [_ [_ [D _]]]].
        cbv zeta. split; [intros r Hr; right; now apply A|]. split; [|exact D].
        unfold do_onLeave. rewrite El. destruct (errback_all_spec fl cfg s0 (ELeave RsTransportLost)) as [_ [_ [_ [_ [M _]]]]].
        destruct (errback_all fl cfg s0 (ELeave RsTransportLost)) as [s1 o1].
        pose proof (defer_leaf_ledger fl cfg s1 LLeaveDisconnect I) as HL. unfold ledger in HL. inversion HL as [[L1 L2 L3 L4 L5]].
        destruct (defer_leaf fl cfg s1 LLeaveDisconnect) as [s2 o2]. simpl in *. rewrite L2. exact M.
      - unfold do_onLeave. rewrite El. simpl. repeat split; auto. }
    destruct (do_onLeave fl cfg s0 RsTransportLost) as [[s1 o1] raised]. simpl in *.
    pose proof (defer_leaf_ledger fl cfg s1 (LLeaveK raised) I) as HL. unfold ledger in HL. inversion HL as [[L1 L2 L3 L4 L5]].
    assert (Ht3 : transport (fst (defer_leaf fl cfg s1 (LLeaveK raised))) = transport s1) by (destruct fl; destruct raised; reflexivity).
    destruct (defer_leaf fl cfg s1 (LLeaveK raised)) as [s2 o2]. simpl in *.
    destruct Hl as [A [M D]]. unfold is_done in *. simpl. rewrite ?L1, ?L2.
    split; [|split; [exact A | split; [exact M | exact D]]].
    rewrite Ht3. unfold lcore in Hcore. inversion Hcore. reflexivity. }
  destruct (if sid_truthy s0
            then let '(s1, o1, raised) := do_onLeave fl cfg s0 RsTransportLost in
                 let '(s2, o2) := defer_leaf fl cfg s1 (LLeaveK raised) in (set_sid s2 None, o1 ++ o2)
            else (s0, [])) as [s3 o3]. simpl in H3. destruct H3 as [Htr3 [Hp3 [Hm3 Hd3]]].
  pose proof (disc_then_clears fl cfg s3 Htr3 Hsup) as H4.
  destruct (do_onDisconnect fl cfg s3) as [[s4 o4] raised]. destruct (defer fl cfg s4 (TDiscK raised)) as [s5 o5].
  cbn [fst snd] in *. destruct H4 as [T5 [P5 [A5 [M5 D5]]]].
  repeat split.
  - exact T5.
  - exact P5.
  - intros r Hr. destruct (Hp3 r Hr) as [H|H]; [now apply A5|].
    apply is_done_in. apply is_done_in in H. unfold is_done in *. apply in_map_iff in H. destruct H as [[x y] [E Hin]].
    apply in_map_iff. exists (x, y). split; [assumption | now apply M5].
  - intros x y Hin. destruct (D5 x y Hin) as [H|H]; [|auto]. destruct (Hd3 x y H); auto.
Qed.

(* ---------------------------------------------------------------------------------------------------------- *)
(* the send-failure switch is off in every reachable state: only [AFail] sets it, and it clears it again       *)
(* ---------------------------------------------------------------------------------------------------------- *)
Lemma fn_api_step : forall cfg s o, failnext (fst (api_step cfg s o)) = failnext s.
Proof.
  intros cfg s o. destruct o; try reflexivity; unfold api_step, new_request, new_id_only; cbv zeta beta iota;
    repeat match goal with
           | |- context [send_req cfg ?S ?M] => destruct (send_req cfg S M) as [? ?]
           | |- context [if ?x then _ else _] => destruct x
           | |- context [match ?x with Some _ => _ | None => _ end] => destruct x
           end; reflexivity.
Qed.

Lemma fn_react : forall cfg s f, failnext (fst (react cfg s f)) = failnext s.
Proof. intros. unfold react. destruct (assoc f (reacts s)); [apply fn_api_step | reflexivity]. Qed.

Lemma fn_complete : forall fl cfg s f r, failnext (fst (complete fl cfg s f r)) = failnext s.
Proof.
  intros. unfold complete. destruct (is_done s f); [reflexivity|]. destruct fl; [|reflexivity].
  pose proof (fn_react cfg (set_done s (done s ++ [(f, r)])) f) as H. destruct (react cfg _ f). exact H.
Qed.

Lemma fn_errback_list : forall fl cfg e l s, failnext (fst (errback_list fl cfg s e l)) = failnext s.
Proof.
  induction l as [|r t IH]; intro s; simpl; [reflexivity|].
  pose proof (fn_complete fl cfg s (r_fut r) (RErr e)) as H. destruct (complete fl cfg s (r_fut r) (RErr e)) as [s1 o1].
  specialize (IH s1). destruct (errback_list fl cfg s1 e t) as [s2 o2]. simpl in *. congruence.
Qed.

Lemma fn_errback_all : forall fl cfg s e, failnext (fst (errback_all fl cfg s e)) = failnext s.
Proof. intros. unfold errback_all. rewrite fn_errback_list. reflexivity. Qed.

Lemma fn_run_leaf : forall fl cfg s l, failnext (fst (run_leaf fl cfg s l)) = failnext s.
Proof.
  intros fl cfg s l. destruct l; simpl.
  - pose proof (fn_react cfg s f) as H. destruct (react cfg s f). exact H.
  - destruct (sdetails s); reflexivity.
  - reflexivity.
  - destruct (transport s); reflexivity.
  - destruct (transport s); [destruct (send cfg s (MCancel id))|]; reflexivity.
  - destruct (transport s); [destruct (send cfg _ (MYield rq))|]; reflexivity.
Qed.

Lemma fn_defer_leaf : forall fl cfg s l, failnext (fst (defer_leaf fl cfg s l)) = failnext s.
Proof. intros. unfold defer_leaf. destruct fl; [apply fn_run_leaf | reflexivity]. Qed.

Lemma fn_do_onLeave : forall fl cfg s rs, failnext (fst (fst (do_onLeave fl cfg s rs))) = failnext s.
Proof.
  intros. unfold do_onLeave. destruct (u_leave_super cfg); [|reflexivity].
  pose proof (fn_errback_all fl cfg s (ELeave rs)) as H1. destruct (errback_all fl cfg s (ELeave rs)) as [s1 o1].
  pose proof (fn_defer_leaf fl cfg s1 LLeaveDisconnect) as H2. destruct (defer_leaf fl cfg s1 LLeaveDisconnect) as [s2 o2].
  simpl in *. congruence.
Qed.

Lemma fn_do_onDisconnect : forall fl cfg s, failnext (fst (fst (do_onDisconnect fl cfg s))) = failnext s.
Proof.
  intros. unfold do_onDisconnect. destruct (u_disc_super cfg); [|reflexivity].
  pose proof (fn_errback_all fl cfg s ETransportLost) as H1. destruct (errback_all fl cfg s ETransportLost) as [s1 o1]. exact H1.
Qed.

Lemma fn_leave_then : forall fl cfg s rs,
  failnext (fst (let '(s2, o2, raised) := do_onLeave fl cfg s rs in
                 let '(s3, o3) := defer_leaf fl cfg s2 (LLeaveK raised) in (s3, o2 ++ o3))) = failnext s.
Proof.
  intros. pose proof (fn_do_onLeave fl cfg s rs) as H1. destruct (do_onLeave fl cfg s rs) as [[s2 o2] raised].
  pose proof (fn_defer_leaf fl cfg s2 (LLeaveK raised)) as H2. destruct (defer_leaf fl cfg s2 (LLeaveK raised)) as [s3 o3].
  simpl in *. congruence.
Qed.

Lemma fn_challenge_failed : forall fl cfg s, failnext (fst (challenge_failed fl cfg s)) = failnext s.
Proof.
  intros. unfold challenge_failed. destruct (transport s); [|reflexivity].
  destruct (send cfg s (MAbort RsCannotAuth)) as [o1 ok]. destruct ok; [|reflexivity].
  pose proof (fn_do_onLeave fl cfg s RsCannotAuth) as H1. destruct (do_onLeave fl cfg s RsCannotAuth) as [[s2 o2] raised].
  pose proof (fn_defer_leaf fl cfg s2 (LLeaveK raised)) as H2. destruct (defer_leaf fl cfg s2 (LLeaveK raised)) as [s3 o3].
  simpl in *. congruence.
Qed.

Lemma fn_run_thunk : forall fl cfg s t, failnext (fst (run_thunk fl cfg s t)) = failnext s.
Proof.
  intros fl cfg s t. destruct t as [l| |o sidv|o|raised]; simpl.
  - apply fn_run_leaf.
  - destruct (u_connect cfg); [|reflexivity]. destruct (sid_truthy s); [reflexivity|]. destruct (negb (transport s)); [reflexivity|].
    destruct (send cfg _ MHello); reflexivity.
  - destruct o.
    + destruct (transport s); [|reflexivity]. rewrite fn_defer_leaf. reflexivity.
    + destruct (transport s); [destruct (send cfg s (MAbort RsCannotAuth))|]; reflexivity.
    + destruct (transport s); [destruct (send cfg s (MAbort RsCannotAuth))|]; reflexivity.
  - pose proof (fn_challenge_failed fl cfg s) as Hc.
    destruct o.
    + destruct (transport s).
      * destruct (send cfg s MAuthenticate) as [o1 ok]. destruct ok; [reflexivity|]. destruct fl; [reflexivity|].
        destruct (challenge_failed Aio cfg s). exact Hc.
      * destruct fl; [reflexivity | exact Hc].
    + destruct fl; [reflexivity | exact Hc].
    + exact Hc.
  - pose proof (fn_errback_all fl cfg s ETransportLost) as H1. destruct (errback_all fl cfg s ETransportLost) as [s1 o1]. exact H1.
Qed.

Lemma fn_defer : forall fl cfg s t, failnext (fst (defer fl cfg s t)) = failnext s.
Proof. intros. unfold defer. destruct fl; [apply fn_run_thunk | reflexivity]. Qed.

Lemma fn_run_queue : forall fl cfg q s, failnext (fst (run_queue fl cfg s q)) = failnext s.
Proof.
  induction q as [|t r IH]; intro s; simpl; [reflexivity|].
  pose proof (fn_run_thunk fl cfg s t) as H. destruct (run_thunk fl cfg s t) as [s1 o1].
  specialize (IH s1). destruct (run_queue fl cfg s1 r) as [s2 o2]. simpl in *. congruence.
Qed.

Lemma fn_pop_reply : forall s k rq found,
  (forall r s1, failnext (fst (found r s1)) = failnext s1) -> failnext (fst (pop_reply s k rq found)) = failnext s.
Proof.
  intros s k rq found H. unfold pop_reply. destruct (find_req k rq (pend s)); [|reflexivity].
  destruct (is_done _ _); [reflexivity|]. rewrite H. reflexivity.
Qed.

Lemma fn_established : forall fl cfg s o, failnext (fst (on_message_established fl cfg s o)) = failnext s.
Proof.
  intros fl cfg s o. destruct o; simpl; try reflexivity.
  - destruct (if goodbye_sent s then ([], true) else send cfg s (MGoodbye RsNormal)) as [o1 ok]. destruct ok; [|reflexivity].
    pose proof (fn_leave_then fl cfg (set_sid s None) r) as H.
    destruct (do_onLeave fl cfg (set_sid s None) r) as [[s2 o2] raised].
    destruct (defer_leaf fl cfg s2 (LLeaveK raised)) as [s3 o3]. exact H.
  - apply fn_pop_reply. intros. apply fn_complete.
  - apply fn_pop_reply. intros. rewrite fn_complete. reflexivity.
  - apply fn_pop_reply. intros. rewrite fn_complete. reflexivity.
  - destruct (find_req KCall rq (pend s)) as [r|]; [|reflexivity]. destruct progress.
    + destruct (r_opts r) as [c|]; [|reflexivity]. destruct (co_progress c); reflexivity.
    + destruct (is_done _ _); [reflexivity|]. rewrite fn_complete. reflexivity.
  - apply fn_pop_reply. intros r s1. destruct (assoc regid (regs s1)); [reflexivity|]. rewrite fn_complete. reflexivity.
  - destruct (rq =? 0).
    + destruct regid as [g|]; [destruct (assoc g (regs s))|]; reflexivity.
    + apply fn_pop_reply. intros. rewrite fn_complete. reflexivity.
  - destruct (kind_of_code rtype) as [k|]; [|reflexivity].
    destruct (find_req k rq (pend s)); [|reflexivity]. rewrite fn_complete. reflexivity.
  - destruct (assoc subid (subs s)); reflexivity.
  - destruct (memN rq (invs s)); [reflexivity|]. destruct (assoc regid (regs s)); [|reflexivity]. rewrite fn_defer_leaf. reflexivity.
Qed.

Lemma fn_unjoined : forall fl cfg s o, failnext (fst (on_message_unjoined fl cfg s o)) = failnext s.
Proof.
  intros fl cfg s o. destruct o; simpl; try reflexivity.
  - pose proof (fn_defer fl cfg s (TWelcomeK (u_welcome cfg) sidv)) as H. destruct (defer fl cfg s (TWelcomeK (u_welcome cfg) sidv)). exact H.
  - pose proof (fn_leave_then fl cfg s r) as H. destruct (do_onLeave fl cfg s r) as [[s2 o2] raised].
    destruct (defer_leaf fl cfg s2 (LLeaveK raised)) as [s3 o3]. exact H.
  - pose proof (fn_defer fl cfg s (TChallengeK (u_challenge cfg))) as H. destruct (defer fl cfg s (TChallengeK (u_challenge cfg))). exact H.
Qed.

Lemma fn_unsub_step : forall fl cfg s h, failnext (fst (unsub_step fl cfg s h)) = failnext s.
Proof.
  intros. unfold unsub_step. destruct (sub_id_of s h) as [subid|]; [|reflexivity]. destruct (negb (memN h _)); [reflexivity|].
  destruct (negb (transport s)); [reflexivity|].
  destruct (remove1 h match assoc subid (subs s) with Some l => l | None => [] end) as [|x rest'].
  - unfold new_request. cbv zeta beta iota. destruct (send_req cfg _ _) as [o1 ok]. destruct ok; reflexivity.
  - match goal with |- context [complete fl cfg ?S ?F ?R] =>
      pose proof (fn_complete fl cfg S F R) as Hc; destruct (complete fl cfg S F R) as [s2 o2] end. exact Hc.
Qed.

Theorem step_failnext : forall fl cfg s o, failnext s = None -> failnext (fst (step fl cfg s o)) = None.
Proof.
  intros fl cfg s o H0.
  assert (Hrouter : forall o', failnext (fst (if negb (transport s) then (s, [])
                       else match sid s with None => on_message_unjoined fl cfg s o' | Some _ => on_message_established fl cfg s o' end)) = None).
  { intros o'. destruct (negb (transport s)); [exact H0|]. destruct (sid s); [rewrite fn_established | rewrite fn_unjoined]; exact H0. }
  destruct o; try apply Hrouter; try (rewrite <- H0; apply fn_api_step); unfold step; cbv beta iota.
  - destruct (transport s); [exact H0|]. rewrite fn_defer. exact H0.
  - destruct (negb (transport s)); [exact H0|].
    set (s0 := set_conn s (opened s) false false).
    assert (H3 : failnext (fst (if sid_truthy s0
                           then let '(s1, o1, raised) := do_onLeave fl cfg s0 RsTransportLost in
                                let '(s2, o2) := defer_leaf fl cfg s1 (LLeaveK raised) in (set_sid s2 None, o1 ++ o2)
                           else (s0, []))) = None).
    { destruct (sid_truthy s0); [|exact H0]. pose proof (fn_leave_then fl cfg s0 RsTransportLost) as H1.
      destruct (do_onLeave fl cfg s0 RsTransportLost) as [[s1 o1] raised].
      destruct (defer_leaf fl cfg s1 (LLeaveK raised)) as [s2 o2]. simpl in *. rewrite H1. exact H0. }
    destruct (if sid_truthy s0
              then let '(s1, o1, raised) := do_onLeave fl cfg s0 RsTransportLost in
                   let '(s2, o2) := defer_leaf fl cfg s1 (LLeaveK raised) in (set_sid s2 None, o1 ++ o2)
              else (s0, [])) as [s3 o3]. simpl in H3.
    pose proof (fn_do_onDisconnect fl cfg s3) as H4. destruct (do_onDisconnect fl cfg s3) as [[s4 o4] raised]. simpl in H4.
    pose proof (fn_defer fl cfg s4 (TDiscK raised)) as H5. destruct (defer fl cfg s4 (TDiscK raised)) as [s5 o5].
    simpl in *. congruence.
  - destruct fl; [exact H0|]. rewrite fn_run_queue. exact H0.
  - rewrite fn_unsub_step. exact H0.
  - destruct (is_done s f); [exact H0|]. destruct (assoc f (issued s)) as [[k id]|]; [|exact H0].
    destruct fl; [|destruct k; exact H0].
    assert (Hc : failnext (fst (let '(s1, o2) := complete Tx cfg s f (RErr ECancelled) in (s1, o2 ++ [ApiReturned None]))) = None).
    { pose proof (fn_complete Tx cfg s f (RErr ECancelled)) as Hc. destruct (complete Tx cfg s f (RErr ECancelled)). simpl in *. congruence. }
    destruct k; try exact Hc. destruct (transport s); [|exact H0].
    destruct (send cfg s (MCancel id)) as [o1 ok]. destruct ok; [|exact H0].
    pose proof (fn_complete Tx cfg s f (RErr ECancelled)) as Hc2. destruct (complete Tx cfg s f (RErr ECancelled)). simpl in *. congruence.
  - destruct (negb (sid_truthy s)); [exact H0|]. destruct (goodbye_sent s); [exact H0|].
    destruct (negb (transport s)); [exact H0|].
    match goal with |- context [send cfg s ?M] => destruct (send cfg s M) as [o1 ok] end. destruct ok; exact H0.
  - destruct (transport s); exact H0.
  - destruct (is_fail_op o); [|exact H0].
    destruct (match o with AUnsubscribe h => unsub_step fl cfg (set_failnext s (Some e)) h
              | _ => api_step cfg (set_failnext s (Some e)) o end) as [s1 o1]. reflexivity.
  - destruct (is_react_op o && negb (is_done s f) && isNoneB (assoc f (reacts s))); exact H0.
Qed.

Theorem failnext_reachable : forall fl cfg ops, failnext (final fl cfg ops) = None.
Proof.
  intros fl cfg ops. unfold final. assert (H : failnext init = None) by reflexivity. revert H. generalize init.
  induction ops as [|o t IH]; simpl; intros s H; [exact H|].
  pose proof (step_failnext fl cfg s o H) as H1. destruct (step fl cfg s o) as [s1 o1]. simpl in H1.
  specialize (IH s1 H1). destruct (run fl cfg s1 t) as [s2 tr]. exact IH.
Qed.

(* ---------------------------------------------------------------------------------------------------------- *)
(* Twisted: an object without a transport has empty request tables -- in every reachable state                 *)
(* ---------------------------------------------------------------------------------------------------------- *)
(* (onClose sweeps whatever the user's onLeave / onDisconnect did, and nothing can be issued without a transport.)
   Hence every life of a session object starts with empty tables: a record a router message is matched to was
   issued in the same life, after the last (re)connect *)
Lemma tx_step_no_transport_pend : forall cfg s o, transport s = false ->
  transport (fst (step Tx cfg s o)) = true \/ pend (fst (step Tx cfg s o)) = pend s.
Proof.
  intros cfg s o Ht.
  destruct o; try (right; reflexivity); try (right; unfold step; rewrite Ht; reflexivity);
    try (right; match goal with |- context [step Tx cfg s ?O] => rewrite (api_after_lost Tx cfg s O Ht eq_refl) end; reflexivity).
  - (* OOpen *) left. destruct (tx_step_spec cfg s OOpen) as [_ B]. unfold spec_lcore in B. rewrite Ht in B.
    exact (f_equal (fun c => snd (fst (fst c))) B).
  - (* AUnsubscribe *) right. destruct (proj1 (api_after_lost_objects Tx cfg s h Ht)) as [e E]. rewrite E. reflexivity.
  - (* AUnregister *) right. destruct (proj2 (api_after_lost_objects Tx cfg s h Ht)) as [e E]. rewrite E. reflexivity.
  - (* ACancel *) right. unfold step.
    destruct (is_done s f); [reflexivity|]. destruct (assoc f (issued s)) as [[k id]|]; [|reflexivity].
    assert (Hc : pend (fst (let '(s1, o2) := complete Tx cfg s f (RErr ECancelled) in (s1, o2 ++ [ApiReturned None]))) = pend s).
    { pose proof (sweep_complete Tx cfg (fun _ => True) s f (RErr ECancelled) I) as Hs.
      destruct (complete Tx cfg s f (RErr ECancelled)). simpl in *. exact (sw_quiet _ _ _ Hs Ht). }
    destruct k; try exact Hc. rewrite Ht. reflexivity.
  - (* ALeave *) right. unfold step. destruct (negb (sid_truthy s)); [reflexivity|]. destruct (goodbye_sent s); [reflexivity|].
    rewrite Ht. reflexivity.
  - (* AFail *) right. unfold step. destruct (is_fail_op o) eqn:Ef; [|reflexivity].
    assert (Ht0 : transport (set_failnext s (Some e)) = false) by exact Ht.
    destruct o; try discriminate Ef.
    + rewrite (api_after_lost Tx cfg (set_failnext s (Some e)) (ACall uri a kw o) Ht0 eq_refl : api_step cfg _ _ = _). reflexivity.
    + rewrite (api_after_lost Tx cfg (set_failnext s (Some e)) (APublish uri a kw o) Ht0 eq_refl : api_step cfg _ _ = _). reflexivity.
    + rewrite (api_after_lost Tx cfg (set_failnext s (Some e)) (ASubscribe uri o) Ht0 eq_refl : api_step cfg _ _ = _). reflexivity.
    + rewrite (api_after_lost Tx cfg (set_failnext s (Some e)) (ARegister uri o) Ht0 eq_refl : api_step cfg _ _ = _). reflexivity.
    + destruct (proj1 (api_after_lost_objects Tx cfg (set_failnext s (Some e)) h Ht0)) as [x E].
      change (unsub_step Tx cfg (set_failnext s (Some e)) h = (set_failnext s (Some e), [ApiRaised x])) in E. rewrite E. reflexivity.
    + destruct (proj2 (api_after_lost_objects Tx cfg (set_failnext s (Some e)) h Ht0)) as [x E].
      change (api_step cfg (set_failnext s (Some e)) (AUnregister h) = (set_failnext s (Some e), [ApiRaised x])) in E. rewrite E. reflexivity.
  - (* AReact *) right. unfold step. destruct (is_react_op o && negb (is_done s f) && isNoneB (assoc f (reacts s))); reflexivity.
Qed.

Lemma tx_step_transport : forall cfg s o, transport s = true -> transport (fst (step Tx cfg s o)) = false -> exists c, o = OLost c.
Proof.
  intros cfg s o Ht Hf. destruct (tx_step_spec cfg s o) as [_ B].
  assert (Hs : transport (fst (step Tx cfg s o)) = snd (fst (fst (spec_lcore cfg s o)))) by (rewrite <- B; reflexivity).
  rewrite Hs in Hf. clear B Hs.
  destruct o; unfold spec_lcore, lcore in Hf; simpl in Hf; try congruence; try (eexists; reflexivity).
  - rewrite Ht in Hf. simpl in Hf. congruence.
  - destruct (sid_truthy s && negb (goodbye_sent s) && transport s && send_ok cfg s); simpl in Hf; congruence.
  - destruct (transport s && isNone (sid s) && match u_welcome cfg with WlNone => true | _ => false end); simpl in Hf; congruence.
  - destruct (transport s && negb (isNone (sid s)) && (goodbye_sent s || send_ok cfg s)); simpl in Hf; congruence.
Qed.

Theorem tx_no_transport_no_pending : forall cfg ops,
  transport (final Tx cfg ops) = false -> pend (final Tx cfg ops) = [].
Proof.
  intros cfg ops. unfold final.
  assert (H0 : transport init = false -> pend init = []) by reflexivity. revert H0. generalize init.
  induction ops as [|o t IH]; simpl; intros s H0; [exact H0|].
  assert (H1 : transport (fst (step Tx cfg s o)) = false -> pend (fst (step Tx cfg s o)) = []).
  { intro Hf. destruct (transport s) eqn:Ht.
    - destruct (tx_step_transport cfg s o Ht Hf) as [c ->].
      exact (proj1 (proj2 (lost_clears Tx cfg s c Ht (or_introl eq_refl)))).
    - destruct (tx_step_no_transport_pend cfg s o Ht) as [E|E]; [congruence|]. rewrite E. now apply H0. }
  destruct (step Tx cfg s o) as [s1 o1]. simpl in H1. specialize (IH s1 H1). destruct (run Tx cfg s1 t) as [s2 tr]. exact IH.
Qed.
