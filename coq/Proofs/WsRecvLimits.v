(* C16: payload limits.  The limits are read in exactly one place of the receive path (onMessageFrameBegin) and one
   place of the send path (sendMessage). *)
From Coq Require Import NArith List Bool Lia.
From AV Require Import Model.Masker Gen.WsConsts Model.WsRecv Proofs.WsRecvProofs.
Import ListNotations.
Open Scope N_scope.

Definition no_limits (cf : cfg) : cfg :=
  mkCfg (isServer cf) (requireMasked cf) (acceptMasked cf) (applyMask cf) (failByDrop cf) (utf8validate cf) 0 0
        (pmc cf) (echoClose cf).

Definition too_big (e : event) : Prop := e = EFail code_message_too_big.

Lemma limit_spec max total : mf_msg_limit max total = true <-> 0 < max /\ max < total.
Proof. unfold mf_msg_limit. rewrite andb_true_iff, !N.ltb_lt. reflexivity. Qed.
Lemma frame_limit_spec max len : mf_frame_limit max len = true <-> 0 < max /\ max < len.
Proof. unfold mf_frame_limit. rewrite andb_true_iff, !N.ltb_lt. reflexivity. Qed.
Lemma send_limit_spec max len : sm_limit max len = true <-> 0 < max /\ max < len.
Proof. unfold sm_limit. rewrite andb_true_iff, !N.ltb_lt. reflexivity. Qed.

(* sendMessage: over-limit -> PayloadExceededError and nothing written; otherwise frames are written *)
Lemma send_guard_spec cf len :
  (send_guard cf OPEN len = SendRefused <-> 0 < maxMsg cf /\ maxMsg cf < len) /\
  (send_guard cf OPEN len = SendOk <-> ~ (0 < maxMsg cf /\ maxMsg cf < len)).
Proof.
  unfold send_guard. rewrite <- send_limit_spec. destruct (sm_limit (maxMsg cf) len); split; split; intros H;
    try reflexivity; try discriminate; try congruence.
Qed.

Lemma fail_events_not_closed cf c code : st c <> CLOSED -> In (EFail code) (snd (fail_connection cf c code)).
Proof.
  intros H. unfold fail_connection, drop_connection, send_close_frame. destruct c as [s f cl rc rr]; cbn in *.
  destruct s, (failByDrop cf); try congruence; cbn; auto.
Qed.

Section WithCodec.
Variable D : Type.
Variable cd : codec D.
Notation rstate := (rstate D).
Notation mstate := (mstate D).

(* running total: the declared lengths of the data frames of the message, summed at each frame header *)
Lemma on_frame_begin_total cf (s : rstate) f : fb_is_ctl (f_op f) = false -> failed (cn D s) = false ->
  mtotal D (ms D (fst (on_frame_begin D cd cf s f))) =
    (if inside D (ms D s) then mtotal D (ms D s) else 0) + f_len f.
Proof.
  intros Hc Hnf. unfold on_frame_begin, on_message_frame_begin. rewrite Hc, !Hnf.
  destruct (inside D (ms D s)); cbn [mtotal m_mtotal m_fdata m_mdata m_mbin m_uon m_utf8 m_zon m_dec m_inside];
  repeat match goal with |- context [if ?b then _ else _] => destruct b end;
  repeat match goal with |- context [max_size_exceeded ?a ?b] => destruct (max_size_exceeded a b) end;
  cbn; reflexivity.
Qed.

(* early: a data frame whose declared length pushes the running total over maxMessagePayloadSize (or whose own
   length is over maxFramePayloadSize) fails the connection with 1009 inside onFrameBegin, i.e. in the very
   processData call that completes the header: no payload octet has been looked at *)
Lemma on_frame_begin_too_big cf (s : rstate) f :
  fb_is_ctl (f_op f) = false -> failed (cn D s) = false -> st (cn D s) <> CLOSED ->
  let total := (if inside D (ms D s) then mtotal D (ms D s) else 0) + f_len f in
  (0 < maxMsg cf /\ maxMsg cf < total) \/ (0 < maxFrame cf /\ maxFrame cf < f_len f) ->
  In (EFail code_message_too_big) (snd (on_frame_begin D cd cf s f)) /\
  failed (cn D (fst (on_frame_begin D cd cf s f))) = true.
Proof.
  intros Hc Hf Hs total Hl. unfold on_frame_begin, on_message_frame_begin. rewrite Hc, Hf.
  assert (E : forall c, st c <> CLOSED -> failed c = false ->
            In (EFail code_message_too_big) (snd (max_size_exceeded cf c)) /\ failed (fst (max_size_exceeded cf c)) = true).
  { intros c H1 H2. split; [now apply fail_events_not_closed|].
    pose proof (fail_connection_track cf c code_message_too_big) as [T _]. unfold max_size_exceeded. rewrite T.
    pose proof (fail_events_not_closed cf c code_message_too_big H1) as Hin.
    unfold has_fail. replace (existsb is_fail (snd (fail_connection cf c code_message_too_big))) with true; [now rewrite orb_true_r|].
    symmetry. apply existsb_exists. eexists; split; [exact Hin|reflexivity]. }
  specialize (E (cn D s) Hs Hf).
  destruct (inside D (ms D s)) eqn:Hi; subst total;
  cbn [mtotal m_mtotal m_fdata m_mdata m_mbin m_uon m_utf8 m_zon m_dec m_inside];
  match goal with |- context [mf_msg_limit ?a ?b] => destruct (mf_msg_limit a b) eqn:L1 end;
  try (destruct (max_size_exceeded cf (cn D s)); exact E);
  match goal with |- context [mf_frame_limit ?a ?b] => destruct (mf_frame_limit a b) eqn:L2 end;
  try (destruct (max_size_exceeded cf (cn D s)); exact E);
  exfalso; destruct Hl as [Hl|Hl];
  [ apply limit_spec in Hl | apply frame_limit_spec in Hl | apply limit_spec in Hl | apply frame_limit_spec in Hl ];
  repeat match goal with H : context [if ?b then _ else _] |- _ => destruct b end;
  cbn [mtotal m_mtotal m_fdata m_mdata m_mbin m_uon m_utf8 m_zon m_dec m_inside] in *; congruence.
Qed.

(* ---- messages within the limits are handled exactly as without limits ---- *)
Definition quiet (evs : list event) : Prop := ~ In (EFail code_message_too_big) evs.

Lemma quiet_app a b : quiet (a ++ b) <-> quiet a /\ quiet b.
Proof. unfold quiet. rewrite in_app_iff. tauto. Qed.

Lemma fail_connection_nolimit cf c code : fail_connection (no_limits cf) c code = fail_connection cf c code.
Proof. reflexivity. Qed.

Lemma omfb_nolimit cf c (m : mstate) len :
  quiet (snd (on_message_frame_begin D cf c m len)) ->
  on_message_frame_begin D (no_limits cf) c m len = on_message_frame_begin D cf c m len.
Proof.
  unfold on_message_frame_begin. destruct (failed c); [reflexivity|].
  cbn [maxMsg maxFrame no_limits].
  assert (Z1 : forall x, mf_msg_limit 0 x = false) by reflexivity.
  assert (Z2 : forall x, mf_frame_limit 0 x = false) by reflexivity.
  rewrite Z1, Z2.
  assert (E : quiet (snd (max_size_exceeded cf c)) -> max_size_exceeded cf c = (c, [])).
  { unfold max_size_exceeded. intros Q. destruct (st c) eqn:Hs.
    - exfalso. apply Q. apply fail_events_not_closed. congruence.
    - exfalso. apply Q. apply fail_events_not_closed. congruence.
    - now apply fail_connection_closed. }
  destruct (mf_msg_limit _ _).
  - destruct (max_size_exceeded cf c) as [c1 e] eqn:M. cbn [snd]. intros Q. specialize (E Q). inversion E; subst. reflexivity.
  - destruct (mf_frame_limit _ _); [|reflexivity].
    destruct (max_size_exceeded cf c) as [c1 e] eqn:M. cbn [snd]. intros Q. specialize (E Q). inversion E; subst. reflexivity.
Qed.

Lemma on_frame_begin_nolimit cf (s : rstate) f :
  quiet (snd (on_frame_begin D cd cf s f)) ->
  on_frame_begin D cd (no_limits cf) s f = on_frame_begin D cd cf s f.
Proof.
  unfold on_frame_begin. destruct (fb_is_ctl (f_op f)); [reflexivity|].
  change (pmc (no_limits cf)) with (pmc cf). change (utf8validate (no_limits cf)) with (utf8validate cf).
  destruct (failed (cn D s)); [reflexivity|].
  match goal with |- context [on_message_frame_begin D cf ?c ?m ?l] =>
    pose proof (omfb_nolimit cf c m l) as H; destruct (on_message_frame_begin D cf c m l) as [[c1 m2] e] end.
  cbn [snd] in *. intros Q. rewrite (H Q). reflexivity.
Qed.

Lemma pv_all_nolimit cf vs : forall c, pv_all (no_limits cf) c vs = pv_all cf c vs.
Proof.
  induction vs as [|v r IH]; intros c; cbn [pv_all]; [reflexivity|].
  change (protocol_violation (no_limits cf) c) with (protocol_violation cf c).
  destruct (protocol_violation cf c) as [[c1 e1] stop]. destruct stop; [reflexivity|]. now rewrite IH.
Qed.

Lemma step_header_nolimit cf (s : rstate) :
  quiet (snd (fst (step_header D cd cf s))) -> step_header D cd (no_limits cf) s = step_header D cd cf s.
Proof.
  unfold step_header.
  destruct (negb (pd_have2 _)); [reflexivity|].
  change (hdr_viols (no_limits cf)) with (hdr_viols cf).
  rewrite pv_all_nolimit.
  change (applyMask (no_limits cf)) with (applyMask cf).
  destruct (pv_all cf _ _) as [[c1 e1] stop1]. destruct stop1; [reflexivity|].
  destruct (header_len _ _); [|reflexivity].
  destruct (negb (pd_have_header _ _)); [reflexivity|].
  destruct (ext_len _ _) as [[plen lv] i].
  rewrite pv_all_nolimit.
  destruct (pv_all cf c1 lv) as [[c2 e2] stop2]. destruct stop2; [reflexivity|].
  match goal with |- context [on_frame_begin D cd cf ?s3 ?f] =>
    pose proof (on_frame_begin_nolimit cf s3 f) as H; destruct (on_frame_begin D cd cf s3 f) as [s4 e4] end.
  cbn [fst snd] in *. intros Q. apply quiet_app in Q. destruct Q as [_ Q]. apply quiet_app in Q. destruct Q as [_ Q].
  rewrite (H Q). reflexivity.
Qed.

Lemma step_nolimit cf (s : rstate) :
  quiet (snd (fst (step D cd cf s))) -> step D cd (no_limits cf) s = step D cd cf s.
Proof. unfold step. destruct (cur D s); [reflexivity|apply step_header_nolimit]. Qed.

Lemma run_nolimit cf n : forall (s s1 : rstate) evs, run D cd n cf s = Done D s1 evs -> quiet evs ->
  run D cd n (no_limits cf) s = Done D s1 evs.
Proof.
  induction n as [|n IH]; intros s s1 evs H Q; cbn [run] in *; [discriminate|].
  pose proof (step_nolimit cf s) as Hs. destruct (step D cd cf s) as [[s' e'] c] eqn:St. cbn [fst snd] in Hs.
  destruct c.
  - destruct (st (cn D s')) eqn:Hst.
    + destruct (run D cd n cf s') as [s2 e2|] eqn:Hr; [|discriminate]. inversion H; subst.
      apply quiet_app in Q. destruct Q as [Q1 Q2]. rewrite (Hs Q1), Hst, (IH _ _ _ Hr Q2). reflexivity.
    + destruct (run D cd n cf s') as [s2 e2|] eqn:Hr; [|discriminate]. inversion H; subst.
      apply quiet_app in Q. destruct Q as [Q1 Q2]. rewrite (Hs Q1), Hst, (IH _ _ _ Hr Q2). reflexivity.
    + inversion H; subst. rewrite (Hs Q), Hst. reflexivity.
  - inversion H; subst. rewrite (Hs Q). reflexivity.
  - inversion H; subst. rewrite (Hs Q). reflexivity.
Qed.

Lemma feed_nolimit cf (s s1 : rstate) d evs : feed D cd cf s d = Done D s1 evs -> quiet evs ->
  feed D cd (no_limits cf) s d = Done D s1 evs.
Proof.
  unfold feed. destruct (st (cn D (r_data D s (data D s ++ d)))); intros H Q; try exact H; now apply run_nolimit.
Qed.

(* C16_at_limit_unaffected: a run in which the limits never fire is, event for event and state for state, the run of
   the same octets with no limits configured *)
Theorem within_limits_unaffected cf chunks : forall (s s1 : rstate) evs,
  feed_all D cd cf s chunks = Done D s1 evs -> quiet evs ->
  feed_all D cd (no_limits cf) s chunks = Done D s1 evs.
Proof.
  induction chunks as [|c r IH]; intros s s1 evs H Q; cbn [feed_all] in *; [exact H|].
  destruct (feed D cd cf s c) as [s' e'|] eqn:Hf; [|discriminate].
  destruct (feed_all D cd cf s' r) as [s2 e2|] eqn:Hr; [|discriminate]. inversion H; subst.
  apply quiet_app in Q. destruct Q as [Q1 Q2].
  rewrite (feed_nolimit _ _ _ _ _ Hf Q1), (IH _ _ _ Hr Q2). reflexivity.
Qed.

(* ... and the limits do not fire for frames within them *)
Lemma omfb_within cf c (m : mstate) len :
  (maxMsg cf = 0 \/ mtotal D m + len <= maxMsg cf) -> (maxFrame cf = 0 \/ len <= maxFrame cf) ->
  snd (on_message_frame_begin D cf c m len) = [].
Proof.
  intros H1 H2. unfold on_message_frame_begin. destruct (failed c); [reflexivity|].
  cbn [mtotal m_mtotal m_fdata].
  destruct (mf_msg_limit _ _) eqn:L1; [apply limit_spec in L1; lia|].
  destruct (mf_frame_limit _ _) eqn:L2; [apply frame_limit_spec in L2; lia|]. reflexivity.
Qed.

End WithCodec.

(* ================================================================================================= *)
(* C16, last sentence: the decompression cap (compress_deflate.py: PerMessageDeflate.max_message_size).
   zlib is an oracle: an ideal streaming inflater [inflate] with the stream law, and its bounded variant
   [inflate_max z data max] = decompressobj.decompress(data, max_length): at most [max] octets of output, the input
   that was not consumed is returned as unconsumed_tail, and inflating that tail from the returned state yields the
   rest of the output (this is what zlib documents). *)
Definition msgs (evs : list event) : list (list N * bool) :=
  flat_map (fun e => match e with EMsg p b => [(p, b)] | _ => [] end) evs.
Definition is_prefix {A} (a b : list A) : Prop := exists t, b = a ++ t.

Record zlib_laws (Z : Type) (inflate : Z -> list N -> Z * list N)
                 (inflate_max : Z -> list N -> N -> Z * list N * list N) : Prop := {
  zl_nil : forall z, inflate z [] = (z, []);
  zl_app : forall z a b, inflate z (a ++ b) =
             let '(z1, o1) := inflate z a in let '(z2, o2) := inflate z1 b in (z2, o1 ++ o2);
  zl_max : forall z data m, let '(z1, out, tail) := inflate_max z data m in
             lenN out <= m /\
             exists rest, inflate z1 tail = (fst (inflate z data), rest) /\ out ++ rest = snd (inflate z data) /\
                          (lenN (snd (inflate z data)) <= m -> tail = [] /\ rest = [])
}.

(* compress_deflate.py: start_decompress_message (fresh object when no_context_takeover), decompress_message_data
   (with max_message_size: decompress(data, max_message_size) -- unconsumed_tail is never read), end_decompress_message *)
Definition pmd_codec {Z} (inflate : Z -> list N -> Z * list N) (inflate_max : Z -> list N -> N -> Z * list N * list N)
           (max_message_size : option N) (no_context_takeover : bool) (z0 : Z) : codec Z :=
  mkCodec (fun z => if no_context_takeover then z0 else z)
          (fun z data => match max_message_size with
                         | Some m => let '(z1, out, _) := inflate_max z data m in (z1, out)
                         | None => inflate z data
                         end)
          (fun z => fst (inflate z [0; 0; 255; 255])).

(* the cap is unobservable for chunks whose inflated size is within it *)
Lemma capped_chunk_within Z inflate inflate_max (L : zlib_laws Z inflate inflate_max) m nct z0 z data :
  lenN (snd (inflate z data)) <= m ->
  d_data (pmd_codec inflate inflate_max (Some m) nct z0) z data =
  d_data (pmd_codec inflate inflate_max None nct z0) z data.
Proof.
  intros H. cbn [d_data pmd_codec]. pose proof (zl_max _ _ _ L z data m) as M.
  destruct (inflate_max z data m) as [[z1 out] tail]. destruct M as [_ [rest [E1 [E2 E3]]]].
  destruct (E3 H) as [-> ->]. rewrite (zl_nil _ _ _ L) in E1. rewrite app_nil_r in E2.
  destruct (inflate z data) as [zf full]. cbn [fst snd] in *. inversion E1; subst. reflexivity.
Qed.

(* the full-strength statement: whatever the inflater (obeying the laws), whatever the stream and its segmentation,
   the messages delivered with a cap are the true messages (those delivered by the uncapped inflater), in order --
   possibly fewer, when an over-limit message fails the connection -- never a truncated or altered one *)
Definition decompress_cap_statement : Prop :=
  forall Z inflate inflate_max, zlib_laws Z inflate inflate_max ->
  forall cf m nct z0 chunks s1 e1 s2 e2,
    feed_all Z (pmd_codec inflate inflate_max (Some m) nct z0) cf (init_state Z OPEN z0) chunks = Done Z s1 e1 ->
    feed_all Z (pmd_codec inflate inflate_max None nct z0) cf (init_state Z OPEN z0) chunks = Done Z s2 e2 ->
    is_prefix (msgs e1) (msgs e2).

(* a toy inflater obeying the laws: running sum modulo 256 (a stream code with memory, like an LZ77 window) *)
Fixpoint toy_inflate (z : N) (data : list N) : N * list N :=
  match data with
  | [] => (z, [])
  | b :: r => let z1 := (z + b) mod 256 in let '(z2, o) := toy_inflate z1 r in (z2, z1 :: o)
  end.
Definition toy_inflate_max (z : N) (data : list N) (m : N) : N * list N * list N :=
  let '(z1, out) := toy_inflate z (take m data) in (z1, out, drop m data).

Lemma toy_app z a b : toy_inflate z (a ++ b) =
  let '(z1, o1) := toy_inflate z a in let '(z2, o2) := toy_inflate z1 b in (z2, o1 ++ o2).
Proof.
  revert z; induction a as [|x a IH]; intros z; cbn [app toy_inflate].
  - destruct (toy_inflate z b); reflexivity.
  - rewrite IH. destruct (toy_inflate ((z + x) mod 256) a) as [z1 o1]. destruct (toy_inflate z1 b) as [z2 o2]. reflexivity.
Qed.
Lemma toy_len z d : length (snd (toy_inflate z d)) = length d.
Proof.
  revert z; induction d as [|x d IH]; intros z; cbn [toy_inflate]; [reflexivity|].
  specialize (IH ((z + x) mod 256)). destruct (toy_inflate ((z + x) mod 256) d). cbn in *. now rewrite IH.
Qed.

Lemma toy_laws : zlib_laws N toy_inflate toy_inflate_max.
Proof.
  constructor.
  - reflexivity.
  - apply toy_app.
  - intros z data m. unfold toy_inflate_max.
    destruct (toy_inflate z (take m data)) as [z1 out] eqn:E.
    assert (Hd : data = take m data ++ drop m data) by (unfold take, drop; now rewrite firstn_skipn).
    pose proof (toy_app z (take m data) (drop m data)) as A. rewrite <- Hd, E in A.
    destruct (toy_inflate z1 (drop m data)) as [z2 rest] eqn:E2.
    split.
    + pose proof (toy_len z (take m data)) as Hl. rewrite E in Hl. cbn [snd] in Hl.
      unfold lenN, take in *. rewrite Hl, firstn_length. lia.
    + exists rest. rewrite A. cbn [fst snd]. split; [reflexivity|]. split; [reflexivity|].
      intros Hle. pose proof (toy_len z data) as Hl. rewrite A in Hl. cbn [snd] in Hl.
      assert (Hs : drop m data = []).
      { unfold drop. apply skipn_all2. unfold lenN in Hle. rewrite Hl in Hle. lia. }
      rewrite Hs in E2. cbn in E2. inversion E2; subst. split; [exact Hs|reflexivity].
Qed.

(* witness (the model-level image of F-C16-1): server, cap 3, context takeover; two compressed binary messages.
   With the cap the first is delivered as its first 3 octets (truncated) and the second is altered. *)
Definition cap_witness_cfg : cfg := mkCfg true true false true true true 0 0 true false.
Definition cap_witness_stream : list (list N) :=
  [[0xC2; 0x85; 0; 0; 0; 0; 1; 1; 1; 1; 1;   0xC2; 0x81; 0; 0; 0; 0; 1]].

Theorem decompress_cap_refuted : ~ decompress_cap_statement.
Proof.
  intros H.
  specialize (H N toy_inflate toy_inflate_max toy_laws cap_witness_cfg 3 false 0 cap_witness_stream).
  destruct (feed_all N (pmd_codec toy_inflate toy_inflate_max (Some 3) false 0) cap_witness_cfg
                     (init_state N OPEN 0) cap_witness_stream) as [s1 e1|] eqn:E1; [|vm_compute in E1; discriminate].
  destruct (feed_all N (pmd_codec toy_inflate toy_inflate_max None false 0) cap_witness_cfg
                     (init_state N OPEN 0) cap_witness_stream) as [s2 e2|] eqn:E2; [|vm_compute in E2; discriminate].
  specialize (H s1 e1 s2 e2 eq_refl eq_refl).
  vm_compute in E1. vm_compute in E2. inversion E1; subst. inversion E2; subst.
  destruct H as [t Ht]. vm_compute in Ht. discriminate Ht.
Qed.
