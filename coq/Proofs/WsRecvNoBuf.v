(* C16: once the connection has been failed (failedByMe), nothing more is buffered for the application: the payload of
   the rejected frame and of every later data frame is dropped as it arrives (both failure policies, every stream and
   segmentation). *)
From Coq Require Import NArith List Bool Lia.
From AV Require Import Model.Masker Gen.WsConsts Model.WsRecv Proofs.WsRecvProofs.
Import ListNotations.
Open Scope N_scope.

Section WithCodec.
Variable D : Type.
Variable cd : codec D.
Variable cf : cfg.
Notation rstate := (rstate D).
Notation mstate := (mstate D).

(* frame_data / message_data do not grow *)
Definition le_buf (m' m : mstate) : Prop :=
  lenN (fdata D m') <= lenN (fdata D m) /\ lenN (mdata D m') <= lenN (mdata D m).
Lemma le_buf_refl m : le_buf m m. Proof. split; lia. Qed.
Lemma le_buf_trans a b c : le_buf a b -> le_buf b c -> le_buf a c.
Proof. intros [A1 A2] [B1 B2]. split; lia. Qed.

Lemma track_keeps_failed c e c' : track c e c' -> failed c = true -> failed c' = true.
Proof. intros [H _] Hf. rewrite H, Hf. reflexivity. Qed.

Lemma lenN_nil_le (l : list N) : lenN [] <= lenN l. Proof. unfold lenN. cbn. lia. Qed.

Lemma on_frame_begin_nobuf (s : rstate) f : failed (cn D s) = true ->
  le_buf (ms D (fst (on_frame_begin D cd cf s f))) (ms D s).
Proof.
  intros Hf. unfold on_frame_begin. destruct (fb_is_ctl _); [apply le_buf_refl|].
  rewrite !Hf. cbn [fst ms r_ms r_cn].
  destruct (inside D (ms D s)); [apply le_buf_refl|].
  destruct (pmc cf && _), (fb_is_text _ && _); split; cbn; lia.
Qed.

Lemma on_frame_data_nobuf (s : rstate) f p : failed (cn D s) = true ->
  le_buf (ms D (fst (fst (on_frame_data D cd cf s f p)))) (ms D s).
Proof.
  intros Hf. unfold on_frame_data. destruct (fd_is_ctl _); [apply le_buf_refl|].
  destruct (if zon D (ms D s) then _ else _) as [d1 pl]. unfold on_message_frame_data.
  destruct (uon D _).
  - destruct (u_validate _ pl) as [[v e] u1]. destruct v; cbn [negb].
    + rewrite Hf. split; cbn; lia.
    + pose proof (ip_track cf (cn D s)) as T. destruct (invalid_payload cf (cn D s)) as [[c1 ev] stop].
      pose proof (track_keeps_failed _ _ _ T Hf) as Hf1. destruct stop; [|rewrite Hf1]; split; cbn; lia.
  - rewrite Hf. split; cbn; lia.
Qed.

Lemma on_frame_end_nobuf (s : rstate) f : failed (cn D s) = true ->
  le_buf (ms D (fst (fst (on_frame_end D cd cf s f)))) (ms D s) /\
  forall p b, ~ In (EMsg p b) (snd (fst (on_frame_end D cd cf s f))).
Proof.
  intros Hf. pose proof (on_frame_end_track D cd cf s f) as T.
  split.
  - unfold on_frame_end, process_control_frame. destruct (fe_is_ctl _).
    + destruct (pc_is_close _); [destruct (on_close_frame cf _ _ _); apply le_buf_refl|].
      destruct (pc_is_ping _); [cbn [cn r_cdata]; destruct (st (cn D s)); [destruct (_ && _)|..]; apply le_buf_refl|].
      destruct (pc_is_pong _); apply le_buf_refl.
    + rewrite Hf. destruct (f_fin f); [|apply le_buf_refl].
      match goal with |- context [if ?b then invalid_payload cf ?c else _] => destruct b end.
      * destruct (invalid_payload cf (cn D s)) as [[c1 e1] stop]. destruct stop; cbn [fst ms r_ms r_cn r_cur];
          [|destruct (failed c1)]; destruct (zon D _); split; cbn; try apply lenN_nil_le; lia.
      * cbn [fst ms r_ms r_cn r_cur]. rewrite Hf. destruct (zon D _); split; cbn; lia.
  - destruct (on_frame_end D cd cf s f) as [[s3 e3] c3]. destruct T as [_ T]. rewrite Hf in T. cbn [fst snd].
    now apply tr_ok_true_no_msg.
Qed.

Lemma step_nobuf (s : rstate) : failed (cn D s) = true ->
  let '(s1, e, _) := step D cd cf s in failed (cn D s1) = true /\ le_buf (ms D s1) (ms D s).
Proof.
  intros Hf. pose proof (step_track D cd cf s) as T. unfold step in *. destruct (cur D s) as [f|].
  - (* payload *)
    destruct (step_payload D cd cf s f) as [[s1 e] c] eqn:E. split; [exact (track_keeps_failed _ _ _ T Hf)|].
    revert E. unfold step_payload.
    destruct (if pd_have_rest _ _ then _ else _) as [chunk rem].
    destruct (if pd_chunk_nonempty _ then _ else _) as [payload p1].
    match goal with |- context [on_frame_data D cd cf ?sx f payload] =>
      pose proof (on_frame_data_nobuf sx f payload Hf) as B2; pose proof (on_frame_data_track D cd cf sx f payload) as T2;
      destruct (on_frame_data D cd cf sx f payload) as [[s2 e2] stop2] end.
    cbn [fst cn ms] in B2, T2. destruct stop2; [intros E; inversion E; subst; exact B2|].
    destruct (mptr D s2 =? f_len f).
    + pose proof (on_frame_end_nobuf s2 f (track_keeps_failed _ _ _ T2 Hf)) as [B3 _].
      destruct (on_frame_end D cd cf s2 f) as [[s3 e3] c3]. cbn [fst] in B3.
      destruct c3; intros E; inversion E; subst; eapply le_buf_trans; eauto.
    + intros E; inversion E; subst; exact B2.
  - (* header *)
    destruct (step_header D cd cf s) as [[s1 e] c] eqn:E. split; [exact (track_keeps_failed _ _ _ T Hf)|].
    revert E. unfold step_header.
    destruct (negb (pd_have2 _)); [intros E; inversion E; subst; apply le_buf_refl|].
    match goal with |- context [pv_all cf ?c0 ?vs] =>
      pose proof (pv_all_track cf vs c0) as T1; destruct (pv_all cf c0 vs) as [[c1 e1] stop1] end.
    destruct stop1; [intros E; inversion E; subst; apply le_buf_refl|].
    destruct (header_len _ _); [|intros E; inversion E; subst; apply le_buf_refl].
    destruct (negb (pd_have_header _ _)); [intros E; inversion E; subst; apply le_buf_refl|].
    destruct (ext_len _ _) as [[plen lv] i].
    pose proof (pv_all_track cf lv c1) as T2. cbn [cn r_cn]. destruct (pv_all cf c1 lv) as [[c2 e2] stop2].
    destruct stop2; [intros E; inversion E; subst; apply le_buf_refl|].
    cbn [cn r_cn ms cdata].
    match goal with |- context [on_frame_begin D cd cf ?s3 ?f] =>
      pose proof (on_frame_begin_nobuf s3 f) as B; destruct (on_frame_begin D cd cf s3 f) as [s4 e4] end.
    cbn [fst cn ms] in B. intros E; inversion E; subst. apply B.
    exact (track_keeps_failed _ _ _ T2 (track_keeps_failed _ _ _ T1 Hf)).
Qed.

Lemma run_nobuf n : forall (s s1 : rstate) e, failed (cn D s) = true -> run D cd n cf s = Done D s1 e ->
  failed (cn D s1) = true /\ le_buf (ms D s1) (ms D s).
Proof.
  induction n as [|n IH]; intros s s1 e Hf H; [discriminate|]. cbn [run] in H.
  pose proof (step_nobuf s Hf) as P. destruct (step D cd cf s) as [[sa ea] c]. destruct P as [P1 P2].
  destruct c.
  - destruct (st (cn D sa)).
    + destruct (run D cd n cf sa) as [s2 e2|] eqn:R; [|discriminate]. inversion H; subst.
      destruct (IH _ _ _ P1 R) as [Q1 Q2]. split; [exact Q1|eapply le_buf_trans; eauto].
    + destruct (run D cd n cf sa) as [s2 e2|] eqn:R; [|discriminate]. inversion H; subst.
      destruct (IH _ _ _ P1 R) as [Q1 Q2]. split; [exact Q1|eapply le_buf_trans; eauto].
    + inversion H; subst. split; assumption.
  - inversion H; subst. split; assumption.
  - inversion H; subst. split; assumption.
Qed.

(* C16_nothing_buffered_after_failure *)
Theorem nothing_buffered_after_failure chunks : forall (s s1 : rstate) evs, failed (cn D s) = true ->
  feed_all D cd cf s chunks = Done D s1 evs ->
  failed (cn D s1) = true /\
  lenN (fdata D (ms D s1)) <= lenN (fdata D (ms D s)) /\ lenN (mdata D (ms D s1)) <= lenN (mdata D (ms D s)) /\
  forall p b, ~ In (EMsg p b) evs.
Proof.
  induction chunks as [|c r IH]; intros s s1 evs Hf H; cbn [feed_all] in H.
  - inversion H; subst. split; [exact Hf|]. split; [lia|]. split; [lia|]. intros p b [].
  - destruct (feed D cd cf s c) as [s' e'|] eqn:F; [|discriminate].
    destruct (feed_all D cd cf s' r) as [s2 e2|] eqn:R; [|discriminate]. inversion H; subst.
    assert (G : failed (cn D s') = true /\ le_buf (ms D s') (ms D s)).
    { revert F. unfold feed. cbn [cn r_data]. destruct (st (cn D s)); intros F.
      - apply (run_nobuf _ (r_data D s (data D s ++ c)) s' e' Hf F).
      - apply (run_nobuf _ (r_data D s (data D s ++ c)) s' e' Hf F).
      - inversion F; subst. split; [exact Hf|apply le_buf_refl]. }
    destruct G as [G1 [G2 G3]]. destruct (IH _ _ _ G1 R) as [Q1 [Q2 [Q3 Q4]]].
    split; [exact Q1|]. split; [lia|]. split; [lia|].
    destruct (no_message_once_failed D cd cf s s1 (c :: r) (e' ++ e2) Hf) as [_ NM]; [cbn [feed_all]; now rewrite F, R|exact NM].
Qed.

End WithCodec.
