(* extract (marshal m) = norm m *)
From Coq Require Import NArith ZArith List Bool String Lia.
From AV Require Import Model.WampValue Model.WampSchema Proofs.WampDictProofs Proofs.WampLayoutProofs Proofs.WampWfProofs.
Import ListNotations.
Open Scope list_scope.

Section Main.
  Variable uri_ok : uri_fl -> str -> bool.
  Variable custom_ok : str -> bool.

  Lemma cfg_wf_nodup : forall cfg, cfg_wf cfg = true ->
    forall name feats, find_role cfg name = Some feats -> nodupb (map s2l feats) = true.
  Proof.
    induction cfg as [|[n fs] cfg IH]; simpl; intros H name feats E; [discriminate|].
    apply andb_true_iff in H. destruct H as [H1 H2].
    destruct (str_eqb name (s2l n)).
    - injection E as <-. apply andb_true_iff in H1. tauto.
    - eapply IH; eauto.
  Qed.

  Lemma enc_marshal_dict : forall s m pc,
    wf_schema custom_ok s = true -> s_payload s = Some pc -> s_special s = SpNone ->
    truthy (p_payload (m_pl m)) = true ->
    getn "enc_algo" (marshal_dict s m) = p_enc_algo (m_pl m)
    /\ getn "enc_key" (marshal_dict s m) = p_enc_key (m_pl m)
    /\ getn "enc_serializer" (marshal_dict s m) = p_enc_ser (m_pl m).
  Proof.
    intros s m pc Hwf Ep Esp T.
    destruct (wf_schema_inv _ _ Hwf) as (Hnd & _).
    unfold marshal_dict. rewrite Esp, Ep.
    unfold all_keys in Hnd. rewrite Ep in Hnd.
    assert (Hk : forall k, In (s2l k) (map s2l enc_keys) -> dget (s2l k) (emit (s_opts s) (m_opts m)) = None).
    { intros k Hin. apply dget_emit_aux_notin. intros Hk.
      apply (nodupb_app_disjoint _ _ _ Hnd Hk). apply in_or_app. left. exact Hin. }
    destruct (getn_emit_enc (m_pl m) T) as (E1 & E2 & E3).
    repeat split; rewrite getn_skip; auto; apply Hk; simpl; auto.
  Qed.

  Lemma roles_marshal_dict : forall s m,
    wf_schema custom_ok s = true -> shape_ok custom_ok s m = true -> s_special s <> SpNone ->
    dget (s2l "roles") (marshal_dict s m) = Some (marshal_roles (roles_cfg (s_special s)) (m_roles m)).
  Proof.
    intros s m Hwf Hs Hsp.
    destruct (wf_schema_inv _ _ Hwf) as (Hnd & _ & _ & Hcust & _).
    destruct (shape_ok_inv _ _ _ Hs) as (_ & _ & _ & _ & Hck).
    unfold marshal_dict. destruct (s_special s) eqn:Esp; [contradiction| |].
    - simpl. reflexivity.
    - assert (Hr : In (s2l "roles") (all_keys s)).
      { unfold all_keys. rewrite Esp. apply in_or_app. right. apply in_or_app. right. simpl. auto. }
      rewrite dget_app.
      assert (E1 : dget (s2l "roles") (m_custom m) = None).
      { apply dget_none_iff. intros Hin. pose proof (custom_keys custom_ok _ _ Hck Hin) as Hc.
        rewrite forallb_forall in Hcust. specialize (Hcust _ Hr). rewrite Hc in Hcust. discriminate. }
      rewrite E1. rewrite dget_app.
      assert (E2 : dget (s2l "roles") (emit (s_opts s) (m_opts m)) = None).
      { apply dget_emit_aux_notin. intros Hk. unfold all_keys in Hnd.
        apply (nodupb_app_disjoint _ _ _ Hnd Hk). apply in_or_app. right. rewrite Esp. simpl. auto. }
      rewrite E2. simpl. reflexivity.
  Qed.

  Lemma custom_marshal_dict : forall s m,
    wf_schema custom_ok s = true -> shape_ok custom_ok s m = true -> s_special s = SpWelcome ->
    extract_custom custom_ok (marshal_dict s m) = m_custom m.
  Proof.
    intros s m Hwf Hs Esp.
    destruct (wf_schema_inv _ _ Hwf) as (Hnd & _ & _ & Hcust & _).
    destruct (shape_ok_inv _ _ _ Hs) as (_ & _ & _ & _ & Hck).
    rewrite Esp in Hcust. rewrite forallb_forall in Hcust.
    unfold marshal_dict, extract_custom. rewrite Esp.
    rewrite !filter_app. rewrite (filter_all _ _ Hck).
    rewrite (filter_none _ (emit (s_opts s) (m_opts m))).
    - simpl. unfold is_custom_key. simpl.
      assert (Hr : In (s2l "roles") (all_keys s)).
      { unfold all_keys. rewrite Esp. apply in_or_app. right. apply in_or_app. right. simpl. auto. }
      specialize (Hcust _ Hr). apply negb_true_iff in Hcust. simpl in Hcust. rewrite Hcust.
      rewrite app_nil_r. reflexivity.
    - intros [k v] Hin. unfold is_custom_key. simpl. destruct k as [k|]; auto.
      assert (Hk : In k (okeys (s_opts s))).
      { apply dkeys_emit_aux_incl with (all := m_opts m) (vals := m_opts m).
        clear - Hin. unfold emit in Hin. induction (emit_aux (m_opts m) (s_opts s) (m_opts m)) as [|[[k'|] v'] l IH]; simpl in *.
        - contradiction.
        - destruct Hin as [Hin|Hin]; [injection Hin as -> _; auto | right; auto].
        - destruct Hin as [Hin|Hin]; [discriminate | auto]. }
      specialize (Hcust _ (in_all_keys_opts s k Hk)). apply negb_true_iff in Hcust. exact Hcust.
  Qed.

  Theorem extract_marshal : forall s m,
    wf_schema custom_ok s = true -> shape_ok custom_ok s m = true ->
    extract custom_ok s (marshal s m) = norm s m.
  Proof.
    intros s m Hwf Hs.
    destruct (wf_schema_inv _ _ Hwf) as (Hnd & Hcount & Hopt & Hcust & Hcfg & Hsp).
    destruct (shape_ok_inv _ _ _ Hs) as (Hlp & Hlen & Hpl & Hrs & Hck).
    unfold extract, marshal, norm. simpl tl. unfold nslots.
    destruct (s_optdict_optional s && is_nil (marshal_dict s m)) eqn:Eabs.
    - (* optional dict not written *)
      apply andb_true_iff in Eabs. destruct Eabs as [Eo En]. rewrite Eo in Hopt.
      destruct (init_if_last_opts (s_slots s)) as [fs|] eqn:Ei; [|discriminate].
      apply init_if_last_opts_spec in Ei.
      rewrite !andb_true_iff in Hopt. destruct Hopt as [[Hno Hpn] Hsn].
      unfold payload_none in Hpn. unfold special_none in Hsn.
      destruct (s_payload s) eqn:Ep; [discriminate|]. destruct (s_special s) eqn:Esp; try discriminate.
      rewrite Ei in *. rewrite nfields_app_opts in Hlp.
      destruct (marshal_slots_none_last fs (m_pos m) Hno) as [Em El]. rewrite Em, app_nil_r.
      rewrite extract_pos_none_last by auto. rewrite find_opts_none_last by auto.
      rewrite ovals_nil.
      unfold marshal_dict in En. rewrite Esp, Ep, app_nil_r in En.
      unfold norm_opts. unfold emit in En. rewrite emit_aux_nil_norm; auto.
      destruct (emit_aux (m_opts m) (s_opts s) (m_opts m)); [reflexivity|discriminate].
    - (* dict written *)
      remember (marshal_dict s m) as d eqn:Ed.
      remember (match s_payload s with Some _ => marshal_tail (m_pl m) | None => [] end) as tail eqn:Et.
      rewrite skipn_marshal_slots.
      destruct (count_opts (s_slots s)) as [|[|n]] eqn:Ec; [| |discriminate].
      + (* no dict slot at all: nothing optional in the class *)
        rewrite !andb_true_iff in Hcount. destruct Hcount as [[Hn Hpn] Hsn].
        unfold payload_none in Hpn. unfold special_none in Hsn.
        destruct (s_payload s); [discriminate|]. destruct (s_special s); try discriminate.
        pose proof (count_opts_0_no_opts _ Ec) as Hno.
        rewrite extract_pos_no_opts by auto. rewrite find_opts_no_opts by auto.
        destruct (s_opts s); [|discriminate]. reflexivity.
      + rewrite extract_pos_marshal_slots by auto. rewrite find_opts_marshal_slots by auto.
        f_equal.
        * subst d. apply (ovals_marshal_dict custom_ok); auto.
        * destruct (s_payload s) as [pc|] eqn:Ep; [|reflexivity].
          subst tail. apply extract_pl_marshal_tail; [exact Hpl|].
          intros T. subst d.
          destruct (s_special s) eqn:Esp.
          -- eapply enc_marshal_dict; eauto.
          -- unfold special_none, payload_none in Hsp. rewrite Esp, Ep in Hsp. discriminate.
          -- unfold special_none, payload_none in Hsp. rewrite Esp, Ep in Hsp. discriminate.
        * destruct (s_special s) eqn:Esp; [reflexivity| |].
          -- subst d. apply extract_roles_marshal_roles.
             ++ apply cfg_wf_nodup. exact Hcfg.
             ++ exact Hrs.
             ++ pose proof (roles_marshal_dict s m Hwf Hs) as R. rewrite Esp in R. apply R. discriminate.
          -- subst d. apply extract_roles_marshal_roles.
             ++ apply cfg_wf_nodup. exact Hcfg.
             ++ exact Hrs.
             ++ pose proof (roles_marshal_dict s m Hwf Hs) as R. rewrite Esp in R. apply R. discriminate.
        * destruct (s_special s) eqn:Esp; try reflexivity.
          subst d. apply custom_marshal_dict; auto.
  Qed.
End Main.
