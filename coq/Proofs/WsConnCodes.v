(* C05 / C17: facts about the generated constant tables (translators/wsconn_consts.py), re-checked on every run:
   the close codes the library itself chooses, the control-frame payload limit and the configurable autoPingSize range *)
From Coq Require Import NArith List Bool Lia.
From AV Require Import Gen.WsConnConsts Model.WsConn Proofs.WsConnProofs Proofs.WsConnProofs2.
Import ListNotations.
Open Scope N_scope.

Definition code_in (l : list N) (cd : N) : bool := existsb (N.eqb cd) l.
Lemma code_in_In : forall l cd, code_in l cd = true -> In cd l.
Proof.
  intros l cd H. unfold code_in in H. apply existsb_exists in H. destruct H as (x & Hx & E).
  apply N.eqb_eq in E. subst. exact Hx.
Qed.

Definition wire_legal_b (cd : N) : bool := existsb (in_range cd) legal_ranges.
Lemma wire_legal_b_ok : forall cd, wire_legal_b cd = true -> wire_legal cd.
Proof.
  intros cd H. unfold wire_legal_b, legal_ranges in H. simpl in H. unfold in_range in H. simpl in H. unfold wire_legal.
  repeat match goal with H : _ || _ = true |- _ => apply orb_prop in H; destruct H as [H|H] end;
    try discriminate; apply andb_prop in H; destruct H as [H1 H2]; apply N.leb_le in H1, H2; lia.
Qed.

(* every close code found at a call site of _fail_connection / sendCloseFrame / sendClose / a function passing its code
   on to them, anywhere in the library: legal on the wire, accepted by the library's own onCloseFrame, and listed in its
   CLOSE_STATUS_CODES_ALLOWED; the code the model uses for a raising onConnect is one of them *)
Lemma library_codes_b :
  forallb wire_legal_b library_close_codes = true /\
  forallb (fun cd => negb (close_code_invalid cd)) library_close_codes = true /\
  forallb (code_in close_codes_allowed) library_close_codes = true /\
  code_in library_close_codes code_onconnect_failed = true /\
  code_in library_close_codes code_protocol_error = true /\ code_in library_close_codes code_invalid_payload = true.
Proof. vm_compute. repeat split; reflexivity. Qed.

Lemma library_codes_wire_legal : Forall wire_legal library_close_codes.
Proof.
  destruct library_codes_b as (H & _). apply Forall_forall. intros cd Hin.
  rewrite forallb_forall in H. apply wire_legal_b_ok. apply H. exact Hin.
Qed.
Lemma library_codes_accepted : Forall (fun cd => close_code_invalid cd = false) library_close_codes.
Proof.
  destruct library_codes_b as (_ & H & _). apply Forall_forall. intros cd Hin.
  rewrite forallb_forall in H. apply negb_true_iff. apply H. exact Hin.
Qed.
Lemma library_codes_allowed : Forall (fun cd => In cd close_codes_allowed) library_close_codes.
Proof.
  destruct library_codes_b as (_ & _ & H & _). apply Forall_forall. intros cd Hin.
  rewrite forallb_forall in H. apply code_in_In. apply H. exact Hin.
Qed.
Lemma model_codes_in_library :
  In code_onconnect_failed library_close_codes /\ In code_protocol_error library_close_codes /\
  In code_invalid_payload library_close_codes.
Proof. destruct library_codes_b as (_ & _ & _ & H1 & H2 & H3). repeat split; apply code_in_In; assumption. Qed.

(* the auto ping of every configurable size can be sent: sendPing accepts payloads of 0..ping_payload_max octets (probed),
   setProtocolOptions accepts autoPingSize in auto_ping_size_min..auto_ping_size_max (probed); the sequence number the
   ping carries needs 12 octets.  (The model's _sendAutoPing never raises: sound because of this.) *)
Lemma auto_ping_size_sendable : forall n, auto_ping_size_min <= n <= auto_ping_size_max -> 12 <= n <= ping_payload_max.
Proof. intros n [H1 H2]. unfold auto_ping_size_min, auto_ping_size_max, ping_payload_max in *. lia. Qed.
Lemma pong_echo_sendable : ping_payload_max <= pong_payload_max.
Proof. unfold ping_payload_max, pong_payload_max. lia. Qed.
