(* Layout lemmas: positional slots, payload tail, roles, custom. *)
From Coq Require Import NArith ZArith List Bool String Lia.
From AV Require Import Model.WampValue Model.WampSchema Proofs.WampDictProofs.
Import ListNotations.
Open Scope list_scope.

Definition is_field (x : slot) : bool := match x with SField _ _ => true | SOpts => false end.
Definition no_opts (sl : list slot) : bool := forallb is_field sl.
Fixpoint count_opts (sl : list slot) : nat :=
  match sl with [] => 0 | SOpts :: r => S (count_opts r) | _ :: r => count_opts r end.

Lemma nfields_cons_field : forall a k sl, nfields (SField a k :: sl) = S (nfields sl).
Proof. reflexivity. Qed.
Lemma nfields_cons_opts : forall sl, nfields (SOpts :: sl) = nfields sl.
Proof. reflexivity. Qed.

Lemma marshal_slots_length : forall sl pos dv,
  List.length (marshal_slots sl pos (Some dv)) = List.length sl.
Proof. induction sl as [|[a k|] sl IH]; simpl; intros; auto. Qed.

Lemma extract_pos_marshal_slots : forall sl pos dv tail,
  List.length pos = nfields sl ->
  extract_pos sl (marshal_slots sl pos (Some dv) ++ tail) = pos.
Proof.
  induction sl as [|[a k|] sl IH]; intros pos dv tail H.
  - destruct pos; [reflexivity | discriminate].
  - rewrite nfields_cons_field in H. destruct pos as [|p pos]; [discriminate|]. simpl. f_equal. apply IH. simpl in H. lia.
  - rewrite nfields_cons_opts in H. simpl. apply IH. exact H.
Qed.

Lemma find_opts_no_opts : forall sl body, no_opts sl = true -> find_opts sl body = [].
Proof.
  induction sl as [|[a k|] sl IH]; simpl; intros body H; auto.
  - destruct body; auto.
  - discriminate.
Qed.

Lemma find_opts_marshal_slots : forall sl pos d tail,
  count_opts sl = 1%nat ->
  find_opts sl (marshal_slots sl pos (Some (VDict d)) ++ tail) = d.
Proof.
  induction sl as [|[a k|] sl IH]; simpl; intros pos d tail H.
  - discriminate.
  - apply IH. exact H.
  - reflexivity.
Qed.

Lemma skipn_marshal_slots : forall sl pos dv tail,
  skipn (List.length sl) (marshal_slots sl pos (Some dv) ++ tail) = tail.
Proof.
  intros. rewrite <- (marshal_slots_length sl pos dv).
  rewrite skipn_app, skipn_all, Nat.sub_diag. reflexivity.
Qed.

(* optional trailing dict, not written *)
Lemma marshal_slots_fields_none : forall fs pos dictv,
  no_opts fs = true -> marshal_slots fs pos dictv = marshal_slots fs pos None.
Proof.
  induction fs as [|[a k|] fs IH]; simpl; intros; auto.
  - f_equal. apply IH. exact H.
  - discriminate.
Qed.

Lemma marshal_slots_none_last : forall fs pos,
  no_opts fs = true ->
  marshal_slots (fs ++ [SOpts]) pos None = marshal_slots fs pos None
  /\ List.length (marshal_slots fs pos None) = List.length fs.
Proof.
  induction fs as [|[a k|] fs IH]; simpl; intros pos H; auto.
  - destruct (IH (tl pos) H) as [E L]. rewrite E, L. auto.
  - discriminate.
Qed.

Lemma extract_pos_none_last : forall fs pos,
  no_opts fs = true -> List.length pos = nfields fs ->
  extract_pos (fs ++ [SOpts]) (marshal_slots fs pos None) = pos.
Proof.
  induction fs as [|[a k|] fs IH]; intros pos H L.
  - destruct pos; [reflexivity|discriminate].
  - rewrite nfields_cons_field in L. destruct pos as [|p pos]; [discriminate|]. simpl. f_equal. apply IH; auto; simpl in L; lia.
  - discriminate.
Qed.

Lemma find_opts_none_last : forall fs pos,
  no_opts fs = true -> find_opts (fs ++ [SOpts]) (marshal_slots fs pos None) = [].
Proof.
  induction fs as [|[a k|] fs IH]; simpl; intros pos H; auto.
  discriminate.
Qed.

Lemma nfields_app_opts : forall fs, nfields (fs ++ [SOpts]) = nfields fs.
Proof. induction fs as [|[a k|] fs IH]; simpl; auto. unfold nfields in *. simpl. rewrite IH. reflexivity. Qed.

(* ---- payload tail ---- *)
Lemma extract_pl_marshal_tail : forall pc od p,
  (if truthy (p_payload p) then is_payload_type pc (p_payload p)
   else if truthy (p_kwargs p) then true
   else if truthy (p_args p) then negb (is_payload_type pc (p_args p)) else true) = true ->
  (truthy (p_payload p) = true ->
     getn "enc_algo" od = p_enc_algo p /\ getn "enc_key" od = p_enc_key p /\ getn "enc_serializer" od = p_enc_ser p) ->
  extract_pl pc od (marshal_tail p) = norm_pl p.
Proof.
  intros pc od p Hs He. unfold marshal_tail, norm_pl, extract_pl.
  destruct (truthy (p_payload p)) eqn:Tp.
  - simpl payload_mode. rewrite Hs. destruct (He eq_refl) as [E1 [E2 E3]]. simpl. rewrite E1, E2, E3. reflexivity.
  - destruct (truthy (p_kwargs p)) eqn:Tk.
    + reflexivity.
    + destruct (truthy (p_args p)) eqn:Ta.
      * simpl payload_mode. apply negb_true_iff in Hs. rewrite Hs. reflexivity.
      * reflexivity.
Qed.

Lemma getn_emit_nn_here : forall k v rest, dget (s2l k) rest = None -> getn k (emit_nn k v ++ rest) = v.
Proof.
  intros. unfold getn, emit_nn. destruct v; simpl; try rewrite str_eqb_refl; try reflexivity.
  rewrite H. reflexivity.
Qed.

Lemma getn_skip : forall k d rest, dget (s2l k) d = None -> getn k (d ++ rest) = getn k rest.
Proof. intros. unfold getn. rewrite dget_app, H. reflexivity. Qed.

Lemma dget_emit_nn_other : forall k k' v, s2l k <> s2l k' -> dget (s2l k) (emit_nn k' v) = None.
Proof. intros. unfold emit_nn. destruct (is_null v); simpl; auto. rewrite str_eqb_neq; auto. Qed.

Lemma getn_emit_enc : forall p, truthy (p_payload p) = true ->
  getn "enc_algo" (emit_enc p) = p_enc_algo p /\ getn "enc_key" (emit_enc p) = p_enc_key p
  /\ getn "enc_serializer" (emit_enc p) = p_enc_ser p.
Proof.
  intros p T. unfold emit_enc. rewrite T. repeat split.
  - apply getn_emit_nn_here. rewrite dget_app, !dget_emit_nn_other; auto; vm_compute; discriminate.
  - rewrite getn_skip by (apply dget_emit_nn_other; vm_compute; discriminate).
    apply getn_emit_nn_here. apply dget_emit_nn_other. vm_compute; discriminate.
  - rewrite getn_skip by (apply dget_emit_nn_other; vm_compute; discriminate).
    rewrite getn_skip by (apply dget_emit_nn_other; vm_compute; discriminate).
    rewrite <- (app_nil_r (emit_nn _ _)). apply getn_emit_nn_here. reflexivity.
Qed.

(* ---- roles ---- *)
Lemma norm_aux_feature_id : forall all feats vals, List.length vals = List.length feats ->
  norm_aux all (role_specs feats) vals = vals.
Proof.
  induction feats as [|f feats IH]; destruct vals as [|v vals]; simpl; intros H; try discriminate; auto.
  f_equal; [|apply IH; lia]. unfold holds. simpl. destruct v; reflexivity.
Qed.

Lemma emit_aux_feature_nil : forall all feats vals, List.length vals = List.length feats ->
  emit_aux all (role_specs feats) vals = [] -> vals = map (fun _ => VNull) feats.
Proof.
  induction feats as [|f feats IH]; destruct vals as [|v vals]; simpl; intros H E; try discriminate; auto.
  unfold holds in E. simpl in E. destruct v; simpl in E; try discriminate.
  f_equal. apply IH; [lia | exact E].
Qed.

Definition feats_wf (feats : list string) : bool :=
  let ks := map s2l feats in
  (fix nodup (l : list str) : bool :=
     match l with [] => true | x :: r => negb (existsb (str_eqb x) r) && nodup r end) ks
  && negb (existsb (str_eqb (s2l "self")) ks).

Fixpoint nodupb (l : list str) : bool :=
  match l with [] => true | x :: r => negb (existsb (str_eqb x) r) && nodupb r end.

Lemma nodupb_NoDup : forall l, nodupb l = true -> NoDup l.
Proof.
  induction l as [|x l IH]; simpl; intros H; constructor.
  - apply andb_true_iff in H. destruct H as [H _]. apply negb_true_iff in H.
    intros Hin. assert (existsb (str_eqb x) l = true).
    { apply existsb_exists. exists x. split; auto. apply str_eqb_refl. }
    congruence.
  - apply IH. apply andb_true_iff in H. tauto.
Qed.

Lemma okeys_role_specs : forall feats, okeys (role_specs feats) = map s2l feats.
Proof. induction feats; simpl; auto. unfold okeys in *. simpl. f_equal. exact IHfeats. Qed.

Lemma extract_role_marshal_role : forall cfg r,
  (forall name feats, find_role cfg name = Some feats -> nodupb (map s2l feats) = true) ->
  role_shape_ok cfg r = true ->
  extract_role cfg (marshal_role cfg r) = r.
Proof.
  intros cfg [k vals] Hcfg Hs. unfold role_shape_ok in Hs. simpl in Hs.
  destruct k as [name|]; [|discriminate].
  destruct (find_role cfg name) as [feats|] eqn:Ef; [|discriminate].
  apply Nat.eqb_eq in Hs.
  unfold marshal_role, extract_role. simpl. rewrite Ef.
  destruct (is_nil (emit (role_specs feats) vals)) eqn:En.
  - simpl. f_equal. unfold emit in En. destruct (emit_aux vals (role_specs feats) vals) eqn:Ee; [|discriminate].
    symmetry. eapply emit_aux_feature_nil; eauto.
  - simpl. f_equal. unfold ovals, emit.
    pose proof (ovals_emit_aux vals (role_specs feats) vals [] []) as H.
    simpl in H. rewrite app_nil_r in H. rewrite H.
    + apply norm_aux_feature_id. exact Hs.
    + unfold role_specs. rewrite map_length. exact Hs.
    + rewrite okeys_role_specs. apply nodupb_NoDup. eapply Hcfg; eauto.
    + reflexivity.
    + reflexivity.
Qed.

Lemma extract_roles_marshal_roles : forall cfg rs od,
  (forall name feats, find_role cfg name = Some feats -> nodupb (map s2l feats) = true) ->
  forallb (role_shape_ok cfg) rs = true ->
  dget (s2l "roles") od = Some (marshal_roles cfg rs) ->
  extract_roles cfg od = rs.
Proof.
  intros cfg rs od Hcfg Hs Hd. unfold extract_roles. rewrite Hd. unfold marshal_roles.
  rewrite map_map. rewrite <- (map_id rs) at 2. apply map_ext_in.
  intros r Hin. apply extract_role_marshal_role; auto.
  rewrite forallb_forall in Hs. auto.
Qed.

(* ---- custom ---- *)
Lemma filter_all : forall {A} (f : A -> bool) l, forallb f l = true -> filter f l = l.
Proof. induction l; simpl; intros H; auto. apply andb_true_iff in H. destruct H as [H1 H2]. rewrite H1. f_equal. auto. Qed.

Lemma filter_none : forall {A} (f : A -> bool) l, (forall x, In x l -> f x = false) -> filter f l = [].
Proof. induction l; simpl; intros H; auto. rewrite H by auto. apply IHl. intros; apply H; auto. Qed.
