(* C02 header table, definitions: one cell = the model's header cascade against the RFC rules for one context and one
   value of the first two octets.  The exhaustive sweep is sharded over Proofs/WsRecvHeaderS*.v (4 contexts x 65536 each). *)
From Coq Require Import NArith List Bool Lia.
From AV Require Import Model.Masker Gen.WsConsts Model.WsRecv.
Import ListNotations.
Open Scope N_scope.

Fixpoint rangeN (n : nat) : list N :=
  match n with O => [] | S k => rangeN k ++ [N.of_nat k] end.
Lemma rangeN_in n x : In x (rangeN n) <-> x < N.of_nat n.
Proof.
  induction n as [|k IH]; cbn [rangeN].
  - split; [intros []|lia].
  - rewrite in_app_iff, IH. cbn [In]. split.
    + intros [H|[H|[]]]; lia.
    + intros H. destruct (N.eq_dec x (N.of_nat k)) as [->|Hne]; [right; left; reflexivity|left; lia].
Qed.

(* hdr_viols / rfc_rule read four booleans of the configuration only *)
Definition ctx_cfg (sv rm am pm : bool) : cfg := mkCfg sv rm am true true true 0 0 pm false.
Lemma hdr_viols_ctx cf ins b0 b1 :
  hdr_viols cf ins b0 b1 = hdr_viols (ctx_cfg (isServer cf) (requireMasked cf) (acceptMasked cf) (pmc cf)) ins b0 b1.
Proof. reflexivity. Qed.
Lemma rfc_verdict_ctx cf ins b0 b1 :
  rfc_header_verdict cf ins b0 b1 =
  rfc_header_verdict (ctx_cfg (isServer cf) (requireMasked cf) (acceptMasked cf) (pmc cf)) ins b0 b1.
Proof. reflexivity. Qed.

Definition nonemptyv (l : list hviol) : bool := match l with [] => false | _ => true end.
Definition hviol_eqb (a b : hviol) : bool :=
  match a, b with
  | HRsv, HRsv | HUnmasked, HUnmasked | HMasked, HMasked | HCtlFragmented, HCtlFragmented | HCtlLen, HCtlLen
  | HCtlOpcode, HCtlOpcode | HCloseLen1, HCloseLen1 | HCtlCompressed, HCtlCompressed | HDataOpcode, HDataOpcode
  | HContOutside, HContOutside | HNonContInside, HNonContInside | HContCompressed, HContCompressed
  | HLen16NonMin, HLen16NonMin | HLen64Huge, HLen64Huge | HLen64NonMin, HLen64NonMin => true
  | _, _ => false
  end.
Lemma hviol_eqb_eq a b : hviol_eqb a b = true <-> a = b.
Proof. destruct a, b; cbn; split; intros H; try reflexivity; try discriminate. Qed.

(* one cell of the table: the model flags the header iff an RFC rule is broken, and every violation the model
   raises is a broken RFC rule (the model never invents a reason) *)
Definition cell_ok (sv mo pm ins : bool) (b0 b1 : N) : bool :=
  let cf := ctx_cfg sv mo mo pm in
  let vs := hdr_viols cf ins b0 b1 in
  let rv := rfc_header_verdict cf ins b0 b1 in
  Bool.eqb (nonemptyv vs) (nonemptyv rv) && forallb (fun v => existsb (hviol_eqb v) rv) vs.

Definition bools := [true; false].
Definition sweep_ctx (sv mo pm ins : bool) : bool :=
  forallb (fun b0 => forallb (fun b1 => cell_ok sv mo pm ins b0 b1) (rangeN 256)) (rangeN 256).
