(* C02 header table, definitions.  The model's header cascade and the RFC rules read the two octets only through the
   fields FIN, RSV1-3, opcode, MASK and two tests on the 7-bit length (> 125, = 1); the table is proved over those fields
   (exhaustive vm_compute sweep, 16 contexts x 2048 field combinations) and carried to octets by two 256-value sweeps. *)
From Coq Require Import NArith List Bool Lia.
From AV Require Import Model.Masker Gen.WsConsts Model.WsRecv.
Import ListNotations.
Open Scope N_scope.

Fixpoint rangeN (n : nat) : list N :=
  match n with O => [] | S k => rangeN k ++ [N.of_nat k] end.
Lemma rangeN_in n x : In x (rangeN n) <-> x < N.of_nat n.
Proof.
  induction n as [|k IH]; cbn [rangeN].
  - split; [intros []|lia].
  - rewrite in_app_iff, IH. cbn [In]. split.
    + intros [H|[H|[]]]; lia.
    + intros H. destruct (N.eq_dec x (N.of_nat k)) as [->|Hne]; [right; left; reflexivity|left; lia].
Qed.

(* hdr_viols / rfc_rule read four booleans of the configuration only *)
Definition ctx_cfg (sv rm am pm : bool) : cfg := mkCfg sv rm am true true true 0 0 pm false.
Lemma hdr_viols_ctx cf ins b0 b1 :
  hdr_viols cf ins b0 b1 = hdr_viols (ctx_cfg (isServer cf) (requireMasked cf) (acceptMasked cf) (pmc cf)) ins b0 b1.
Proof. reflexivity. Qed.
Lemma rfc_verdict_ctx cf ins b0 b1 :
  rfc_header_verdict cf ins b0 b1 =
  rfc_header_verdict (ctx_cfg (isServer cf) (requireMasked cf) (acceptMasked cf) (pmc cf)) ins b0 b1.
Proof. reflexivity. Qed.

Definition nonemptyv (l : list hviol) : bool := match l with [] => false | _ => true end.
Definition hviol_eqb (a b : hviol) : bool :=
  match a, b with
  | HRsv, HRsv | HUnmasked, HUnmasked | HMasked, HMasked | HCtlFragmented, HCtlFragmented | HCtlLen, HCtlLen
  | HCtlOpcode, HCtlOpcode | HCloseLen1, HCloseLen1 | HCtlCompressed, HCtlCompressed | HDataOpcode, HDataOpcode
  | HContOutside, HContOutside | HNonContInside, HNonContInside | HContCompressed, HContCompressed
  | HLen16NonMin, HLen16NonMin | HLen64Huge, HLen64Huge | HLen64NonMin, HLen64NonMin => true
  | _, _ => false
  end.
Lemma hviol_eqb_eq a b : hviol_eqb a b = true <-> a = b.
Proof. destruct a, b; cbn; split; intros H; try reflexivity; try discriminate. Qed.

(* the model cascade (hdr_viols) on abstract fields; the two length tests enter as booleans *)
Definition hdr_body (cf : cfg) (ins fin : bool) (rsv op : N) (masked gt125 is1 : bool) : list hviol :=
  vif (pd_rsv_nonzero rsv && negb (pmc cf && pd_rsv_is4 rsv)) HRsv ++
  vif (isServer cf && requireMasked cf && negb masked) HUnmasked ++
  vif (negb (isServer cf) && negb (acceptMasked cf) && masked) HMasked ++
  (if pd_is_ctl op
   then vif (negb fin) HCtlFragmented ++
        vif gt125 HCtlLen ++
        vif (pd_ctl_op_bad op) HCtlOpcode ++
        vif (pd_is_close op && is1) HCloseLen1 ++
        vif (pmc cf && pd_rsv_is4_ctl rsv) HCtlCompressed
   else vif (pd_data_op_bad op) HDataOpcode ++
        vif (negb ins && pd_op_is_cont op) HContOutside ++
        vif (ins && pd_op_not_cont op) HNonContInside ++
        vif (pmc cf && pd_rsv_is4_cont rsv && ins) HContCompressed).
Lemma hdr_viols_body cf ins b0 b1 :
  hdr_viols cf ins b0 b1 =
  hdr_body cf ins (hb_fin b0) (hb_rsv b0) (hb_opcode b0) (hb_masked b1)
           (pd_ctl_len_bad (hb_len1 b1)) (pd_len1_is1 (hb_len1 b1)).
Proof. reflexivity. Qed.

(* the RFC rules on the same abstraction *)
Definition rfc_rule_g (cf : cfg) (in_frag fin rsv1 rsv2 rsv3 : bool) (op : N) (masked gt125 is1 : bool) (r : hviol) : bool :=
  let is_ctl := 8 <=? op in
  match r with
  | HRsv => rsv2 || rsv3 || (rsv1 && negb (pmc cf))
  | HUnmasked => isServer cf && requireMasked cf && negb masked
  | HMasked => negb (isServer cf) && negb (acceptMasked cf) && masked
  | HCtlFragmented => is_ctl && negb fin
  | HCtlLen => is_ctl && gt125
  | HCtlOpcode => inr 11 15 op
  | HDataOpcode => inr 3 7 op
  | HCloseLen1 => (op =? 8) && is1
  | HCtlCompressed => pmc cf && is_ctl && rsv1
  | HContCompressed => pmc cf && negb is_ctl && rsv1 && in_frag
  | HContOutside => (op =? 0) && negb in_frag
  | HNonContInside => negb is_ctl && negb (op =? 0) && in_frag
  | HLen16NonMin | HLen64Huge | HLen64NonMin => false
  end.
Lemma rfc_rule_fg cf in_frag fin rsv1 rsv2 rsv3 op masked len7 r :
  rfc_rule_f cf in_frag fin rsv1 rsv2 rsv3 op masked len7 r =
  rfc_rule_g cf in_frag fin rsv1 rsv2 rsv3 op masked (125 <? len7) (len7 =? 1) r.
Proof. destruct r; reflexivity. Qed.
Definition rfc_body (cf : cfg) (ins fin rsv1 rsv2 rsv3 : bool) (op : N) (masked gt125 is1 : bool) : list hviol :=
  filter (rfc_rule_g cf ins fin rsv1 rsv2 rsv3 op masked gt125 is1) header_rules.
Lemma rfc_verdict_body cf ins b0 b1 :
  rfc_header_verdict cf ins b0 b1 =
  rfc_body cf ins (bit b0 7) (bit b0 6) (bit b0 5) (bit b0 4) (b0 mod 16) (bit b1 7) (125 <? b1 mod 128) (b1 mod 128 =? 1).
Proof. unfold rfc_header_verdict, rfc_body. apply filter_ext. intros r. apply rfc_rule_fg. Qed.

Definition bits_rsv (r1 r2 r3 : bool) : N := (if r1 then 4 else 0) + (if r2 then 2 else 0) + (if r3 then 1 else 0).

(* one cell of the table: the model flags the header iff an RFC rule is broken, and every violation the model
   raises is a broken RFC rule (the model never invents a reason) *)
Definition fcell_ok (sv mo pm ins fin r1 r2 r3 : bool) (op : N) (masked gt125 is1 : bool) : bool :=
  let cf := ctx_cfg sv mo mo pm in
  let vs := hdr_body cf ins fin (bits_rsv r1 r2 r3) op masked gt125 is1 in
  let rv := rfc_body cf ins fin r1 r2 r3 op masked gt125 is1 in
  Bool.eqb (nonemptyv vs) (nonemptyv rv) && forallb (fun v => existsb (hviol_eqb v) rv) vs.

Definition bools := [true; false].
Definition allb (f : bool -> bool) : bool := forallb f bools.
Lemma allb_spec f : allb f = true -> forall b, f b = true.
Proof. unfold allb, bools. cbn. intros H b. apply andb_true_iff in H. destruct H as [H1 H2]. rewrite andb_true_r in H2. destruct b; assumption. Qed.

Definition field_table : bool :=
  allb (fun sv => allb (fun mo => allb (fun pm => allb (fun ins => allb (fun fin => allb (fun r1 => allb (fun r2 =>
  allb (fun r3 => allb (fun masked => allb (fun gt => allb (fun is1 =>
    forallb (fun op => fcell_ok sv mo pm ins fin r1 r2 r3 op masked gt is1) (rangeN 16)))))))))))).
Lemma field_sweep : field_table = true.
Proof. vm_compute. reflexivity. Qed.

(* octets to fields *)
Definition b0_ok (b : N) : bool :=
  Bool.eqb (hb_fin b) (bit b 7) && (hb_rsv b =? bits_rsv (bit b 6) (bit b 5) (bit b 4)) && (hb_opcode b =? b mod 16) && (b mod 16 <? 16).
Definition b1_ok (b : N) : bool := Bool.eqb (hb_masked b) (bit b 7) && (hb_len1 b =? b mod 128).
Lemma b0_sweep : forallb b0_ok (rangeN 256) = true. Proof. vm_compute. reflexivity. Qed.
Lemma b1_sweep : forallb b1_ok (rangeN 256) = true. Proof. vm_compute. reflexivity. Qed.
