(* Lemmas about the connection model, part 2: legality of close frames, the clean-close report. *)
From Coq Require Import NArith List Bool Lia Arith.
From AV Require Import Gen.WsConnConsts Model.WsConn Proofs.WsConnProofs.
Import ListNotations.
Open Scope N_scope.

(* ================================================================================================ *)
(* what may appear in a close frame *)
Definition reason_ok (code : option N) (r : option (list N)) : Prop :=
  match r with
  | None => True
  | Some x => wf_utf8 x = true /\ (length x <= 123)%nat /\ code <> None
  end.
Definition close_legal (o : out) : Prop :=
  match snd o with
  | WClose OApi code r => match code with None => True | Some cd => api_code_ok cd = true end /\ reason_ok code r
  | WClose _ code r => match code with None => True | Some cd => close_code_invalid cd = false end /\ reason_ok code r
  | _ => True
  end.
Definition remote_ok (s : cstate) : Prop :=
  match remoteCode s with Some cd => close_code_invalid cd = false | None => True end /\
  match remoteReason s with Some r => wf_utf8 r = true /\ remoteCode s <> None | None => True end.

Definition I_legal (log : list out) (s : cstate) : Prop := Forall close_legal log /\ remote_ok s.

Lemma I_legal_core : core_only I_legal.
Proof.
  unfold core_only, I_legal, remote_ok, same_core. intros log s s' H.
  destruct H as (_ & _ & _ & _ & _ & _ & _ & _ & _ & _ & H1 & H2 & _). rewrite H1, H2. auto.
Qed.

(* the texts that Python hands to encode_truncate / str.encode are well-formed UTF-8 *)
Definition ev_wf (e : event) : Prop :=
  match e with
  | ESendClose _ (Some r) => wf_utf8 r = true
  | EPeerClose _ txt | EPeerClose1 txt | EPeerViolation txt | EPeerInvalid txt | EConnectRaises txt => wf_utf8 txt = true
  | _ => True
  end.

Lemma internal_codes_allowed :
  close_code_invalid code_protocol_error = false /\ close_code_invalid code_invalid_payload = false
  /\ close_code_invalid code_normal = false /\ close_code_invalid code_onconnect_failed = false.
Proof. vm_compute. auto. Qed.

(* an interval of codes that lies inside one accepted interval is accepted *)
Lemma range_valid : forall a b cd,
  existsb (fun r => (fst r <=? a) && (b <=? snd r)) close_code_valid_ranges = true ->
  a <= cd <= b -> close_code_invalid cd = false.
Proof.
  intros a b cd H [H1 H2]. unfold close_code_invalid. apply negb_false_iff.
  apply existsb_exists in H. destruct H as (r & Hin & Hr). apply andb_prop in Hr. destruct Hr as [Ha Hb].
  apply N.leb_le in Ha, Hb. apply existsb_exists. exists r. split; [exact Hin|].
  unfold in_range. apply andb_true_intro. split; apply N.leb_le; lia.
Qed.

Lemma api_code_wire_ok : forall cd, api_code_ok cd = true -> close_code_invalid cd = false.
Proof.
  intros cd H. unfold api_code_ok in H. apply orb_prop in H. destruct H as [H|H].
  - apply N.eqb_eq in H. subst. vm_compute. reflexivity.
  - apply andb_prop in H. destruct H as [H1 H2]. apply N.leb_le in H1, H2.
    apply (range_valid 3000 4999); [vm_compute; reflexivity | lia].
Qed.

(* what RFC 6455 (7.4.1, 7.4.2) and the IANA registry allow in a close frame, written down independently of the code:
   1000-1003, 1007-1014, 3000-4999 (1004 reserved, 1005/1006/1015 must not be sent, 1016-2999 unassigned) *)
Definition wire_legal (cd : N) : Prop :=
  (1000 <= cd <= 1003) \/ (1007 <= cd <= 1014) \/ (3000 <= cd <= 4999).
Definition legal_ranges : list (N * N) := [(1000, 1003); (1007, 1014); (3000, 4999)].

(* every interval the code accepts lies inside a legal one: re-checked against the generated intervals on every run *)
Lemma accepted_ranges_legal :
  forallb (fun r => existsb (fun l => (fst l <=? fst r) && (snd r <=? snd l)) legal_ranges) close_code_valid_ranges = true.
Proof. vm_compute. reflexivity. Qed.

Lemma accepted_code_wire_legal : forall cd, close_code_invalid cd = false -> wire_legal cd.
Proof.
  intros cd H. unfold close_code_invalid in H. apply negb_false_iff in H.
  apply existsb_exists in H. destruct H as (r & Hin & Hr).
  pose proof accepted_ranges_legal as HA. rewrite forallb_forall in HA. specialize (HA r Hin).
  apply existsb_exists in HA. destruct HA as (l & Hl & Hc).
  unfold in_range in Hr. apply andb_prop in Hr. destruct Hr as [R1 R2]. apply andb_prop in Hc. destruct Hc as [C1 C2].
  apply N.leb_le in R1, R2, C1, C2.
  unfold legal_ranges in Hl. simpl in Hl. unfold wire_legal.
  destruct Hl as [Hl|[Hl|[Hl|[]]]]; subst l; simpl in *; lia.
Qed.

Lemma Forall_snoc : forall {A} (P : A -> Prop) l x, Forall P l -> P x -> Forall P (l ++ [x]).
Proof. intros. apply Forall_app. split; auto. Qed.

Lemma truncate_reason_ok : forall code txt, wf_utf8 txt = true -> code <> None ->
  reason_ok code (Some (encode_truncate txt 123)).
Proof.
  intros code txt H Hc. unfold reason_ok. destruct (truncate_valid txt 123 H) as (H1 & H2 & _). auto.
Qed.

Ltac absurd_legal :=
  intros log s HG HI; guard_facts; simpl in *;
  try congruence; try discriminate;
  match goal with
  | H1 : body_code ?b = None, H2 : body_reason ?b = Some _ |- _ => destruct b as [[? ?]|]; simpl in *; discriminate
  end.

Lemma truncate_wf : forall s n, wf_utf8 s = true -> wf_utf8 (encode_truncate s n) = true.
Proof. intros s n H. apply (truncate_valid s n H). Qed.

Ltac fin_legal := auto; try congruence; try discriminate; try solve [intuition (try congruence; try discriminate)].

Ltac solve_reason :=
  lazymatch goal with
  | |- reason_ok _ None => exact I
  | |- reason_ok _ (Some (encode_truncate _ 123)) => apply truncate_reason_ok; fin_legal
  | |- reason_ok _ (truncate_opt ?r) =>
      destruct r eqn:?; simpl in *; [apply truncate_reason_ok; fin_legal | exact I]
  end.

Ltac leaf_legal :=
  intros log s HG HI; unfold I_legal, remote_ok in *; guard_facts; simpl in *;
  destruct internal_codes_allowed as (? & ? & ? & ?);
  repeat match goal with
  | H : match ?code with Some cd => negb (api_code_ok cd) | None => false end = false |- _ =>
      destruct code eqn:?; [apply negb_false_iff in H|clear H]
  | H : isSome ?r && negb (isSome ?code) = false |- _ =>
      destruct r eqn:?; destruct code eqn:?; simpl in H; try discriminate H; clear H
  end;
  repeat match goal with
  | |- _ /\ _ => split
  | |- True => exact I
  | |- Forall close_legal (_ ++ [_]) => apply Forall_snoc; [assumption | unfold close_legal; simpl]
  | |- reason_ok _ _ => solve_reason
  | |- wf_utf8 (encode_truncate _ _) = true => apply truncate_wf
  | |- (length (encode_truncate _ _) <= _)%nat => apply truncate_len
  | |- match ?x with Some _ => _ | None => _ end => destruct x eqn:?; simpl in *
  end; fin_legal.

Lemma on_timer_legal : forall c k, presL I_legal (on_timer c k).
Proof.
  intros c k. pose proof I_legal_core as Hcore.
  destruct k; unfold on_timer; pres_go3 leaf_legal fail absurd_legal.
Qed.

Lemma step_legal : forall c e, ev_wf e -> presL I_legal (handle c e).
Proof.
  intros c e Hwf. pose proof I_legal_core as Hcore.
  destruct e; unfold handle; simpl in Hwf;
    try (apply presL_tick; [apply on_timer_legal | unfold time_insensitive, I_legal, remote_ok; intros; simpl; assumption]);
    pres_go3 leaf_legal fail absurd_legal.
Qed.

(* ================================================================================================ *)
(* the effect of onCloseFrame on the fields that onClose reports *)
(* the reported fields after onCloseFrame has processed a close frame with this body:
   a reserved code or an ill-formed reason fails the connection and leaves the corresponding field unset *)
Definition exp_code (body : option (N * option (list N))) : option N :=
  match body with
  | None => None
  | Some (cd, _) => if close_code_invalid cd then None else Some cd
  end.
Definition exp_reason (body : option (N * option (list N))) : option (list N) :=
  match body with
  | Some (cd, Some r) => if close_code_invalid cd then None else if wf_utf8 r then Some r else None
  | _ => None
  end.

(* the remote-close fields and the ghost have given values *)
Definition I_f (vc : option N) (vr : option (list N)) (vl : option peer_close) (log : list out) (s : cstate) : Prop :=
  remoteCode s = vc /\ remoteReason s = vr /\ lastPeerClose s = vl.
Lemma I_f_core : forall vc vr vl, core_only (I_f vc vr vl).
Proof.
  unfold core_only, I_f, same_core. intros vc vr vl log s s' H.
  destruct H as (_ & _ & _ & _ & _ & _ & _ & _ & _ & _ & H1 & H2 & _ & _ & _ & _ & _ & _ & H3). rewrite H1, H2, H3. auto.
Qed.
Ltac leaf_f := intros log s HG HI; unfold I_f in *; guard_facts; simpl in *; auto.

Lemma fail_connection_f : forall vc vr vl c code txt, presL (I_f vc vr vl) (fail_connection c code txt).
Proof. intros. pose proof (I_f_core vc vr vl) as Hcore. pres_go leaf_f fail. Qed.
Lemma dispatch_f : forall vc vr vl c, presL (I_f vc vr vl) (on_close_dispatch c).
Proof. intros. pose proof (I_f_core vc vr vl) as Hcore. pres_go leaf_f fail. Qed.

Definition exp_r (r : option (list N)) : option (list N) :=
  match r with Some x => if wf_utf8 x then Some x else None | None => None end.

Lemma hoare_upd : forall (P Q : list out -> cstate -> Prop) f,
  (forall log s, P log s -> Q log (f s)) -> hoare P (upd f) Q.
Proof. unfold hoare, upd. intros. simpl. rewrite app_nil_r. auto. Qed.

Lemma on_close_reason_f : forall c r txt vc vl,
  hoare (I_f vc None vl) (on_close_reason c r txt) (I_f vc (exp_r r) vl).
Proof.
  intros c r txt vc vl. unfold on_close_reason, exp_r. destruct r as [x|].
  - destruct (wf_utf8 x) eqn:E.
    + apply hoare_seq with (R := I_f vc (Some x) vl).
      * apply hoare_upd. unfold I_f. intros log s (H1 & H2 & H3). simpl. auto.
      * apply hoare_presL. apply dispatch_f.
    + apply hoare_presL. apply fail_connection_f.
  - apply hoare_presL. apply dispatch_f.
Qed.

(* effect of onCloseFrame on the reported fields *)
Lemma ocf_hoare : forall c body txt vl,
  hoare (fun _ s => lastPeerClose s = vl) (on_close_frame c body txt) (I_f (exp_code body) (exp_reason body) vl).
Proof.
  intros c body txt vl. unfold on_close_frame.
  apply hoare_seq with (R := I_f None None vl).
  { apply hoare_upd. unfold I_f. intros. simpl. auto. }
  destruct body as [[cd r]|]; cbn [body_code body_reason exp_code exp_reason].
  - destruct (close_code_invalid cd) eqn:Ei.
    + destruct r; apply hoare_presL, fail_connection_f.
    + apply hoare_seq with (R := I_f (Some cd) None vl).
      * apply hoare_upd. unfold I_f. intros log s (H1 & H2 & H3). simpl. auto.
      * pose proof (on_close_reason_f c r txt (Some cd) vl) as H. unfold exp_r in H. destruct r; exact H.
  - apply (on_close_reason_f c None txt None vl).
Qed.

Lemma ocf_fields : forall c body txt s,
  let s' := fst (on_close_frame c body txt s) in
  lastPeerClose s' = lastPeerClose s /\ remoteCode s' = exp_code body /\ remoteReason s' = exp_reason body.
Proof.
  intros c body txt s. cbv zeta.
  destruct (ocf_hoare c body txt (lastPeerClose s) [] s eq_refl) as (H1 & H2 & H3). auto.
Qed.

(* ================================================================================================ *)
(* run-level consequences *)

Lemma legal_run_from : forall c evs s log, Forall ev_wf evs -> I_legal log s ->
  I_legal (snd (run_from c s log evs)) (fst (run_from c s log evs)).
Proof.
  intros c evs. induction evs as [|e evs IH]; intros s log Hwf H.
  - exact H.
  - inversion Hwf; subst. rewrite run_from_cons. apply IH; [assumption|]. apply step_legal; assumption.
Qed.

Lemma init_core : forall c, same_core (init0 c) (init c).
Proof.
  intros c. unfold init, whenM. destruct (0 <? openHandshakeTimeout c).
  - apply arm_batched_core.
  - unfold ret. simpl. unfold same_core. repeat split.
Qed.

Lemma init_out_props : forall c, cbcount (init_out c) = 0%nat /\ close_in (init_out c) = false
  /\ wc false (init_out c) = true /\ Forall close_legal (init_out c).
Proof.
  intros c. unfold init_out. destruct (is_server c); simpl; repeat split; auto.
  constructor; [|constructor]. unfold close_legal. simpl. exact I.
Qed.

Lemma legal_run : forall c evs, Forall ev_wf evs -> Forall close_legal (snd (run c evs)).
Proof.
  intros c evs H. unfold run. apply legal_run_from; [assumption|].
  unfold I_legal. split; [apply init_out_props|].
  apply (I_legal_core (init_out c) (init0 c) (init c) (init_core c)).
  unfold I_legal, remote_ok. simpl. split; [apply init_out_props|auto].
Qed.

Lemma gone_run : forall c evs, I_gone (snd (run c evs)) (fst (run c evs)).
Proof.
  intros c evs. apply presL_run; [|apply step_gone].
  apply (I_gone_core (init_out c) (init0 c) (init c) (init_core c)).
  unfold I_gone. simpl. split; [intros _; apply init_out_props | discriminate].
Qed.

Lemma cf_run : forall c evs, I_cf (snd (run c evs)) (fst (run c evs)).
Proof.
  intros c evs. apply presL_run; [|apply step_cf].
  apply (I_cf_core (init_out c) (init0 c) (init c) (init_core c)).
  unfold I_cf. simpl. destruct (init_out_props c) as (_ & H2 & H3 & _). rewrite H2. repeat split; auto; discriminate.
Qed.

(* after the close notification the continuation of the run produces nothing but exceptions to API callers *)
Lemma dead_run : forall c s evs, st s = CLOSED -> gone s = true ->
  forallb is_raise (snd (run_from c s [] evs)) = true /\ gone (fst (run_from c s [] evs)) = true.
Proof.
  intros c s evs H1 H2.
  pose proof (presL_run_from I_dead c (step_dead c) evs s [] (conj H1 (conj H2 eq_refl))) as (Ha & Hb & Hc). auto.
Qed.

Lemma run_from_log : forall c evs s log, run_from c s log evs =
  (fst (run_from c s [] evs), log ++ snd (run_from c s [] evs)).
Proof.
  intros c evs. induction evs as [|e evs IH]; intros s log.
  - simpl. rewrite app_nil_r. reflexivity.
  - rewrite !run_from_cons. rewrite (IH _ (log ++ _)). rewrite (IH _ ([] ++ _)). simpl. rewrite app_assoc. reflexivity.
Qed.

(* what [wc] says, in words *)
Lemma wc_true_seen : forall l, wc true l = true -> forallb (fun o => negb (is_frame o)) l = true.
Proof.
  induction l as [|o l IH]; simpl; intros H; [reflexivity|].
  destruct (is_frame o); simpl in *; [discriminate|]. apply IH. exact H.
Qed.
Lemma wc_split : forall l1 x l2 seen, wc seen (l1 ++ x :: l2) = true -> is_closef x = true ->
  forallb (fun o => negb (is_frame o)) l2 = true.
Proof.
  intros l1 x l2 seen H Hx. rewrite wc_app in H. apply andb_prop in H. destruct H as [_ H].
  simpl in H. destruct (is_frame x && (seen || close_in l1)); [discriminate|].
  rewrite Hx in H. rewrite orb_true_r in H. apply wc_true_seen. exact H.
Qed.
Lemma is_closef_frame : forall o, is_closef o = true -> is_frame o = true.
Proof. intros [t o]. unfold is_closef, is_frame. simpl. destruct o; auto. Qed.
Lemma wc_count : forall l seen, wc seen l = true -> (length (filter is_closef l) <= 1)%nat.
Proof.
  induction l as [|o l IH]; intros seen H; simpl in *; [lia|].
  destruct (is_closef o) eqn:E.
  - destruct (is_frame o && seen); [discriminate|]. rewrite orb_true_r in H.
    apply wc_true_seen in H. simpl.
    assert (filter is_closef l = []).
    { clear -H. induction l as [|y l IH]; simpl in *; [reflexivity|].
      apply andb_prop in H. destruct H as [H1 H2]. destruct (is_closef y) eqn:E.
      - apply is_closef_frame in E. rewrite E in H1. discriminate.
      - auto. }
    rewrite H0. simpl. lia.
  - destruct (is_frame o && seen); [discriminate|]. rewrite orb_false_r in H. eapply IH; eauto.
Qed.

(* transport-gone events *)
Lemma seq_post : forall (P : cstate -> Prop) a b s, (forall s1, P (fst (b s1))) -> P (fst ((a ;; b) s)).
Proof. intros P a b s H. unfold seqM. destruct (a s) as [s1 o1]. specialize (H s1). destruct (b s1). exact H. Qed.

Lemma conn_lost_sets_gone : forall c s, gone (fst (conn_lost c s)) = true.
Proof.
  intros c s. unfold conn_lost.
  repeat (apply seq_post; intro).
  unfold ifS, bindS, emit_and, seqM, upd, ret.
  destruct (wasClean s4); simpl; [reflexivity|].
  destruct (negb (droppedByMe s4) && _); simpl; reflexivity.
Qed.

Lemma peer_drop_gone : forall c s b, gone (fst (step c s (EPeerDrop b))) = true.
Proof.
  intros. unfold step, handle, ifS. destruct (gone s) eqn:E; [exact E|apply conn_lost_sets_gone].
Qed.
Lemma own_drop_gone : forall c s, droppedByMe s = true -> gone (fst (step c s EOwnDrop)) = true.
Proof.
  intros c s H. unfold step, handle, ifS. rewrite H. destruct (gone s) eqn:E; simpl; [exact E|apply conn_lost_sets_gone].
Qed.

(* API calls once the connection is closed *)
Lemma send_after_close : forall c s, st s = CLOSED ->
  step c s ESendMessage = (s, [(now s, Raised ExDisconnected)]) /\
  step c s ESendPing = (s, []) /\ step c s ESendPong = (s, []) /\
  (forall code reason, (match code with Some cd => api_code_ok cd = true | None => reason = None end) ->
     step c s (ESendClose code reason) = (s, [])).
Proof.
  intros c s H. unfold step, handle, send_message, send_ping, send_pong, send_close, send_close_frame, ifS, bindS, say, ret, in_state.
  rewrite H. simpl. repeat split.
  intros code reason Hc. destruct code as [cd|].
  - rewrite Hc. simpl. rewrite andb_false_r. rewrite H. reflexivity.
  - subst reason. simpl. rewrite H. reflexivity.
Qed.

Lemma send_prepared_not_open : forall c s, st s <> OPEN ->
  step c s ESendPrepared = (s, [(now s, Raised ExDisconnected)]).
Proof.
  intros c s H. unfold step, handle, send_message, ifS, say, in_state.
  destruct (st s); simpl; try reflexivity. congruence.
Qed.

Lemma send_message_not_open : forall c s, st s <> OPEN ->
  step c s ESendMessage = (s, [(now s, Raised ExDisconnected)]).
Proof.
  intros c s H. unfold step, handle, send_message, ifS, say, in_state.
  destruct (st s); simpl; try reflexivity. congruence.
Qed.

Lemma onclose_once : forall c evs,
  let s := fst (run c evs) in let log := snd (run c evs) in
  (cbcount log <= 1)%nat /\
  (gone s = false -> cbcount log = 0%nat) /\
  (gone s = true -> cbcount log = 1%nat /\ st s = CLOSED) /\
  (gone s = true -> forall evs2, exists o,
      snd (run c (evs ++ evs2)) = log ++ o /\ forallb is_raise o = true /\ gone (fst (run c (evs ++ evs2))) = true).
Proof.
  intros c evs. cbv zeta. pose proof (gone_run c evs) as [H1 H2].
  split; [|split; [exact H1|split]].
  - destruct (gone (fst (run c evs))); [destruct (H2 eq_refl) as [_ H]; rewrite H; auto | rewrite (H1 eq_refl); auto].
  - intro Hg. destruct (H2 Hg). auto.
  - intros Hg evs2. destruct (H2 Hg) as [Hst _].
    rewrite run_app. rewrite run_from_log. simpl.
    destruct (dead_run c _ evs2 Hst Hg) as [Ha Hb]. eexists. split; [reflexivity|]. auto.
Qed.

Lemma one_close_frame : forall c evs,
  let log := snd (run c evs) in
  (length (filter is_closef log) <= 1)%nat /\
  (forall l1 x l2, log = l1 ++ x :: l2 -> is_closef x = true -> forallb (fun o => negb (is_frame o)) l2 = true).
Proof.
  intros c evs. cbv zeta. destruct (cf_run c evs) as (H & _ & _). split.
  - eapply wc_count; eauto.
  - intros l1 x l2 E Hx. rewrite E in H. eapply wc_split; eauto.
Qed.

(* every close frame written carries no code or a code that may legally appear on the wire (RFC list above) *)
Definition wire_legal_out (o : out) : Prop :=
  match snd o with WClose _ (Some cd) _ => wire_legal cd | _ => True end.
Lemma legal_run_wire : forall c evs, Forall ev_wf evs -> Forall wire_legal_out (snd (run c evs)).
Proof.
  intros c evs H. pose proof (legal_run c evs H) as HL. eapply Forall_impl; [|exact HL].
  intros [t o] Ho. unfold close_legal, wire_legal_out in *. simpl in *. destruct o; auto.
  destruct code as [cd|]; auto. destruct o; destruct Ho as [Hc _]; apply accepted_code_wire_legal; auto.
  apply api_code_wire_ok. exact Hc.
Qed.
