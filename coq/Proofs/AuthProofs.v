(* Proofs about Model/Auth.v. *)
From Coq Require Import NArith ZArith List Bool Lia String.
From AV Require Import Model.Auth.
Import ListNotations.
Open Scope N_scope.
Local Notation length := List.length.

Ltac Zify.zify_post_hook ::= Z.to_euclidean_division_equations.

(* ---------------------------------------------------------------------------------------------- *)
(* generic *)
Lemma list_eqb_refl a : list_eqb a a = true.
Proof. induction a as [|x a IH]; cbn; [reflexivity|]. now rewrite N.eqb_refl, IH. Qed.

Lemma list_eqb_eq a b : list_eqb a b = true <-> a = b.
Proof.
  split; [|intros ->; apply list_eqb_refl].
  revert b; induction a as [|x a IH]; intros [|y b]; cbn; try discriminate; [reflexivity|].
  intros H. apply andb_prop in H as [H1 H2]. apply N.eqb_eq in H1. apply IH in H2. now subst.
Qed.

Lemma list_eqb_neq a b : list_eqb a b = false <-> a <> b.
Proof.
  split.
  - intros H E. apply list_eqb_eq in E. congruence.
  - intros H. destruct (list_eqb a b) eqn:E; [|reflexivity]. apply list_eqb_eq in E. contradiction.
Qed.

Lemma bind_ok {A B} (r : result A) (f : A -> result B) a : r = Ok a -> bind r f = f a.
Proof. now intros ->. Qed.

Lemma bytes_ok_app a b : bytes_ok a -> bytes_ok b -> bytes_ok (a ++ b).
Proof. unfold bytes_ok. rewrite Forall_app. tauto. Qed.

Lemma list3_ind (P : list N -> Prop) :
  P [] -> (forall a, P [a]) -> (forall a b, P [a; b]) -> (forall a b c r, P r -> P (a :: b :: c :: r)) ->
  forall l, P l.
Proof.
  intros H0 H1 H2 H3.
  fix IH 1. intros [|a [|b [|c r]]]; [exact H0 | apply H1 | apply H2 | apply H3, IH].
Qed.

Lemma list2_ind (P : list N -> Prop) :
  P [] -> (forall a, P [a]) -> (forall a b r, P r -> P (a :: b :: r)) -> forall l, P l.
Proof.
  intros H0 H1 H2. fix IH 1. intros [|a [|b r]]; [exact H0 | apply H1 | apply H2, IH].
Qed.

(* ---------------------------------------------------------------------------------------------- *)
(* util.xor *)
Lemma lxor_lt_256 a b : a < 256 -> b < 256 -> N.lxor a b < 256.
Proof.
  intros Ha Hb.
  destruct (N.eq_dec (N.lxor a b) 0) as [->|Hz]; [lia|].
  apply N.log2_lt_pow2 with (b := 8); [lia|].
  eapply N.le_lt_trans; [apply N.log2_lxor|].
  destruct (N.eq_dec a 0) as [->|Ha0]; destruct (N.eq_dec b 0) as [->|Hb0]; cbn [N.log2 N.max]; try lia.
  - change (N.max 0 (N.log2 b)) with (N.max (N.log2 0) (N.log2 b)). apply N.max_lub_lt; [cbn; lia|]. apply N.log2_lt_pow2; lia.
  - apply N.max_lub_lt; [apply N.log2_lt_pow2; lia | cbn; lia].
  - apply N.max_lub_lt; apply N.log2_lt_pow2; lia.
Qed.

Lemma xor_zip_length a b : length a = length b -> length (xor_zip a b) = length a.
Proof.
  revert b; induction a as [|x a IH]; intros [|y b]; cbn; try discriminate; [reflexivity|].
  intros H. f_equal. apply IH. now injection H.
Qed.

Lemma xor_zip_invol a b : length a = length b -> xor_zip (xor_zip a b) b = a.
Proof.
  revert b; induction a as [|x a IH]; intros [|y b]; cbn; try discriminate; [reflexivity|].
  intros H. rewrite IH by now injection H.
  now rewrite N.lxor_assoc, N.lxor_nilpotent, N.lxor_0_r.
Qed.

Lemma xor_zip_comm a b : xor_zip a b = xor_zip b a.
Proof.
  revert b; induction a as [|x a IH]; intros [|y b]; cbn; try reflexivity.
  now rewrite IH, N.lxor_comm.
Qed.

Lemma xor_zip_assoc a b c : xor_zip (xor_zip a b) c = xor_zip a (xor_zip b c).
Proof.
  revert b c; induction a as [|x a IH]; intros [|y b] [|z c]; cbn; try reflexivity.
  now rewrite IH, N.lxor_assoc.
Qed.

Lemma xor_zip_zero a : xor_zip a (repeat 0 (length a)) = a.
Proof. induction a as [|x a IH]; cbn; [reflexivity|]. now rewrite N.lxor_0_r, IH. Qed.

Lemma xor_zip_self a : xor_zip a a = repeat 0 (length a).
Proof. induction a as [|x a IH]; cbn; [reflexivity|]. now rewrite N.lxor_nilpotent, IH. Qed.

Lemma xor_zip_bytes_ok a b : bytes_ok a -> bytes_ok b -> bytes_ok (xor_zip a b).
Proof.
  unfold bytes_ok. intros Ha; revert b; induction Ha as [|x a Hx Ha IH]; intros b Hb; cbn; [constructor|].
  destruct Hb as [|y b Hy Hb]; constructor; [now apply lxor_lt_256 | now apply IH].
Qed.

Lemma xor_ok a b : length a = length b -> xor a b = Ok (xor_zip a b).
Proof. intros H. unfold xor. now rewrite H, Nat.eqb_refl. Qed.

Lemma xor_raise a b : length a <> length b -> xor a b = Raise PlainException.
Proof. intros H. unfold xor. apply Nat.eqb_neq in H. now rewrite H. Qed.

Lemma xor_ok_iff a b c : xor a b = Ok c <-> length a = length b /\ c = xor_zip a b.
Proof.
  unfold xor. destruct (Nat.eqb (length a) (length b)) eqn:E.
  - apply Nat.eqb_eq in E. split; [intros [= <-]; now split | intros [_ ->]; reflexivity].
  - apply Nat.eqb_neq in E. split; [discriminate | intros [H _]; contradiction].
Qed.

(* xor (xor a b) b = a, in the result monad, exactly when the lengths agree *)
Lemma xor_involutive a b : length a = length b -> (c <- xor a b ;; xor c b) = Ok a.
Proof.
  intros H. rewrite (xor_ok a b H). cbn [bind].
  rewrite xor_ok by (rewrite xor_zip_length; assumption).
  now rewrite xor_zip_invol.
Qed.

Lemma xor_comm a b : xor a b = xor b a.
Proof.
  unfold xor. rewrite (Nat.eqb_sym (length b) (length a)), xor_zip_comm. reflexivity.
Qed.

Lemma xor_length a b c : xor a b = Ok c -> length c = length a /\ length c = length b.
Proof. intros H. apply xor_ok_iff in H as [H ->]. rewrite xor_zip_length by assumption. split; congruence. Qed.

(* ---------------------------------------------------------------------------------------------- *)
(* hex *)
Lemma unhex_hex n : n < 16 -> unhexdigit (hexdigit n) = Some n.
Proof.
  intros H.
  assert (n = 0 \/ n = 1 \/ n = 2 \/ n = 3 \/ n = 4 \/ n = 5 \/ n = 6 \/ n = 7 \/ n = 8 \/ n = 9 \/ n = 10 \/ n = 11
          \/ n = 12 \/ n = 13 \/ n = 14 \/ n = 15) as E by lia.
  repeat (destruct E as [->|E]; [reflexivity|]). subst; reflexivity.
Qed.

Lemma b2a_hex_app a b : b2a_hex (a ++ b) = b2a_hex a ++ b2a_hex b.
Proof. induction a as [|x a IH]; cbn; [reflexivity|]. now rewrite IH. Qed.

Lemma b2a_hex_length b : length (b2a_hex b) = (2 * length b)%nat.
Proof. induction b as [|x b IH]; cbn; [reflexivity|]. rewrite IH. lia. Qed.

Lemma hex_roundtrip b : bytes_ok b -> a2b_hex (b2a_hex b) = Ok b.
Proof.
  induction 1 as [|x b Hx Hb IH]; [reflexivity|]. cbn beta in Hx.
  cbn [b2a_hex a2b_hex].
  rewrite !unhex_hex by lia.
  rewrite IH. cbn [bind]. f_equal. f_equal. lia.
Qed.

Ltac range E := let A := fresh in let B := fresh in apply andb_prop in E as [A B]; apply N.leb_le in A, B.

Lemma unhexdigit_lt c v : unhexdigit c = Some v -> v < 16.
Proof.
  unfold unhexdigit.
  destruct ((48 <=? c) && (c <=? 57)) eqn:E1; [intros [= <-]; range E1; lia|].
  destruct ((97 <=? c) && (c <=? 102)) eqn:E2; [intros [= <-]; range E2; lia|].
  destruct ((65 <=? c) && (c <=? 70)) eqn:E3; [intros [= <-]; range E3; lia|discriminate].
Qed.

Lemma a2b_hex_ok s : forall b, a2b_hex s = Ok b -> length s = (2 * length b)%nat /\ bytes_ok b.
Proof.
  induction s as [| |h l r IH] using list2_ind; intros b.
  - cbn. intros [= <-]. split; [reflexivity|constructor].
  - cbn. discriminate.
  - cbn [a2b_hex]. destruct (unhexdigit h) as [x|] eqn:Eh; [|discriminate].
    destruct (unhexdigit l) as [y|] eqn:El; [|discriminate].
    destruct (a2b_hex r) as [rest|e] eqn:Er; cbn [bind]; [|discriminate].
    intros [= <-]. destruct (IH rest eq_refl) as [IH1 IH2].
    split; [cbn [length]; lia|].
    constructor; [|exact IH2].
    apply unhexdigit_lt in Eh. apply unhexdigit_lt in El. lia.
Qed.

(* ---------------------------------------------------------------------------------------------- *)
(* base64 *)
Fixpoint allN (f : N -> bool) (n : nat) : bool :=
  match n with O => true | S k => f (N.of_nat k) && allN f k end.
Lemma allN_spec f n : allN f n = true -> forall i, (N.to_nat i < n)%nat -> f i = true.
Proof.
  induction n as [|k IH]; intros H i Hi; [lia|].
  cbn [allN] in H. apply andb_prop in H as [H1 H2].
  destruct (Nat.eq_dec (N.to_nat i) k) as [E|E].
  - subst k. now rewrite N2Nat.id in H1.
  - apply IH; [assumption|lia].
Qed.

Lemma b64rev_char i : i < 64 -> b64rev (b64char i) = Some i /\ (b64char i =? 61) = false.
Proof.
  intros Hi.
  assert (allN (fun i => match b64rev (b64char i) with Some j => (j =? i) | None => false end
                         && negb (b64char i =? 61)) 64 = true) as H by (vm_compute; reflexivity).
  pose proof (allN_spec _ _ H i ltac:(lia)) as Hs. cbn beta in Hs.
  apply andb_prop in Hs as [H1 H2].
  destruct (b64rev (b64char i)) as [j|]; [|discriminate].
  apply N.eqb_eq in H1. subst j. split; [reflexivity|]. now apply negb_true_iff in H2.
Qed.

Ltac b64step :=
  match goal with
  | |- context [b64char ?i] =>
    let H := fresh in
    assert (i < 64) as H by lia;
    destruct (b64rev_char i H) as [? ?]
  end.

Lemma a2b_loop_encode b : bytes_ok b -> forall l p, a2b_loop (b64encode b) 0 l p = Ok b.
Proof.
  induction b as [|a|a b|a b c r IH] using list3_ind; intros Hb l p.
  - reflexivity.
  - apply Forall_inv in Hb. cbn beta in Hb.
    cbn [b64encode a2b_loop].
    destruct (b64rev_char (a / 4) ltac:(lia)) as [R1 E1].
    destruct (b64rev_char ((a mod 4) * 16) ltac:(lia)) as [R2 E2].
    rewrite E1, R1. cbn [N.eqb]. rewrite E2, R2.
    cbn. f_equal. f_equal. lia.
  - pose proof (Forall_inv Hb) as Ha. pose proof (Forall_inv (Forall_inv_tail Hb)) as Hb'. cbn beta in Ha, Hb'.
    cbn [b64encode a2b_loop].
    destruct (b64rev_char (a / 4) ltac:(lia)) as [R1 E1].
    destruct (b64rev_char ((a mod 4) * 16 + b / 16) ltac:(lia)) as [R2 E2].
    destruct (b64rev_char ((b mod 16) * 4) ltac:(lia)) as [R3 E3].
    rewrite E1, R1. cbn [N.eqb]. rewrite E2, R2. cbn [N.eqb Pos.eqb]. rewrite E3, R3.
    cbn. f_equal. f_equal; [lia|]. f_equal. lia.
  - pose proof (Forall_inv Hb) as Ha. pose proof (Forall_inv (Forall_inv_tail Hb)) as Hb'. cbn beta in Ha, Hb'.
    pose proof (Forall_inv (Forall_inv_tail (Forall_inv_tail Hb))) as Hc. cbn beta in Hc.
    pose proof (Forall_inv_tail (Forall_inv_tail (Forall_inv_tail Hb))) as Hr.
    cbn [b64encode a2b_loop].
    destruct (b64rev_char (a / 4) ltac:(lia)) as [R1 E1].
    destruct (b64rev_char ((a mod 4) * 16 + b / 16) ltac:(lia)) as [R2 E2].
    destruct (b64rev_char ((b mod 16) * 4 + c / 64) ltac:(lia)) as [R3 E3].
    destruct (b64rev_char (c mod 64) ltac:(lia)) as [R4 E4].
    rewrite E1, R1. cbn [N.eqb]. rewrite E2, R2. cbn [N.eqb Pos.eqb]. rewrite E3, R3. cbn [N.eqb Pos.eqb].
    rewrite E4, R4. cbn [N.eqb Pos.eqb].
    rewrite (IH Hr). cbn [bind]. f_equal. f_equal; [lia|]. f_equal; [lia|]. f_equal. lia.
Qed.

Lemma base64_roundtrip b : bytes_ok b -> a2b_base64 (b64encode b) = Ok b.
Proof. intros H. now apply a2b_loop_encode. Qed.

Lemma b64encode_ascii b : bytes_ok b -> forallb (fun c => c <? 128) (b64encode b) = true.
Proof.
  assert (forall i, i < 64 -> (b64char i <? 128) = true) as Hc.
  { intros i Hi.
    assert (allN (fun i => b64char i <? 128) 64 = true) as H by (vm_compute; reflexivity).
    apply (allN_spec _ _ H). lia. }
  induction b as [|a|a b|a b c r IH] using list3_ind; intros Hb.
  - reflexivity.
  - apply Forall_inv in Hb. cbn [b64encode forallb]. rewrite !Hc by lia. reflexivity.
  - pose proof (Forall_inv Hb) as Ha. pose proof (Forall_inv (Forall_inv_tail Hb)) as Hb'. cbn beta in Ha, Hb'.
    cbn [b64encode forallb]. rewrite !Hc by lia. reflexivity.
  - pose proof (Forall_inv Hb) as Ha. pose proof (Forall_inv (Forall_inv_tail Hb)) as Hb'. cbn beta in Ha, Hb'.
    pose proof (Forall_inv (Forall_inv_tail (Forall_inv_tail Hb))) as Hc'. cbn beta in Hc'.
    pose proof (Forall_inv_tail (Forall_inv_tail (Forall_inv_tail Hb))) as Hr.
    cbn [b64encode forallb]. rewrite !Hc by lia. cbn [andb]. now apply IH.
Qed.

(* base64.b64decode of the text the code produced, whether it travels as str or as bytes *)
Lemma b64decode_encode_str b : bytes_ok b -> b64decode (VStr (b64encode b)) = Ok b.
Proof.
  intros H. unfold b64decode, ascii_arg. rewrite b64encode_ascii by assumption. cbn [bind].
  now apply base64_roundtrip.
Qed.
Lemma b64decode_encode_bytes b : bytes_ok b -> b64decode (VBytes (b64encode b)) = Ok b.
Proof. intros H. now apply base64_roundtrip. Qed.

(* ---------------------------------------------------------------------------------------------- *)
(* WAMP-CRA: the type dispatch of on_challenge -> derive_key -> pbkdf2 -> compute_wcs collapses to the
   router-side computation, for every oracle *)
Section CraProofs.
  Variable HMAC256 : bytes -> bytes -> bytes.
  Variable PBKDF2 : bytes -> bytes -> N -> N -> result bytes.

  Lemma cra_on_challenge_spec secret salted challenge :
    cra_on_challenge HMAC256 PBKDF2 secret salted challenge =
      (su <- utf8_encode secret ;;
       sa <- match salted with
             | None => Ok None
             | Some (salt, it, kl) => s <- to_bytes_utf8 salt ;; Ok (Some (s, it, kl))
             end ;;
       cu <- (match sa with
              | Some (s, it, kl) => match PBKDF2 su s it kl with Ok _ => utf8_encode challenge | Raise e => Raise e end
              | None => utf8_encode challenge
              end) ;;
       cra_reference HMAC256 PBKDF2 su sa cu).
  Proof.
    unfold cra_on_challenge, cra_reference, derive_key, compute_wcs, pbkdf2.
    destruct (utf8_encode secret) as [su|e]; cbn [bind]; [|reflexivity].
    destruct salted as [[[salt it] kl]|]; cbn [bind to_bytes_utf8].
    - destruct (to_bytes_utf8 salt) as [s|e]; cbn [bind]; [|reflexivity].
      destruct (PBKDF2 su s it kl) as [dk|e]; cbn [bind]; [|reflexivity].
      destruct (utf8_encode challenge) as [cu|e]; cbn [bind]; reflexivity.
    - destruct (utf8_encode challenge) as [cu|e]; cbn [bind]; reflexivity.
  Qed.

  (* the usual case spelled out: everything encodable, PBKDF2 succeeds *)
  Lemma cra_unsalted secret challenge su cu :
    utf8_encode secret = Ok su -> utf8_encode challenge = Ok cu ->
    cra_on_challenge HMAC256 PBKDF2 secret None challenge = Ok (b64encode (HMAC256 su cu)).
  Proof. intros Hs Hc. rewrite cra_on_challenge_spec, Hs. cbn [bind]. rewrite Hc. reflexivity. Qed.

  Lemma cra_salted secret challenge salt it kl su cu sa dk :
    utf8_encode secret = Ok su -> utf8_encode challenge = Ok cu -> to_bytes_utf8 salt = Ok sa ->
    PBKDF2 su sa it kl = Ok dk ->
    cra_on_challenge HMAC256 PBKDF2 secret (Some (salt, it, kl)) challenge
      = Ok (b64encode (HMAC256 (b64encode dk) cu)).
  Proof.
    intros Hs Hc Hsa Hk. rewrite cra_on_challenge_spec, Hs. cbn [bind]. rewrite Hsa. cbn [bind].
    unfold cra_reference. rewrite Hk, Hc. cbn [bind]. reflexivity.
  Qed.

  (* the router, comparing the reply with its own computation, accepts; and the MAC is recoverable from the text *)
  Lemma cra_interop secret salted challenge reply :
    (forall k m, bytes_ok (HMAC256 k m)) ->
    cra_on_challenge HMAC256 PBKDF2 secret salted challenge = Ok reply ->
    exists su sa cu key,
      utf8_encode secret = Ok su /\ utf8_encode challenge = Ok cu /\
      cra_reference HMAC256 PBKDF2 su sa cu = Ok reply /\
      reply = b64encode (HMAC256 key cu) /\ a2b_base64 reply = Ok (HMAC256 key cu) /\
      match salted, sa with
      | None, None => key = su
      | Some (salt, it, kl), Some (s, it', kl') =>
        to_bytes_utf8 salt = Ok s /\ it' = it /\ kl' = kl /\ exists dk, PBKDF2 su s it kl = Ok dk /\ key = b64encode dk
      | _, _ => False
      end.
  Proof.
    intros Hok. rewrite cra_on_challenge_spec.
    destruct (utf8_encode secret) as [su|e]; cbn [bind]; [|discriminate].
    destruct salted as [[[salt it] kl]|]; cbn [bind].
    - destruct (to_bytes_utf8 salt) as [s|e]; cbn [bind]; [|discriminate].
      destruct (PBKDF2 su s it kl) as [dk|e] eqn:Ek; cbn [bind]; [|discriminate].
      destruct (utf8_encode challenge) as [cu|e]; cbn [bind]; [|discriminate].
      unfold cra_reference. rewrite Ek. cbn [bind]. intros [= <-].
      exists su, (Some (s, it, kl)), cu, (b64encode dk). rewrite Ek. cbn [bind].
      repeat split; try reflexivity; [now apply base64_roundtrip|]. exists dk. now split.
    - destruct (utf8_encode challenge) as [cu|e]; cbn [bind]; [|discriminate].
      unfold cra_reference. cbn [bind]. intros [= <-].
      exists su, None, cu, su. repeat split; try reflexivity. now apply base64_roundtrip.
  Qed.
End CraProofs.

(* ---------------------------------------------------------------------------------------------- *)
(* TOTP *)
Lemma fmt_06d_spec t : t < 1000000 ->
  length (fmt_06d t) = 6%nat /\ Forall is_digit (fmt_06d t) /\ dec_value (fmt_06d t) = t.
Proof.
  intros H. unfold fmt_06d. apply N.ltb_lt in H. rewrite H. apply N.ltb_lt in H.
  split; [reflexivity|]. split.
  - unfold is_digit. repeat constructor; lia.
  - unfold dec_value. cbn [fold_left].
    replace (t / 100000) with (t / 10 / 10 / 10 / 10 / 10) by (rewrite !N.div_div by lia; reflexivity).
    replace (t / 10000) with (t / 10 / 10 / 10 / 10) by (rewrite !N.div_div by lia; reflexivity).
    replace (t / 1000) with (t / 10 / 10 / 10) by (rewrite !N.div_div by lia; reflexivity).
    replace (t / 100) with (t / 10 / 10) by (rewrite !N.div_div by lia; reflexivity).
    pose proof (N.div_mod t 10 ltac:(lia)) as E0. set (q1 := t / 10) in *.
    pose proof (N.div_mod q1 10 ltac:(lia)) as E1. set (q2 := q1 / 10) in *.
    pose proof (N.div_mod q2 10 ltac:(lia)) as E2. set (q3 := q2 / 10) in *.
    pose proof (N.div_mod q3 10 ltac:(lia)) as E3. set (q4 := q3 / 10) in *.
    pose proof (N.div_mod q4 10 ltac:(lia)) as E4. set (q5 := q4 / 10) in *.
    generalize dependent (t mod 10). generalize dependent (q1 mod 10). generalize dependent (q2 mod 10).
    generalize dependent (q3 mod 10). generalize dependent (q4 mod 10). intros. clearbody q1 q2 q3 q4 q5. lia.
Qed.

Lemma be_num_snoc l x : be_num (l ++ [x]) = be_num l * 256 + x.
Proof. unfold be_num. now rewrite fold_left_app. Qed.

Lemma be_bytes_spec w n :
  length (be_bytes w n) = w /\ bytes_ok (be_bytes w n) /\ be_num (be_bytes w n) = n mod 256 ^ N.of_nat w.
Proof.
  revert n; induction w as [|w IH]; intros n.
  - cbn. repeat split; [constructor|]. now rewrite N.mod_1_r.
  - destruct (IH (n / 256)) as (I1 & I2 & I3). cbn [be_bytes]. split; [rewrite app_length, I1; cbn; lia|]. split.
    + apply bytes_ok_app; [exact I2|]. repeat constructor. apply N.mod_lt. lia.
    + rewrite be_num_snoc, I3. rewrite Nat2N.inj_succ, N.pow_succ_r'.
      rewrite (N.mod_mul_r n 256 (256 ^ N.of_nat w)) by (try apply N.pow_nonzero; lia). lia.
Qed.

Lemma pack_Q_spec z : (0 <= z < 18446744073709551616)%Z ->
  exists msg, pack_Q z = Ok msg /\ length msg = 8%nat /\ bytes_ok msg /\ be_num msg = Z.to_N z.
Proof.
  intros Hz. unfold pack_Q.
  replace ((0 <=? z)%Z && (z <? 18446744073709551616)%Z) with true
    by (symmetry; apply andb_true_intro; split; [apply Z.leb_le | apply Z.ltb_lt]; lia).
  eexists. split; [reflexivity|].
  destruct (be_bytes_spec 8 (Z.to_N z)) as (H1 & H2 & H3). repeat split; try assumption.
  rewrite H3. apply N.mod_small. change (256 ^ N.of_nat 8) with 18446744073709551616. lia.
Qed.

Lemma pack_Q_range z : ~ (0 <= z < 18446744073709551616)%Z -> pack_Q z = Raise StructError.
Proof.
  intros Hz. unfold pack_Q.
  destruct ((0 <=? z)%Z && (z <? 18446744073709551616)%Z) eqn:E; [|reflexivity].
  apply andb_prop in E as [A B]. apply Z.leb_le in A. apply Z.ltb_lt in B. lia.
Qed.

Lemma four_at (l : bytes) (a : nat) : (a + 4 <= length l)%nat ->
  exists w x y z, firstn 4 (skipn a l) = [w; x; y; z].
Proof.
  intros H. assert (length (firstn 4 (skipn a l)) = 4%nat) as HL by (rewrite firstn_length, skipn_length; lia).
  destruct (firstn 4 (skipn a l)) as [|w [|x [|y [|z [|? ?]]]]]; try discriminate. now exists w, x, y, z.
Qed.

Section TotpProofs.
  Variable HMAC1 : bytes -> bytes -> bytes.
  Hypothesis HMAC1_len : forall k m, length (HMAC1 k m) = 20%nat.

  Lemma totp_spec secret key now off :
    b32decode secret = Ok key ->
    (0 <= off + now / 30 < 18446744073709551616)%Z ->
    exists msg,
      pack_Q (off + now / 30) = Ok msg /\ length msg = 8%nat /\ bytes_ok msg /\ be_num msg = Z.to_N (off + now / 30) /\
      let hs := HMAC1 key msg in
      let o := nth 19 hs 0 mod 16 in
      o <= 15 /\ (N.to_nat o + 4 <= length hs)%nat /\
      compute_totp_at HMAC1 secret now off = Ok (fmt_06d (rfc4226_dt hs mod 10 ^ 6)) /\
      length (fmt_06d (rfc4226_dt hs mod 10 ^ 6)) = 6%nat /\
      Forall is_digit (fmt_06d (rfc4226_dt hs mod 10 ^ 6)) /\
      dec_value (fmt_06d (rfc4226_dt hs mod 10 ^ 6)) = rfc4226_dt hs mod 10 ^ 6.
  Proof.
    intros Hk Hz.
    destruct (pack_Q_spec _ Hz) as (msg & Hp & Hl & Hb & Hv).
    exists msg. repeat (split; [assumption|]).
    cbv zeta.
    set (hs := HMAC1 key msg). set (o := nth 19 hs 0 mod 16).
    assert (o <= 15) as Ho by (unfold o; pose proof (N.mod_lt (nth 19 hs 0) 16 ltac:(lia)); lia).
    assert (length hs = 20%nat) as Hlen by apply HMAC1_len.
    split; [exact Ho|]. split; [lia|].
    assert (rfc4226_dt hs mod 10 ^ 6 < 1000000) as Hlt by (apply N.mod_lt; lia).
    destruct (fmt_06d_spec _ Hlt) as (F1 & F2 & F3).
    split; [|now repeat split].
    unfold compute_totp_at. rewrite Hk. cbn [bind]. rewrite Hp. cbn [bind]. fold hs.
    destruct (nth_error hs 19) as [last|] eqn:En.
    2:{ apply nth_error_None in En. lia. }
    assert (nth 19 hs 0 = last) as Hlast by (apply nth_error_nth with (d := 0) in En; exact En).
    assert (N.land 15 last = o) as Hland.
    { unfold o. rewrite Hlast, N.land_comm. change 15 with (N.ones 4). now rewrite N.land_ones. }
    rewrite Hland. unfold slice. replace (o + 4 - o) with 4 by lia.
    change (N.to_nat 4) with 4%nat.
    destruct (four_at hs (N.to_nat o) ltac:(lia)) as (w & x & y & z & E4).
    rewrite E4. cbn [unpack_I bind].
    f_equal. f_equal. unfold rfc4226_dt. fold o. rewrite E4.
    change 2147483647 with (N.ones 31). rewrite N.land_ones.
    unfold be_num. cbn [fold_left]. reflexivity.
  Qed.

  (* every way compute_totp can leave through an exception *)
  Lemma totp_errors secret now off :
    (forall e, b32decode secret = Raise e -> compute_totp_at HMAC1 secret now off = Raise e) /\
    (forall key, b32decode secret = Ok key -> ~ (0 <= off + now / 30 < 18446744073709551616)%Z ->
                 compute_totp_at HMAC1 secret now off = Raise StructError).
  Proof.
    split.
    - intros e He. unfold compute_totp_at. now rewrite He.
    - intros key Hk Hz. unfold compute_totp_at. rewrite Hk. cbn [bind]. now rewrite (pack_Q_range _ Hz).
  Qed.

  Lemma check_totp_spec secret ticket now key :
    b32decode secret = Ok key ->
    (1 <= now / 30 < 18446744073709551615)%Z ->
    exists t0 t1 t2,
      compute_totp_at HMAC1 secret now 0 = Ok t0 /\
      compute_totp_at HMAC1 secret now 1 = Ok t1 /\
      compute_totp_at HMAC1 secret now (-1) = Ok t2 /\
      check_totp_at HMAC1 secret ticket now = Ok (list_eqb ticket t0 || list_eqb ticket t1 || list_eqb ticket t2).
  Proof.
    intros Hk Hz.
    destruct (totp_spec secret key now 0 Hk ltac:(lia)) as (m0 & _ & _ & _ & _ & H0). cbv zeta in H0.
    destruct (totp_spec secret key now 1 Hk ltac:(lia)) as (m1 & _ & _ & _ & _ & H1). cbv zeta in H1.
    destruct (totp_spec secret key now (-1) Hk ltac:(lia)) as (m2 & _ & _ & _ & _ & H2). cbv zeta in H2.
    destruct H0 as (_ & _ & H0 & _). destruct H1 as (_ & _ & H1 & _). destruct H2 as (_ & _ & H2 & _).
    eexists _, _, _. split; [exact H0|]. split; [exact H1|]. split; [exact H2|].
    unfold check_totp_at. rewrite H0, H1, H2. cbn [bind].
    generalize (fmt_06d (rfc4226_dt (HMAC1 key m0) mod 10 ^ 6)) (fmt_06d (rfc4226_dt (HMAC1 key m1) mod 10 ^ 6))
               (fmt_06d (rfc4226_dt (HMAC1 key m2) mod 10 ^ 6)). intros a0 a1 a2.
    destruct (list_eqb ticket a0); [reflexivity|].
    destruct (list_eqb ticket a1); reflexivity.
  Qed.
End TotpProofs.

(* ---------------------------------------------------------------------------------------------- *)
(* WAMP-SCRAM *)
Section ScramProofs.
  Variable H256 : bytes -> bytes.
  Variable HMAC256 : bytes -> bytes -> bytes.
  Variable PBKDF2 : bytes -> bytes -> N -> N -> result bytes.
  Variable ARGON2ID : bytes -> bytes -> N -> N -> result bytes.
  Variable SASLPREP : str -> result str.
  Variable REPR_BYTES : bytes -> str.
  (* the only facts about the primitives that the algebra needs: all MACs have one length (and are octets) *)
  Hypothesis HMAC256_len : forall k m k' m', length (HMAC256 k m) = length (HMAC256 k' m').
  Hypothesis HMAC256_ok : forall k m, bytes_ok (HMAC256 k m).

  (* RFC 5802: the server's check H(ClientProof XOR ClientSignature) = StoredKey accepts the client's proof *)
  Lemma scram_proof_accepted salted am :
    exists proof,
      scram_client_proof H256 HMAC256 salted am = Ok proof /\
      proof = xor_zip (HMAC256 salted (lit "Client Key")) (HMAC256 (rfc5802_stored_key H256 HMAC256 salted) am) /\
      bytes_ok proof /\
      xor proof (HMAC256 (rfc5802_stored_key H256 HMAC256 salted) am) = Ok (HMAC256 salted (lit "Client Key")) /\
      rfc5802_server_accepts H256 HMAC256 (rfc5802_stored_key H256 HMAC256 salted) am proof = true.
  Proof.
    unfold scram_client_proof, rfc5802_server_accepts, rfc5802_stored_key.
    set (ck := HMAC256 salted (lit "Client Key")). set (sk := H256 ck). set (sig := HMAC256 sk am).
    assert (length ck = length sig) as HL by apply HMAC256_len.
    exists (xor_zip ck sig). split; [now apply xor_ok|]. split; [reflexivity|].
    split; [apply xor_zip_bytes_ok; apply HMAC256_ok|].
    assert (xor (xor_zip ck sig) sig = Ok ck) as HX.
    { rewrite xor_ok by (rewrite xor_zip_length; assumption). now rewrite xor_zip_invol. }
    split; [exact HX|]. rewrite HX. apply list_eqb_refl.
  Qed.

  Definition salt_text (v : pyval) : str := match v with VStr s => s | VBytes b => REPR_BYTES b end.

  (* everything on_challenge does, in one equation: the error cascade in source order and, on success, the
     RFC 5802 message assembly, the KDF dispatch and the proof *)
  Lemma scram_on_challenge_ok decode_salt password authid cnonce x pw aid am salted :
    utf8_encode password = Ok pw -> SASLPREP authid = Ok aid ->
    ascii_encode (rfc5802_auth_message (rfc5802_client_first_bare aid cnonce)
                                       (rfc5802_server_first (sx_nonce x) (salt_text (sx_salt x)) (sx_iterations x))
                                       (rfc5802_client_final_without_proof (sx_cbind x) (sx_nonce x))) = Ok am ->
    (sx_kdf x = lit "argon2id-13" /\
       (exists m raw_salt raw, sx_memory x = Some m /\ b64decode (sx_salt x) = Ok raw_salt /\
                               ARGON2ID pw raw_salt (sx_iterations x) m = Ok raw /\ salted = b64encode_nopad raw)
     \/ sx_kdf x = lit "pbkdf2" /\ hash_pbkdf2_secret PBKDF2 decode_salt pw (sx_salt x) (sx_iterations x) = Ok salted) ->
    exists proof,
      scram_on_challenge H256 HMAC256 PBKDF2 ARGON2ID SASLPREP REPR_BYTES decode_salt password authid cnonce x
        = Ok (b64encode proof, {| ss_auth_message := am; ss_salted_password := salted |}) /\
      a2b_base64 (b64encode proof) = Ok proof /\
      rfc5802_server_accepts H256 HMAC256 (rfc5802_stored_key H256 HMAC256 salted) am proof = true.
  Proof.
    intros Hpw Haid Ham Hkdf.
    destruct (scram_proof_accepted salted am) as (proof & Hp & _ & Hok & _ & Hacc).
    exists proof. split; [|split; [now apply base64_roundtrip|exact Hacc]].
    unfold scram_on_challenge. rewrite Hpw. cbn [bind]. rewrite Haid. cbn [bind].
    assert (scram_auth_message_str REPR_BYTES aid cnonce x =
            rfc5802_auth_message (rfc5802_client_first_bare aid cnonce)
                                 (rfc5802_server_first (sx_nonce x) (salt_text (sx_salt x)) (sx_iterations x))
                                 (rfc5802_client_final_without_proof (sx_cbind x) (sx_nonce x))) as E.
    { unfold scram_auth_message_str, rfc5802_auth_message, rfc5802_client_first_bare, rfc5802_server_first,
             rfc5802_client_final_without_proof, fmt_val, salt_text.
      repeat rewrite <- app_assoc. reflexivity. }
    rewrite E, Ham. cbn [bind].
    destruct Hkdf as [[Hk (m & rs & raw & Hm & Hs & Ha & ->)] | [Hk Hh]].
    - rewrite Hk, list_eqb_refl, Hm. unfold hash_argon2id13_secret. rewrite Hs. cbn [bind]. rewrite Ha. cbn [bind].
      rewrite Hp. reflexivity.
    - rewrite Hk. replace (list_eqb (lit "pbkdf2") (lit "argon2id-13")) with false by (vm_compute; reflexivity).
      rewrite list_eqb_refl, Hh. cbn [bind]. rewrite Hp. reflexivity.
  Qed.

  (* the pbkdf2 branch as the code stands (decode_salt = false): a str salt - what a router sends - never yields a proof *)
  Lemma scram_pbkdf2_str_salt_never_ok password authid cnonce x s :
    sx_kdf x = lit "pbkdf2" -> sx_salt x = VStr s ->
    forall r, scram_on_challenge H256 HMAC256 PBKDF2 ARGON2ID SASLPREP REPR_BYTES false password authid cnonce x <> Ok r.
  Proof.
    intros Hk Hs r. unfold scram_on_challenge.
    destruct (utf8_encode password) as [pw|e]; cbn [bind]; [|discriminate].
    destruct (SASLPREP authid) as [aid|e]; cbn [bind]; [|discriminate].
    destruct (ascii_encode _) as [am|e]; cbn [bind]; [|discriminate].
    rewrite Hk. replace (list_eqb (lit "pbkdf2") (lit "argon2id-13")) with false by (vm_compute; reflexivity).
    rewrite list_eqb_refl. unfold hash_pbkdf2_secret, pbkdf2. rewrite Hs. cbn [bind]. discriminate.
  Qed.
  Lemma scram_pbkdf2_str_salt_value_error password authid cnonce x s pw aid am :
    sx_kdf x = lit "pbkdf2" -> sx_salt x = VStr s ->
    utf8_encode password = Ok pw -> SASLPREP authid = Ok aid ->
    ascii_encode (scram_auth_message_str REPR_BYTES aid cnonce x) = Ok am ->
    scram_on_challenge H256 HMAC256 PBKDF2 ARGON2ID SASLPREP REPR_BYTES false password authid cnonce x = Raise ValueError.
  Proof.
    intros Hk Hs Hpw Haid Ham. unfold scram_on_challenge. rewrite Hpw. cbn [bind]. rewrite Haid. cbn [bind].
    rewrite Ham. cbn [bind].
    rewrite Hk. replace (list_eqb (lit "pbkdf2") (lit "argon2id-13")) with false by (vm_compute; reflexivity).
    rewrite list_eqb_refl. unfold hash_pbkdf2_secret, pbkdf2. rewrite Hs. reflexivity.
  Qed.

  (* on_welcome: exact characterisation of the three outcomes *)
  Lemma scram_on_welcome_spec st sig :
    (scram_on_welcome HMAC256 st sig = Ok Accept <->
       b64decode sig = Ok (rfc5802_server_signature HMAC256 (rfc5802_server_key HMAC256 (ss_salted_password st)) (ss_auth_message st))) /\
    (scram_on_welcome HMAC256 st sig = Ok Deny <->
       exists alleged, b64decode sig = Ok alleged /\
         alleged <> rfc5802_server_signature HMAC256 (rfc5802_server_key HMAC256 (ss_salted_password st)) (ss_auth_message st)) /\
    (forall e, scram_on_welcome HMAC256 st sig = Raise e <-> b64decode sig = Raise e).
  Proof.
    unfold scram_on_welcome, scram_server_signature, rfc5802_server_signature, rfc5802_server_key.
    set (good := HMAC256 (HMAC256 (ss_salted_password st) (lit "Server Key")) (ss_auth_message st)).
    destruct (b64decode sig) as [alleged|e0]; cbn [bind].
    - destruct (list_eqb good alleged) eqn:E.
      + apply list_eqb_eq in E. subst alleged.
        split; [split; reflexivity|]. split; [|intros e; split; discriminate].
        split; [discriminate|]. intros (a & [= <-] & Hne). contradiction.
      + apply list_eqb_neq in E.
        split; [split; [discriminate|intros [= ->]; contradiction]|].
        split; [|intros e; split; discriminate].
        split; [intros _; exists alleged; split; [reflexivity|congruence]|reflexivity].
    - split; [split; discriminate|]. split.
      + split; [discriminate|]. intros (a & Ha & _). discriminate.
      + intros e. split; intros [= ->]; reflexivity.
  Qed.

  (* the genuine router's WELCOME is accepted, as str and as bytes *)
  Lemma scram_on_welcome_correct st :
    let good := rfc5802_server_signature HMAC256 (rfc5802_server_key HMAC256 (ss_salted_password st)) (ss_auth_message st) in
    scram_on_welcome HMAC256 st (VStr (b64encode good)) = Ok Accept /\
    scram_on_welcome HMAC256 st (VBytes (b64encode good)) = Ok Accept.
  Proof.
    cbv zeta. split; apply scram_on_welcome_spec.
    - apply b64decode_encode_str, HMAC256_ok.
    - apply b64decode_encode_bytes, HMAC256_ok.
  Qed.

  (* any other octet string in the WELCOME, however encoded, is denied *)
  Lemma scram_on_welcome_forged st other :
    bytes_ok other ->
    other <> rfc5802_server_signature HMAC256 (rfc5802_server_key HMAC256 (ss_salted_password st)) (ss_auth_message st) ->
    scram_on_welcome HMAC256 st (VStr (b64encode other)) = Ok Deny.
  Proof.
    intros Hok Hne. apply scram_on_welcome_spec. exists other. split; [now apply b64decode_encode_str|exact Hne].
  Qed.
End ScramProofs.

(* ---------------------------------------------------------------------------------------------- *)
(* WAMP-cryptosign *)
Lemma firstn_skipn_app {A} (a b : list A) n : length a = n -> firstn n (a ++ b) = a /\ skipn n (a ++ b) = b.
Proof.
  intros <-. split.
  - rewrite firstn_app, Nat.sub_diag, firstn_all. cbn. apply app_nil_r.
  - rewrite skipn_app, Nat.sub_diag, skipn_all. reflexivity.
Qed.

Section CryptosignProofs.
  Variable SIGN : bytes -> bytes -> bytes.                 (* seed, message *)
  Variable VERIFY : bytes -> bytes -> bytes -> bool.       (* public key, message, signature *)
  Variable PUB : bytes -> bytes.                           (* seed -> public key *)
  Hypothesis sig_correct : forall seed m, VERIFY (PUB seed) m (SIGN seed m) = true.
  Hypothesis sig_len : forall seed m, length (SIGN seed m) = 64%nat.
  Hypothesis sig_ok : forall seed m, bytes_ok (SIGN seed m).

  Lemma cs_reply_accepted seed data craw cid :
    bytes_ok data -> length data = 32%nat ->
    data = match cid with None => craw | Some c => xor_zip craw c end ->
    cs_router_accepts VERIFY (PUB seed) craw cid (b2a_hex (SIGN seed data) ++ b2a_hex data) = true.
  Proof.
    intros Hd Hl He. unfold cs_router_accepts.
    rewrite app_length, !b2a_hex_length, sig_len, Hl. cbn [Nat.eqb Nat.mul Nat.add andb].
    rewrite <- b2a_hex_app, hex_roundtrip by (apply bytes_ok_app; [apply sig_ok|exact Hd]).
    destruct (firstn_skipn_app (SIGN seed data) data 64 (sig_len _ _)) as [-> ->].
    rewrite sig_correct. cbn [andb]. rewrite <- He. apply list_eqb_refl.
  Qed.

  (* without channel binding the raw challenge is signed *)
  Lemma cs_unbound seed h craw :
    length h = 64%nat -> ascii_arg h = Ok h -> a2b_hex h = Ok craw ->
    cs_format_challenge (VStr h) None None = Ok craw /\
    exists reply, cs_sign_challenge SIGN seed (VStr h) None None = Ok reply /\
                  reply = b2a_hex (SIGN seed craw) ++ b2a_hex craw /\
                  cs_router_accepts VERIFY (PUB seed) craw None reply = true.
  Proof.
    intros Hl Ha Hh.
    assert (cs_format_challenge (VStr h) None None = Ok craw) as Hf.
    { unfold cs_format_challenge. rewrite Hl. cbn [Nat.eqb negb]. rewrite Ha. cbn [bind]. rewrite Hh. reflexivity. }
    split; [exact Hf|]. eexists. split; [unfold cs_sign_challenge; rewrite Hf; reflexivity|]. split; [reflexivity|].
    destruct (a2b_hex_ok _ _ Hh) as [H1 H2].
    apply cs_reply_accepted; [exact H2| lia |reflexivity].
  Qed.

  (* with tls-unique the signed message is challenge XOR channel id, and the router that recomputes it accepts *)
  Lemma cs_bound seed h craw cid :
    length h = 64%nat -> ascii_arg h = Ok h -> a2b_hex h = Ok craw -> length cid = 32%nat -> bytes_ok cid ->
    cs_format_challenge (VStr h) (Some cid) (Some (lit "tls-unique")) = Ok (xor_zip craw cid) /\
    exists reply, cs_sign_challenge SIGN seed (VStr h) (Some cid) (Some (lit "tls-unique")) = Ok reply /\
                  reply = b2a_hex (SIGN seed (xor_zip craw cid)) ++ b2a_hex (xor_zip craw cid) /\
                  cs_router_accepts VERIFY (PUB seed) craw (Some cid) reply = true.
  Proof.
    intros Hl Ha Hh Hc Hcok.
    destruct (a2b_hex_ok _ _ Hh) as [H1 H2].
    assert (length craw = 32%nat) as Hcl by lia.
    assert (cs_format_challenge (VStr h) (Some cid) (Some (lit "tls-unique")) = Ok (xor_zip craw cid)) as Hf.
    { unfold cs_format_challenge. rewrite Hl. cbn [Nat.eqb negb]. rewrite Ha. cbn [bind]. rewrite Hh. cbn [bind].
      rewrite list_eqb_refl, Hc. cbn [Nat.eqb]. apply xor_ok. congruence. }
    split; [exact Hf|]. eexists. split; [unfold cs_sign_challenge; rewrite Hf; reflexivity|]. split; [reflexivity|].
    apply cs_reply_accepted; [now apply xor_zip_bytes_ok | rewrite xor_zip_length; congruence | reflexivity].
  Qed.

End CryptosignProofs.

  Lemma ascii_arg_ok s b : ascii_arg s = Ok b -> b = s.
  Proof. unfold ascii_arg. destruct (forallb _ s); [now intros [= <-]|discriminate]. Qed.

  (* exactly the well-formed challenges are signed; everything else raises *)
  Lemma cs_format_ok_iff ch cid ct d :
    cs_format_challenge ch cid ct = Ok d <->
    exists h craw, ch = VStr h /\ length h = 64%nat /\ ascii_arg h = Ok h /\ a2b_hex h = Ok craw /\
      ((ct = None /\ d = craw) \/
       (ct = Some (lit "tls-unique") /\ exists c, cid = Some c /\ length c = 32%nat /\ d = xor_zip craw c)).
  Proof.
    split.
    - unfold cs_format_challenge. destruct ch as [h|b]; [|discriminate].
      destruct (Nat.eqb (length h) 64) eqn:El; cbn [negb]; [|discriminate]. apply Nat.eqb_eq in El.
      destruct (ascii_arg h) as [hb|e] eqn:Ea; cbn [bind]; [|discriminate].
      pose proof (ascii_arg_ok _ _ Ea) as ->.
      destruct (a2b_hex h) as [craw|e] eqn:Eh; cbn [bind]; [|discriminate].
      destruct ct as [t|].
      + destruct (list_eqb t (lit "tls-unique")) eqn:Et; [|discriminate]. apply list_eqb_eq in Et. subst t.
        destruct cid as [c|]; [|discriminate].
        destruct (Nat.eqb (length c) 32) eqn:Ec; [|discriminate]. apply Nat.eqb_eq in Ec.
        intros Hx. apply xor_ok_iff in Hx as [_ ->].
        exists h, craw. repeat split; try assumption. right. split; [reflexivity|]. exists c. now repeat split.
      + intros [= <-]. exists h, craw. repeat split; try assumption. now left.
    - intros (h & craw & -> & Hl & Ha & Hh & [[-> ->] | [-> (c & -> & Hc & ->)]]).
      + unfold cs_format_challenge. rewrite Hl. cbn [Nat.eqb negb]. rewrite Ha. cbn [bind]. rewrite Hh. reflexivity.
      + destruct (a2b_hex_ok _ _ Hh) as [H1 _].
        unfold cs_format_challenge. rewrite Hl. cbn [Nat.eqb negb]. rewrite Ha. cbn [bind]. rewrite Hh. cbn [bind].
        rewrite list_eqb_refl, Hc. cbn [Nat.eqb]. apply xor_ok. lia.
  Qed.

(* ---------------------------------------------------------------------------------------------- *)
(* Toy oracles satisfying the assumed laws (non-vacuity of the hypotheses; used by the Examples of Props/C19.v) *)
Definition toy_mac (n : nat) (k m : bytes) : bytes :=
  map (fun b => b mod 256) (firstn n (map (fun b => b + 7) k ++ rev m ++ repeat 90 n)).
Lemma toy_mac_len n k m : length (toy_mac n k m) = n.
Proof.
  unfold toy_mac. rewrite map_length, firstn_length, !app_length, repeat_length. lia.
Qed.
Lemma toy_mac_ok n k m : bytes_ok (toy_mac n k m).
Proof.
  unfold toy_mac, bytes_ok. apply Forall_forall. intros x Hx. apply in_map_iff in Hx as (y & <- & _).
  apply N.mod_lt. lia.
Qed.
Definition toy_hash (x : bytes) : bytes := toy_mac 32 [1] x.
(* a toy "signature scheme": signature = 64 octets derived from (seed, message); verify recomputes it *)
Definition toy_pub (seed : bytes) : bytes := seed.
Definition toy_sign (seed m : bytes) : bytes := toy_mac 64 seed m.
Definition toy_verify (pk m sig : bytes) : bool := list_eqb (toy_mac 64 pk m) sig.
Lemma toy_sig_correct seed m : toy_verify (toy_pub seed) m (toy_sign seed m) = true.
Proof. apply list_eqb_refl. Qed.

(* the refutation of pbkdf2 interoperability for the code as it stands needs only ONE family of oracles *)
Definition scram_pbkdf2_interop (decode_salt : bool) : Prop :=
  forall (H256 : bytes -> bytes) (HMAC256 : bytes -> bytes -> bytes)
         (PBKDF2 ARGON2ID : bytes -> bytes -> N -> N -> result bytes) (SASLPREP : str -> result str)
         (REPR_BYTES : bytes -> str),
    (forall k m k' m', length (HMAC256 k m) = length (HMAC256 k' m')) ->
    (forall k m, bytes_ok (HMAC256 k m)) ->
    forall password authid cnonce x s raw_salt pw aid am salted,
      sx_kdf x = lit "pbkdf2" -> sx_salt x = VStr s ->                  (* the salt as a router sends it: base64 text *)
      utf8_encode password = Ok pw -> SASLPREP authid = Ok aid ->
      ascii_encode (rfc5802_auth_message (rfc5802_client_first_bare aid cnonce)
                                         (rfc5802_server_first (sx_nonce x) s (sx_iterations x))
                                         (rfc5802_client_final_without_proof (sx_cbind x) (sx_nonce x))) = Ok am ->
      b64decode (VStr s) = Ok raw_salt -> PBKDF2 pw raw_salt (sx_iterations x) 32 = Ok salted ->
      exists proof,
        scram_on_challenge H256 HMAC256 PBKDF2 ARGON2ID SASLPREP REPR_BYTES decode_salt password authid cnonce x
          = Ok (b64encode proof, {| ss_auth_message := am; ss_salted_password := salted |}) /\
        rfc5802_server_accepts H256 HMAC256 (rfc5802_stored_key H256 HMAC256 salted) am proof = true.

Lemma scram_pbkdf2_interop_decoding : scram_pbkdf2_interop true.
Proof.
  intros H256 HMAC256 PBKDF2 ARGON2ID SASLPREP REPR_BYTES HL HO password authid cnonce x s raw pw aid am salted
         Hk Hs Hpw Haid Ham Hdec Hkdf.
  destruct (scram_on_challenge_ok H256 HMAC256 PBKDF2 ARGON2ID SASLPREP REPR_BYTES HL HO true password authid cnonce x
                                  pw aid am salted Hpw Haid) as (proof & H1 & _ & H3).
  - rewrite Hs. exact Ham.
  - right. split; [exact Hk|]. unfold hash_pbkdf2_secret. rewrite Hs, Hdec. cbn [bind]. exact Hkdf.
  - exists proof. now split.
Qed.

Lemma scram_pbkdf2_interop_as_coded_refuted : ~ scram_pbkdf2_interop false.
Proof.
  intros Hall.
  pose (x := {| sx_nonce := lit "cnSN"; sx_kdf := lit "pbkdf2"; sx_salt := VStr (lit "c2FsdA=="); sx_iterations := 4096;
                sx_memory := None; sx_cbind := [] |}).
  destruct (Hall toy_hash (toy_mac 32) (fun _ _ _ _ => Ok (repeat 1 32)) (fun _ _ _ _ => Raise OracleMissing)
                 (fun s => Ok s) (fun b => b)
                 ltac:(intros; now rewrite !toy_mac_len) (toy_mac_ok 32)
                 (lit "pencil") (lit "user") (lit "cn") x (lit "c2FsdA==") (lit "salt") (lit "pencil") (lit "user")
                 (lit "n=user,r=cn,r=cnSN,s=c2FsdA==,i=4096,c=,r=cnSN") (repeat 1 32)
                 eq_refl eq_refl eq_refl eq_refl ltac:(vm_compute; reflexivity) ltac:(vm_compute; reflexivity) eq_refl)
    as (proof & Hr & _).
  vm_compute in Hr. discriminate.
Qed.

(* ---------------------------------------------------------------------------------------------- *)
(* base32: the fuel of the quanta loop never runs out, so OracleMissing is not an outcome of b32decode *)
Lemma b32_quanta_fuel fuel : forall s acc, (length s < fuel)%nat -> b32_quanta fuel s acc <> Raise OracleMissing.
Proof.
  induction fuel as [|f IH]; intros s acc Hl; [lia|].
  destruct s as [|c r]; [cbn; discriminate|].
  cbn [b32_quanta]. destruct (b32_acc (firstn 8 (c :: r)) 0) as [a|]; [|discriminate].
  assert (length (skipn 8 (c :: r)) < f)%nat as Hs by (rewrite skipn_length; cbn [length] in *; lia).
  specialize (IH (skipn 8 (c :: r)) a Hs).
  destruct (b32_quanta f (skipn 8 (c :: r)) a) as [[d a']|e]; cbn [bind]; [discriminate|].
  intros [= ->]. now apply IH.
Qed.

Lemma b32decode_no_fuel_error s : b32decode s <> Raise OracleMissing.
Proof.
  unfold b32decode, ascii_arg. destruct (forallb _ s); cbn [bind]; [|discriminate].
  destruct (negb (Nat.eqb (Nat.modulo (length s) 8) 0)); [discriminate|].
  pose proof (b32_quanta_fuel (S (length (rstrip_eq s))) (rstrip_eq s) 0 ltac:(lia)) as H.
  destruct (b32_quanta _ _ _) as [[d a]|e]; cbn [bind].
  - destruct (negb _); [discriminate|]. destruct (_ && _); discriminate.
  - intros [= ->]. now apply H.
Qed.

(* ---------------------------------------------------------------------------------------------- *)
(* The AuthScram object over histories of calls: a WELCOME is accepted only in a state whose salted password
   came out of a completed KDF of an earlier CHALLENGE of the same history, and only with that state's signature *)
Section ScramObjProofs.
  Variable H256 : bytes -> bytes.
  Variable HMAC256 : bytes -> bytes -> bytes.
  Variable PBKDF2 : bytes -> bytes -> N -> N -> result bytes.
  Variable ARGON2ID : bytes -> bytes -> N -> N -> result bytes.
  Variable SASLPREP : str -> result str.
  Variable REPR_BYTES : bytes -> str.

  Local Notation on_welcome := (scram_obj_on_welcome HMAC256).
  Local Notation on_challenge := (scram_obj_on_challenge H256 HMAC256 PBKDF2 ARGON2ID SASLPREP REPR_BYTES).
  Local Notation run := (scram_obj_run H256 HMAC256 PBKDF2 ARGON2ID SASLPREP REPR_BYTES).
  Local Notation kdf := (scram_kdf PBKDF2 ARGON2ID).

  Lemma scram_obj_welcome_eval o s alleged sp am :
    b64decode s = Ok alleged -> so_sp o = Some sp -> so_am o = Some am ->
    on_welcome o (Some s) =
      if list_eqb (rfc5802_server_signature HMAC256 (rfc5802_server_key HMAC256 sp) am) alleged then Ok Accept else Ok Deny.
  Proof. intros Hd Hs Ha. unfold scram_obj_on_welcome. rewrite Hd. cbn [bind]. now rewrite Hs, Ha. Qed.

  Lemma scram_obj_welcome_inv o sig v :
    on_welcome o sig = Ok v ->
    exists sp am s alleged, so_sp o = Some sp /\ so_am o = Some am /\ sig = Some s /\ b64decode s = Ok alleged.
  Proof.
    unfold scram_obj_on_welcome. destruct sig as [s|]; [|discriminate].
    destruct (b64decode s) as [alleged|e] eqn:Ed; cbn [bind]; [|discriminate].
    destruct (so_sp o) as [sp|] eqn:Es; [|discriminate]. destruct (so_am o) as [am|] eqn:Ea; [|discriminate].
    intros _. exists sp, am, s, alleged. repeat split; assumption || reflexivity.
  Qed.

  Lemma scram_obj_welcome_spec o sig :
    (on_welcome o sig = Ok Accept <->
       exists sp am s, so_sp o = Some sp /\ so_am o = Some am /\ sig = Some s /\
                       b64decode s = Ok (rfc5802_server_signature HMAC256 (rfc5802_server_key HMAC256 sp) am)) /\
    (on_welcome o sig = Ok Deny <->
       exists sp am s alleged, so_sp o = Some sp /\ so_am o = Some am /\ sig = Some s /\ b64decode s = Ok alleged /\
                               alleged <> rfc5802_server_signature HMAC256 (rfc5802_server_key HMAC256 sp) am).
  Proof.
    split; split.
    - intros H. destruct (scram_obj_welcome_inv _ _ _ H) as (sp & am & s & alleged & Hs & Ha & -> & Hd).
      rewrite (scram_obj_welcome_eval _ _ _ _ _ Hd Hs Ha) in H.
      destruct (list_eqb _ alleged) eqn:E; [|discriminate]. apply list_eqb_eq in E. subst alleged.
      now exists sp, am, s.
    - intros (sp & am & s & Hs & Ha & -> & Hd). rewrite (scram_obj_welcome_eval _ _ _ _ _ Hd Hs Ha).
      now rewrite list_eqb_refl.
    - intros H. destruct (scram_obj_welcome_inv _ _ _ H) as (sp & am & s & alleged & Hs & Ha & -> & Hd).
      rewrite (scram_obj_welcome_eval _ _ _ _ _ Hd Hs Ha) in H.
      destruct (list_eqb _ alleged) eqn:E; [discriminate|]. apply list_eqb_neq in E.
      exists sp, am, s, alleged. repeat split; try assumption. congruence.
    - intros (sp & am & s & alleged & Hs & Ha & -> & Hd & Hne). rewrite (scram_obj_welcome_eval _ _ _ _ _ Hd Hs Ha).
      destruct (list_eqb _ alleged) eqn:E; [|reflexivity]. apply list_eqb_eq in E. congruence.
  Qed.

  (* no challenge completed (an attribute is still unset): every WELCOME, whatever it carries, raises *)
  Lemma scram_obj_unset_raises o sig :
    so_sp o = None \/ so_am o = None -> exists e, on_welcome o sig = Raise e.
  Proof.
    intros H. unfold scram_obj_on_welcome. destruct sig as [s|]; [|now exists KeyError].
    destruct (b64decode s) as [a|e]; cbn [bind]; [|now exists e].
    destruct (so_sp o); [|now exists AttributeError].
    destruct (so_am o); [|now exists AttributeError].
    destruct H; discriminate.
  Qed.

  Lemma scram_fresh_raises sig : exists e, on_welcome scram_fresh sig = Raise e.
  Proof. apply scram_obj_unset_raises. now left. Qed.

  (* what one on_challenge does to the attributes: the nonce is untouched; the salted password is either untouched
     or the output of this challenge's KDF *)
  Lemma scram_obj_on_challenge_state ds password authid x o o' r :
    on_challenge ds password authid x o = (o', r) ->
    so_nonce o' = so_nonce o /\
    (so_sp o' = so_sp o \/
     exists pw salted, utf8_encode password = Ok pw /\ kdf ds pw x = Ok salted /\ so_sp o' = Some salted).
  Proof.
    unfold scram_obj_on_challenge.
    destruct (so_nonce o) as [cn|] eqn:En; [|intros [= <- <-]; split; [congruence|now left]].
    destruct (utf8_encode password) as [pw|e]; [|intros [= <- <-]; split; [congruence|now left]].
    destruct (SASLPREP authid) as [aid|e]; [|intros [= <- <-]; split; [congruence|now left]].
    destruct (ascii_encode _) as [am|e]; [|intros [= <- <-]; split; [congruence|now left]].
    destruct (kdf ds pw x) as [salted|e] eqn:Ek.
    - destruct (scram_client_proof H256 HMAC256 salted am) as [proof|e];
        intros [= <- <-]; cbn [so_nonce so_sp]; (split; [congruence|]); right; exists pw, salted; repeat split; assumption || reflexivity.
    - intros [= <- <-]. cbn [so_nonce so_sp]. split; [congruence|now left].
  Qed.

  (* histories: the salted password of any reachable state is the KDF output of a CHALLENGE of that history *)
  Lemma scram_obj_run_sp ds password authid ops : forall o o' outs,
    run ds password authid o ops = (o', outs) ->
    forall sp, so_sp o' = Some sp ->
      so_sp o = Some sp \/
      exists x pw, In (OpChallenge x) ops /\ utf8_encode password = Ok pw /\ kdf ds pw x = Ok sp.
  Proof.
    induction ops as [|op r IH]; intros o o' outs Hr sp Hsp.
    - cbn in Hr. injection Hr as <- <-. now left.
    - cbn [scram_obj_run] in Hr.
      destruct (scram_obj_step _ _ _ _ _ _ _ _ _ o op) as [o1 out] eqn:Es.
      destruct (run ds password authid o1 r) as [o2 outs2] eqn:Er. injection Hr as <- <-.
      destruct (IH _ _ _ Er sp Hsp) as [H1 | (x & pw & Hin & Hpw & Hk)].
      2:{ right. exists x, pw. split; [now right|now split]. }
      destruct op as [n|x|sig]; cbn [scram_obj_step] in Es.
      + injection Es as <- <-. left. unfold scram_obj_authextra in H1. destruct (so_nonce o); exact H1.
      + destruct (scram_obj_on_challenge_state _ _ _ _ _ _ _ Es) as (_ & [Hsame | (pw & salted & Hpw & Hk & Hs)]).
        * left. congruence.
        * right. exists x, pw. split; [now left|]. split; [exact Hpw|]. congruence.
      + injection Es as <- <-. now left.
  Qed.

  (* the statement of mutual authentication over histories: if, after ANY history of calls on a fresh object, a
     WELCOME is accepted, then the history contains a CHALLENGE whose KDF completed with the state's salted
     password, and the WELCOME carries exactly HMAC (HMAC salted "Server Key") AuthMessage for the state's values *)
  Lemma scram_history_mutual ds password authid ops o' outs sig :
    run ds password authid scram_fresh ops = (o', outs) ->
    on_welcome o' sig = Ok Accept ->
    exists x pw sp am s,
      In (OpChallenge x) ops /\ utf8_encode password = Ok pw /\ kdf ds pw x = Ok sp /\
      so_sp o' = Some sp /\ so_am o' = Some am /\ sig = Some s /\
      b64decode s = Ok (rfc5802_server_signature HMAC256 (rfc5802_server_key HMAC256 sp) am).
  Proof.
    intros Hr Ha. apply scram_obj_welcome_spec in Ha as (sp & am & s & Hsp & Ham & -> & Hd).
    destruct (scram_obj_run_sp _ _ _ _ _ _ _ Hr sp Hsp) as [Hf | (x & pw & Hin & Hpw & Hk)]; [discriminate|].
    exists x, pw, sp, am, s. now repeat split.
  Qed.

  (* a completed on_challenge of the object is the on_challenge of the single-exchange model *)
  Lemma scram_obj_on_challenge_ok ds password authid x o cn reply st :
    so_nonce o = Some cn ->
    scram_on_challenge H256 HMAC256 PBKDF2 ARGON2ID SASLPREP REPR_BYTES ds password authid cn x = Ok (reply, st) ->
    on_challenge ds password authid x o =
      ({| so_nonce := Some cn; so_am := Some (ss_auth_message st); so_sp := Some (ss_salted_password st) |}, Ok reply).
  Proof.
    intros Hn. unfold scram_on_challenge, scram_obj_on_challenge, scram_kdf. rewrite Hn.
    destruct (utf8_encode password) as [pw|e]; cbn [bind]; [|discriminate].
    destruct (SASLPREP authid) as [aid|e]; cbn [bind]; [|discriminate].
    destruct (ascii_encode _) as [am|e]; cbn [bind]; [|discriminate].
    match goal with |- context [bind ?K _] => destruct K as [salted|e] end; cbn [bind]; [|discriminate].
    destruct (scram_client_proof H256 HMAC256 salted am) as [proof|e]; cbn [bind]; [|discriminate].
    intros [= <- <-]. reflexivity.
  Qed.
End ScramObjProofs.

(* ---------------------------------------------------------------------------------------------- *)
(* Mutual authentication through the session: the gate of _SessionShim.onWelcome in front of on_welcome *)
Lemma mem_str_In m l : mem_str m l = true <-> In m l.
Proof.
  induction l as [|x r IH]; cbn; [split; [discriminate|tauto]|].
  rewrite orb_true_iff, IH, list_eqb_eq. split; intros [H|H]; auto.
Qed.

(* the full-strength statement: a session with authenticators configured (none of them anonymous) joins only if
   the WELCOME names a configured authmethod and that authenticator's on_welcome ran and accepted *)
Definition session_join_implies_verified (strict : bool) : Prop :=
  forall (HMAC256 : bytes -> bytes -> bytes) names o authmethod ax,
    mem_str (lit "anonymous") names = false -> mem_str (lit "anonymous-proxy") names = false ->
    session_on_welcome HMAC256 strict (Some names) o authmethod ax = Joined ->
    exists m, authmethod = Some m /\ In m names /\ authenticator_on_welcome HMAC256 o m ax = Ok Accept.

Section SessionProofs.
  Variable HMAC256 : bytes -> bytes -> bytes.

  Lemma session_joined_iff strict configured o authmethod ax :
    session_on_welcome HMAC256 strict configured o authmethod ax = Joined <->
    shim_welcome_gate strict configured authmethod = GateSkip \/
    exists m, shim_welcome_gate strict configured authmethod = GateRun m /\
              authenticator_on_welcome HMAC256 o m ax = Ok Accept.
  Proof.
    unfold session_on_welcome. destruct (shim_welcome_gate strict configured authmethod) as [| | |m].
    - split; [now left|reflexivity].
    - split; [discriminate|]. intros [H|(m & H & _)]; discriminate.
    - split; [discriminate|]. intros [H|(m & H & _)]; discriminate.
    - destruct (authenticator_on_welcome HMAC256 o m ax) as [[|]|e] eqn:E.
      + split; [intros _; right; now exists m|reflexivity].
      + split; [discriminate|]. intros [H|(m' & [= <-] & H)]; [discriminate|]. rewrite E in H. discriminate.
      + split; [discriminate|]. intros [H|(m' & [= <-] & H)]; [discriminate|]. rewrite E in H. discriminate.
  Qed.

  Lemma gate_run_inv strict names authmethod m :
    shim_welcome_gate strict (Some names) authmethod = GateRun m -> authmethod = Some m /\ In m names.
  Proof.
    unfold shim_welcome_gate. destruct authmethod as [m'|].
    - destruct (mem_str m' names) eqn:E; [|discriminate]. intros [= <-]. split; [reflexivity|now apply mem_str_In].
    - destruct strict; [destruct (_ || _)|]; discriminate.
  Qed.

  (* the only way past the gate without an authenticator: WELCOME without authmethod, and only if the gate is the
     lenient one or an anonymous authenticator is configured *)
  Lemma gate_skip_inv strict names authmethod :
    shim_welcome_gate strict (Some names) authmethod = GateSkip ->
    authmethod = None /\
    (strict = false \/ mem_str (lit "anonymous") names = true \/ mem_str (lit "anonymous-proxy") names = true).
  Proof.
    unfold shim_welcome_gate. destruct authmethod as [m'|].
    - destruct (mem_str m' names); discriminate.
    - destruct strict; [|intros _; split; [reflexivity|now left]].
      destruct (mem_str (lit "anonymous") names) eqn:E1; [intros _; split; [reflexivity|right; now left]|].
      destruct (mem_str (lit "anonymous-proxy") names) eqn:E2; [intros _; split; [reflexivity|right; now right]|].
      cbn. discriminate.
  Qed.

  (* scram: what "on_welcome ran and accepted" means for the WELCOME and the object *)
  Lemma scram_session_accept_inv o ax :
    scram_session_on_welcome HMAC256 o ax = Ok Accept <->
    exists v sp am, ax = AxDict (Some (SvText v)) /\ so_sp o = Some sp /\ so_am o = Some am /\
                    b64decode v = Ok (rfc5802_server_signature HMAC256 (rfc5802_server_key HMAC256 sp) am).
  Proof.
    split.
    - destruct ax as [|[[v|]|]]; cbn [scram_session_on_welcome]; try discriminate.
      intros H. apply scram_obj_welcome_spec in H as (sp & am & s & Hs & Ha & [= <-] & Hd). now exists v, sp, am.
    - intros (v & sp & am & -> & Hs & Ha & Hd). cbn [scram_session_on_welcome].
      apply scram_obj_welcome_spec. now exists sp, am, v.
  Qed.
End SessionProofs.

Lemma session_join_verified_strict : session_join_implies_verified true.
Proof.
  intros HMAC256 names o authmethod ax Ha Hp Hj.
  apply session_joined_iff in Hj as [Hs | (m & Hg & Hacc)].
  - apply gate_skip_inv in Hs as (_ & [H | [H | H]]); congruence.
  - apply gate_run_inv in Hg as (-> & Hin). now exists m.
Qed.

(* the gate as it stands in protocol.py (lenient): refuted by WELCOME without authmethod on a fresh scram-only session *)
Lemma session_join_verified_lenient_refuted : ~ session_join_implies_verified false.
Proof.
  intros Hall.
  destruct (Hall (toy_mac 32) [lit "scram"] scram_fresh None AxAbsent eq_refl eq_refl eq_refl) as (m & Hm & _).
  discriminate.
Qed.

(* what does hold of the lenient gate *)
Lemma session_join_lenient_partial (HMAC256 : bytes -> bytes -> bytes) names o authmethod ax :
  session_on_welcome HMAC256 false (Some names) o authmethod ax = Joined ->
  authmethod = None \/
  exists m, authmethod = Some m /\ In m names /\ authenticator_on_welcome HMAC256 o m ax = Ok Accept.
Proof.
  intros Hj. apply session_joined_iff in Hj as [Hs | (m & Hg & Hacc)].
  - left. now apply gate_skip_inv in Hs as (-> & _).
  - right. apply gate_run_inv in Hg as (-> & Hin). now exists m.
Qed.

(* scram-only session, end to end over histories: it joins only on WELCOME(authmethod="scram") whose authextra carries
   text decoding to HMAC (HMAC salted "Server Key") AuthMessage of a state whose salted password came out of a
   completed CHALLENGE of the same history *)
Lemma session_scram_only_mutual
      (H256 : bytes -> bytes) (HMAC256 : bytes -> bytes -> bytes) (PBKDF2 ARGON2ID : bytes -> bytes -> N -> N -> result bytes)
      (SASLPREP : str -> result str) (REPR_BYTES : bytes -> str) ds password authid ops o' outs authmethod ax :
  scram_obj_run H256 HMAC256 PBKDF2 ARGON2ID SASLPREP REPR_BYTES ds password authid scram_fresh ops = (o', outs) ->
  session_on_welcome HMAC256 true (Some [lit "scram"]) o' authmethod ax = Joined ->
  authmethod = Some (lit "scram") /\
  exists x pw sp am v,
    In (OpChallenge x) ops /\ utf8_encode password = Ok pw /\ scram_kdf PBKDF2 ARGON2ID ds pw x = Ok sp /\
    so_sp o' = Some sp /\ so_am o' = Some am /\ ax = AxDict (Some (SvText v)) /\
    b64decode v = Ok (rfc5802_server_signature HMAC256 (rfc5802_server_key HMAC256 sp) am).
Proof.
  intros Hr Hj.
  destruct (session_join_verified_strict HMAC256 [lit "scram"] o' authmethod ax eq_refl eq_refl Hj) as (m & -> & Hin & Hacc).
  destruct Hin as [<-|[]]. split; [reflexivity|].
  unfold authenticator_on_welcome in Hacc. rewrite list_eqb_refl in Hacc.
  apply scram_session_accept_inv in Hacc as (v & sp & am & -> & Hs & Ha & Hd).
  assert (scram_obj_on_welcome HMAC256 o' (Some v) = Ok Accept) as Hw by (apply scram_obj_welcome_spec; now exists sp, am, v).
  destruct (scram_history_mutual _ _ _ _ _ _ _ _ _ _ _ _ _ Hr Hw) as (x & pw & sp' & am' & s & Hin & Hpw & Hk & Hs' & Ha' & [= <-] & Hd').
  exists x, pw, sp', am', v. repeat split; assumption.
Qed.
