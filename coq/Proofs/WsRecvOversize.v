(* C16_no_oversize_delivery: with maxMessagePayloadSize configured (and no compressed message), every delivered message
   is within the limit -- for every stream, segmentation and failure policy. *)
From Coq Require Import NArith List Bool Lia.
From AV Require Import Model.Masker Proofs.MaskerProofs Gen.WsConsts Model.WsRecv Proofs.WsRecvProofs Proofs.WsRecvLimits Proofs.WsRecvSplit.
Import ListNotations.
Open Scope N_scope.

Section WithCodec.
Variable D : Type.
Variable cd : codec D.
Variable cf : cfg.
Hypothesis NOPMC : pmc cf = false.
Notation rstate := (rstate D).
Notation mstate := (mstate D).

(* the bookkeeping invariant of a message under assembly, while the connection has not been failed *)
Definition MInv (c : conn) (m : mstate) (cu : option frame) (mp : N) : Prop :=
  zon D m = false /\
  (failed c = false -> inside D m = true ->
     (0 < maxMsg cf -> mtotal D m <= maxMsg cf) /\
     match cu with
     | Some f => if pd_is_ctl (f_op f) then lenN (mdata D m) = mtotal D m /\ fdata D m = []
                 else lenN (mdata D m) + f_len f = mtotal D m /\ lenN (fdata D m) = mp /\ mp <= f_len f
     | None => lenN (mdata D m) = mtotal D m /\ fdata D m = []
     end) /\
  (forall f, cu = Some f -> pd_is_ctl (f_op f) = false -> inside D m = true).
Definition Inv16 (s : rstate) : Prop := MInv (cn D s) (ms D s) (cur D s) (mptr D s).

Definition bounded (evs : list event) : Prop :=
  forall p b, In (EMsg p b) evs -> 0 < maxMsg cf -> lenN p <= maxMsg cf.
Lemma bounded_nil : bounded []. Proof. intros p b []. Qed.
Lemma bounded_app a b : bounded a -> bounded b -> bounded (a ++ b).
Proof. intros Ha Hb p x Hin. apply in_app_iff in Hin. destruct Hin; eauto. Qed.
Lemma bounded_no_msg evs : (forall p b, ~ In (EMsg p b) evs) -> bounded evs.
Proof. intros H p b Hin. exfalso. eapply H; eauto. Qed.

Lemma MInv_conn c c' m cu mp : (failed c' = false -> failed c = false) -> MInv c m cu mp -> MInv c' m cu mp.
Proof. intros Hf [H1 [H2 H3]]. split; [exact H1|]. split; [|exact H3]. intros Hf'. apply H2. auto. Qed.

Lemma track_failed c e c' : track c e c' -> failed c' = false -> failed c = false.
Proof. intros [H _] Hf. rewrite H in Hf. apply orb_false_iff in Hf. tauto. Qed.

Lemma no_msg_fail cf0 c code p b : ~ In (EMsg p b) (snd (fail_connection cf0 c code)).
Proof.
  unfold fail_connection, drop_connection, send_close_frame. destruct c as [s f cl rc rr].
  destruct s, (failByDrop cf0); cbn; intuition discriminate.
Qed.
Lemma no_msg_pv_all vs : forall c p b, ~ In (EMsg p b) (snd (fst (pv_all cf c vs))).
Proof.
  induction vs as [|v r IH]; intros c p b; cbn [pv_all]; [intros []|].
  unfold protocol_violation. pose proof (no_msg_fail cf c code_protocol_error p b) as H.
  destruct (fail_connection cf c code_protocol_error) as [c1 e1]. cbn [snd] in H.
  destruct (failByDrop cf); [exact H|]. specialize (IH c1 p b). destruct (pv_all cf c1 r) as [[c2 e2] s2].
  cbn [fst snd] in *. intros Hin. apply in_app_iff in Hin. tauto.
Qed.

(* onFrameBegin *)
Lemma on_frame_begin_inv (s : rstate) f :
  MInv (cn D s) (ms D s) None 0 -> (st (cn D s) <> CLOSED \/ failed (cn D s) = true) ->
  let '(s1, e) := on_frame_begin D cd cf s f in
  MInv (cn D s1) (ms D s1) (Some f) 0 /\ (forall p b, ~ In (EMsg p b) e).
Proof.
  intros [Hz [Hi H3]] Hst. unfold on_frame_begin. change (fb_is_ctl (f_op f)) with (pd_is_ctl (f_op f)).
  destruct (pd_is_ctl (f_op f)) eqn:Hc.
  - split; [|intros p b []]. cbn [cn ms r_cdata]. split; [exact Hz|]. split.
    + intros Hf Hin. destruct (Hi Hf Hin) as [A B]. split; [exact A|]. rewrite Hc. exact B.
    + intros f0 E. inversion E; subst. congruence.
  - rewrite NOPMC. cbn [andb].
    unfold on_message_frame_begin, max_size_exceeded.
    set (c := cn D s) in *. set (m := ms D s) in *.
    assert (Hfail : forall code, failed (fst (fail_connection cf c code)) = true).
    { intros code. pose proof (fail_connection_track cf c code) as [T _]. rewrite T.
      destruct Hst as [Hst|Hst]; [|rewrite Hst; reflexivity].
      pose proof (fail_events_not_closed cf c code Hst) as Hin.
      replace (has_fail (snd (fail_connection cf c code))) with true; [apply orb_true_r|].
      symmetry. apply existsb_exists. eexists; split; [exact Hin|reflexivity]. }
    destruct (inside D m) eqn:Hin.
    + (* continuation *)
      cbn [mtotal m_mtotal m_fdata].
      destruct (failed c) eqn:Hf.
      * split; [|intros p b []]. cbn [cn ms r_ms r_cn]. fold c. split; [exact Hz|]. split; [congruence|].
        intros f0 E _. cbn. exact Hin.
      * destruct (Hi eq_refl eq_refl) as [A [B C]].
        destruct (mf_msg_limit (maxMsg cf) (mtotal D m + f_len f)) eqn:L1.
        { pose proof (Hfail code_message_too_big) as F. pose proof (no_msg_fail cf c code_message_too_big) as NM.
          destruct (fail_connection cf c code_message_too_big) as [c1 e]. cbn [fst snd] in *.
          split; [|exact NM]. cbn [cn ms r_ms r_cn]. split; [exact Hz|]. split; [congruence|]. intros f0 E _. exact Hin. }
        destruct (mf_frame_limit (maxFrame cf) (f_len f)) eqn:L2.
        { pose proof (Hfail code_message_too_big) as F. pose proof (no_msg_fail cf c code_message_too_big) as NM.
          destruct (fail_connection cf c code_message_too_big) as [c1 e]. cbn [fst snd] in *.
          split; [|exact NM]. cbn [cn ms r_ms r_cn]. split; [exact Hz|]. split; [congruence|]. intros f0 E _. exact Hin. }
        split; [|intros p b []]. cbn [cn ms r_ms r_cn]. fold c. split; [exact Hz|]. split.
        -- intros _ _. cbn [mtotal mdata fdata m_mtotal m_fdata inside]. rewrite Hc. split.
           ++ intros Hm. destruct (N.leb_spec (mtotal D m + f_len f) (maxMsg cf)); [assumption|].
              exfalso. assert (mf_msg_limit (maxMsg cf) (mtotal D m + f_len f) = true) by (apply limit_spec; lia). congruence.
           ++ split; [lia|]. split; [reflexivity|lia].
        -- intros f0 E _. exact Hin.
    + (* new message *)
      set (m_c := if fb_is_text (f_op f) && utf8validate cf
                  then m_utf8 D (m_uon D (m_zon D (m_inside D m true) false) true) 0 true true
                  else m_uon D (m_zon D (m_inside D m true) false) false).
      assert (Hzc : zon D m_c = false) by (unfold m_c; destruct (_ && _); reflexivity).
      assert (Hic : inside D m_c = true) by (unfold m_c; destruct (_ && _); reflexivity).
      cbn [mtotal m_mtotal m_fdata m_mdata m_mbin].
      assert (G : forall c1, (failed c1 = false -> mf_msg_limit (maxMsg cf) (0 + f_len f) = false) ->
                MInv c1 (m_mtotal D (m_fdata D (m_mtotal D (m_mdata D (m_mbin D m_c (fb_is_binary (f_op f))) []) 0) []) (0 + f_len f)) (Some f) 0).
      { intros c1 Hl. split; [exact Hzc|]. split.
        - intros Hf _. cbn [mtotal mdata fdata m_mtotal m_fdata m_mdata]. rewrite Hc. split.
          + intros Hm. destruct (N.leb_spec (0 + f_len f) (maxMsg cf)); [assumption|].
            exfalso. assert (mf_msg_limit (maxMsg cf) (0 + f_len f) = true) by (apply limit_spec; lia). rewrite (Hl Hf) in H0. discriminate.
          + cbn. split; [lia|]. split; [reflexivity|lia].
        - intros f0 E _. cbn. exact Hic. }
      destruct (failed c) eqn:Hf.
      * split; [|intros p b []]. cbn [cn ms r_ms r_cn]. fold c. split; [exact Hzc|]. split; [congruence|].
        intros f0 E _. exact Hic.
      * cbv iota. cbn [mtotal m_mtotal m_fdata m_mdata m_mbin].
        destruct (mf_msg_limit (maxMsg cf) (0 + f_len f)) eqn:L1.
        { pose proof (Hfail code_message_too_big) as F. pose proof (no_msg_fail cf c code_message_too_big) as NM.
          destruct (fail_connection cf c code_message_too_big) as [c1 e]. cbn [fst snd] in *.
          split; [|exact NM]. cbn [cn ms r_ms r_cn]. apply G. congruence. }
        destruct (mf_frame_limit (maxFrame cf) (f_len f)) eqn:L2.
        { pose proof (Hfail code_message_too_big) as F. pose proof (no_msg_fail cf c code_message_too_big) as NM.
          destruct (fail_connection cf c code_message_too_big) as [c1 e]. cbn [fst snd] in *.
          split; [|exact NM]. cbn [cn ms r_ms r_cn]. apply G. congruence. }
        split; [|intros p b []]. cbn [cn ms r_ms r_cn]. fold c. apply G. intros _. reflexivity.
Qed.

Lemma MInv_none c (m : mstate) a b : MInv c m None a -> MInv c m None b.
Proof. intros H; exact H. Qed.

Lemma failed_after_fail c code : st c <> CLOSED \/ failed c = true -> failed (fst (fail_connection cf c code)) = true.
Proof.
  intros Hst. pose proof (fail_connection_track cf c code) as [T _]. rewrite T.
  destruct Hst as [Hst|Hst]; [|rewrite Hst; reflexivity].
  pose proof (fail_events_not_closed cf c code Hst) as Hin.
  replace (has_fail (snd (fail_connection cf c code))) with true; [apply orb_true_r|].
  symmetry. apply existsb_exists. eexists; split; [exact Hin|reflexivity].
Qed.

Lemma pv_all_alive vs : forall c, st c <> CLOSED \/ failed c = true ->
  let '(c1, _, _) := pv_all cf c vs in st c1 <> CLOSED \/ failed c1 = true.
Proof.
  induction vs as [|v r IH]; intros c H; cbn [pv_all]; [exact H|].
  unfold protocol_violation. pose proof (failed_after_fail c code_protocol_error H) as F.
  destruct (fail_connection cf c code_protocol_error) as [c1 e1]. cbn [fst] in F.
  destruct (failByDrop cf); [right; exact F|].
  specialize (IH c1 (or_intror F)). destruct (pv_all cf c1 r) as [[c2 e2] s2]. exact IH.
Qed.

Lemma on_frame_begin_cur (s : rstate) f :
  cur D (fst (on_frame_begin D cd cf s f)) = cur D s /\ mptr D (fst (on_frame_begin D cd cf s f)) = mptr D s.
Proof.
  unfold on_frame_begin. destruct (fb_is_ctl _); [split; reflexivity|].
  destruct (failed (cn D s)); [split; reflexivity|].
  destruct (on_message_frame_begin D cf _ _ _) as [[cx mx] ex]. split; reflexivity.
Qed.

Lemma step_header_inv (s : rstate) : cur D s = None -> Inv16 s -> st (cn D s) <> CLOSED ->
  let '(s1, e, _) := step_header D cd cf s in Inv16 s1 /\ bounded e.
Proof.
  intros Hcur HI Hst. unfold Inv16 in HI. rewrite Hcur in HI. unfold step_header.
  destruct (negb (pd_have2 _)).
  { split; [unfold Inv16; now rewrite Hcur|apply bounded_nil]. }
  match goal with |- context [pv_all cf ?c ?vs] =>
    pose proof (pv_all_track cf vs c) as T1; pose proof (pv_all_alive vs c (or_introl Hst)) as A1;
    pose proof (no_msg_pv_all vs c) as N1; destruct (pv_all cf c vs) as [[c1 e1] stop1] end.
  cbn [fst snd] in N1.
  assert (I1 : MInv c1 (ms D s) None 0) by (eapply MInv_conn; [apply (track_failed _ _ _ T1)|exact HI]).
  destruct stop1.
  { split; [unfold Inv16; cbn [cn ms cur mptr r_cn]; rewrite Hcur; exact I1|now apply bounded_no_msg]. }
  destruct (header_len _ _).
  2:{ split; [unfold Inv16; cbn [cn ms cur mptr r_cn]; rewrite Hcur; exact I1|].
      apply bounded_app; [now apply bounded_no_msg|]. intros p b [E|[]]; discriminate. }
  destruct (negb (pd_have_header _ _)).
  { split; [unfold Inv16; cbn [cn ms cur mptr r_cn]; rewrite Hcur; exact I1|now apply bounded_no_msg]. }
  destruct (ext_len _ _) as [[plen lv] i].
  pose proof (pv_all_track cf lv c1) as T2. pose proof (pv_all_alive lv c1 A1) as A2. pose proof (no_msg_pv_all lv c1) as N2.
  cbn [cn r_cn]. destruct (pv_all cf c1 lv) as [[c2 e2] stop2]. cbn [fst snd] in N2.
  assert (I2 : MInv c2 (ms D s) None 0) by (eapply MInv_conn; [apply (track_failed _ _ _ T2)|exact I1]).
  destruct stop2.
  { split; [unfold Inv16; cbn [cn ms cur mptr r_cn]; rewrite Hcur; exact I2|].
    apply bounded_app; now apply bounded_no_msg. }
  cbn [cn ms r_cn cdata].
  match goal with |- context [on_frame_begin D cd cf ?s3 ?f] =>
    pose proof (on_frame_begin_inv s3 f I2 A2) as B; destruct (on_frame_begin D cd cf s3 f) as [s4 e4] eqn:Eb end.
  destruct B as [B1 B2].
  match type of Eb with on_frame_begin D cd cf ?s3 ?f = _ => pose proof (on_frame_begin_cur s3 f) as Hs4 end.
  rewrite Eb in Hs4. cbn [fst cur mptr] in Hs4.
  destruct Hs4 as [Hc4 Hm4]. split.
  - unfold Inv16. rewrite Hc4, Hm4. exact B1.
  - apply bounded_app; [now apply bounded_no_msg|]. apply bounded_app; now apply bounded_no_msg.
Qed.

Lemma mask_len k p a : lenN (fst (mask_process k p a)) = lenN a /\ snd (mask_process k p a) = p + lenN a.
Proof.
  unfold mask_process. destruct k; cbn [fst snd]; split; try reflexivity. unfold lenN. now rewrite xor_spec_length.
Qed.

Lemma no_msg_ip c p b : ~ In (EMsg p b) (snd (fst (invalid_payload cf c))).
Proof.
  unfold invalid_payload. pose proof (no_msg_fail cf c code_invalid_payload p b) as H.
  destruct (fail_connection cf c code_invalid_payload). exact H.
Qed.

Lemma no_msg_close c code reason p b : ~ In (EMsg p b) (snd (on_close_frame cf c code reason)).
Proof.
  unfold on_close_frame, protocol_violation, invalid_payload, fail_connection, drop_connection, send_close_frame.
  destruct c as [s f cl rc rr].
  destruct code as [k|]; [destruct (close_code_invalid k)|];
  (destruct reason as [r|]; [destruct (u_validate 0 r) as [[v e] u]; destruct v, e|]);
  destruct s, (failByDrop cf), (isServer cf), (echoClose cf); cbn; intuition discriminate.
Qed.

(* a data frame in progress: (connection, message) level *)
Definition MI (c : conn) (m : mstate) (mp : N) (f : frame) : Prop :=
  zon D m = false /\ inside D m = true /\
  (failed c = false -> (0 < maxMsg cf -> mtotal D m <= maxMsg cf) /\
                       lenN (mdata D m) + f_len f = mtotal D m /\ lenN (fdata D m) = mp /\ mp <= f_len f).
Definition alive (c : conn) : Prop := st c <> CLOSED \/ failed c = true.

Lemma ip_alive c : alive c -> let '(c1, e, _) := invalid_payload cf c in failed c1 = true /\ (forall p b, ~ In (EMsg p b) e).
Proof.
  intros H. unfold invalid_payload. pose proof (failed_after_fail c code_invalid_payload H) as F.
  pose proof (no_msg_fail cf c code_invalid_payload) as NM.
  destruct (fail_connection cf c code_invalid_payload). cbn [fst snd] in *. split; assumption.
Qed.

Lemma on_frame_data_MI (s : rstate) f payload : pd_is_ctl (f_op f) = false ->
  MI (cn D s) (ms D s) (mptr D s - lenN payload) f -> lenN payload <= mptr D s -> mptr D s <= f_len f -> alive (cn D s) ->
  let '(s2, e2, _) := on_frame_data D cd cf s f payload in
  MI (cn D s2) (ms D s2) (mptr D s) f /\ alive (cn D s2) /\ (forall p b, ~ In (EMsg p b) e2) /\
  cur D s2 = cur D s /\ mptr D s2 = mptr D s.
Proof.
  intros Hc [Hz [Hin Hi]] Hle Hm Ha. unfold on_frame_data. change (fd_is_ctl (f_op f)) with (pd_is_ctl (f_op f)).
  rewrite Hc, Hz. cbn [m_dec uon ust].
  assert (G : forall (m1 : mstate), zon D m1 = false -> inside D m1 = true -> mdata D m1 = mdata D (ms D s) ->
              mtotal D m1 = mtotal D (ms D s) -> fdata D m1 = fdata D (ms D s) ->
              MI (cn D s) (on_message_frame_data D (cn D s) m1 payload) (mptr D s) f).
  { intros m1 Z1 I1 E1 E2 E3. unfold on_message_frame_data. destruct (failed (cn D s)) eqn:Hf.
    - split; [exact Z1|]. split; [exact I1|]. congruence.
    - split; [exact Z1|]. split; [exact I1|]. intros _. destruct (Hi eq_refl) as [A [B [C E]]].
      cbn [mtotal mdata fdata m_fdata]. rewrite E1, E2, E3, lenN_app. split; [exact A|]. split; [exact B|]. split; lia. }
  destruct (uon D (ms D s)).
  - destruct (u_validate _ payload) as [[v e] u1]. destruct v; cbn [negb].
    + cbn [cn ms cur mptr r_ms]. split; [apply G; reflexivity || assumption|]. repeat split; auto.
    + pose proof (ip_alive (cn D s) Ha) as I. destruct (invalid_payload cf (cn D s)) as [[c1 ev] stop]. destruct I as [F NM].
      destruct stop; cbn [cn ms cur mptr r_ms r_cn];
        (split; [split; [first [exact Hz | unfold on_message_frame_data; destruct (failed c1); exact Hz]|];
                 split; [first [exact Hin | unfold on_message_frame_data; destruct (failed c1); exact Hin]|]; congruence|]);
        (split; [right; exact F|]); (split; [exact NM|]); split; reflexivity.
  - cbn [cn ms cur mptr r_ms]. split; [apply G; reflexivity || assumption|]. repeat split; auto.
Qed.

Lemma on_frame_end_MI (s : rstate) f : pd_is_ctl (f_op f) = false -> cur D s = Some f ->
  MI (cn D s) (ms D s) (f_len f) f -> alive (cn D s) ->
  let '(s3, e3, _) := on_frame_end D cd cf s f in Inv16 s3 /\ bounded e3.
Proof.
  intros Hc Hcur [Hz [Hin Hi]] Ha. unfold on_frame_end. change (fe_is_ctl (f_op f)) with (pd_is_ctl (f_op f)). rewrite Hc.
  set (m1 := if failed (cn D s) then ms D s else m_fdata D (m_mdata D (ms D s) (mdata D (ms D s) ++ fdata D (ms D s))) []).
  assert (Zm1 : zon D m1 = false) by (unfold m1; destruct (failed (cn D s)); exact Hz).
  assert (Im1 : inside D m1 = true) by (unfold m1; destruct (failed (cn D s)); exact Hin).
  assert (Lm1 : failed (cn D s) = false -> lenN (mdata D m1) = mtotal D m1 /\ fdata D m1 = [] /\
                (0 < maxMsg cf -> lenN (mdata D m1) <= maxMsg cf) /\ (0 < maxMsg cf -> mtotal D m1 <= maxMsg cf)).
  { intros Hf. destruct (Hi Hf) as [A [B [C E]]]. unfold m1. rewrite Hf. cbn. rewrite lenN_app.
    split; [lia|]. split; [reflexivity|]. split; intros Hm; specialize (A Hm); lia. }
  clearbody m1.
  destruct (f_fin f).
  - rewrite Zm1.
    match goal with |- context [if ?b then invalid_payload cf ?c0 else _] => destruct b end.
    + pose proof (ip_alive (cn D s) Ha) as I. pose proof (ip_track cf (cn D s)) as T.
      destruct (invalid_payload cf (cn D s)) as [[c1 e1] stop]. destruct I as [F NM]. destruct stop.
      * split; [|now apply bounded_no_msg]. unfold Inv16. cbn [cn ms cur mptr r_ms r_cn]. rewrite Hcur.
        split; [exact Zm1|]. split; [congruence|]. intros f0 _ _. exact Im1.
      * rewrite F, app_nil_r. split; [|now apply bounded_no_msg]. unfold Inv16. cbn.
        split; [exact Zm1|]. split; [congruence|]. intros f0 E; discriminate.
    + rewrite app_nil_l. destruct (failed (cn D s)) eqn:Hf.
      * split; [|apply bounded_nil].
        unfold Inv16. cbn. split; [exact Zm1|]. split; [intros _ E; discriminate|]. intros f0 E; discriminate.
      * split.
        -- unfold Inv16. cbn. split; [exact Zm1|]. split; [intros _ E; discriminate|]. intros f0 E; discriminate.
        -- intros p b [E|[]] Hm. inversion E; subst. destruct (Lm1 eq_refl) as [_ [_ [L _]]]. auto.
  - split; [|apply bounded_nil]. unfold Inv16. cbn [cn ms cur mptr r_ms r_cur].
    split; [exact Zm1|]. split; [|intros f0 E; discriminate]. intros Hf _. destruct (Lm1 Hf) as [L1 [L2 [_ L4]]]. auto.
Qed.

Lemma pay_apply_inv (s : rstate) f chunk : cur D s = Some f -> Inv16 s -> st (cn D s) <> CLOSED ->
  lenN chunk <= f_len f - mptr D s ->
  let '(s1, e, _) := pay_apply D cd cf s f chunk in Inv16 s1 /\ bounded e.
Proof.
  intros Hcur HI Hst Hchunk. unfold Inv16 in HI. rewrite Hcur in HI. destruct HI as [Hz [Hi H3]].
  unfold pay_apply.
  destruct (mask_len (mkey D s) (mptr D s) chunk) as [Hlen Hptr].
  destruct (mask_process (mkey D s) (mptr D s) chunk) as [payload p1]. cbn [fst snd] in Hlen, Hptr. subst p1.
  set (rest := f_len f - mptr D s) in *.
  set (s1 := mkR D (cn D s) (ms D s) (data D s) (cur D s) (mkey D s) (mptr D s + lenN chunk) (cdata D s)).
  destruct (pd_is_ctl (f_op f)) eqn:Hc.
  - (* control frame: the message under assembly is untouched *)
    assert (IC : MInv (cn D s) (ms D s) None 0).
    { split; [exact Hz|]. split.
      - intros Hf Hin. destruct (Hi Hf Hin) as [A B]. cbv iota in B. split; assumption.
      - intros f0 E; discriminate. }
    assert (IC2 : forall x, MInv (cn D s) (ms D s) (cur D s) x).
    { intros x. rewrite Hcur. split; [exact Hz|]. split; [|exact H3].
      intros Hf Hin. destruct (Hi Hf Hin) as [A B]. split; [exact A|]. rewrite Hc. exact B. }
    unfold on_frame_data. change (fd_is_ctl (f_op f)) with (pd_is_ctl (f_op f)). rewrite Hc. cbn [mptr r_cdata s1].
    destruct (mptr D s + lenN chunk =? f_len f).
    + unfold on_frame_end, process_control_frame. change (fe_is_ctl (f_op f)) with (pd_is_ctl (f_op f)). rewrite Hc.
      cbn [cdata r_cdata cn s1].
      destruct (pc_is_close (f_op f)).
      * match goal with |- context [on_close_frame cf ?c ?k ?r] =>
          pose proof (on_close_frame_track cf c k r) as T; pose proof (no_msg_close c k r) as NM;
          destruct (on_close_frame cf c k r) as [c1 e1] end.
        cbn [fst snd] in *. (split; [|apply bounded_app; [apply bounded_nil|now apply bounded_no_msg]]);
        unfold Inv16; cbn; (eapply MInv_conn; [apply (track_failed _ _ _ T)|exact IC]).
      * destruct (pc_is_ping (f_op f)).
        -- destruct (st (cn D s)); [destruct (_ && _)|..]; cbn;
           (split; [unfold Inv16; cbn; first [exact IC|apply IC2]|intros p b Hin; cbn in Hin; intuition discriminate]).
        -- destruct (pc_is_pong (f_op f)); cbn;
           (split; [unfold Inv16; cbn; exact IC|intros p b Hin; cbn in Hin; intuition discriminate]).
    + split; [|apply bounded_nil]. unfold Inv16. cbn. apply IC2.
  - (* data frame *)
    pose proof (H3 f eq_refl Hc) as Hin.
    assert (Hmle : failed (cn D s) = false -> mptr D s <= f_len f).
    { intros Hf. destruct (Hi Hf Hin) as [_ B]. cbv iota in B. tauto. }
    destruct (failed (cn D s)) eqn:Hf.
    + (* already failed: nothing is buffered or delivered; only the flags matter *)
      pose proof (on_frame_data_track D cd cf s1 f payload) as T.
      destruct (on_frame_data D cd cf s1 f payload) as [[s2 e2] stop2] eqn:E2. cbn [cn s1] in T.
      assert (F2 : failed (cn D s2) = true) by (destruct T as [T _]; rewrite T, Hf; reflexivity).
      assert (N2 : forall p b, ~ In (EMsg p b) e2) by (destruct T as [_ T]; rewrite Hf in T; now apply tr_ok_true_no_msg).
      assert (K2 : zon D (ms D s2) = false /\ inside D (ms D s2) = true /\ cur D s2 = Some f).
      { revert E2. unfold on_frame_data. change (fd_is_ctl (f_op f)) with (pd_is_ctl (f_op f)). rewrite Hc. cbn [ms cn s1].
        rewrite Hz. cbn [m_dec uon ust]. unfold on_message_frame_data. rewrite Hf.
        destruct (uon D (ms D s)).
        - destruct (u_validate _ payload) as [[v e] u1]. destruct v; cbn [negb].
          + intros E; inversion E; subst; cbn; auto.
          + destruct (invalid_payload cf (cn D s)) as [[c1 ev] stop]. destruct stop; [|destruct (failed c1)]; intros E; inversion E; subst; cbn; auto.
        - intros E; inversion E; subst; cbn; auto. }
      destruct K2 as [K1 [K2 K3]].
      assert (I2 : Inv16 s2).
      { unfold Inv16. rewrite K3. split; [exact K1|]. split; [congruence|]. intros; exact K2. }
      destruct stop2; [split; [exact I2|now apply bounded_no_msg]|].
      destruct (mptr D s2 =? f_len f).
      * pose proof (on_frame_end_track D cd cf s2 f) as T3.
        pose proof (on_frame_end_MI s2 f Hc K3) as M3.
        destruct (on_frame_end D cd cf s2 f) as [[s3 e3] c3].
        assert (MI (cn D s2) (ms D s2) (f_len f) f) as MI2 by (split; [exact K1|]; split; [exact K2|congruence]).
        destruct (M3 MI2 (or_intror F2)) as [I3 B3].
        split; [exact I3|apply bounded_app; [now apply bounded_no_msg|exact B3]].
      * split; [exact I2|now apply bounded_no_msg].
    + specialize (Hmle eq_refl). destruct (Hi eq_refl Hin) as [A B]. cbv iota in B. destruct B as [B1 [B2 B3]].
      assert (MI1 : MI (cn D s1) (ms D s1) (mptr D s1 - lenN payload) f).
      { cbn [cn ms mptr s1]. rewrite Hlen. replace (mptr D s + lenN chunk - lenN chunk) with (mptr D s) by lia.
        split; [exact Hz|]. split; [exact Hin|]. intros _. auto. }
      pose proof (on_frame_data_MI s1 f payload Hc MI1) as OD. cbn [cn ms mptr s1] in OD. rewrite Hlen in OD.
      unfold rest in Hchunk.
      specialize (OD ltac:(lia) ltac:(lia) (or_introl Hst)).
      destruct (on_frame_data D cd cf s1 f payload) as [[s2 e2] stop2].
      destruct OD as [M2 [A2 [N2 [C2 P2]]]]. cbn [cur s1] in C2. rewrite Hcur in C2.
      assert (I2 : Inv16 s2).
      { unfold Inv16. rewrite C2, P2. destruct M2 as [Z2 [In2 J2]]. split; [exact Z2|]. split; [|intros; exact In2].
        intros Hf2 _. rewrite Hc. destruct (J2 Hf2) as [X1 [X2 [X3 X4]]]. auto. }
      destruct stop2; [split; [exact I2|now apply bounded_no_msg]|].
      rewrite P2. destruct (N.eqb_spec (mptr D s + lenN chunk) (f_len f)) as [He|He].
      * pose proof (on_frame_end_MI s2 f Hc C2) as M3.
        destruct (on_frame_end D cd cf s2 f) as [[s3 e3] c3].
        assert (MI2 : MI (cn D s2) (ms D s2) (f_len f) f) by (rewrite <- He; exact M2).
        destruct (M3 MI2 A2) as [I3 Bd3].
        split; [exact I3|apply bounded_app; [now apply bounded_no_msg|exact Bd3]].
      * split; [exact I2|now apply bounded_no_msg].
Qed.

Lemma step_payload_inv (s : rstate) f : cur D s = Some f -> Inv16 s -> st (cn D s) <> CLOSED ->
  let '(s1, e, _) := step_payload D cd cf s f in Inv16 s1 /\ bounded e.
Proof.
  intros Hcur HI Hst. rewrite step_payload_nf. cbv zeta.
  destruct (if pd_have_rest _ _ then _ else _) as [chunk rem] eqn:Ec.
  assert (Hchunk : lenN chunk <= f_len f - mptr D s).
  { unfold pd_have_rest in Ec. destruct (N.leb_spec (f_len f - mptr D s) (lenN (data D s))); inversion Ec; subst.
    - unfold take, lenN. rewrite firstn_length. lia.
    - lia. }
  pose proof (pay_apply_inv (r_data D s rem) f chunk Hcur HI Hst Hchunk) as P.
  destruct (pay_apply D cd cf (r_data D s rem) f chunk) as [[s' e] c]. exact P.
Qed.

Lemma step_inv (s : rstate) : Inv16 s -> st (cn D s) <> CLOSED ->
  let '(s1, e, _) := step D cd cf s in Inv16 s1 /\ bounded e.
Proof.
  intros HI Hst. unfold step. destruct (cur D s) eqn:Hc; [now apply step_payload_inv|now apply step_header_inv].
Qed.

Lemma run_inv n : forall (s s1 : rstate) e, Inv16 s -> st (cn D s) <> CLOSED -> run D cd n cf s = Done D s1 e ->
  Inv16 s1 /\ bounded e.
Proof.
  induction n as [|n IH]; intros s s1 e HI Hst H; [discriminate|]. cbn [run] in H.
  pose proof (step_inv s HI Hst) as P. destruct (step D cd cf s) as [[sa ea] c]. destruct P as [P1 P2].
  destruct c; try (inversion H; subst; split; assumption).
  destruct (st (cn D sa)) eqn:Hs; try (inversion H; subst; split; assumption);
    (destruct (run D cd n cf sa) as [s2 e2|] eqn:R; [|discriminate]; inversion H; subst;
     destruct (IH _ _ _ P1 ltac:(congruence) R) as [Q1 Q2]; split; [exact Q1|now apply bounded_app]).
Qed.

Lemma feed_inv (s s1 : rstate) d e : Inv16 s -> feed D cd cf s d = Done D s1 e -> Inv16 s1 /\ bounded e.
Proof.
  intros HI. unfold feed. cbn [cn r_data]. destruct (st (cn D s)) eqn:Hs; intros H.
  - apply (run_inv (fuel_of D (r_data D s (data D s ++ d))) (r_data D s (data D s ++ d)) s1 e HI); [cbn [cn r_data]; congruence|exact H].
  - apply (run_inv (fuel_of D (r_data D s (data D s ++ d))) (r_data D s (data D s ++ d)) s1 e HI); [cbn [cn r_data]; congruence|exact H].
  - inversion H; subst. split; [exact HI|apply bounded_nil].
Qed.

(* C16_no_oversize_delivery *)
Theorem no_oversize_delivery chunks : forall (s s1 : rstate) evs, Inv16 s ->
  feed_all D cd cf s chunks = Done D s1 evs ->
  forall p b, In (EMsg p b) evs -> 0 < maxMsg cf -> lenN p <= maxMsg cf.
Proof.
  induction chunks as [|c r IH]; intros s s1 evs HI H; cbn [feed_all] in H.
  - inversion H; subst. intros p b [].
  - destruct (feed D cd cf s c) as [s' e'|] eqn:Hf; [|discriminate].
    destruct (feed_all D cd cf s' r) as [s2 e2|] eqn:Hr; [|discriminate]. inversion H; subst.
    destruct (feed_inv _ _ _ _ HI Hf) as [I1 B1]. apply bounded_app; [exact B1|]. exact (IH _ _ _ I1 Hr).
Qed.

Lemma Inv16_init p d0 : Inv16 (init_state D p d0).
Proof. split; [reflexivity|]. split; [intros _ E; discriminate|intros f E; discriminate]. Qed.

End WithCodec.
