(* Lemmas about the connection model, part 4: timers (C17, C05_bounded). *)
From Coq Require Import NArith List Bool Lia Arith.
From AV Require Import Gen.WsConnConsts Model.WsConn Proofs.WsConnProofs Proofs.WsConnProofs2 Proofs.WsConnProofs3.
Import ListNotations.
Open Scope N_scope.

(* ================================================================================================ *)
(* the batched timer's quantisation: at most one second early, never late *)
Lemma bucket_divides_second : 1000 mod bucket_ms = 0 /\ bucket_ms <> 0.
Proof. vm_compute. split; [reflexivity|discriminate]. Qed.

Lemma quant_eq : forall x, quant x = (x / 1000) * 1000.
Proof.
  intros x. unfold quant. cbv zeta.
  assert (H : ((x / 1000) * 1000) mod bucket_ms = 0).
  { destruct bucket_divides_second as [H1 H2].
    rewrite N.mul_mod by exact H2. rewrite H1. rewrite N.mul_0_r. apply N.mod_0_l. exact H2. }
  rewrite H. apply N.sub_0_r.
Qed.

Lemma quant_bounds : forall x, quant x <= x /\ x < quant x + 1000.
Proof.
  intros x. rewrite quant_eq.
  pose proof (N.div_mod x 1000) as H. pose proof (N.mod_lt x 1000) as H2.
  assert (1000 <> 0) by discriminate. specialize (H H0). specialize (H2 H0).
  remember (x / 1000) as q. remember (x mod 1000) as r. clear Heqq Heqr. lia.
Qed.

(* fire time of a batched call armed at [tnow] with delay [d] into a fresh bucket *)
Definition fire_time (tnow d : N) : N := N.max tnow (quant (tnow + d)).
Lemma fire_time_bounds : forall tnow d, tnow <= fire_time tnow d /\ fire_time tnow d <= tnow + d
  /\ (1000 <= d -> tnow + d < fire_time tnow d + 1000).
Proof. intros. unfold fire_time. pose proof (quant_bounds (tnow + d)). lia. Qed.

(* ================================================================================================ *)
(* the opening-handshake timer *)
Definition openF (c : cfg) : N := fire_time (t_start c) (openHandshakeTimeout c).
Definition conn_state (c : cfg) (n : N) (p : bool) : cstate :=
  mkS CONNECTING n false false false false false RNone None None None None false false false
      (Some 0) None None None None 1
      [mkT (openF c) (Some (quant (t_start c + openHandshakeTimeout c))) [(TOpenHS, 0)]]
      None 0 None None p SGround false false.

Lemma init_conn_state : forall c, 0 < openHandshakeTimeout c -> init c = conn_state c (t_start c) (negb (is_server c) && c_proxy c).
Proof.
  intros c H. unfold init, whenM. apply N.ltb_lt in H. rewrite H. reflexivity.
Qed.

(* events that are not a reaction of the peer to the opening handshake *)
Definition no_open_reaction (e : event) : Prop :=
  match e with EHandshake | EBadHandshake | EConnectRaises _ | EProxyBad | EPeerDrop _ => False | _ => True end.
Definition tick_before (F : N) (e : event) : Prop := match e with ETick t => t < F | _ => True end.

Opaque openF.
Lemma connecting_step : forall c e n p, let F := openF c in
  no_open_reaction e -> tick_before F e ->
  exists n' p', fst (step c (conn_state c n p) e) = conn_state c n' p' /\ n <= n' /\ (n' = n \/ n' < F).
Proof.
  intros c e n p F Hr Ht. subst F. unfold conn_state.
  destruct e; simpl in Hr; try contradiction; unfold step, handle;
    try solve [ exists n, p; simpl; split; [reflexivity|split; [lia|auto]] ].
  - (* the proxy answers the CONNECT: the same timer keeps running *)
    destruct p; [exists n, false | exists n, false]; simpl; (split; [reflexivity|split; [lia|auto]]).
  - (* sendClose *)
    exists n, p. unfold send_close.
    destruct (match code with Some cd => negb (api_code_ok cd) | None => false end);
      [|destruct (isSome reason && negb (isSome code))]; simpl;
      (split; [reflexivity|split; [lia|auto]]).
  - (* tick before the fire time *)
    simpl in Ht. exists (N.max n t), p.
    assert (E : (openF c <=? t) = false) by (apply N.leb_gt; exact Ht).
    unfold tick, bindS, seqM, pick_due. simpl. unfold bindS, pick_due. simpl. rewrite E.
    unfold ret, upd. simpl. split; [reflexivity|]. split; [lia|]. lia.
Qed.

Lemma connecting_run : forall c evs n p log, let F := openF c in
  Forall no_open_reaction evs -> Forall (tick_before F) evs -> (n = t_start c \/ n < F) ->
  exists n' p', fst (run_from c (conn_state c n p) log evs) = conn_state c n' p' /\ n <= n' /\ (n' = t_start c \/ n' < F).
Proof.
  intros c evs. induction evs as [|e evs IH]; intros n p log F H1 H2 Hn.
  - exists n, p. simpl. split; [reflexivity|]. split; [lia|exact Hn].
  - inversion H1; subst. inversion H2; subst. rewrite run_from_cons.
    destruct (connecting_step c e n p H3 H5) as (n1 & p1 & E1 & Hle & Hor). unfold step in E1. rewrite E1.
    destruct (IH n1 p1 (log ++ snd (handle c e (conn_state c n p))) H4 H6) as (n2 & p2 & E2 & Hle2 & Hor2).
    { destruct Hor as [Hor|Hor]; [subst; exact Hn | right; exact Hor]. }
    exists n2, p2. split; [exact E2|]. split; [lia|exact Hor2].
Qed.

(* the timer fires: Tick to (or beyond) the fire time in CONNECTING *)
Lemma open_timeout_fires : forall c n p t, let F := openF c in
  n <= F -> F <= t ->
  let r := step c (conn_state c n p) (ETick t) in
  st (fst r) = CLOSED /\ wasOpenTO (fst r) = true /\ ncr (fst r) = ROpenTO /\ wasClean (fst r) = false
  /\ droppedByMe (fst r) = true /\ timers (fst r) = [] /\ snd r = [(F, IsClosed); (F, Abort)]
  /\ gone (fst r) = false /\ now (fst r) = N.max F t.
Proof.
  intros c n p t F Hn Ht. subst F. unfold conn_state.
  assert (E : (openF c <=? t) = true) by (apply N.leb_le; exact Ht).
  unfold step, handle, tick, bindS, seqM, pick_due. simpl. unfold bindS, pick_due. simpl. rewrite E.
  rewrite N.eqb_refl.
  unfold seqM, upd, run_calls, on_timer, seqM, upd, ifS, in_state, drop_connection, ifS, in_state, seqM, upd, say, ret.
  simpl. replace (N.max n (openF c)) with (openF c) by lia. repeat split; reflexivity.
Qed.
Transparent openF.

(* flags that are only ever set *)
Definition I_flagO (log : list out) (s : cstate) : Prop := wasOpenTO s = true.
Lemma I_flagO_core : core_only I_flagO.
Proof. unfold core_only, I_flagO, same_core. intros log s s' H. destruct H as (_&_&_&_&_&_&_&_&_&_&_&_&H&_). rewrite H. auto. Qed.
Ltac leaf_flagO := intros log s HG HI; unfold I_flagO in *; guard_facts; simpl in *; auto.
Lemma on_timer_flagO : forall c k, presL I_flagO (on_timer c k).
Proof. intros c k. pose proof I_flagO_core as Hcore. destruct k; unfold on_timer; pres_go leaf_flagO fail. Qed.
Lemma step_flagO : forall c e, presL I_flagO (handle c e).
Proof.
  intros c e. pose proof I_flagO_core as Hcore.
  destruct e; unfold handle;
    try (apply presL_tick; [apply on_timer_flagO | unfold time_insensitive, I_flagO; intros; simpl; assumption]);
    pres_go leaf_flagO fail.
Qed.

(* once the connection has left CONNECTING the open-handshake timeout can never be reported *)
Definition I_opened (log : list out) (s : cstate) : Prop := (1 <= rank (st s))%nat /\ wasOpenTO s = false.
Lemma I_opened_core : core_only I_opened.
Proof.
  unfold core_only, I_opened, same_core. intros log s s' H. destruct H as (H1&_&_&_&_&_&_&_&_&_&_&_&H&_). rewrite H1, H. auto.
Qed.
Ltac leaf_opened :=
  intros log s HG HI; unfold I_opened in *; guard_facts; simpl in *;
  try match goal with H : st _ = _ |- _ => rewrite H in * end; simpl in *;
  try solve [ intuition (try lia; try discriminate; try congruence)
            | match goal with H : (_ <= rank ?w)%nat /\ _ |- _ => destruct H; pose proof (rank_le3 w) end; split; [lia|auto] ].
Ltac absurd_opened :=
  intros log s HG HI; unfold I_opened in *; guard_facts; simpl in *;
  match goal with H : st ?x = CONNECTING, H2 : (1 <= rank (st ?x))%nat |- _ => rewrite H in H2; simpl in H2; lia end.
Lemma on_timer_opened : forall c k, presL I_opened (on_timer c k).
Proof. intros c k. pose proof I_opened_core as Hcore. destruct k; unfold on_timer; pres_go3 leaf_opened fail absurd_opened. Qed.
Lemma step_opened : forall c e, presL I_opened (handle c e).
Proof.
  intros c e. pose proof I_opened_core as Hcore.
  destruct e; unfold handle;
    try (apply presL_tick; [apply on_timer_opened | unfold time_insensitive, I_opened; intros; simpl; assumption]);
    pres_go3 leaf_opened fail absurd_opened.
Qed.


Lemma openF_ge : forall c, t_start c <= openF c.
Proof. intros. unfold openF, fire_time. lia. Qed.
Lemma tick_spare_before_fire : forall c t, 1000 <= openHandshakeTimeout c ->
  t + 1000 <= t_start c + openHandshakeTimeout c -> t < openF c.
Proof.
  intros c t H1 H2. unfold openF. destruct (fire_time_bounds (t_start c) (openHandshakeTimeout c)) as (_ & _ & H3).
  specialize (H3 H1). lia.
Qed.
Lemma openF_bounds : forall c, openF c <= t_start c + openHandshakeTimeout c /\
  (1000 <= openHandshakeTimeout c -> t_start c + openHandshakeTimeout c < openF c + 1000).
Proof. intros c. unfold openF. destruct (fire_time_bounds (t_start c) (openHandshakeTimeout c)) as (_ & H2 & H3). auto. Qed.
Opaque openF quant.
Ltac cbn_state := cbn [st now gone closedByMe failedByMe droppedByMe wasClean ncr localCode localReason remoteCode remoteReason wasOpenTO wasCloseTO wasDropTO hOpen hClose hDrop hPing hPingTO nextId timers pingPending pingSeq closingSince lastPeerClose set_st set_now set_gone set_closedByMe set_failedByMe set_droppedByMe set_wasClean set_ncr set_localCode set_localReason set_remoteCode set_remoteReason set_wasOpenTO set_wasCloseTO set_wasDropTO set_hOpen set_hClose set_hDrop set_hPing set_hPingTO set_nextId set_timers set_pingPending set_pingSeq set_closingSince set_lastPeerClose fst snd slot_of set_slot te_time te_key te_calls app negb andb orb wstate_eqb in_state isSome].
Ltac cbn_state_in H := cbn [st now gone closedByMe failedByMe droppedByMe wasClean ncr localCode localReason remoteCode remoteReason wasOpenTO wasCloseTO wasDropTO hOpen hClose hDrop hPing hPingTO nextId timers pingPending pingSeq closingSince lastPeerClose set_st set_now set_gone set_closedByMe set_failedByMe set_droppedByMe set_wasClean set_ncr set_localCode set_localReason set_remoteCode set_remoteReason set_wasOpenTO set_wasCloseTO set_wasDropTO set_hOpen set_hClose set_hDrop set_hPing set_hPingTO set_nextId set_timers set_pingPending set_pingSeq set_closingSince set_lastPeerClose fst snd slot_of set_slot te_time te_key te_calls app negb andb orb wstate_eqb in_state isSome] in H.
Lemma run_split : forall c evs1 e evs2,
  run c (evs1 ++ e :: evs2) =
  run_from c (fst (handle c e (fst (run c evs1)))) (snd (run c evs1) ++ snd (handle c e (fst (run c evs1)))) evs2.
Proof. intros. rewrite run_app, run_from_cons. reflexivity. Qed.

Lemma handshake_from_connecting : forall c n,
  st (fst (handle c EHandshake (conn_state c n false))) = OPEN /\ wasOpenTO (fst (handle c EHandshake (conn_state c n false))) = false.
Proof.
  intros c n. unfold handle, ifS, connecting, conn_state. cbn_state.
  unfold handshake_ok, seqM, whenM.
  destruct (is_server c); destruct (0 <? autoPingInterval c);
    unfold say, upd, cancel_slot, ret, arm_batched; cbn_state; auto.
Qed.

(* C17_silent_open *)
Lemma silent_open : forall c evs1 t evs2,
  0 < openHandshakeTimeout c ->
  Forall no_open_reaction evs1 -> Forall (tick_before (openF c)) evs1 -> openF c <= t ->
  let r := run c (evs1 ++ ETick t :: evs2) in
  In (openF c, Abort) (snd r) /\ st (fst r) = CLOSED /\ wasOpenTO (fst r) = true.
Proof.
  intros c evs1 t evs2 HT H1 H2 Ht. cbv zeta.
  destruct (connecting_run c evs1 (t_start c) (negb (is_server c) && c_proxy c) (init_out c) H1 H2 (or_introl eq_refl)) as (n & p & E & Hle & Hor).
  assert (Hn : n <= openF c).
  { destruct Hor as [Hor|Hor]; [|lia]. subst n. apply openF_ge. }
  assert (E' : fst (run c evs1) = conn_state c n p) by (unfold run; rewrite (init_conn_state c HT); exact E).
  destruct (open_timeout_fires c n p t Hn Ht) as (S1 & S2 & S3 & S4 & S5 & S6 & S7 & S8 & S9). unfold step in *.
  rewrite run_split. rewrite E'. rewrite S7.
  generalize dependent (fst (handle c (ETick t) (conn_state c n p))). intros s1 S1 S2 S3 S4 S5 S6 S8 S9.
  generalize (snd (run c evs1)). intros log1.
  split; [|split].
  - destruct (run_from_log_prefix c evs2 s1 (log1 ++ [(openF c, IsClosed); (openF c, Abort)])) as [o Ho].
    rewrite Ho. apply in_or_app. left. apply in_or_app. right. simpl. auto.
  - pose proof (forward_only_run c evs2 s1 (log1 ++ [(openF c, IsClosed); (openF c, Abort)])) as Hf.
    rewrite S1 in Hf. simpl in Hf. destruct (st (fst (run_from c s1 _ evs2))); simpl in Hf; try lia. reflexivity.
  - apply (presL_run_from I_flagO c (step_flagO c) evs2 s1 _ S2).
Qed.

(* ... and how an unclean close caused by our own drop is reported once connectionLost is delivered *)
Lemma same_core_trans : forall a b c, same_core a b -> same_core b c -> same_core a c.
Proof.
  unfold same_core. intros a b c H1 H2.
  destruct H1 as (A1&A2&A3&A4&A5&A6&A7&A8&A9&A10&A11&A12&A13&A14&A15&A16&A17&A18&A19).
  destruct H2 as (B1&B2&B3&B4&B5&B6&B7&B8&B9&B10&B11&B12&B13&B14&B15&B16&B17&B18&B19).
  repeat split; congruence.
Qed.
Lemma same_core_refl : forall a, same_core a a.
Proof. unfold same_core. intros. repeat split. Qed.

Lemma conn_lost_report_unclean : forall c s, st s = CLOSED -> wasClean s = false -> droppedByMe s = true ->
  snd (conn_lost c s) = [(now s, CbClose false (Some code_abnormal_close) None (ncr s))].
Proof.
  intros c s H1 H2 H3. unfold conn_lost.
  assert (Hp : forall m s0, (same_core s0 (fst (m s0)) /\ snd (m s0) = []) ->
               forall r, snd ((m ;; r) s0) = snd (r (fst (m s0)))).
  { intros m s0 [_ Ho] r. rewrite snd_seq, Ho. reflexivity. }
  set (m1 := if is_server c then ret else cancel_slot TServerDrop).
  assert (C1 : same_core s (fst (m1 s)) /\ snd (m1 s) = []).
  { subst m1. destruct (is_server c); [split; [apply same_core_refl|reflexivity] | apply cancel_slot_core]. }
  rewrite (Hp m1 s C1). set (s1 := fst (m1 s)) in *.
  pose proof (cancel_slot_core TAutoPing s1) as C2. rewrite (Hp _ s1 C2). set (s2 := fst (cancel_slot TAutoPing s1)) in *.
  pose proof (cancel_slot_core TAutoPingTO s2) as C3. rewrite (Hp _ s2 C3). set (s3 := fst (cancel_slot TAutoPingTO s2)) in *.
  pose proof (cancel_slot_core TOpenHS s3) as C4. rewrite (Hp _ s3 C4). set (s4 := fst (cancel_slot TOpenHS s3)) in *.
  assert (C : same_core s s4).
  { eapply same_core_trans; [apply C1|]. eapply same_core_trans; [apply C2|]. eapply same_core_trans; [apply C3|apply C4]. }
  destruct C as (E1&E2&E3&E4&E5&E6&E7&E8&_).
  unfold seqM, ifS, in_state, bindS, emit_and, upd, ret.
  rewrite E1, H1. simpl. rewrite E7, H2. rewrite E6, H3. simpl. rewrite E2, E8. reflexivity.
Qed.

Lemma open_timeout_report : forall c n p t, n <= openF c -> openF c <= t ->
  snd (step c (fst (step c (conn_state c n p) (ETick t))) EOwnDrop) =
  [(N.max (openF c) t, CbClose false (Some code_abnormal_close) None ROpenTO)].
Proof.
  intros c n p t Hn Ht.
  destruct (open_timeout_fires c n p t Hn Ht) as (S1 & S2 & S3 & S4 & S5 & S6 & S7 & S8 & S9).
  set (s1 := fst (step c (conn_state c n p) (ETick t))) in *.
  unfold step at 1. unfold handle, ifS. rewrite S8, S5. simpl negb. simpl andb. cbv iota.
  rewrite (conn_lost_report_unclean c s1 S1 S4 S5). rewrite S3, S9. reflexivity.
Qed.

(* C17_responsive_open: the handshake completes while the timer has not fired: never an open-handshake timeout *)
Lemma responsive_open : forall c evs1 evs2,
  0 < openHandshakeTimeout c ->
  Forall no_open_reaction evs1 -> Forall (tick_before (openF c)) evs1 ->
  proxyPending (fst (run c evs1)) = false ->          (* no proxy, or the proxy has answered: the handshake can be read *)
  let r := run c (evs1 ++ EHandshake :: evs2) in
  wasOpenTO (fst r) = false /\ (1 <= rank (st (fst r)))%nat.
Proof.
  intros c evs1 evs2 HT H1 H2 Hp. cbv zeta.
  destruct (connecting_run c evs1 (t_start c) (negb (is_server c) && c_proxy c) (init_out c) H1 H2 (or_introl eq_refl)) as (n & p & E & Hle & Hor).
  assert (E' : fst (run c evs1) = conn_state c n p) by (unfold run; rewrite (init_conn_state c HT); exact E).
  rewrite E' in Hp. simpl in Hp. subst p.
  rewrite run_split. rewrite E'.
  assert (Hs : forall log1, I_opened (log1 ++ snd (handle c EHandshake (conn_state c n false))) (fst (handle c EHandshake (conn_state c n false)))).
  { intro log1. unfold I_opened. destruct (handshake_from_connecting c n) as [Ea Eb]. rewrite Ea, Eb. simpl. split; [lia|reflexivity]. }
  destruct (presL_run_from I_opened c (step_opened c) evs2 _ _ (Hs (snd (run c evs1)))) as [Ha Hb]. auto.
Qed.

(* ================================================================================================ *)
(* C17_dead_after_close, full strength: in CLOSED a Tick neither produces output nor touches anything that
   onClose will report *)
Definition I_rep (w : bool) (r : nreason) (rc : option N) (rr : option (list N)) (d g : bool)
  (log : list out) (s : cstate) : Prop :=
  st s = CLOSED /\ log = [] /\ wasClean s = w /\ ncr s = r /\ remoteCode s = rc /\ remoteReason s = rr
  /\ droppedByMe s = d /\ gone s = g.
Lemma I_rep_core : forall w r rc rr d g, core_only (I_rep w r rc rr d g).
Proof.
  unfold core_only, I_rep, same_core. intros w r rc rr d g log s s' H.
  destruct H as (E1&E2&E3&E4&E5&E6&E7&E8&E9&E10&E11&E12&_). rewrite E1, E3, E6, E7, E8, E11, E12. auto.
Qed.
Ltac absurd_rep := intros log s HG HI; unfold I_rep in *; guard_facts; simpl in *; try congruence; try discriminate.
Ltac leaf_rep := intros log s HG HI; unfold I_rep in *; guard_facts; simpl in *;
  try solve [ intuition (try discriminate; try congruence) ].
Lemma on_timer_rep : forall w r rc rr d g c k, presL (I_rep w r rc rr d g) (on_timer c k).
Proof.
  intros w r rc rr d g c k. pose proof (I_rep_core w r rc rr d g) as Hcore.
  destruct k; unfold on_timer; pres_go3 leaf_rep fail absurd_rep.
Qed.
Lemma tick_inert : forall c s t, st s = CLOSED ->
  let s' := fst (step c s (ETick t)) in
  snd (step c s (ETick t)) = [] /\ st s' = CLOSED /\ wasClean s' = wasClean s /\ ncr s' = ncr s
  /\ remoteCode s' = remoteCode s /\ remoteReason s' = remoteReason s /\ droppedByMe s' = droppedByMe s /\ gone s' = gone s.
Proof.
  intros c s t H. cbv zeta.
  assert (P : presL (I_rep (wasClean s) (ncr s) (remoteCode s) (remoteReason s) (droppedByMe s) (gone s)) (tick c t)).
  { apply presL_tick; [intro; apply on_timer_rep | unfold time_insensitive, I_rep; intros; simpl; assumption]. }
  specialize (P [] s). unfold I_rep in P. simpl in P.
  destruct P as (P1&P2&P3&P4&P5&P6&P7&P8); [repeat split; auto|].
  unfold step, handle. repeat split; auto.
Qed.
