(* Lemmas about the connection model, part 3: the clean-close report (C05_clean_iff_both). *)
From Coq Require Import NArith List Bool Lia Arith.
From AV Require Import Gen.WsConnConsts Model.WsConn Proofs.WsConnProofs Proofs.WsConnProofs2.
Import ListNotations.
Open Scope N_scope.

(* ---------- K1: wasClean is only ever true once a close frame has been written ---------- *)
Definition I_k1 (log : list out) (s : cstate) : Prop :=
  I_cf log s /\ (wasClean s = true -> close_in log = true).

Lemma I_k1_core : core_only I_k1.
Proof.
  unfold core_only, I_k1. intros log s s' H [H1 H2]. split; [eapply I_cf_core; eauto|].
  destruct H as (E1 & _ & _ & _ & _ & _ & E7 & _). rewrite E7. exact H2.
Qed.

Ltac leaf_k1 :=
  intros log s HG HI; unfold I_k1, I_cf in *; guard_facts; simpl in *;
  rewrite ?wc_app, ?close_in_app; unfold is_frame, is_closef; simpl;
  repeat match goal with H : st ?s = _ |- _ => rewrite H in * end; simpl in *;
  destruct (close_in log) eqn:?; simpl in *; rewrite ?andb_true_r, ?orb_false_r, ?orb_true_r;
  try solve [ intuition (try discriminate; try congruence; try lia)
            | match goal with |- context[st ?x] => destruct (st x) eqn:? end; simpl in *;
              intuition (try discriminate; try congruence; try lia) ].

(* the state-dispatch part of onCloseFrame sets wasClean = True before the reply is written: a block *)
Lemma dispatch_cf : forall c, presL I_cf (on_close_dispatch c).
Proof. intros c. pose proof I_cf_core as Hcore. pres_go leaf_cf fail. Qed.

Lemma close_in_mono : forall log o, close_in log = true -> close_in (log ++ o) = true.
Proof. intros. rewrite close_in_app, H. reflexivity. Qed.

Lemma snd_seq : forall a b s, snd ((a ;; b) s) = snd (a s) ++ snd (b (fst (a s))).
Proof. intros. unfold seqM. destruct (a s) as [s1 o1]. simpl. destruct (b s1). reflexivity. Qed.
Lemma fst_seq : forall a b s, fst ((a ;; b) s) = fst (b (fst (a s))).
Proof. intros. unfold seqM. destruct (a s) as [s1 o1]. simpl. destruct (b s1). reflexivity. Qed.

Lemma send_close_frame_open_emits : forall c o code reason isReply s, st s = OPEN ->
  close_in (snd (send_close_frame c o code reason isReply s)) = true.
Proof.
  intros. unfold send_close_frame, bindS. rewrite H. rewrite snd_seq. unfold emit_and. simpl. reflexivity.
Qed.

Lemma dispatch_k1 : forall c, presL I_k1 (on_close_dispatch c).
Proof.
  intros c log s [Hcf Hk]. split; [apply dispatch_cf; exact Hcf|].
  unfold on_close_dispatch, bindS. destruct (st s) eqn:E.
  - unfold ret. simpl. rewrite app_nil_r. exact Hk.
  - intros _. rewrite close_in_app. apply orb_true_iff. right.
    rewrite snd_seq. unfold upd at 1. simpl. rewrite snd_seq, close_in_app.
    assert (Hs : st (set_wasClean true s) = OPEN) by (simpl; exact E).
    destruct (echoCloseCodeReason c).
    + unfold bindS. rewrite (send_close_frame_open_emits c _ _ _ _ _ Hs). reflexivity.
    + rewrite (send_close_frame_open_emits c _ _ _ _ _ Hs). reflexivity.
  - intros _. apply close_in_mono. destruct Hcf as (_ & _ & H3). apply H3. exact E.
  - unfold upd. simpl. discriminate.
Qed.

Ltac blocks_k1 := idtac;
  match goal with
  | |- presG _ _ (on_close_dispatch _) => apply presG_weaken; apply dispatch_k1
  end.

Lemma on_timer_k1 : forall c k, presL I_k1 (on_timer c k).
Proof.
  intros c k. pose proof I_k1_core as Hcore.
  destruct k; unfold on_timer; pres_go leaf_k1 fail.
Qed.

Lemma step_k1 : forall c e, presL I_k1 (handle c e).
Proof.
  intros c e. pose proof I_k1_core as Hcore.
  destruct e; unfold handle;
    try (apply presL_tick; [apply on_timer_k1 | unfold time_insensitive, I_k1, I_cf; intros; simpl; assumption]);
    pres_go leaf_k1 blocks_k1.
Qed.

(* ---------- K: the clean report ---------- *)
Definition matches (pc : peer_close) (s : cstate) : Prop :=
  match pc with
  | PC body => remoteCode s = exp_code body /\ remoteReason s = exp_reason body
  | PC1 => remoteCode s = None /\ remoteReason s = None
  end.
Definition K2 (s : cstate) : Prop := wasClean s = true -> exists pc, lastPeerClose s = Some pc /\ matches pc s.
Definition K3 (log : list out) (s : cstate) : Prop :=
  forall t c r k, In (t, CbClose true c r k) log ->
    gone s = true /\ close_in log = true /\
    exists pc, lastPeerClose s = Some pc /\ matches pc s /\ c = remoteCode s /\ r = remoteReason s.
Definition I_k (log : list out) (s : cstate) : Prop := I_gone log s /\ I_k1 log s /\ K2 s /\ K3 log s.

Lemma I_k_core : core_only I_k.
Proof.
  unfold core_only, I_k. intros log s s' H (H1 & H2 & H3 & H4).
  split; [eapply I_gone_core; eauto|]. split; [eapply I_k1_core; eauto|].
  destruct H as (E1 & E2 & E3 & E4 & E5 & E6 & E7 & E8 & E9 & E10 & E11 & E12 & E13 & E14 & E15 & E16 & E17 & E18 & E19).
  unfold K2, K3, matches in *. rewrite E7, E19, E11, E12, E3. auto.
Qed.

Lemma in_snoc : forall {A} (x y : A) l, In x (l ++ [y]) -> In x l \/ x = y.
Proof. intros A x y l H. apply in_app_or in H. destruct H as [H|[H|[]]]; auto. Qed.

Ltac k23 :=
  unfold K2, K3, matches in *; simpl in *;
  try solve [ split; [ intros; try discriminate; auto
                     | intros t c0 r0 k0 Hin; try (apply in_snoc in Hin; destruct Hin as [Hin|Hin]; [|try discriminate Hin]);
                       try (match goal with H : forall t c r k, In _ _ -> _ |- _ => destruct (H _ _ _ _ Hin) as (? & ? & ?) end;
                            rewrite ?close_in_app; repeat split; auto; try (apply orb_true_iff; left; assumption)) ] ].

Ltac leaf_k :=
  intros log s HG HI; destruct HI as (Hg & Hk1 & Hk2 & Hk3);
  split; [ clear Hk1 Hk2 Hk3; revert log s HG Hg; leaf_gone
         | split; [ clear Hg Hk2 Hk3; revert log s HG Hk1; leaf_k1 | guard_facts; k23 ] ].

Lemma on_timer_k : forall c k, presL I_k (on_timer c k).
Proof.
  intros c k. pose proof I_k_core as Hcore.
  destruct k; unfold on_timer; pres_go leaf_k fail.
Qed.

Lemma cbcount0_notin : forall l t w c r k, cbcount l = 0%nat -> ~ In (t, CbClose w c r k) l.
Proof.
  induction l as [|x l IH]; intros t w c r k H Hin; [exact Hin|].
  unfold cbcount in H. simpl in H. destruct Hin as [E|Hin].
  - subst x. simpl in H. discriminate.
  - destruct (is_cbclose x); [discriminate|]. eapply IH; eauto.
Qed.

Definition I_gonev (v : bool) (log : list out) (s : cstate) : Prop := gone s = v.
Lemma I_gonev_core : forall v, core_only (I_gonev v).
Proof. unfold core_only, I_gonev, same_core. intros v log s s' H. destruct H as (_ & _ & H3 & _). rewrite H3. auto. Qed.
Ltac leaf_gonev := intros log s HG HI; unfold I_gonev in *; guard_facts; simpl in *; auto.
Lemma ocf_gonev : forall v c body txt, presL (I_gonev v) (on_close_frame c body txt).
Proof. intros. pose proof (I_gonev_core v) as Hcore. pres_go leaf_gonev fail. Qed.

Lemma ocf_blk_gone : forall c pc body txt,
  presL I_gone (upd (set_lastPeerClose (Some pc)) ;; on_close_frame c body txt).
Proof. intros. pose proof I_gone_core as Hcore. pres_go leaf_gone blocks_gone. Qed.
Lemma ocf_blk_k1 : forall c pc body txt,
  presL I_k1 (upd (set_lastPeerClose (Some pc)) ;; on_close_frame c body txt).
Proof. intros. pose proof I_k1_core as Hcore. pres_go leaf_k1 blocks_k1. Qed.

(* the block "record the frame; onCloseFrame(...)" *)
Lemma ocf_block_k : forall c pc body txt,
  (pc = PC body \/ (pc = PC1 /\ body = None)) ->
  presG (fun s => in_state CLOSED s = false) I_k (upd (set_lastPeerClose (Some pc)) ;; on_close_frame c body txt).
Proof.
  intros c pc body txt Hpc log s HG (Hg & Hk1 & Hk2 & Hk3).
  apply in_state_false in HG.
  assert (Hgone : gone s = false).
  { destruct (gone s) eqn:E; [|reflexivity]. destruct Hg as [_ Hg]. rewrite E in Hg. destruct (Hg eq_refl). congruence. }
  pose proof (ocf_blk_gone c pc body txt log s Hg) as Pg. pose proof (ocf_blk_k1 c pc body txt log s Hk1) as Pk.
  split; [exact Pg|]. split; [exact Pk|].
  rewrite fst_seq, snd_seq in *. unfold upd at 1 3 in Pg. unfold upd at 1 3. simpl fst in *. simpl snd in *.
  set (s0 := set_lastPeerClose (Some pc) s) in *.
  destruct (ocf_fields c body txt s0) as (Hl & Hf1 & Hf2).
  assert (Hg' : gone (fst (on_close_frame c body txt s0)) = false).
  { apply (ocf_gonev false c body txt [] s0). unfold I_gonev. subst s0. simpl. exact Hgone. }
  split.
  - unfold K2. intro Hw. exists pc. split.
    + rewrite Hl. subst s0. reflexivity.
    + destruct Hpc as [Hpc|[Hpc Hb]]; subst pc; unfold matches; [auto|].
      subst body. simpl in *. auto.
  - unfold K3. intros t c0 r0 k0 Hin. exfalso.
    destruct Pg as [Pg _]. specialize (Pg Hg'). simpl in Hin. eapply cbcount0_notin; eauto.
Qed.

(* _connectionLost for the clean report *)
Definition J_k (log : list out) (s : cstate) : Prop :=
  gone s = false /\ cbcount log = 0%nat /\ I_k1 log s /\ K2 s.
Lemma J_k_core : core_only J_k.
Proof.
  unfold core_only, J_k. intros log s s' H (H1 & H2 & H3 & H4).
  pose proof (I_k1_core log s s' H H3) as H3'.
  destruct H as (E1 & E2 & E3 & E4 & E5 & E6 & E7 & E8 & E9 & E10 & E11 & E12 & E13 & E14 & E15 & E16 & E17 & E18 & E19).
  unfold K2, matches in *. rewrite E3, E7, E19, E11, E12. auto.
Qed.
Ltac leaf_jk :=
  intros log s HG HI; destruct HI as (Hg & Hc & Hk1 & Hk2);
  split; [ guard_facts; simpl in *; auto
         | split; [ rewrite ?cbcount_app, ?cbcount_single; unfold is_cbclose; simpl; rewrite ?Nat.add_0_r; auto
                  | split; [ clear Hg Hc Hk2; revert log s HG Hk1; leaf_k1 | guard_facts; unfold K2, matches in *; simpl in *; auto ] ] ].

Lemma hoare_pre : forall (P P' Q : list out -> cstate -> Prop) m,
  (forall log s, P log s -> P' log s) -> hoare P' m Q -> hoare P m Q.
Proof. unfold hoare. auto. Qed.

Definition lost_final : M :=
  ifS wasClean
      (bindS (fun s => emit_and (CbClose true (remoteCode s) (remoteReason s) RNone) (set_gone true)))
      (ifS (fun s => negb (droppedByMe s) && match ncr s with RNone => true | _ => false end)
           (upd (set_ncr RPeerDropped)) ret ;;
       bindS (fun s => emit_and (CbClose false (Some code_abnormal_close) None (ncr s)) (set_gone true))).
Definition lost_closed : M := ifS (in_state CLOSED) ret (upd (set_st CLOSED) ;; say IsClosed).

Lemma lost_final_k1 : presL I_k1 lost_final.
Proof. pose proof I_k1_core as Hcore. unfold lost_final. pres_go leaf_k1 fail. Qed.
Lemma lost_closed_jk : presL J_k lost_closed.
Proof. pose proof J_k_core as Hcore. unfold lost_closed. pres_go leaf_jk fail. Qed.
Lemma lost_closed_st : forall s, st (fst (lost_closed s)) = CLOSED.
Proof.
  intros s. unfold lost_closed, ifS, ret, seqM, upd, say. destruct (in_state CLOSED s) eqn:E; simpl.
  - apply in_state_true. exact E.
  - reflexivity.
Qed.

Lemma lost_final_k : hoare (fun log s => J_k log s /\ st s = CLOSED) lost_final I_k.
Proof.
  intros log s [(Hg & Hc0 & Hk1 & Hk2) Hst].
  pose proof (lost_final_k1 log s Hk1) as Pk1.
  unfold I_k. split; [|split; [exact Pk1|]].
  - (* I_gone *)
    unfold lost_final, ifS, bindS, emit_and, seqM, upd, ret, I_gone.
    destruct (wasClean s); simpl.
    + rewrite cbcount_app, cbcount_single. simpl. rewrite Hc0. split; [discriminate|auto].
    + destruct (negb (droppedByMe s) && _); simpl; rewrite cbcount_app, cbcount_single; simpl; rewrite Hc0;
        (split; [discriminate|auto]).
  - unfold lost_final, ifS, bindS, emit_and, seqM, upd, ret.
    destruct (wasClean s) eqn:Ew; simpl.
    + split.
      * unfold K2 in *. simpl. exact Hk2.
      * unfold K3. intros t c0 r0 k0 Hin. apply in_snoc in Hin. destruct Hin as [Hin|Hin].
        { exfalso. eapply cbcount0_notin; eauto. }
        inversion Hin; subst. simpl. split; [reflexivity|]. split.
        { apply close_in_mono. destruct Hk1 as [_ Hk]. apply Hk. exact Ew. }
        destruct (Hk2 Ew) as (pc & Hl & Hm). exists pc. unfold matches in *. simpl. auto.
    + destruct (negb (droppedByMe s) && _); simpl.
      * split; [unfold K2; simpl; rewrite Ew; discriminate|].
        unfold K3. intros t c0 r0 k0 Hin. apply in_snoc in Hin. destruct Hin as [Hin|Hin].
        { exfalso. eapply cbcount0_notin; eauto. } discriminate Hin.
      * split; [unfold K2; simpl; rewrite Ew; discriminate|].
        unfold K3. intros t c0 r0 k0 Hin. apply in_snoc in Hin. destruct Hin as [Hin|Hin].
        { exfalso. eapply cbcount0_notin; eauto. } discriminate Hin.
Qed.

Lemma conn_lost_k : forall c, presG (fun s => gone s = false) I_k (conn_lost c).
Proof.
  intros c. apply presG_of_hoare. unfold conn_lost. fold lost_final. fold lost_closed.
  pose proof J_k_core as Hcore.
  assert (Hc : forall k, hoare J_k (cancel_slot k) J_k)
    by (intro k; apply hoare_presL; apply presL_cancel_slot; assumption).
  apply hoare_pre with (P' := J_k).
  { intros log s [Hg (H1 & H2 & H3 & H4)]. unfold J_k. destruct H1 as [H1 _]. auto. }
  apply hoare_seq with (R := J_k).
  { destruct (is_server c); [apply hoare_presL, presL_ret | apply Hc]. }
  apply hoare_seq with (R := J_k); [apply Hc|].
  apply hoare_seq with (R := J_k); [apply Hc|].
  apply hoare_seq with (R := J_k); [apply Hc|].
  apply hoare_seq with (R := fun log s => J_k log s /\ st s = CLOSED); [|apply lost_final_k].
  intros log s H. split; [apply lost_closed_jk; exact H | apply lost_closed_st].
Qed.

Ltac blocks_k := idtac;
  match goal with
  | |- presG _ _ (upd (set_lastPeerClose (Some (PC ?b))) ;; on_close_frame _ ?b _) =>
      eapply presG_imp; [|apply ocf_block_k; left; reflexivity]; cbv beta; intros; guard_facts;
      match goal with H : st ?s <> CLOSED |- _ => unfold in_state; destruct (st s); simpl; congruence
                    | H : wstate_eqb _ _ || wstate_eqb _ _ = true |- in_state CLOSED ?s = false =>
                        unfold in_state; destruct (st s); simpl in *; congruence end
  | |- presG _ _ (upd (set_lastPeerClose (Some PC1)) ;; on_close_frame _ None _) =>
      eapply presG_imp; [|apply ocf_block_k; right; split; reflexivity]; cbv beta; intros; guard_facts;
      match goal with H : st ?s <> CLOSED |- _ => unfold in_state; destruct (st s); simpl; congruence end
  | |- presG _ _ (conn_lost _) => eapply presG_imp; [|apply conn_lost_k]; cbv beta; intros; guard_facts; auto
  end.

Lemma step_k : forall c e, presL I_k (handle c e).
Proof.
  intros c e. pose proof I_k_core as Hcore.
  destruct e; unfold handle;
    try (apply presL_tick; [apply on_timer_k | unfold time_insensitive, I_k, I_gone, I_k1, I_cf, K2, K3, matches; intros; simpl; assumption]);
    pres_go leaf_k blocks_k.
Qed.

(* ---------- run level ---------- *)
Lemma k_run : forall c evs, I_k (snd (run c evs)) (fst (run c evs)).
Proof.
  intros c evs. apply presL_run; [|apply step_k].
  apply (I_k_core (init_out c) (init0 c) (init c) (init_core c)).
  destruct (init_out_props c) as (H1 & H2 & H3 & H4).
  unfold I_k, I_gone, I_k1, I_cf, K2, K3. simpl. rewrite H1, H2, H3.
  repeat split; auto; try discriminate.
  all: exfalso; eapply cbcount0_notin; eauto.
Qed.

(* what onClose(wasClean=True, code, reason) reports, relative to the last close frame that reached onCloseFrame *)
Definition reported (pc : peer_close) (code : option N) (reason : option (list N)) : Prop :=
  match pc with
  | PC body => code = exp_code body /\ reason = exp_reason body
  | PC1 => code = None /\ reason = None
  end.

Lemma clean_report : forall c evs t code reason k,
  In (t, CbClose true code reason k) (snd (run c evs)) ->
  close_in (snd (run c evs)) = true /\
  exists pc, lastPeerClose (fst (run c evs)) = Some pc /\ reported pc code reason.
Proof.
  intros c evs t code reason k Hin. destruct (k_run c evs) as (_ & _ & _ & H3).
  destruct (H3 _ _ _ _ Hin) as (_ & Hc & pc & Hl & Hm & E1 & E2).
  split; [exact Hc|]. exists pc. split; [exact Hl|]. subst. destruct pc; unfold matches in Hm; simpl; auto.
Qed.

(* for a well-formed peer close frame the report is exactly what the peer sent *)
Definition body_valid (body : option (N * option (list N))) : Prop :=
  match body with
  | None => True
  | Some (cd, r) => close_code_invalid cd = false /\ match r with Some x => wf_utf8 x = true | None => True end
  end.
Lemma exp_valid : forall body, body_valid body -> exp_code body = body_code body /\ exp_reason body = body_reason body.
Proof.
  intros [[cd [r|]]|]; simpl; intros H; auto.
  - destruct H as [H1 H2]. rewrite H1, H2. auto.
  - destruct H as [H1 _]. rewrite H1. auto.
Qed.

(* a connection without pending reactor calls is not changed by the clock (except for the clock itself) *)
Lemma tick_no_timers : forall c t s, timers s = [] ->
  st (fst (step c s (ETick t))) = st s /\ timers (fst (step c s (ETick t))) = [].
Proof.
  intros c t s H. unfold step, handle, tick, bindS, seqM. rewrite H. simpl. unfold ret, upd. simpl. auto.
Qed.

