(* Lemmas about Model/WsRecv.v: failure policy, event/flag tracking ("nothing after a violation"), control frames. *)
From Coq Require Import NArith List Bool Lia.
From AV Require Import Model.Masker Gen.WsConsts Model.WsRecv.
Import ListNotations.
Open Scope N_scope.

(* ------------------------------------------------------------------------------------------------ *)
(* failure policy *)
Lemma fail_connection_closed cf c code : st c = CLOSED -> fail_connection cf c code = (c, []).
Proof. intros H. unfold fail_connection. now rewrite H. Qed.

Lemma fail_connection_drop cf c code : failByDrop cf = true -> st c <> CLOSED ->
  fail_connection cf c code = (mkC CLOSED true false (rcode c) (rreason c), [EFail code; EDrop true]).
Proof.
  intros Hf Hs. unfold fail_connection. rewrite Hf.
  destruct c as [s f cl rc rr]; cbn in *. destruct s; try congruence; reflexivity.
Qed.

Lemma fail_connection_close_open cf c code : failByDrop cf = false -> st c = OPEN ->
  fail_connection cf c code =
    (mkC CLOSING true (clean c) (rcode c) (rreason c), [EFail code; ESendClose (Some code) RText]).
Proof.
  intros Hf Hs. unfold fail_connection. rewrite Hf.
  destruct c as [s f cl rc rr]; cbn in *. subst s. reflexivity.
Qed.

Lemma fail_connection_close_closing cf c code : failByDrop cf = false -> st c = CLOSING ->
  fail_connection cf c code = (mkC CLOSED true (clean c) (rcode c) (rreason c), [EFail code; EDrop false]).
Proof.
  intros Hf Hs. unfold fail_connection. rewrite Hf.
  destruct c as [s f cl rc rr]; cbn in *. subst s. reflexivity.
Qed.

(* ------------------------------------------------------------------------------------------------ *)
(* tracking: the ghost event EFail is emitted exactly when failedByMe becomes true, and no EMsg is emitted while
   failedByMe is set *)
Definition is_fail (e : event) : bool := match e with EFail _ => true | _ => false end.
Definition has_fail (evs : list event) : bool := existsb is_fail evs.
Fixpoint tr_ok (f : bool) (evs : list event) : bool :=
  match evs with
  | [] => true
  | EMsg _ _ :: r => negb f && tr_ok f r
  | EFail _ :: r => tr_ok true r
  | _ :: r => tr_ok f r
  end.

Lemma has_fail_app a b : has_fail (a ++ b) = has_fail a || has_fail b.
Proof. unfold has_fail. apply existsb_app. Qed.

Lemma tr_ok_app f a b : tr_ok f (a ++ b) = tr_ok f a && tr_ok (f || has_fail a) b.
Proof.
  revert f; induction a as [|e a IH]; intros f; cbn [app tr_ok has_fail existsb].
  - now rewrite orb_false_r.
  - destruct e; cbn [is_fail orb]; rewrite ?IH; fold (has_fail a);
      try reflexivity.
    + now rewrite andb_assoc.
    + now rewrite orb_true_r.
Qed.

Lemma tr_ok_true_no_msg evs : tr_ok true evs = true -> forall p b, ~ In (EMsg p b) evs.
Proof.
  induction evs as [|e r IH]; intros H p b Hin; [destruct Hin|].
  destruct Hin as [He|Hr].
  - subst e. cbn in H. discriminate.
  - destruct e; cbn [tr_ok negb andb] in H; try discriminate; eapply IH; eauto.
Qed.

Lemma tr_ok_mono f evs : tr_ok true evs = true -> tr_ok f evs = true.
Proof.
  revert f; induction evs as [|e r IH]; intros f H; [reflexivity|].
  destruct e; cbn [tr_ok] in *; try discriminate; auto.
Qed.

(* the relation a conn-transforming step must satisfy *)
Definition track (c : conn) (evs : list event) (c' : conn) : Prop :=
  failed c' = failed c || has_fail evs /\ tr_ok (failed c) evs = true.

Lemma track_refl c : track c [] c.
Proof. split; cbn; [now rewrite orb_false_r|reflexivity]. Qed.

Lemma track_trans c e1 c1 e2 c2 : track c e1 c1 -> track c1 e2 c2 -> track c (e1 ++ e2) c2.
Proof.
  intros [H1 T1] [H2 T2]. split.
  - rewrite H2, H1, has_fail_app, orb_assoc. reflexivity.
  - rewrite tr_ok_app, T1, <- H1, T2. reflexivity.
Qed.

Lemma track_same_failed c c0 evs c' : failed c0 = failed c -> track c0 evs c' -> track c evs c'.
Proof. intros E [H T]. split; now rewrite <- E. Qed.

Lemma track_same_failed_r c evs c' c1 : failed c1 = failed c' -> track c evs c' -> track c evs c1.
Proof. intros E [H T]. split; [now rewrite E|exact T]. Qed.

Ltac tb := first [reflexivity | now rewrite orb_false_r | now rewrite orb_true_r].

Lemma drop_connection_track c ab : track c (snd (drop_connection c ab)) (fst (drop_connection c ab)).
Proof. unfold drop_connection. destruct (st c); cbn; split; cbn; tb. Qed.

Lemma send_close_frame_track c code r : track c (snd (send_close_frame c code r)) (fst (send_close_frame c code r)).
Proof. unfold send_close_frame. destruct (st c); cbn; split; cbn; tb. Qed.

Lemma fail_connection_track cf c code : track c (snd (fail_connection cf c code)) (fst (fail_connection cf c code)).
Proof.
  unfold fail_connection, drop_connection, send_close_frame.
  destruct c as [s f cl rc rr]; cbn.
  destruct s, (failByDrop cf); cbn; split; cbn; tb.
Qed.

Lemma pv_track cf c : let '(c1, e, _) := protocol_violation cf c in track c e c1.
Proof.
  unfold protocol_violation. pose proof (fail_connection_track cf c code_protocol_error) as H.
  destruct (fail_connection cf c code_protocol_error) as [c1 e]. exact H.
Qed.
Lemma ip_track cf c : let '(c1, e, _) := invalid_payload cf c in track c e c1.
Proof.
  unfold invalid_payload. pose proof (fail_connection_track cf c code_invalid_payload) as H.
  destruct (fail_connection cf c code_invalid_payload) as [c1 e]. exact H.
Qed.
Lemma mse_track cf c : let '(c1, e) := max_size_exceeded cf c in track c e c1.
Proof.
  unfold max_size_exceeded. pose proof (fail_connection_track cf c code_message_too_big) as H.
  destruct (fail_connection cf c code_message_too_big) as [c1 e]. exact H.
Qed.

Lemma pv_all_track cf vs : forall c, let '(c1, e, _) := pv_all cf c vs in track c e c1.
Proof.
  induction vs as [|v r IH]; intros c; cbn [pv_all]; [apply track_refl|].
  pose proof (pv_track cf c) as H1. destruct (protocol_violation cf c) as [[c1 e1] stop].
  destruct stop; [exact H1|].
  specialize (IH c1). destruct (pv_all cf c1 r) as [[c2 e2] stop2].
  eapply track_trans; eauto.
Qed.

Lemma on_close_frame_track cf c code reason :
  track c (snd (on_close_frame cf c code reason)) (fst (on_close_frame cf c code reason)).
Proof.
  unfold on_close_frame, protocol_violation, invalid_payload, fail_connection, drop_connection, send_close_frame.
  destruct c as [s f cl rc rr].
  destruct code as [k|]; [destruct (close_code_invalid k)|];
  (destruct reason as [r|]; [destruct (u_validate 0 r) as [[v e] u]; destruct v, e|]);
  destruct s, (failByDrop cf), (isServer cf), (echoClose cf); cbn; split; cbn; tb.
Qed.

Section WithCodec.
Variable D : Type.
Variable cd : codec D.
Notation rstate := (rstate D).
Notation mstate := (mstate D).

Lemma on_message_frame_begin_track cf c (m : mstate) len :
  let '(c1, _, e) := on_message_frame_begin D cf c m len in track c e c1.
Proof.
  unfold on_message_frame_begin.
  destruct (failed c); [apply track_refl|].
  destruct (mf_msg_limit _ _).
  - pose proof (mse_track cf c) as H. destruct (max_size_exceeded cf c). exact H.
  - destruct (mf_frame_limit _ _).
    + pose proof (mse_track cf c) as H. destruct (max_size_exceeded cf c). exact H.
    + apply track_refl.
Qed.

Lemma on_frame_begin_track cf (s : rstate) f :
  let '(s1, e) := on_frame_begin D cd cf s f in track (cn D s) e (cn D s1).
Proof.
  unfold on_frame_begin. destruct (fb_is_ctl (f_op f)); [apply track_refl|].
  destruct (failed (cn D s)) eqn:Hf0; [apply track_refl|].
  match goal with |- context [on_message_frame_begin D cf ?c ?m ?l] =>
    pose proof (on_message_frame_begin_track cf c m l) as H; destruct (on_message_frame_begin D cf c m l) as [[c1 m2] e] end.
  exact H.
Qed.

Lemma on_frame_data_track cf (s : rstate) f payload :
  let '(s1, e, _) := on_frame_data D cd cf s f payload in track (cn D s) e (cn D s1).
Proof.
  unfold on_frame_data. destruct (fd_is_ctl (f_op f)); [apply track_refl|].
  destruct (if zon D (ms D s) then _ else _) as [d1 pl].
  destruct (uon D _); [|apply track_refl].
  destruct (u_validate _ pl) as [[v e] u1]. destruct v; cbn [negb]; [apply track_refl|].
  pose proof (ip_track cf (cn D s)) as H. destruct (invalid_payload cf (cn D s)) as [[c1 ev] stop].
  destruct stop; exact H.
Qed.

Lemma process_control_frame_track cf (s : rstate) f :
  let '(s1, e, _) := process_control_frame D cf s f in track (cn D s) e (cn D s1).
Proof.
  unfold process_control_frame.
  destruct (pc_is_close (f_op f)).
  - match goal with |- context [on_close_frame cf ?c ?k ?r] =>
      pose proof (on_close_frame_track cf c k r) as H; destruct (on_close_frame cf c k r) as [c1 e1] end.
    exact H.
  - destruct (pc_is_ping (f_op f)).
    + cbn [cn r_cdata]. destruct (st (cn D s)); [destruct (_ && _)|..]; split; cbn; tb.
    + destruct (pc_is_pong (f_op f)); split; cbn; tb.
Qed.

Lemma on_frame_end_track cf (s : rstate) f :
  let '(s1, e, _) := on_frame_end D cd cf s f in track (cn D s) e (cn D s1).
Proof.
  unfold on_frame_end. destruct (fe_is_ctl (f_op f)).
  - pose proof (process_control_frame_track cf s f) as H.
    destruct (process_control_frame D cf s f) as [[s1 e1] raised]. destruct raised; exact H.
  - destruct (f_fin f); [|apply track_refl].
    match goal with |- context [if ?b then invalid_payload cf ?c else _] => destruct b end.
    + pose proof (ip_track cf (cn D s)) as H. destruct (invalid_payload cf (cn D s)) as [[c1 e1] stop].
      destruct stop; [exact H|]. cbn [cn r_cur r_ms r_cn].
      destruct H as [H1 H2]. unfold track. cbn [failed].
      destruct (failed c1) eqn:Hf.
      * rewrite app_nil_r. split; [exact H1 | exact H2].
      * split.
        -- rewrite has_fail_app. cbn. rewrite orb_false_r. exact H1.
        -- rewrite tr_ok_app, H2. rewrite <- H1. cbn. reflexivity.
    + cbn [cn r_cur r_ms r_cn]. destruct (failed (cn D s)) eqn:Hf; split; cbn; rewrite ?Hf; tb.
Qed.

Lemma step_header_track cf (s : rstate) :
  let '(s1, e, _) := step_header D cd cf s in track (cn D s) e (cn D s1).
Proof.
  unfold step_header.
  destruct (negb (pd_have2 _)); [apply track_refl|].
  match goal with |- context [pv_all cf ?c ?vs] =>
    pose proof (pv_all_track cf vs c) as H1; destruct (pv_all cf c vs) as [[c1 e1] stop1] end.
  destruct stop1; [exact H1|].
  destruct (header_len _ _) as [hl|].
  2:{ cbn [cn r_cn]. eapply track_trans; [exact H1|]. split; cbn; tb. }
  destruct (negb (pd_have_header _ hl)); [exact H1|].
  destruct (ext_len _ _) as [[plen lv] i].
  pose proof (pv_all_track cf lv c1) as H2. cbn [cn r_cn]. destruct (pv_all cf c1 lv) as [[c2 e2] stop2].
  destruct stop2; [cbn [cn r_cn]; eapply track_trans; eauto|].
  match goal with |- context [on_frame_begin D cd cf ?s3 ?f] =>
    pose proof (on_frame_begin_track cf s3 f) as H3; destruct (on_frame_begin D cd cf s3 f) as [s4 e4] end.
  cbn [cn r_cn] in H3. eapply track_trans; [exact H1|]. eapply track_trans; [exact H2|exact H3].
Qed.

Lemma step_payload_track cf (s : rstate) f :
  let '(s1, e, _) := step_payload D cd cf s f in track (cn D s) e (cn D s1).
Proof.
  unfold step_payload.
  destruct (if pd_have_rest _ _ then _ else _) as [chunk rem].
  destruct (if pd_chunk_nonempty _ then _ else _) as [payload p1].
  match goal with |- context [on_frame_data D cd cf ?s1 f payload] =>
    pose proof (on_frame_data_track cf s1 f payload) as H2; destruct (on_frame_data D cd cf s1 f payload) as [[s2 e2] stop2] end.
  cbn [cn] in H2. destruct stop2; [exact H2|].
  destruct (mptr D s2 =? f_len f).
  - pose proof (on_frame_end_track cf s2 f) as H3. destruct (on_frame_end D cd cf s2 f) as [[s3 e3] c3].
    destruct c3; eapply track_trans; eauto.
  - exact H2.
Qed.

Lemma step_track cf (s : rstate) : let '(s1, e, _) := step D cd cf s in track (cn D s) e (cn D s1).
Proof. unfold step. destruct (cur D s); [apply step_payload_track|apply step_header_track]. Qed.

Lemma run_track cf n : forall (s s1 : rstate) e, run D cd n cf s = Done D s1 e -> track (cn D s) e (cn D s1).
Proof.
  induction n as [|n IH]; intros s s1 e H; cbn [run] in H; [discriminate|].
  pose proof (step_track cf s) as Hs. destruct (step D cd cf s) as [[s' e'] c].
  destruct c.
  - destruct (st (cn D s')).
    + destruct (run D cd n cf s') as [s2 e2|] eqn:Hr; [|discriminate]. inversion H; subst.
      eapply track_trans; eauto.
    + destruct (run D cd n cf s') as [s2 e2|] eqn:Hr; [|discriminate]. inversion H; subst.
      eapply track_trans; eauto.
    + inversion H; subst. exact Hs.
  - inversion H; subst. exact Hs.
  - inversion H; subst. exact Hs.
Qed.

Lemma feed_track cf (s s1 : rstate) d e : feed D cd cf s d = Done D s1 e -> track (cn D s) e (cn D s1).
Proof.
  unfold feed. cbn [cn r_data]. destruct (st (cn D s)); intros H.
  - apply run_track in H. exact H.
  - apply run_track in H. exact H.
  - inversion H; subst. apply track_refl.
Qed.

Lemma feed_all_track cf chunks : forall (s s1 : rstate) e,
  feed_all D cd cf s chunks = Done D s1 e -> track (cn D s) e (cn D s1).
Proof.
  induction chunks as [|c r IH]; intros s s1 e H; cbn [feed_all] in H.
  - inversion H; subst. apply track_refl.
  - destruct (feed D cd cf s c) as [s' e'|] eqn:Hf; [|discriminate].
    destruct (feed_all D cd cf s' r) as [s2 e2|] eqn:Hr; [|discriminate]. inversion H; subst.
    eapply track_trans; [eapply feed_track; eauto|eapply IH; eauto].
Qed.

(* C02_nothing_after: in the events of any sequence of reads, nothing after the first failure is a message *)
Theorem nothing_after_failure cf (s s1 : rstate) chunks evs :
  feed_all D cd cf s chunks = Done D s1 evs ->
  forall before k after, evs = before ++ EFail k :: after -> forall p b, ~ In (EMsg p b) after.
Proof.
  intros H before k after E. apply feed_all_track in H. destruct H as [_ T].
  subst evs. rewrite tr_ok_app in T. apply andb_true_iff in T. destruct T as [_ T].
  cbn [tr_ok] in T. apply tr_ok_true_no_msg. exact T.
Qed.

(* ... and once failedByMe is set (by an earlier read), no message is ever delivered again *)
Theorem no_message_once_failed cf (s s1 : rstate) chunks evs :
  failed (cn D s) = true -> feed_all D cd cf s chunks = Done D s1 evs ->
  failed (cn D s1) = true /\ forall p b, ~ In (EMsg p b) evs.
Proof.
  intros Hf H. apply feed_all_track in H. destruct H as [H T]. rewrite Hf in *. split; [exact H|].
  now apply tr_ok_true_no_msg.
Qed.

End WithCodec.
